"""C16 -- address types parse, print, compare and mask as the standards say.

Oracle: Python's `ipaddress` module (independent implementation), small reference
formatters written here for Ethernet / EUI-64 / dpids / classful inference, and
algebraic laws (round trip, ==/hash/order consistency, immutability).
"""
import ipaddress
import itertools
import struct

from hypothesis import strategies as st

from ..runner import Outcome, Enum, Hyp
from ..fuzz.driver import atheris_driver

ID = "C16"
LEVEL = "exploration"
TECHNIQUE = "property-based testing: exhaustive grids + Hypothesis, differential against ipaddress, round-trip and order laws"
LEVEL_TEXT = ("Exploration by generated-input search: exhaustive grids over the structured sub-spaces named in the property "
              "(per-octet IPv4, every prefix length, every IPv6 zero-group pattern, every Ethernet group shape) plus Hypothesis cases, "
              "each judged differentially against Python's ipaddress and by round-trip/order laws. Address code is pure and cheap, so "
              "tens of thousands of cases per second make dense sampling the right level; no proof of absence is claimed.")
LEVEL_NOTE = ("trusts Python's ipaddress as reference; IPv4 texts in the inet_aton-only zone are counted, not judged; zero-padded over-long "
              "groups (IPv6 '00001', Ethernet '00f', mixed-notation '010') may be rejected or read numerically, never otherwise")
RULE = ("cases are enumerated grids (per-octet IPv4, all 33/129 prefix lengths with boundary addresses, all 256 IPv6 "
        "zero-group patterns, all 64 one/two-digit Ethernet group shapes, boundary dpids) plus Hypothesis-drawn ones; a case is "
        "non-trivial when it uses a prefix length outside {0,32,128} with host bits present, or a textual/binary form other "
        "than the canonical text, or a malformed text, or octets of some length 0..17 in a binary form (binform), or a comparison "
        "of an address with a plain-data operand -- text, octets, number, sequence, None, object -- that the class's own constructor "
        "accepts or rejects (cmpdata; labels name the constructor's verdict and exception type); distinct by SHA-1 of the canonical "
        "JSON of the case")
ASSUMPTIONS = [
  "Python's ipaddress module is a correct reference for IPv4/IPv6 text, networks and netmasks",
  "texts that BSD inet_aton accepts but ipaddress rejects (e.g. '10.1', leading zeros) are an ambiguous zone: counted, not judged",
  "ordering is only required to be a total order consistent with == (the property does not say it is numeric order)",
  "IPv4-mapped IPv6 addresses print in mixed notation (RFC 5952 section 5), which POX documents as its default",
  "the inet_aton zone belongs to IPAddr only (it documents the delegation): the dotted part of IPv6 mixed notation is four decimal octets (RFC 4291 2.2; ipaddress and inet_pton agree), anything else must be rejected",
  "a group zero-padded beyond its width (IPv6 '00001', Ethernet '00f', a decimal octet '010' in mixed notation) has one numeric reading: rejecting it and reading it numerically are both accepted, any other value is a mis-parse",
  "== and != of an address with ANY operand return booleans (equality is total, as list/dict/set operations need); an operand the class's own constructor rejects is unequal to every address; ordering against it declines with TypeError or, if it answers, obeys the order laws",
  "an int outside 0..2^32-1 given to IPAddr wraps (documented handling of signed values); not judged",
]
EXHAUSTIVE_SCOPE = {
  "quick": "grids: IPv4 each octet 0..255 x 3 background patterns x all constructor forms; 33 IPv4 and 129 IPv6 prefix lengths x boundary addresses x all membership call styles; 256 IPv6 zero-group patterns x 3 fills; 64 Ethernet group shapes x separators; boundary dpids; 9 addresses x about 215 plain-data operands (every curated text of all three families, octets and sequences of length 0..17, numbers, None, object) for comparison; octets of length 0..8,12,15,16,17 x 5 fills x every binary form of the three classes; 8 hex parts x 44 dotted tails of IPv6 mixed notation; 11 over-long groups x 12 positions",
  "thorough": "as quick plus 64 structured IPv6 addresses x 129 prefixes, 12 backgrounds for the IPv4 octet grid",
}

_A = None


def setup():
  global _A
  if _A is None:
    import logging
    logging.disable(logging.CRITICAL)
    import pox.lib.addresses as A
    import pox.lib.util as U
    _A = (A, U)


def _mods():
  setup()
  return _A


# --------------------------------------------------------------------------- helpers

def _raises(f, *a, **kw):
  try:
    r = f(*a, **kw)
  except Exception as e:
    return True, e
  return False, r


def _order_laws(out, a, b, c, tname):
  """==, hash and the four order operators must be mutually consistent."""
  lt, gt, eq, ne, le, ge = a < b, a > b, a == b, a != b, a <= b, a >= b
  same = a.raw == b.raw
  if eq != same:
    out.fail("eq-vs-raw", "%s: %r == %r is %s but raw equality is %s" % (tname, a, b, eq, same), type=tname)
  if ne == eq:
    out.fail("ne-vs-eq", "%s: != and == agree for %r, %r" % (tname, a, b), type=tname)
  if same and hash(a) != hash(b):
    out.fail("hash", "%s: equal values hash differently: %r" % (tname, a), type=tname)
  if (lt, eq, gt).count(True) != 1:
    out.fail("trichotomy", "%s: %r vs %r: lt=%s eq=%s gt=%s" % (tname, a, b, lt, eq, gt), type=tname)
  if le != (lt or eq) or ge != (gt or eq):
    out.fail("le-ge", "%s: %r vs %r: le=%s ge=%s lt=%s gt=%s eq=%s" % (tname, a, b, le, ge, lt, gt, eq), type=tname)
  if lt != (b > a) or le != (b >= a):
    out.fail("order-duality", "%s: a<b differs from b>a for %r, %r" % (tname, a, b), type=tname)
  if a < b and b < c and not (a < c):
    out.fail("transitivity", "%s: %r < %r < %r but not a < c" % (tname, a, b, c), type=tname)
  if a <= b and b <= a and not eq:
    out.fail("antisymmetry", "%s: %r <= %r <= a but not equal" % (tname, a, b), type=tname)


def _immutable(out, x, tname):
  for attr, val in (("_value", x._value), ("foo", 1)):
    r, e = _raises(setattr, x, attr, val)
    if not r:
      out.fail("immutability", "%s: assigning attribute %s did not raise" % (tname, attr), type=tname, attr=attr)


# --------------------------------------------------------------------------- IPv4

def _ip4_forms(raw):
  n = int.from_bytes(raw, "big")
  text = ".".join(str(b) for b in raw)
  native = struct.unpack("I", raw)[0]
  return [
    ("str", lambda A: A.IPAddr(text)),
    ("bytes-text", lambda A: A.IPAddr(text.encode())),
    ("bytearray-text", lambda A: A.IPAddr(bytearray(text.encode()))),
    ("raw", lambda A: A.IPAddr(raw)),
    ("int-host", lambda A: A.IPAddr(n)),
    ("int-host-kw", lambda A: A.IPAddr(n, networkOrder=False)),
    ("int-net", lambda A: A.IPAddr(native, networkOrder=True)),
    ("copy", lambda A: A.IPAddr(A.IPAddr(raw))),
  ]


def case_ip4(c, out):
  A, U = _mods()
  raw = c["raw"]
  n = int.from_bytes(raw, "big")
  ref = ipaddress.IPv4Address(raw)
  out.nontrivial = True
  objs = []
  for name, mk in _ip4_forms(raw):
    x = mk(A)
    objs.append(x)
    if x.raw != raw or x.toRaw() != raw:
      out.fail("ip4-raw", "form %s of %s: raw is %r" % (name, ref, x.raw), form=name)
    if str(x) != str(ref) or x.toStr() != str(ref):
      out.fail("ip4-str", "form %s of %s prints %r" % (name, ref, str(x)), form=name)
    if repr(x) != "IPAddr('%s')" % ref:
      out.fail("ip4-repr", "repr %r" % (x,), form=name)
    if x.toUnsigned() != n or x.unsigned_h != n or x.toUnsigned(networkOrder=False) != n:
      out.fail("ip4-unsigned-h", "form %s of %s: host-order integer %r != %r" % (name, ref, x.toUnsigned(), n), form=name)
    if struct.pack("I", x.toUnsigned(networkOrder=True)) != raw or struct.pack("I", x.unsigned_n) != raw or struct.pack("I", x.toUnsignedN()) != raw:
      out.fail("ip4-unsigned-n", "form %s of %s: network-order integer wrong" % (name, ref), form=name)
    if struct.pack("!i", x.toSigned()) != raw or struct.pack("i", x.toSigned(networkOrder=True)) != raw or struct.pack("i", x.toSignedN()) != raw:
      out.fail("ip4-signed", "form %s of %s: signed integers wrong" % (name, ref), form=name)
    if len(x) != 4:
      out.fail("ip4-len", "len is %r" % (len(x),), form=name)
  x = objs[0]
  for y in objs[1:]:
    if not (x == y) or hash(x) != hash(y) or (x != y):
      out.fail("ip4-forms-equal", "forms of %s compare unequal" % ref)
  y = A.IPAddr(str(x))
  if y != x or str(y) != str(x):
    out.fail("ip4-roundtrip", "IPAddr(str(x)) != x for %s" % ref)
  _immutable(out, x, "IPAddr")


def _classful_bits(n):
  if n == 0:
    return 0
  top = n >> 24
  if top < 128:
    return 8
  if top < 192:
    return 16
  if top < 224:
    return 24
  return 32


_STYLES4 = ["cidr", "mask", "tuple-obj", "tuple-str", "sep-int", "sep-mask", "sep-obj"]


def case_ip4net(c, out):
  """membership of addr in net/plen in every call style."""
  A, U = _mods()
  a, net, plen, style = c["addr"], c["net"], c["plen"], c["style"]
  mask = (0xffffffff << (32 - plen)) & 0xffffffff
  assert net & ~mask & 0xffffffff == 0
  refnet = ipaddress.IPv4Network((net, plen))
  expect = ipaddress.IPv4Address(a) in refnet
  x = A.IPAddr(a)
  nt = str(ipaddress.IPv4Address(net))
  mt = str(refnet.netmask)
  if style == "cidr":
    got = x.inNetwork("%s/%d" % (nt, plen))
  elif style == "mask":
    got = x.in_network("%s/%s" % (nt, mt))
  elif style == "tuple-obj":
    got = x.inNetwork((A.IPAddr(net), plen))
  elif style == "tuple-str":
    got = x.inNetwork((nt, plen))
  elif style == "sep-int":
    got = x.inNetwork(nt, plen)
  elif style == "sep-mask":
    got = x.inNetwork(nt, netmask=mt)
  else:
    got = x.inNetwork(A.IPAddr(net), mt)
  out.nontrivial = 0 < plen < 32 and (a & ~mask & 0xffffffff) != 0
  if got is not expect and got != expect:
    out.fail("ip4-membership", "%s in %s/%d (%s): POX %r, ipaddress %r" % (x, nt, plen, style, got, expect), style=style)


def case_ip4cidr(c, out):
  """parse_cidr / get_network / netmask conversions against ipaddress."""
  A, U = _mods()
  a, plen, allow_host, style = c["addr"], c["plen"], c["allow_host"], c["style"]
  mask = (0xffffffff << (32 - plen)) & 0xffffffff
  at = str(ipaddress.IPv4Address(a))
  mt = str(ipaddress.IPv4Address(mask))
  hostbits = a & ~mask & 0xffffffff
  out.nontrivial = 0 < plen < 32 and hostbits != 0
  text = "%s/%d" % (at, plen) if style == "cidr" else "%s/%s" % (at, mt)
  for fn, label in ((A.parse_cidr, "func"), (A.IPAddr.parse_cidr, "static")):
    r, v = _raises(fn, text, allow_host=allow_host)
    if hostbits and not allow_host:
      # ipaddress (strict) rejects this too
      if not r:
        out.fail("ip4-cidr-hostbits-accepted", "parse_cidr(%r) returned %r although host bits are set" % (text, v), style=style)
    else:
      if r:
        out.fail("ip4-cidr-raises", "parse_cidr(%r, allow_host=%s) raised %r" % (text, allow_host, v), style=style)
      else:
        addr, bits = v
        if addr.raw != a.to_bytes(4, "big") or bits != plen or type(addr) is not A.IPAddr:
          out.fail("ip4-cidr-value", "parse_cidr(%r) = %r, expected (%s, %d)" % (text, v, at, plen), style=style)
  # conversions
  m = A.cidr_to_netmask(plen)
  if type(m) is not A.IPAddr or m.raw != mask.to_bytes(4, "big"):
    out.fail("ip4-cidr-to-netmask", "cidr_to_netmask(%d) = %r" % (plen, m))
  for arg in (mt, A.IPAddr(mask)):
    r, v = _raises(A.netmask_to_cidr, arg)
    if r or v != plen:
      out.fail("ip4-netmask-to-cidr", "netmask_to_cidr(%r) -> %r, expected %d" % (arg, v, plen))
  # get_network
  iface = ipaddress.IPv4Interface((a, plen))
  for arg in (plen, mt):
    r, v = _raises(A.IPAddr(a).get_network, arg)
    if r:
      out.fail("ip4-get-network", "get_network(%r) raised %r" % (arg, v))
    elif v[0].raw != iface.network.network_address.packed or v[1] != plen:
      out.fail("ip4-get-network", "%s.get_network(%r) = %r, expected (%s, %d)" % (at, arg, v, iface.network.network_address, plen))


def case_ip4infer(c, out):
  A, U = _mods()
  a = c["addr"]
  at = str(ipaddress.IPv4Address(a))
  out.nontrivial = True
  r, v = _raises(A.parse_cidr, at, infer=False)
  if r or v[0].raw != a.to_bytes(4, "big") or v[1] != 32:
    out.fail("ip4-cidr-noinfer", "parse_cidr(%r, infer=False) -> %r" % (at, v))
  cb = _classful_bits(a)
  wild = (1 << (32 - cb)) - 1
  exp = cb if (a & wild) == 0 else 32
  r, v = _raises(A.parse_cidr, at)
  if r or v[0].raw != a.to_bytes(4, "big") or v[1] != exp:
    out.fail("ip4-cidr-infer", "parse_cidr(%r) -> %r, classful expectation /%d" % (at, v, exp))
  if A.infer_netmask(A.IPAddr(a)) != cb:
    out.fail("ip4-infer-netmask", "infer_netmask(%s) -> %r, expected %d network bits" % (at, A.infer_netmask(A.IPAddr(a)), cb))


def case_ip4badmask(c, out):
  """non-contiguous netmasks must be rejected everywhere (ipaddress rejects them)."""
  A, U = _mods()
  mask = c["mask"]
  inv = (~mask) & 0xffffffff
  assert (inv & (inv + 1)) != 0, "mask must be non-contiguous"
  mt = str(ipaddress.IPv4Address(mask))
  out.nontrivial = True
  r, v = _raises(A.netmask_to_cidr, mt)
  if not r:
    out.fail("ip4-badmask-accepted", "netmask_to_cidr(%r) returned %r" % (mt, v), api="netmask_to_cidr")
  r, v = _raises(A.parse_cidr, "0.0.0.0/" + mt, allow_host=True)
  if not r:
    out.fail("ip4-badmask-accepted", "parse_cidr('0.0.0.0/%s') returned %r" % (mt, v), api="parse_cidr")
  r, v = _raises(A.IPAddr("1.2.3.4").inNetwork, "0.0.0.0", mt)
  if not r:
    out.fail("ip4-badmask-accepted", "inNetwork('0.0.0.0', %r) returned %r" % (mt, v), api="inNetwork")


def case_ip4text(c, out):
  """arbitrary text: if POX returns a value and ipaddress accepts the text they must agree;
  curated malformed classes must raise."""
  A, U = _mods()
  text, must = c["text"], c.get("must_raise", False)
  out.nontrivial = True
  r, v = _raises(A.IPAddr, text)
  try:
    ref = ipaddress.IPv4Address(text)
  except ValueError:
    ref = None
  if must:
    out.label("ip4text-must-raise")
    if not r:
      out.fail("ip4-malformed-accepted", "IPAddr(%r) returned %r" % (text, v), cls=c.get("cls", "?"))
  elif ref is not None:
    out.label("ip4text-both-accept")
    if r:
      out.fail("ip4-wellformed-rejected", "IPAddr(%r) raised %r" % (text, v))
    elif v.raw != ref.packed:
      out.fail("ip4-misparsed", "IPAddr(%r) = %s, ipaddress says %s" % (text, v, ref))
  else:
    out.label("ip4text-ambiguous-not-judged")


# --------------------------------------------------------------------------- IPv6

def _ip6_canon(raw):
  ref = ipaddress.IPv6Address(raw)
  if raw[:12] == b"\0" * 10 + b"\xff\xff":
    return "::ffff:" + str(ipaddress.IPv4Address(raw[12:]))
  return ref.compressed


def case_ip6(c, out):
  A, U = _mods()
  raw = c["raw"]
  ref = ipaddress.IPv6Address(raw)
  canon = _ip6_canon(raw)
  out.nontrivial = True
  forms = [
    ("text-compressed", lambda: A.IPAddr6(ref.compressed)),
    ("text-exploded", lambda: A.IPAddr6(ref.exploded)),
    ("text-upper", lambda: A.IPAddr6(ref.compressed.upper())),
    ("text-canon", lambda: A.IPAddr6(canon)),
    ("raw-flag", lambda: A.IPAddr6(raw, raw=True)),
    ("raw-kw", lambda: A.IPAddr6(raw=raw)),
    ("bytearray", lambda: A.IPAddr6(bytearray(raw))),
    ("from_raw", lambda: A.IPAddr6.from_raw(raw)),
    ("from_num", lambda: A.IPAddr6.from_num(int(ref))),
    ("copy", lambda: A.IPAddr6(A.IPAddr6(raw, raw=True))),
  ]
  objs = []
  for name, mk in forms:
    r, x = _raises(mk)
    if r:
      out.fail("ip6-form-raises", "form %s of %s raised %r" % (name, ref, x), form=name)
      continue
    if type(x) is not A.IPAddr6:
      out.fail("ip6-form-type", "form %s of %s returned a %s, not an IPAddr6" % (name, ref, type(x).__name__), form=name)
      continue
    objs.append(x)
    if x.raw != raw:
      out.fail("ip6-raw", "form %s of %s: raw %r" % (name, ref, x.raw), form=name)
    if x.num != int(ref):
      out.fail("ip6-num", "form %s of %s: num %r" % (name, ref, x.num), form=name)
    if len(x) != 16:
      out.fail("ip6-len", "len %r" % len(x), form=name)
  if not objs:
    return
  x = objs[0]
  s = str(x)
  if s != canon:
    out.fail("ip6-canonical", "str of %s is %r, canonical (RFC 5952) is %r" % (ref.exploded, s, canon))
  if x.to_str(ipv4=False) != ref.compressed:
    out.fail("ip6-compressed", "to_str(ipv4=False) of %s is %r, expected %r" % (ref.exploded, x.to_str(ipv4=False), ref.compressed))
  if x.to_str(zero_drop=False, section_drop=False, ipv4=False) != ref.exploded:
    out.fail("ip6-exploded", "exploded form of %s is %r" % (ref.exploded, x.to_str(zero_drop=False, section_drop=False, ipv4=False)))
  if repr(x) != "IPAddr6('%s')" % canon:
    out.fail("ip6-repr", "repr %r" % (x,))
  # forced mixed notation: whatever the compression chosen, the text must be a well-formed IPv6 text
  # of this very address (ipaddress and POX itself must both read it back)
  for kw in ({"ipv4": True}, {"ipv4": True, "zero_drop": False}, {"ipv4": True, "section_drop": False}):
    r0, mixed = _raises(x.to_str, **kw)
    if r0:
      out.fail("ip6-mixed-raises", "to_str(%r) of %s raised %r" % (kw, ref.exploded, mixed))
      continue
    try:
      back = ipaddress.IPv6Address(mixed).packed
    except ValueError:
      back = None
    r1, y2 = _raises(A.IPAddr6, mixed)
    if back != raw or r1 or y2.raw != raw or not mixed.endswith(str(ipaddress.IPv4Address(raw[12:]))):
      out.fail("ip6-mixed-notation", "to_str(%r) of %s is %r, which does not read back as the same address" % (kw, ref.exploded, mixed))
  r, y = _raises(A.IPAddr6, s)
  if r or y != x or str(y) != s or hash(y) != hash(x):
    out.fail("ip6-roundtrip", "IPAddr6(str(x)) != x for %s (str %r): %r" % (ref.exploded, s, y))
  for y in objs[1:]:
    if not (x == y) or hash(x) != hash(y):
      out.fail("ip6-forms-equal", "forms of %s compare unequal" % ref)
  # predicates that are membership claims
  if x.is_multicast != ref.is_multicast:
    out.fail("ip6-is-multicast", "%s is_multicast %r" % (ref, x.is_multicast))
  if x.is_link_unicast != ref.is_link_local:
    out.fail("ip6-is-link-local", "%s is_link_unicast %r" % (ref, x.is_link_unicast))
  if x.is_ipv4_mapped != (ref.ipv4_mapped is not None):
    out.fail("ip6-is-mapped", "%s is_ipv4_mapped %r" % (ref, x.is_ipv4_mapped))
  if ref.ipv4_mapped is not None:
    v4 = x.to_ipv4()
    if v4.raw != raw[12:]:
      out.fail("ip6-to-ipv4", "%s to_ipv4 %r" % (ref, v4))
    m = A.IPAddr6(A.IPAddr(raw[12:]))
    if m != x:
      out.fail("ip6-from-ipv4", "IPAddr6(IPAddr(%s)) = %s" % (v4, m))
  _immutable(out, x, "IPAddr6")
  # EUI-64
  mac = c.get("mac")
  if mac is not None:
    e = bytearray(mac)
    e[0] ^= 2
    exp = raw[:8] + bytes(e[:3]) + b"\xff\xfe" + bytes(e[3:])
    r, y = _raises(x.set_mac, A.EthAddr(mac))
    if r or type(y) is not A.IPAddr6 or y.raw != exp:
      out.fail("ip6-set-mac", "set_mac(%s) on %s gave %r" % (mac.hex(), ref, y))


def _ip6_text(groups, spec):
  """Render 8 16-bit groups as text.  spec: {"run":[start,len]|None, "pad":[..8 ints 0..3], "upper":[..8 bools], "v4": bool}"""
  parts = []
  for i, g in enumerate(groups):
    t = "%x" % g
    t = "0" * min(spec["pad"][i], 4 - len(t)) + t
    if spec["upper"][i]:
      t = t.upper()
    parts.append(t)
  tail = None
  n = 8
  if spec.get("v4"):
    tail = "%d.%d.%d.%d" % (groups[6] >> 8, groups[6] & 255, groups[7] >> 8, groups[7] & 255)
    parts = parts[:6]
    n = 6
  run = spec.get("run")
  if run:
    s, l = run
    if s + l > n or any(groups[s:s + l]):
      run = None
  if run:
    s, l = run
    text = ":".join(parts[:s]) + "::" + ":".join(parts[s + l:])
    if tail is not None:
      text = text + (":" if not text.endswith(":") else "") + tail
  else:
    text = ":".join(parts + ([tail] if tail is not None else []))
  return text


def case_ip6text(c, out):
  A, U = _mods()
  groups = c["groups"]
  text = _ip6_text(groups, c["spec"])
  try:
    ref = ipaddress.IPv6Address(text)
  except ValueError:
    raise AssertionError("generator produced text ipaddress rejects: %r" % text)
  assert ref.packed == b"".join(struct.pack("!H", g) for g in groups), text
  out.nontrivial = text != _ip6_canon(ref.packed)
  if c["spec"].get("v4"):
    out.label("ip6text-mixed")
  if "::" in text:
    out.label("ip6text-compressed")
  r, x = _raises(A.IPAddr6, text)
  if r:
    out.fail("ip6-wellformed-rejected", "IPAddr6(%r) raised %r" % (text, x))
  elif x.raw != ref.packed:
    out.fail("ip6-misparsed", "IPAddr6(%r) = %s, ipaddress says %s" % (text, x, ref))


import re as _re
_IP6_STRUCTURAL = _re.compile(r"[0-9a-fA-F:]+")


_HEXGROUP = _re.compile(r"[0-9a-fA-F]+")


def _ip6_group_not_hex(text):
  groups = text.split(":")
  if "." in groups[-1]:
    groups = groups[:-1]
  return any(g and not _HEXGROUP.fullmatch(g) for g in groups)


def case_ip6bad(c, out):
  A, U = _mods()
  text, must = c["text"], c.get("must_raise", False)
  out.nontrivial = True
  r, v = _raises(A.IPAddr6, text)
  try:
    ref = ipaddress.IPv6Address(text)
  except ValueError:
    ref = None
  if must:
    assert ref is None, "curated malformed text is accepted by ipaddress: %r" % text
    out.label("ip6text-must-raise")
    if not r:
      out.fail("ip6-malformed-accepted", "IPAddr6(%r) returned %s" % (text, v), cls=c.get("cls", "?"))
  elif ref is not None and "%" not in text:
    if r:
      out.fail("ip6-wellformed-rejected", "IPAddr6(%r) raised %r" % (text, v))
    elif v.raw != ref.packed:
      out.fail("ip6-misparsed", "IPAddr6(%r) = %s, ipaddress says %s" % (text, v, ref))
  elif ref is None and _IP6_STRUCTURAL.fullmatch(text) and all(len(g) <= 4 for g in text.split(":")):
    # only hex digits and colons, every group at most 4 digits: what is wrong with the text can only be the
    # placement or the number of colons/groups, which every IPv6 text parser (RFC 4291 2.2) rejects
    out.label("ip6text-structural-must-raise")
    if not r:
      out.fail("ip6-malformed-accepted", "IPAddr6(%r) returned %s" % (text, v), cls="colon-structure")
  elif ref is None and "%" not in text and "/" not in text and _ip6_group_not_hex(text):
    # some colon-separated group (other than a final dotted IPv4 part) contains a character that is not a
    # hexadecimal digit ('+1', '0x1', '1_0', ' 1', a non-ASCII digit): no reading of RFC 4291 makes that a group
    out.label("ip6text-group-not-hex-must-raise")
    if not r:
      out.fail("ip6-malformed-accepted", "IPAddr6(%r) returned %s" % (text, v), cls="group-not-hex")
  elif ref is None and _IP6_STRUCTURAL.fullmatch(text):
    _judge_ip6_overlong(out, text, r, v)
  elif ref is None and _ip6_tail_split(text) is not None:
    _judge_ip6_tail(out, text, r, v)
  else:
    # includes RFC 4007 zone suffixes ('%eth0'), which ipaddress accepts and POX does not claim to
    out.label("ip6text-ambiguous-not-judged")


def _judge_ip6_overlong(out, text, r, v):
  """Only hex digits and colons, and some group has more than four digits (RFC 4291 2.2: one to four).  A group whose
  value exceeds ffff is rejected by every reader.  A group that is merely zero-padded ('00001') has one possible
  numeric reading; rejecting it (as ipaddress and inet_pton do) and reading it are both accepted here -- the same
  decision as for Ethernet groups ('00f') -- but a value other than the numeric reading is a mis-parse."""
  groups = text.split(":")
  norm = [(g.lstrip("0") or "0") if len(g) > 4 else g for g in groups]
  if any(len(g) > 4 for g in norm):
    out.label("ip6text-group-gt-ffff-must-raise")
    if not r:
      out.fail("ip6-malformed-accepted", "IPAddr6(%r) returned %s" % (text, v), cls="group-gt-ffff")
    return
  try:
    ref = ipaddress.IPv6Address(":".join(norm))
  except ValueError:
    out.label("ip6text-structural-must-raise")
    if not r:
      out.fail("ip6-malformed-accepted", "IPAddr6(%r) returned %s" % (text, v), cls="colon-structure")
    return
  out.label("ip6text-overlong-zero-padded:raise-or-numeric-reading")
  if not r and v.raw != ref.packed:
    out.fail("ip6-misparsed", "IPAddr6(%r) = %s, the only numeric reading is %s" % (text, v, ref))


def _ip6_tail_split(text):
  """(packed head with a zero tail, dotted tail) when the text is '<hex part>:<something with dots>' and the hex part
  is well-formed on its own (RFC 4291 2.2 form 3: six groups' worth, then d.d.d.d); else None."""
  if ":" not in text or "%" in text or "/" in text:
    return None
  head, tail = text.rsplit(":", 1)
  if "." not in tail or "." in head:
    return None
  try:
    return ipaddress.IPv6Address(head + ":0:0").packed, tail
  except ValueError:
    return None


def _asciidigits(p):
  return bool(p) and p.isascii() and p.isdigit()


def _judge_ip6_tail(out, text, r, v):
  """The hex part is fine and ipaddress rejects the text, so the dotted tail is at fault.  RFC 4291: 'd.d.d.d' with the
  d's the DECIMAL values of the four low-order octets.  BSD inet_aton short forms ('1.2'), radix prefixes, blanks and
  trailing junk were never IPv6 text (inet_pton rejects them too): must raise.  Four decimal parts written with leading
  zeros: rejecting and reading them as decimal are both accepted; any other value (octal!) is a mis-parse."""
  head, tail = _ip6_tail_split(text)
  parts = tail.split(".")
  if len(parts) == 4 and all(_asciidigits(p) and int(p) <= 255 for p in parts):
    if not any(len(p) > 1 and p[0] == "0" for p in parts):
      out.label("ip6text-ambiguous-not-judged")
      return
    out.label("ip6text-tail-leading-zero:raise-or-decimal-reading")
    want = head[:12] + bytes(int(p) for p in parts)
    if not r and v.raw != want:
      out.fail("ip6-tail-misparsed", "IPAddr6(%r) = %s; the dotted part is decimal (RFC 4291), i.e. %s" % (
          text, v, ipaddress.IPv6Address(want)))
    return
  if any(p == "" for p in parts):
    cls = "empty-part"
  elif not all(_asciidigits(p) for p in parts):
    cls = "non-decimal-part"
  elif len(parts) < 4:
    cls = "short-tail"
  elif len(parts) > 4:
    cls = "long-tail"
  else:
    cls = "octet-gt-255"
  out.label("ip6text-tail-must-raise:" + cls)
  if not r:
    out.fail("ip6-tail-malformed-accepted", "IPAddr6(%r) returned %s; the IPv4 part of mixed notation is four decimal octets" % (text, v), cls=cls)


_STYLES6 = ["cidr", "mask", "tuple-obj", "tuple-str", "sep-int", "sep-mask", "sep-obj"]


def case_ip6net(c, out):
  A, U = _mods()
  a, net, plen, style = c["addr"], c["net"], c["plen"], c["style"]
  full = (1 << 128) - 1
  mask = (full << (128 - plen)) & full
  assert net & ~mask & full == 0
  refnet = ipaddress.IPv6Network((net, plen))
  expect = ipaddress.IPv6Address(a) in refnet
  x = A.IPAddr6(a.to_bytes(16, "big"), raw=True)
  nobj = A.IPAddr6(net.to_bytes(16, "big"), raw=True)
  nt = ipaddress.IPv6Address(net).compressed
  mt = ipaddress.IPv6Address(mask).compressed
  if style == "cidr":
    got = x.in_network("%s/%d" % (nt, plen))
  elif style == "mask":
    got = x.in_network("%s/%s" % (nt, mt))
  elif style == "tuple-obj":
    got = x.in_network((nobj, plen))
  elif style == "tuple-str":
    got = x.in_network((nt, plen))
  elif style == "sep-int":
    got = x.in_network(nt, plen)
  elif style == "sep-mask":
    got = x.in_network(nt, netmask=mt)
  else:
    got = x.in_network(nobj, plen)
  out.nontrivial = 0 < plen < 128 and (a & ~mask & full) != 0
  if got != expect:
    out.fail("ip6-membership", "%s in %s/%d (%s): POX %r, ipaddress %r" % (x, nt, plen, style, got, expect), style=style)


def case_ip6cidr(c, out):
  A, U = _mods()
  a, plen, allow_host, style = c["addr"], c["plen"], c["allow_host"], c["style"]
  full = (1 << 128) - 1
  mask = (full << (128 - plen)) & full
  at = ipaddress.IPv6Address(a).compressed
  mt = ipaddress.IPv6Address(mask).compressed
  hostbits = a & ~mask & full
  out.nontrivial = 0 < plen < 128 and hostbits != 0
  if style == "cidr":
    text = "%s/%d" % (at, plen)
  elif style == "mask":
    text = "%s/%s" % (at, mt)
  else:
    text = at
    plen_eff = 128
  if style == "plain":
    r, v = _raises(A.IPAddr6.parse_cidr, text, allow_host=allow_host)
    if r or v[0].raw != a.to_bytes(16, "big") or v[1] != 128:
      out.fail("ip6-cidr-plain", "parse_cidr(%r) -> %r" % (text, v))
  else:
    r, v = _raises(A.IPAddr6.parse_cidr, text, allow_host=allow_host)
    if hostbits and not allow_host:
      if not r:
        out.fail("ip6-cidr-hostbits-accepted", "parse_cidr(%r) returned %r although host bits are set" % (text, v), style=style)
    elif r:
      out.fail("ip6-cidr-raises", "parse_cidr(%r, allow_host=%s) raised %r" % (text, allow_host, v), style=style)
    elif type(v[0]) is not A.IPAddr6 or v[0].raw != a.to_bytes(16, "big") or v[1] != plen:
      out.fail("ip6-cidr-value", "parse_cidr(%r) = %r, expected (%s, %d)" % (text, v, at, plen), style=style)
  r, m = _raises(A.IPAddr6.cidr_to_netmask, plen)
  if r or type(m) is not A.IPAddr6 or m.raw != mask.to_bytes(16, "big"):
    out.fail("ip6-cidr-to-netmask", "IPAddr6.cidr_to_netmask(%d) -> %r (a %s)" % (plen, m, type(m).__name__))
  for arg in (mt, A.IPAddr6(mask.to_bytes(16, "big"), raw=True)):
    r, v = _raises(A.IPAddr6.netmask_to_cidr, arg)
    if r or v != plen:
      out.fail("ip6-netmask-to-cidr", "IPAddr6.netmask_to_cidr(%r) -> %r, expected %d" % (arg, v, plen))


def case_ip6badmask(c, out):
  A, U = _mods()
  mask = c["mask"]
  full = (1 << 128) - 1
  inv = (~mask) & full
  assert (inv & (inv + 1)) != 0
  mt = ipaddress.IPv6Address(mask).compressed
  out.nontrivial = True
  r, v = _raises(A.IPAddr6.netmask_to_cidr, mt)
  if not r:
    out.fail("ip6-badmask-accepted", "IPAddr6.netmask_to_cidr(%r) returned %r" % (mt, v), api="netmask_to_cidr")
  r, v = _raises(A.IPAddr6.parse_cidr, "::/" + mt, allow_host=True)
  if not r:
    out.fail("ip6-badmask-accepted", "IPAddr6.parse_cidr('::/%s') returned %r" % (mt, v), api="parse_cidr")


# --------------------------------------------------------------------------- Ethernet

def case_eth(c, out):
  A, U = _mods()
  raw = c["raw"]
  shape = c.get("shape", [2] * 6)       # digits per group for the loose form
  canon = ":".join("%02x" % b for b in raw)
  loose_ok = all(b < 16 or s == 2 for b, s in zip(raw, shape))
  loose = ":".join(("%x" % b) if s == 1 else ("%02x" % b) for b, s in zip(raw, shape)) if loose_ok else canon
  forms = [
    ("colon", canon), ("colon-upper", canon.upper()), ("dash", canon.replace(":", "-")),
    ("dash-upper", canon.replace(":", "-").upper()), ("hex12", canon.replace(":", "")),
    ("hex12-upper", canon.replace(":", "").upper()), ("loose", loose), ("loose-upper", loose.upper()),
    ("bytes-colon", canon.encode()), ("bytes-hex12", canon.replace(":", "").encode()), ("bytes-loose", loose.encode()),
    ("raw", raw), ("tuple", tuple(raw)), ("list", list(raw)), ("bytearray", bytearray(raw)),
  ]
  out.nontrivial = True
  if loose != canon:
    out.label("eth-loose-form")
  objs = []
  for name, arg in forms:
    if isinstance(arg, (str, bytes)) and name != "raw" and len(arg) == 6:
      continue      # six characters are by definition the raw form
    r, x = _raises(A.EthAddr, arg)
    if r:
      out.fail("eth-form-raises", "EthAddr(%r) (form %s) raised %r" % (arg, name, x), form=name)
      continue
    objs.append(x)
    if x.raw != raw or x.toRaw() != raw:
      out.fail("eth-raw", "EthAddr(%r) (form %s) has raw %s" % (arg, name, x.raw.hex()), form=name)
  objs.append(A.EthAddr(A.EthAddr(raw)))
  x = objs[0] if objs else A.EthAddr(raw)
  if str(x) != canon or x.toStr() != canon or x.to_str() != canon:
    out.fail("eth-str", "str is %r, expected %r" % (str(x), canon))
  if x.to_str("-") != canon.replace(":", "-") or x.toStr(separator="") != canon.replace(":", ""):
    out.fail("eth-str-sep", "to_str with separator wrong: %r" % (x.to_str("-"),))
  if repr(x) != "EthAddr('%s')" % canon:
    out.fail("eth-repr", "repr %r" % (x,))
  if A.EthAddr(str(x)) != x or A.EthAddr(str(x)).raw != raw:
    out.fail("eth-roundtrip", "EthAddr(str(x)) != x for %s" % canon)
  for y in objs[1:]:
    if not (x == y) or hash(x) != hash(y) or (x != y):
      out.fail("eth-forms-equal", "forms of %s compare unequal" % canon)
  if x.toTuple() != tuple(raw) or x.to_tuple() != tuple(raw) or len(x) != 6:
    out.fail("eth-tuple", "toTuple %r" % (x.toTuple(),))
  exp = {
    "is_multicast": bool(raw[0] & 1), "is_local": bool(raw[0] & 2), "is_global": not (raw[0] & 2),
    "is_bridge_filtered": raw[:5] == b"\x01\x80\xc2\x00\x00" and raw[5] <= 0x0f,
    "is_broadcast": raw == b"\xff" * 6,
  }
  for k, v in exp.items():
    if bool(getattr(x, k)) != v:
      out.fail("eth-flag", "%s.%s is %r, expected %r" % (canon, k, getattr(x, k), v), flag=k)
  if x.isMulticast() != exp["is_multicast"] or x.isLocal() != exp["is_local"] or x.isGlobal() != exp["is_global"] or x.isBridgeFiltered() != exp["is_bridge_filtered"]:
    out.fail("eth-flag", "method flags of %s disagree" % canon, flag="methods")
  _immutable(out, x, "EthAddr")


def case_ethnone(c, out):
  A, U = _mods()
  out.nontrivial = True
  x = A.EthAddr(None)
  if x.raw != b"\0" * 6 or str(x) != "00:00:00:00:00:00":
    out.fail("eth-none", "EthAddr(None) = %r" % (x,))


def case_ethbad(c, out):
  A, U = _mods()
  text = c["text"]
  out.nontrivial = True
  for arg in (text, text.encode()):
    r, v = _raises(A.EthAddr, arg)
    if not r:
      out.fail("eth-malformed-accepted", "EthAddr(%r) returned %s" % (arg, v), cls=c.get("cls", "?"))


_HEXDIGITS = set("0123456789abcdefABCDEF")


def case_ethtext(c, out):
  """Arbitrary text offered to EthAddr.  Judged only where every reading agrees: a text that splits on ':' (or on
  '-') into exactly six groups must be rejected when some group is empty, exceeds 0xff or contains a
  character that is not a hexadecimal digit ('+1', '0x', ' 1', '1_', a non-ASCII digit) -- IEEE 802 text forms have
  no such group; when all six groups are 1..2 hex digits it must be accepted with exactly those octets."""
  A, U = _mods()
  text = c["text"]
  out.nontrivial = True
  for arg in ((text, text.encode("utf-8")) if c.get("both", True) else (text,)):
    if isinstance(arg, bytes) and len(arg) == 6:
      continue                      # six raw octets, not a text form
    if isinstance(arg, str) and len(arg) == 6:
      continue
    r, v = _raises(A.EthAddr, arg)
    for sep in (":", "-"):
      groups = text.split(sep)
      if len(groups) != 6:
        continue
      if sep == "-" and any(len(g) != 2 for g in groups):
        break                       # POX documents xx-xx-xx-xx-xx-xx only; other dash forms are not judged
      ok = all(1 <= len(g) <= 2 and set(g) <= _HEXDIGITS for g in groups)
      if not ok and all(g and set(g) <= _HEXDIGITS and int(g, 16) <= 0xff for g in groups):
        # hex groups zero-padded beyond two digits ('00f'): one possible numeric reading; rejecting and reading
        # are both accepted (same decision as for IPv6 groups, '00001'), another value is a mis-parse
        out.label("ethtext-overlong-zero-padded:raise-or-numeric-reading")
        if not r and v.raw != bytes(int(g, 16) for g in groups):
          out.fail("eth-misparsed", "EthAddr(%r) = %s, the text says %s" % (arg, v, bytes(int(g, 16) for g in groups).hex()))
        break
      if ok:
        out.label("ethtext-wellformed")
        want = bytes(int(g, 16) for g in groups)
        if r:
          out.fail("eth-wellformed-rejected", "EthAddr(%r) raised %r" % (arg, v))
        elif v.raw != want:
          out.fail("eth-misparsed", "EthAddr(%r) = %s, the text says %s" % (arg, v, want.hex()))
      else:
        out.label("ethtext-group-not-hex-must-raise")
        if not r:
          out.fail("eth-malformed-accepted", "EthAddr(%r) returned %s" % (arg, v), cls="group-not-hex")
      break
    else:
      if len(text) == 12 and ":" not in text and "-" not in text:
        if set(text) <= _HEXDIGITS:
          out.label("ethtext-wellformed")
          if r:
            out.fail("eth-wellformed-rejected", "EthAddr(%r) raised %r" % (arg, v))
          elif v.raw != bytes.fromhex(text):
            out.fail("eth-misparsed", "EthAddr(%r) = %s" % (arg, v))
        else:
          out.label("ethtext-group-not-hex-must-raise")
          if not r:
            out.fail("eth-malformed-accepted", "EthAddr(%r) returned %s" % (arg, v), cls="group-not-hex")
      else:
        out.label("ethtext-ambiguous-not-judged")


def _inet_aton_ok(text):
  import socket
  try:
    socket.inet_aton(text)
    return True
  except (OSError, ValueError, UnicodeError):
    return False


def case_cidrtext(c, out):
  """'<address>/<suffix>' texts offered to parse_cidr (IPv4) or IPAddr6.parse_cidr.  <address> is a canonical
  address with zero host part for every prefix (all-zero or given), so the only thing that can be wrong is the
  suffix.  Authority: ipaddress.ip_network(text, strict=False) -- when it rejects the text (second '/', sign, blank,
  non-ASCII digit, out-of-range or empty prefix) POX must reject it too; when it accepts a pure-digit prefix POX must
  return that prefix.  Host-mask suffixes ('/0.0.0.255'), which ipaddress accepts and POX documents as unsupported,
  are not judged."""
  A, U = _mods()
  fam, text = c["fam"], c["text"]
  out.nontrivial = True
  fn = A.parse_cidr if fam == 4 else A.IPAddr6.parse_cidr
  r, v = _raises(fn, text, allow_host=True)
  try:
    ref = ipaddress.ip_network(text, strict=False)
    if ref.version != fam:
      ref = None
  except ValueError:
    ref = None
  suffix = text.split("/", 1)[1] if "/" in text else None
  if suffix is None:
    out.label("cidrtext-no-slash-not-judged")
    return
  if ref is None:
    if fam == 4 and suffix.count(".") == 3 and "/" not in suffix:
      out.label("cidrtext-mask-form-not-judged")    # dotted forms are judged by ip4cidr / ip4badmask
      return
    if fam == 6 and ":" in suffix and "/" not in suffix:
      out.label("cidrtext-mask-form-not-judged")
      return
    if fam == 4 and "/" not in suffix and _inet_aton_ok(suffix):
      # BSD inet_aton forms of a netmask ('0 ', '255.0', '0xff000000'): the IPv4 text zone that is not judged
      # (see _IP4_AMBIG); POX documents 'address/netmask' and reads the netmask with IPAddr()
      out.label("cidrtext-mask-form-not-judged")
      return
    out.label("cidrtext-must-raise")
    if not r:
      out.fail("cidr-malformed-accepted", "%s.parse_cidr(%r) returned %r; ipaddress rejects the text" % (
          "IPAddr6" if fam == 6 else "addresses", text, v), fam=fam, cls=c.get("cls", "?"))
  elif suffix.isascii() and suffix.isdigit():
    out.label("cidrtext-both-accept")
    if r:
      out.fail("cidr-wellformed-rejected", "parse_cidr(%r) raised %r" % (text, v), fam=fam)
    elif v[1] != ref.prefixlen:
      out.fail("cidr-misparsed", "parse_cidr(%r) = %r, ipaddress says /%d" % (text, v, ref.prefixlen), fam=fam)
  else:
    out.label("cidrtext-mask-form-not-judged")


# --------------------------------------------------------------------------- comparison laws, dpids

def case_cmp(c, out):
  A, U = _mods()
  t = c["t"]
  if t == "ip4":
    mk = lambda r: A.IPAddr(r)
  elif t == "ip6":
    mk = lambda r: A.IPAddr6(r, raw=True)
  else:
    mk = lambda r: A.EthAddr(r)
  a, b, d = mk(c["a"]), mk(c["b"]), mk(c["c"])
  out.nontrivial = len({c["a"], c["b"], c["c"]}) > 1
  _order_laws(out, a, b, d, t)
  _order_laws(out, b, a, d, t)
  _order_laws(out, a, a, b, t)
  # sorting must agree with the pairwise relation and dict/set must merge equal values
  s = sorted([a, b, d])
  if not (s[0] <= s[1] <= s[2]):
    out.fail("sort", "%s: sorted() result is not ordered: %r" % (t, s), type=t)
  if len({a, b, d, mk(c["a"])}) != len({c["a"], c["b"], c["c"]}):
    out.fail("set-merge", "%s: set of values has wrong cardinality" % t, type=t)


_FOREIGN = ["none", "junk-text", "empty-text", "int", "float", "object", "short-bytes", "tuple", "other-family-text", "other-family-obj"]


def _foreign(A, t, kind):
  if kind == "none": return None
  if kind == "junk-text": return "not an address"
  if kind == "empty-text": return ""
  if kind == "int": return 5
  if kind == "float": return 1.5
  if kind == "object": return object()
  if kind == "short-bytes": return b"xy"
  if kind == "tuple": return (1, 2)
  if kind == "other-family-text": return "::1" if t != "ip6" else "1.2.3.4"
  return A.IPAddr6("::1") if t == "ip4" else A.IPAddr("1.2.3.4")


def case_cmpforeign(c, out):
  """== and != against an operand that is not an address of this type must stay complementary
  (whatever the verdict is) whenever both return; exceptions are not judged here."""
  A, U = _mods()
  t = c["t"]
  if t == "ip4":
    a = A.IPAddr(c["a"])
  elif t == "ip6":
    a = A.IPAddr6(c["a"], raw=True)
  else:
    a = A.EthAddr(c["a"])
  o = _foreign(A, t, c["o"])
  out.nontrivial = True
  r1, eq = _raises(lambda: a == o)
  r2, ne = _raises(lambda: a != o)
  if r1 or r2:
    out.label("cmpforeign-raises-not-judged")
    return
  if not isinstance(eq, bool) or not isinstance(ne, bool):
    out.fail("eq-ne-foreign", "%s: %r ==/!= %r returned %r / %r (not booleans)" % (t, a, o, eq, ne), type=t, operand=c["o"])
  elif eq == ne:
    out.fail("eq-ne-foreign", "%s: %r == %r is %s and != is %s" % (t, a, o, eq, ne), type=t, operand=c["o"])


def _mk_addr(A, t, raw):
  if t == "ip4": return A.IPAddr(raw)
  if t == "ip6": return A.IPAddr6(raw, raw=True)
  return A.EthAddr(raw)


_ORD = (("<", lambda x, y: x < y), ("<=", lambda x, y: x <= y), (">", lambda x, y: x > y), (">=", lambda x, y: x >= y))


def case_cmpcross(c, out):
  """Two addresses of DIFFERENT classes of this library.  POX lets them be compared (an IPAddr equals the
  IPv4-mapped IPAddr6); whatever verdicts it gives must be mutually consistent: ==/!= return complementary
  booleans and are symmetric, equal values hash equally, and the four ordering operators either all decline
  (TypeError) or all answer, in which case exactly one of <, ==, > holds, <=/>= are their unions and
  x<y agrees with y>x."""
  A, U = _mods()
  tx, ty = c["tx"], c["ty"]
  x, y = _mk_addr(A, tx, c["x"]), _mk_addr(A, ty, c["y"])
  pair = tx + "/" + ty
  out.nontrivial = True
  res = {}
  for name, f in (("x==y", lambda: x == y), ("x!=y", lambda: x != y), ("y==x", lambda: y == x), ("y!=x", lambda: y != x)):
    r, v = _raises(f)
    if r:
      out.fail("cross-eq-raises", "%r %s %r raises %s" % (x, name, y, type(v).__name__ if v is not None else "?"), pair=pair)
      return
    if not isinstance(v, bool):
      out.fail("cross-eq-not-bool", "%s on %r, %r returned %r" % (name, x, y, v), pair=pair)
      return
    res[name] = v
  if res["x==y"] == res["x!=y"] or res["y==x"] == res["y!=x"]:
    out.fail("cross-eq-ne", "%r vs %r: == and != are not complementary: %r" % (x, y, res), pair=pair)
  if res["x==y"] != res["y==x"]:
    out.fail("cross-eq-asymmetric", "%r == %r is %s but reversed is %s" % (x, y, res["x==y"], res["y==x"]), pair=pair)
  eq = res["x==y"]
  if eq:
    out.label("cross-equal")
    if hash(x) != hash(y):
      out.fail("cross-eq-hash", "%r == %r but their hashes differ" % (x, y), pair=pair)
    if len({x, y}) != 1:
      out.fail("cross-eq-set", "%r == %r but a set keeps both" % (x, y), pair=pair)
  o = {}
  declined = []
  for (a, b, tag) in ((x, y, "xy"), (y, x, "yx")):
    for name, f in _ORD:
      try:
        v = f(a, b)
      except TypeError:
        declined.append(tag + name)
        continue
      except Exception as e:          # noqa: BLE001 - judged: an ordering of two addresses must not crash
        out.fail("cross-order-raises", "%r %s %r raises %s" % (a, name, b, type(e).__name__), pair=pair)
        return
      if not isinstance(v, bool):
        out.fail("cross-order-not-bool", "%r %s %r returned %r" % (a, name, b, v), pair=pair)
        return
      o[tag + name] = v
  if declined and o:
    out.fail("cross-order-partial", "%r vs %r: some ordering operators decline (%s) and others answer (%s)"
             % (x, y, ",".join(declined), ",".join(sorted(o))), pair=pair)
    return
  if declined:
    out.label("cross-order-declined")
    if eq:
      out.fail("cross-order-declined-equal", "%r == %r yet they cannot be ordered" % (x, y), pair=pair)
    return
  out.label("cross-ordered")
  if [o["xy<"], eq, o["xy>"]].count(True) != 1:
    out.fail("cross-trichotomy", "%r vs %r: <,==,> = %s,%s,%s" % (x, y, o["xy<"], eq, o["xy>"]), pair=pair)
  if o["xy<="] != (o["xy<"] or eq) or o["xy>="] != (o["xy>"] or eq):
    out.fail("cross-le-ge", "%r vs %r: <=/>= are not the unions of </>/==: %r" % (x, y, o), pair=pair)
  if o["xy<"] != o["yx>"] or o["xy>"] != o["yx<"] or o["xy<="] != o["yx>="] or o["xy>="] != o["yx<="]:
    out.fail("cross-reflected", "%r vs %r: x<y and y>x (etc.) disagree: %r" % (x, y, o), pair=pair)


# --------------------------------------------------------------------------- comparison with plain data operands

def _operand(spec):
  """A fresh plain-data operand (never an address object of this library) from its JSON description."""
  ty = spec["ty"]
  if ty == "none": return None
  if ty == "object": return object()
  if ty == "dict": return {}
  if ty == "text": return spec["v"]
  if ty == "bytes": return bytes(spec["v"])
  if ty == "bytearray": return bytearray(spec["v"])
  if ty == "int": return spec["v"]
  if ty == "float": return spec["v"] / 8.0          # carried as a number of eighths
  if ty == "list": return list(spec["v"])
  if ty == "tuple": return tuple(spec["v"])
  raise AssertionError("unknown operand type %r" % (ty,))


_EQ_FORMS = (("a==o", lambda a, o: a == o), ("a!=o", lambda a, o: a != o),
             ("o==a", lambda a, o: o == a), ("o!=a", lambda a, o: o != a))
_ORD_FORMS = (("a<o", lambda a, o: a < o), ("a<=o", lambda a, o: a <= o), ("a>o", lambda a, o: a > o), ("a>=o", lambda a, o: a >= o),
              ("o<a", lambda a, o: o < a), ("o<=a", lambda a, o: o <= a), ("o>a", lambda a, o: o > a), ("o>=a", lambda a, o: o >= a))


def case_cmpdata(c, out):
  """An address compared with a plain-data operand `o` (text, bytes, number, sequence, None, arbitrary object)
  that may or may not denote an address of the same class.  What the class itself says about `o` is observed by
  offering `o` to its constructor.  Laws (equality, ordering mutually consistent; == is total):
    * ==, != in both operand orders return complementary, symmetric booleans -- they never raise;
    * `o` rejected by the constructor: it is no address, so a == o is False; `o` accepted as y: a == o iff the
      octets of y are those of a;
    * membership, count and index in a list holding `o` and `a` do not depend on the order of the list;
    * the ordering operators either all decline in Python's way (TypeError) or all answer booleans; when they
      answer, exactly one of <, ==, > holds, <= and >= are the unions, a<o agrees with o>a, and if `o` was accepted
      as y every verdict equals the one against y; any other exception is a violation."""
  A, U = _mods()
  t, spec = c["t"], c["o"]
  a = _mk_addr(A, t, c["a"])
  T = type(a)
  out.nontrivial = True
  out.label("cmpdata-operand:" + spec["ty"])
  r, y = _raises(T, _operand(spec))
  if r:
    out.label("cmpdata-ctor-rejects:" + type(y).__name__)
    expect = False
  else:
    expect = y.raw == a.raw
    out.label("cmpdata-ctor-accepts-equal" if expect else "cmpdata-ctor-accepts-unequal")
  o = _operand(spec)
  shown = repr(o)[:60]
  res = {}
  for name, f in _EQ_FORMS:
    try:
      v = f(a, o)
    except Exception as e:      # noqa: BLE001 - judged: == and != are total
      out.fail("data-eq-raises", "%s: %r, o=%s: %s raises %s: %s" % (t, a, shown, name, type(e).__name__, str(e)[:80]),
               type=t, exc=type(e).__name__)
      return
    if not isinstance(v, bool):
      out.fail("data-eq-not-bool", "%s: %r, o=%s: %s returned %r" % (t, a, shown, name, v), type=t)
      return
    res[name] = v
  eq = res["a==o"]
  if eq == res["a!=o"] or res["o==a"] == res["o!=a"]:
    out.fail("data-eq-ne", "%s: %r vs %s: == and != are not complementary: %r" % (t, a, shown, res), type=t)
  if eq != res["o==a"]:
    out.fail("data-eq-asymmetric", "%s: %r == %s is %s but reversed is %s" % (t, a, shown, eq, res["o==a"]), type=t)
  if eq != expect:
    out.fail("data-eq-verdict", "%s: %r == %s is %s although the constructor %s" % (
        t, a, shown, eq, ("rejects the operand (%s)" % type(y).__name__) if r else ("reads it as %r" % (y,))), type=t)
  for name, lst in (("[o, a]", [o, a]), ("[a, o]", [a, o])):
    try:
      got = (a in lst, lst.count(a), lst.index(a))
    except Exception as e:      # noqa: BLE001 - judged
      out.fail("data-membership-raises", "%s: looking %r up in %s with o=%s raises %s" % (t, a, name, shown, type(e).__name__),
               type=t, exc=type(e).__name__)
      continue
    want = (True, 2 if expect else 1, 0 if (expect or lst[0] is a) else 1)
    if got != want:
      out.fail("data-membership", "%s: (in, count, index) of %r in %s with o=%s is %r, expected %r" % (t, a, name, shown, got, want), type=t)
  ordv, declined = {}, []
  for name, f in _ORD_FORMS:
    try:
      v = f(a, o)
    except TypeError:
      declined.append(name)
      continue
    except Exception as e:      # noqa: BLE001 - judged: an ordering operator declines with TypeError, nothing else
      out.fail("data-order-raises", "%s: %r, o=%s: %s raises %s: %s" % (t, a, shown, name, type(e).__name__, str(e)[:80]),
               type=t, exc=type(e).__name__)
      return
    if not isinstance(v, bool):
      out.fail("data-order-not-bool", "%s: %r, o=%s: %s returned %r" % (t, a, shown, name, v), type=t)
      return
    ordv[name] = v
  if declined and ordv:
    out.fail("data-order-partial", "%s: %r vs %s: some ordering operators decline (%s) and others answer (%s)" % (
        t, a, shown, ",".join(declined), ",".join(sorted(ordv))), type=t)
    return
  if declined:
    out.label("cmpdata-order-declined")
    if eq:
      out.fail("data-order-declined-equal", "%s: %r == %s yet they cannot be ordered" % (t, a, shown), type=t)
    return
  out.label("cmpdata-ordered")
  if [ordv["a<o"], eq, ordv["a>o"]].count(True) != 1:
    out.fail("data-trichotomy", "%s: %r vs %s: <,==,> = %s,%s,%s" % (t, a, shown, ordv["a<o"], eq, ordv["a>o"]), type=t)
  if ordv["a<=o"] != (ordv["a<o"] or eq) or ordv["a>=o"] != (ordv["a>o"] or eq):
    out.fail("data-le-ge", "%s: %r vs %s: <=/>= are not the unions of </>/==: %r" % (t, a, shown, ordv), type=t)
  if ordv["a<o"] != ordv["o>a"] or ordv["a>o"] != ordv["o<a"] or ordv["a<=o"] != ordv["o>=a"] or ordv["a>=o"] != ordv["o<=a"]:
    out.fail("data-order-reflected", "%s: %r vs %s: a<o and o>a (etc.) disagree: %r" % (t, a, shown, ordv), type=t)
  if not r:
    wanted = {"a<o": a < y, "a<=o": a <= y, "a>o": a > y, "a>=o": a >= y}
    if any(ordv[k] != wanted[k] for k in wanted):
      out.fail("data-order-vs-address", "%s: %r ordered against %s gives %r, against the address it denotes (%r) %r" % (
          t, a, shown, {k: ordv[k] for k in wanted}, y, wanted), type=t)


# --------------------------------------------------------------------------- binary forms of every length

_WIDTH = {"eth": 6, "ip4": 4, "ip6": 16}
# the ways each class takes octets (not text); a form listed under _BIN_DOCUMENTED is one the class documents as binary,
# so octets of the right length must be taken as they are -- the others only have to "raise or be well-formed"
_BIN_FORMS = {
  "eth": ["bytes", "bytearray", "list", "tuple"],
  "ip4": ["bytes", "bytearray", "list", "tuple"],
  "ip6": ["bytes", "bytes-raw-flag", "raw-kw", "from_raw", "bytearray", "bytearray-raw-flag", "list", "tuple"],
}
_BIN_DOCUMENTED = {
  "eth": {"bytes", "bytearray", "list", "tuple"},
  "ip4": {"bytes", "bytearray"},
  "ip6": {"bytes-raw-flag", "raw-kw", "from_raw", "bytearray", "bytearray-raw-flag"},
}


def _bin_call(A, t, form, v):
  T = {"eth": A.EthAddr, "ip4": A.IPAddr, "ip6": A.IPAddr6}[t]
  if form == "list": return T, (lambda: T(list(v)))
  if form == "tuple": return T, (lambda: T(tuple(v)))
  b = bytes(v)
  if form == "bytes": return T, (lambda: T(b))
  if form == "bytearray": return T, (lambda: T(bytearray(b)))
  if form == "bytes-raw-flag": return T, (lambda: T(b, raw=True))
  if form == "bytearray-raw-flag": return T, (lambda: T(bytearray(b), raw=True))
  if form == "raw-kw": return T, (lambda: T(raw=b))
  if form == "from_raw": return T, (lambda: T.from_raw(b))
  raise AssertionError("unknown form %r" % (form,))


def _canon_text(t, raw):
  if t == "eth": return ":".join("%02x" % b for b in raw)
  if t == "ip4": return str(ipaddress.IPv4Address(raw))
  return _ip6_canon(raw)


def case_binform(c, out):
  """Octets of ANY length (0..17) offered to a class in each of its binary forms.  'Every accepted binary form ...
  prints the canonical text, which re-parses to an equal address; malformed input is rejected rather than
  mis-parsed': the constructor must either raise or return a well-formed address -- raw is `bytes` of exactly the
  class's width, str() is the canonical text of those octets and reads back as an equal value with an equal hash.
  Octets of exactly the right length in a documented binary form must be accepted as they are."""
  A, U = _mods()
  t, form, v = c["t"], c["form"], c["v"]
  n = _WIDTH[t]
  inrange = all(isinstance(b, int) and 0 <= b <= 255 for b in v)
  exact = inrange and len(v) == n
  assert inrange or form in ("list", "tuple"), "only list/tuple forms can carry elements outside 0..255"
  T, call = _bin_call(A, t, form, v)
  out.nontrivial = True
  out.label("binform-exact-length" if len(v) == n else "binform-wrong-length")
  if not inrange:
    out.label("binform-element-out-of-range")
  r, x = _raises(call)
  if r:
    out.label("binform-rejected")
    if exact and form in _BIN_DOCUMENTED[t]:
      out.fail("binform-wellformed-rejected", "%s: %d octets %s in form %s raised %r" % (t, n, bytes(v).hex(), form, x), type=t, form=form)
    return
  out.label("binform-accepted" if len(v) == n else "binform-wrong-length-accepted-as-other-form")
  shown = (bytes(v).hex() if inrange else repr(v))
  why = None
  raw = getattr(x, "raw", None)
  if type(x) is not T:
    why = "returned a %s" % type(x).__name__
  elif type(raw) is not bytes or len(raw) != n:
    why = "the value holds %r, which is not %d octets" % (raw, n)
  else:
    r1, s = _raises(str, x)
    if r1 or s != _canon_text(t, raw):
      why = "str() gives %r, canonical text of its octets is %r" % (s, _canon_text(t, raw))
    else:
      r2, back = _raises(T, s)
      if r2 or back.raw != raw or not (back == x) or hash(back) != hash(x) or len(x) != n:
        why = "its text %r does not read back as an equal value (%r)" % (s, back)
  if why is not None:
    out.fail("binform-malformed-accepted", "%s: %d octets (%s) in form %s accepted: %s" % (t, len(v), shown, form, why), type=t, form=form)
  elif exact and form in _BIN_DOCUMENTED[t] and raw != bytes(v):
    out.fail("binform-value", "%s: octets %s in form %s became %s" % (t, shown, form, raw.hex()), type=t, form=form)


def _ref_dpid_str(d, always_long):
  lo, hi = d & 0xffffffffffff, d >> 48
  s = "-".join("%02x" % ((lo >> s) & 255) for s in range(40, -8, -8))
  if hi or always_long:
    s += "|%d" % hi
  return s


def case_dpid(c, out):
  A, U = _mods()
  d = c["v"]
  out.nontrivial = d >> 48 != 0 or c.get("long", False)
  for al in (False, True):
    s = U.dpid_to_str(d, alwaysLong=al)
    if s != _ref_dpid_str(d, al):
      out.fail("dpid-format", "dpid_to_str(%#x, alwaysLong=%s) = %r, expected %r" % (d, al, s, _ref_dpid_str(d, al)))
    r, back = _raises(U.str_to_dpid, s)
    if r or back != d:
      out.fail("dpid-roundtrip", "str_to_dpid(%r) -> %r, expected %#x" % (s, back, d), long=al)
  for s in ("%x" % d, "0x%x" % d, "0X%X" % d):
    r, back = _raises(U.str_to_dpid, s)
    if r or back != d:
      out.fail("dpid-hex", "str_to_dpid(%r) -> %r, expected %#x" % (s, back, d))
  if U.dpid_to_str(struct.pack("!Q", d)) != _ref_dpid_str(d, False):
    out.fail("dpid-format-bytes", "dpid_to_str(bytes) differs for %#x" % d)


def case_dpidbad(c, out):
  A, U = _mods()
  out.nontrivial = True
  r, v = _raises(U.str_to_dpid, c["text"])
  if not r:
    out.fail("dpid-malformed-accepted", "str_to_dpid(%r) returned %r" % (c["text"], v))


_CASES = {
  "ip4": case_ip4, "ip4net": case_ip4net, "ip4cidr": case_ip4cidr, "ip4infer": case_ip4infer,
  "ip4badmask": case_ip4badmask, "ip4text": case_ip4text,
  "ip6": case_ip6, "ip6text": case_ip6text, "ip6bad": case_ip6bad, "ip6net": case_ip6net,
  "ip6cidr": case_ip6cidr, "ip6badmask": case_ip6badmask,
  "eth": case_eth, "ethnone": case_ethnone, "ethbad": case_ethbad, "cmp": case_cmp, "cmpforeign": case_cmpforeign, "cmpcross": case_cmpcross,
  "dpid": case_dpid, "dpidbad": case_dpidbad, "ethtext": case_ethtext, "cidrtext": case_cidrtext,
  "cmpdata": case_cmpdata, "binform": case_binform,
}


def run_case(case):
  out = Outcome()
  out.label("kind:" + case["k"])
  _CASES[case["k"]](case, out)
  return out


# --------------------------------------------------------------------------- enumerations

_B4 = [0, 1, 2, 0x7f, 0x80, 0xff, 0x100, 0xffff, 0x10000, 0x7fffffff, 0x80000000, 0x80000001,
       0xfffffffe, 0xffffffff, 0x0a000001, 0xc0a80101, 0xe0000001, 0xf0000001, 0x01020304, 0x04030201,
       0xac100000, 0x7f000001, 0x00ff00ff, 0xff00ff00, 0x55555555, 0xaaaaaaaa]


def enum_ip4(tier):
  bgs = [(0, 0, 0, 0), (255, 255, 255, 255), (1, 2, 3, 4)]
  if tier == "thorough":
    bgs += [(10, 0, 0, 1), (127, 128, 129, 130), (254, 1, 254, 1), (192, 168, 1, 1), (0, 255, 0, 255),
            (128, 0, 0, 0), (0, 0, 0, 128), (224, 0, 0, 251), (100, 100, 100, 100)]
  for bg in bgs:
    for pos in range(4):
      for v in range(256):
        o = list(bg)
        o[pos] = v
        yield {"k": "ip4", "raw": bytes(o)}
  for n in _B4:
    yield {"k": "ip4", "raw": n.to_bytes(4, "big")}
    yield {"k": "ip4infer", "addr": n}
  for top in (0, 1, 10, 126, 127, 128, 172, 191, 192, 223, 224, 239, 240, 255):
    for rest in (0, 1, 0x010000, 0x000100, 0xffffff, 0x00ff00):
      yield {"k": "ip4infer", "addr": (top << 24) | rest}


def _net_probe_addrs(net, plen, width):
  full = (1 << width) - 1
  mask = (full << (width - plen)) & full
  host = ~mask & full
  cand = [net, net | host, (net + 1) & full, (net - 1) & full, (net + host + 1) & full, net | (host >> 1),
          net ^ (1 << (width - 1)), net ^ 1]
  if plen > 0:
    cand.append(net ^ (1 << (width - plen)))          # lowest network bit flipped: outside
  if plen < width:
    cand.append(net ^ (1 << (width - plen - 1)))      # highest host bit flipped: inside
  seen = []
  for a in cand:
    if a not in seen:
      seen.append(a)
  return seen


def enum_ip4net(tier):
  bases = [0x0a0b0c0d, 0xffffffff, 0x80000000, 0xc0a80180, 0x01020304]
  for plen in range(33):
    mask = (0xffffffff << (32 - plen)) & 0xffffffff
    for base in bases:
      net = base & mask
      for a in _net_probe_addrs(net, plen, 32):
        for style in _STYLES4:
          yield {"k": "ip4net", "addr": a, "net": net, "plen": plen, "style": style}
      for style in ("cidr", "mask"):
        for ah in (False, True):
          yield {"k": "ip4cidr", "addr": net, "plen": plen, "allow_host": ah, "style": style}
          yield {"k": "ip4cidr", "addr": base, "plen": plen, "allow_host": ah, "style": style}
  # non-contiguous masks: every pair (i, j) of a cleared bit above a set bit
  for i in range(32):
    for j in range(i):
      m = 0xffffffff & ~(1 << i)
      m &= ~((1 << j) - 1)
      # m has bit i cleared, bits below j cleared, bit j set -> non contiguous if j < i
      if m & (1 << j) and ((~m & 0xffffffff) & ((~m & 0xffffffff) + 1)) != 0:
        yield {"k": "ip4badmask", "mask": m}
  for m in (0x00ff0000, 0xff00ff00, 0x0000ffff, 0x7fffffff, 0x00000001, 0xfffffffd, 0xfeffffff, 0x80000001):
    yield {"k": "ip4badmask", "mask": m}


_IP4_BAD = [
  ("1.2.3.4.5", "five-groups"), ("1.2.3.4.5.6", "six-groups"), ("", "empty"), ("256.1.1.1", "octet-gt-255"),
  ("1.256.1.1", "octet-gt-255"), ("1.1.256.1", "octet-gt-255"), ("1.1.1.256", "octet-gt-255"), ("1.2.3.999", "octet-gt-255"),
  ("1.2.3.a", "non-digit"), ("a.b.c.d", "non-digit"), ("1.2.x3.4", "non-digit"), ("1,2,3,4", "non-digit"),
  ("1.2.3.-4", "non-digit"), ("1..3.4", "empty-group"), (".1.2.3", "empty-group"), ("1.2.3.4.", "trailing-dot"),
  ("1.2.3.4/8", "slash"), ("hello", "non-digit"), ("1.2.3.4x", "trailing-junk"), ("::1", "ipv6-text"),
]
_IP4_AMBIG = ["10.1", "1.2.3", "127.1", "01.02.03.04", "1.2.3.4 ", "0x7f.1", "1", "4294967295", "010.1.1.1"]


def enum_ip4text(tier):
  for t, cls in _IP4_BAD:
    yield {"k": "ip4text", "text": t, "must_raise": True, "cls": cls}
  for t in _IP4_AMBIG:
    yield {"k": "ip4text", "text": t}
  for n in _B4:
    yield {"k": "ip4text", "text": str(ipaddress.IPv4Address(n))}


_FILL6 = [(1,) * 8, (0xffff,) * 8, (0x1, 0x20, 0x300, 0x4000, 0xa, 0xbc, 0xdef, 0xfedc)]


def enum_ip6(tier):
  mac = bytes.fromhex("021122aabbcc")
  for pattern in range(256):
    for fi, fill in enumerate(_FILL6):
      groups = [0 if pattern & (1 << (7 - i)) else fill[i] for i in range(8)]
      raw = b"".join(struct.pack("!H", g) for g in groups)
      yield {"k": "ip6", "raw": raw, "mac": mac if fi == 0 else None}
      if fi == 2:
        # every textual rendering choice of the zero runs for this pattern
        runs = []
        i = 0
        while i < 8:
          if groups[i] == 0:
            j = i
            while j < 8 and groups[j] == 0:
              j += 1
            for s in range(i, j):
              for l in range(1, j - s + 1):
                runs.append([s, l])
            i = j
          else:
            i += 1
        for run in [None] + runs:
          for pad, upper in ((0, False), (3, True)):
            yield {"k": "ip6text", "groups": groups, "spec": {"run": run, "pad": [pad] * 8, "upper": [upper] * 8, "v4": False}}
          if run is None or run[0] + run[1] <= 6:
            yield {"k": "ip6text", "groups": groups, "spec": {"run": run, "pad": [0] * 8, "upper": [False] * 8, "v4": True}}
  # special addresses
  for t in ("::", "::1", "::ffff:1.2.3.4", "::ffff:255.255.255.255", "::ffff:0.0.0.0", "::1.2.3.4", "ff02::1", "fe80::1",
            "2001:db8::", "64:ff9b::c000:221", "::fffe:1.2.3.4", "0:0:0:0:0:ffff:102:304", "1::", "::2:3:4:5:6:7:8",
            "1:2:3:4:5:6:7::", "1:0:0:2:0:0:0:3", "1:0:0:0:2:0:0:3", "0:0:1:0:0:1:0:0", "1:0:1:0:1:0:1:0"):
    yield {"k": "ip6", "raw": ipaddress.IPv6Address(t).packed, "mac": bytes.fromhex("ffffffffffff")}


_IP6_BAD = [
  ("1::2::3", "two-double-colons"), ("::1::", "two-double-colons"), ("1:2:3:4:5:6:7:8:9", "nine-groups"),
  ("1:2:3:4:5:6:7:8:9:a", "ten-groups"), ("12345::1", "group-gt-ffff"), ("1::fffff", "group-gt-ffff"),
  ("1:2:3:4:5:6:7:10000", "group-gt-ffff"), ("g::1", "non-hex"), ("1:2:3:4:5:6:7:zz", "non-hex"), ("1::-1", "non-hex"),
  ("::1.2.3.256", "bad-v4-tail"), ("::1.2.3.4.5", "bad-v4-tail"), ("::1.2.x.4", "bad-v4-tail"), ("::ffff:999.1.1.1", "bad-v4-tail"),
  ("", "empty"), ("1", "one-group"), ("hello", "non-hex"), ("1.2.3.4", "ipv4-text"),
  ("1:2:3:4:5:6:7", "seven-groups-no-gap"), ("1:2:3", "three-groups-no-gap"), ("1:2:3:4:5:6:1.2.3.4:7", "v4-not-last"),
]
_IP6_AMBIG = [":::", "1:2:3:4:5:6:7:8::", "::1:2:3:4:5:6:7:8", ":1:2:3:4:5:6:7", "1:2:3:4:5:6:7:", "::1.2.3", "1::2/64", " ::1", "::1 ", "1:::2",
              ":1::", ":1::2", "1::2:", "::1:", ":", "1:", ":1", "1::2:3:4:5:6:7:8", "::00008", "1:2:3:4:5:6:7:8:"]


_NOT_HEX_GROUPS = ["+1", "-1", "0x1", "0X1f", "1_0", " 1", "1 ", "\t1", "1\n", "\u0663", "1\u0661", "\uff11", "g", "1g", "+", "0x", "_1", "1_", "++1", "1e+1", "1.", "0b1", "0o7", "1L", "\xb2"]


def enum_ip6bad(tier):
  for t, cls in _IP6_BAD:
    yield {"k": "ip6bad", "text": t, "must_raise": True, "cls": cls}
  for g in _NOT_HEX_GROUPS:
    for tmpl in ("%s::", "::%s", "1::%s", "%s::1", "1:2:3:4:5:6:7:%s", "%s:2:3:4:5:6:7:8", "1:2:3:%s:5:6:7:8", "::%s:1.2.3.4", "%s::1.2.3.4"):
      if "." in g and tmpl.endswith("%s"):
        continue          # would read as a (bad) dotted part, a different class
      yield {"k": "ip6bad", "text": tmpl % g}
  for t in _IP6_AMBIG:
    yield {"k": "ip6bad", "text": t}


def enum_ip6net(tier):
  full = (1 << 128) - 1
  bases = [0x20010db8000000010002000300040005, full, 1 << 127, 0xfe80000000000000021122fffeaabbcc]
  if tier == "thorough":
    for i in range(60):
      bases.append(((0x9e3779b97f4a7c15f39cc0605cedc835 * (i + 1)) ^ (1 << (i * 2))) & full)
  for plen in range(129):
    mask = (full << (128 - plen)) & full
    for bi, base in enumerate(bases):
      net = base & mask
      probes = _net_probe_addrs(net, plen, 128)
      styles = _STYLES6 if bi < 4 else ["cidr", "tuple-obj"]
      for a in probes:
        for style in styles:
          yield {"k": "ip6net", "addr": a, "net": net, "plen": plen, "style": style}
      for style in ("cidr", "mask", "plain"):
        for ah in (False, True):
          yield {"k": "ip6cidr", "addr": net, "plen": plen, "allow_host": ah, "style": style}
          yield {"k": "ip6cidr", "addr": base, "plen": plen, "allow_host": ah, "style": style}
  for i in range(2, 128, 3):
    for j in range(0, i - 1, 7):
      m = full & ~(1 << i)
      m &= ~((1 << j) - 1)
      yield {"k": "ip6badmask", "mask": m}
  for m in (1, full >> 1, (full << 64 & full) | 1, 0xffff0000ffff0000 << 64):
    yield {"k": "ip6badmask", "mask": m & full}


_ETH_VALUES = [bytes.fromhex(h) for h in (
  "000000000000", "ffffffffffff", "0180c2000000", "0180c200000e", "0180c200000f", "0180c2000010", "0180c2000100",
  "010203040506", "0a0b0c0d0e0f", "a0b0c0d0e0f0", "01005e7f0001", "333300000001", "020000000001", "fe0000000000",
  "123456789abc", "00000000000a", "0a0000000000", "0f0e0d0c0b0a")]
_ETH_BAD = [
  ("aa:bb:cc:dd:ee", "five-groups"), ("aa:bb:cc:dd:ee:ff:00", "seven-groups"), ("a:b:c:d:e", "five-groups"),
  ("1:2:3:4:5:6:7", "seven-groups"), ("gg:bb:cc:dd:ee:ff", "non-hex"), ("aa:bb:cc:dd:ee:fg", "non-hex"),
  ("aabbccddeefg", "non-hex"), ("x:1:2:3:4:5", "non-hex"), ("aa:bb-cc:dd-ee:ff", "mixed-separators"),
  ("aa-bb:cc-dd:ee-ff", "mixed-separators"), ("aa:bb:cc:dd:ee-ff", "mixed-separators"), ("aa.bb.cc.dd.ee.ff", "bad-separator"),
  ("aabbccddee", "ten-digits"), ("aabbccddeeff00", "fourteen-digits"), ("", "empty"), ("aa:bb:cc:dd:ee:fff", "group-too-long"),
  ("100:2:3:4:5:6", "group-gt-ff"), ("1:2:3:4:5:100", "group-gt-ff"), ("1:2:300:4:5:6", "group-gt-ff"), ("aa:bb:cc:dd:ee:", "empty-group"),
]


def enum_eth(tier):
  for shape in itertools.product((1, 2), repeat=6):
    for raw in (bytes.fromhex("010203040506"), bytes.fromhex("0a0b0c0d0e0f"), bytes.fromhex("0f000a00010c")):
      yield {"k": "eth", "raw": raw, "shape": list(shape)}
  for raw in _ETH_VALUES:
    yield {"k": "eth", "raw": raw, "shape": [2] * 6}
    yield {"k": "eth", "raw": raw, "shape": [1] * 6}
  for pos in range(6):
    for v in range(256):
      o = bytearray(b"\x02\x00\x00\x00\x00\x01")
      o[pos] = v
      yield {"k": "eth", "raw": bytes(o), "shape": [1, 2, 1, 2, 1, 2]}
  yield {"k": "ethnone"}
  for t, cls in _ETH_BAD:
    yield {"k": "ethbad", "text": t, "cls": cls}


_CIDR_SUFFIX_BAD = [("8/junk", "second-slash"), ("8/", "second-slash"), ("8/8", "second-slash"), ("/8", "second-slash"),
                    ("+8", "sign"), ("-1", "sign"), ("-0", "sign"), (" 8", "blank"), ("8 ", "blank"), ("\t8", "blank"), ("8\n", "blank"),
                    ("", "empty"), ("\u0668", "non-ascii-digit"), ("\uff18", "non-ascii-digit"), ("1_0", "underscore"), ("0x8", "radix"),
                    ("8.0", "fraction"), ("1e1", "fraction"), ("eight", "word")]


def enum_textforms(tier):
  """curated + structural text classes for EthAddr and the two parse_cidr functions"""
  base = ["1", "2", "3", "4", "5", "6"]
  for pos in range(6):
    for g in _NOT_HEX_GROUPS + ["", "100", "0f0", "fff"]:
      groups = list(base)
      groups[pos] = g
      yield {"k": "ethtext", "text": ":".join(groups)}
      two = ["0" + x for x in base]
      two[pos] = g
      yield {"k": "ethtext", "text": ":".join(two)}
      if len(g) == 2:
        yield {"k": "ethtext", "text": "-".join(two)}
        yield {"k": "ethtext", "text": "".join(two)}
  for t in ("1:2:3:4:5:6", "01:02:03:04:05:06", "a:B:c:D:e:F", "0a-0b-0c-0d-0e-0f", "0a0b0c0d0e0f", "1:2:3:4:5:6 ", " 1:2:3:4:5:6",
            "+1:+2:+3:+4:+5:+6", "+1+2+3+4+5+6", " 1 2 3 4 5 6", "0x0x0x0x0x0x", "1_2_3_4_5_"):
    yield {"k": "ethtext", "text": t}
  for fam, addrs in ((4, ["0.0.0.0", "10.0.0.0", "128.0.0.0"]), (6, ["::", "fe80::", "8000::"])):
    top = 32 if fam == 4 else 128
    for a in addrs:
      for sfx, cls in _CIDR_SUFFIX_BAD:
        yield {"k": "cidrtext", "fam": fam, "text": a + "/" + sfx, "cls": cls}
      for n in (0, 1, 8 if a not in ("128.0.0.0", "8000::") else 1, top + 1, top + 2, 256, 1000, 10 ** 12):
        yield {"k": "cidrtext", "fam": fam, "text": "%s/%d" % (a, n), "cls": "number"}
      for n in (1, 8):
        yield {"k": "cidrtext", "fam": fam, "text": "%s/%02d" % (a, n), "cls": "leading-zero"}
        yield {"k": "cidrtext", "fam": fam, "text": "%s/%s" % (a, "0" * 40 + str(n)), "cls": "leading-zero"}


def enum_cmp(tier):
  v4 = [n.to_bytes(4, "big") for n in (0, 1, 2, 0x100, 0x01000000, 0x02000000, 0x7fffffff, 0x80000000, 0xffffffff, 0xff, 0x80)]
  for a, b, c in itertools.product(v4, repeat=3):
    yield {"k": "cmp", "t": "ip4", "a": a, "b": b, "c": c}
  v6 = [n.to_bytes(16, "big") for n in (0, 1, 1 << 64, 1 << 127, (1 << 128) - 1, 0xff << 120, 0x0100)]
  for a, b, c in itertools.product(v6, repeat=3):
    yield {"k": "cmp", "t": "ip6", "a": a, "b": b, "c": c}
  ve = [bytes.fromhex(h) for h in ("000000000000", "000000000001", "010000000000", "00ff00000000", "ffffffffffff", "800000000000", "7fffffffffff")]
  for a, b, c in itertools.product(ve, repeat=3):
    yield {"k": "cmp", "t": "eth", "a": a, "b": b, "c": c}
  for t, vals in (("ip4", v4), ("ip6", v6), ("eth", ve)):
    for a in vals:
      for o in _FOREIGN:
        yield {"k": "cmpforeign", "t": t, "a": a, "o": o}


_MAPPED = b"\0" * 10 + b"\xff\xff"
_MAPPED_INT = 0xffff << 32


def enum_cmpcross(tier):
  v4 = [n.to_bytes(4, "big") for n in (0, 1, 0x01020304, 0x01020305, 0x7fffffff, 0x80000000, 0xffffffff, 0xe0000001)]
  v6 = [_MAPPED + r for r in v4] + [b"\0" * 12 + r for r in v4[:4]] + \
       [n.to_bytes(16, "big") for n in (0, 1, 1 << 127, (1 << 128) - 1, 0x20010db8 << 96 | 0x01020304, 0xffff << 48)]
  ve = [bytes.fromhex(h) for h in ("000000000000", "000001020304", "010203040000", "ffffffffffff", "0000ffff0102")]
  fam = {"ip4": v4, "ip6": v6, "eth": ve}
  for tx, ty in (("ip4", "ip6"), ("ip6", "ip4"), ("ip4", "eth"), ("eth", "ip4"), ("ip6", "eth"), ("eth", "ip6")):
    for x in fam[tx]:
      for y in fam[ty]:
        yield {"k": "cmpcross", "tx": tx, "x": x, "ty": ty, "y": y}


_JUNK_TEXTS = ["localhost", "any", " ", "None", "10.0.0.0/8", "fe80::/64", "::ffff:1.2.3.999", "fe80::1.2.3", "zz:zz:zz:zz:zz:zz",
               "\0", "1.2.3.4\0", "\u0661.2.3.4", "1.2.3.4\n", "0x1.2.3.4", "1.2.3.4 x", "00:11:22:33:44:55", "fe80::1", "10.0.0.1",
               "not an address", "1-2-3-4-5-6", "00-11-22-33-44-55", "001122334455", "4294967296", "-1"]
_BIN_LENGTHS = [0, 1, 2, 3, 4, 5, 6, 7, 8, 12, 15, 16, 17]


def _data_operands(t, raw):
  """plain-data operands for an address of class t with octets raw: texts (its own, a neighbour's, every curated
  malformed / ambiguous text of all three families, junk), octet strings and sequences of every length, numbers, None..."""
  n = _WIDTH[t]
  other = bytes([raw[0] ^ 0x80]) + raw[1:]
  texts = [_canon_text(t, raw), _canon_text(t, raw).upper(), _canon_text(t, other)]
  texts += [x for x, _ in _IP4_BAD] + _IP4_AMBIG + [x for x, _ in _IP6_BAD] + _IP6_AMBIG + [x for x, _ in _ETH_BAD] + _JUNK_TEXTS
  seen = set()
  for x in texts:
    if x not in seen:
      seen.add(x)
      yield {"ty": "text", "v": x}
  octs = [raw, other, raw + b"\0", raw[:-1], b"\xff\xfe\x00", _canon_text(t, raw).encode(), _canon_text(t, other).encode(), b"localhost",
          b"1.2.3.256", b"::1"] + [bytes(range(1, k + 1)) for k in _BIN_LENGTHS] + [b"1" * k for k in (1, 5, 12)]
  for b in octs:
    yield {"ty": "bytes", "v": b}
    yield {"ty": "bytearray", "v": b}
  for v in (0, 1, 5, -1, int.from_bytes(raw, "big"), 1 << 31, (1 << 32) - 1, 1 << 32, (1 << 128) - 1, 1 << 128, 1 << 200):
    yield {"ty": "int", "v": v}
  for v in (12, 0, -20):
    yield {"ty": "float", "v": v}
  for ty in ("none", "object", "dict"):
    yield {"ty": ty}
  seqs = [list(raw), list(other)] + [list(range(1, k + 1)) for k in _BIN_LENGTHS] + [[1, 2, 3, 4, 5, 256][-n:], [-1] * n, [0] * (n + 1)]
  for v in seqs:
    yield {"ty": "list", "v": v}
    yield {"ty": "tuple", "v": v}


def enum_cmpdata(tier):
  vals = {"ip4": [0x0a000001, 0, 0xffffffff], "ip6": [0xfe80 << 112 | 1, _MAPPED_INT | 0x0a000001, 0], "eth": [0x001122334455, 0xffffffffffff, 0]}
  for t in ("ip4", "ip6", "eth"):
    for v in vals[t]:
      raw = v.to_bytes(_WIDTH[t], "big")
      for o in _data_operands(t, raw):
        yield {"k": "cmpdata", "t": t, "a": raw, "o": o}


def enum_binform(tier):
  """octets of every length 0..8, 12, 15, 16, 17 in every binary form of every class; fills: ascending, zero, ff,
  ASCII digits / hex digits (lengths at which a class takes bytes for text), plus out-of-range sequence elements"""
  for t in ("eth", "ip4", "ip6"):
    for form in _BIN_FORMS[t]:
      for k in _BIN_LENGTHS:
        for fill in (list(range(1, k + 1)), [0] * k, [255] * k, [0x31 + (i % 9) for i in range(k)], [0x61 + (i % 6) for i in range(k)]):
          yield {"k": "binform", "t": t, "form": form, "v": fill}
      if form in ("list", "tuple"):
        n = _WIDTH[t]
        for bad in ([256] + [0] * (n - 1), [0] * (n - 1) + [-1], [1 << 40] * n, [256] * (n + 1), [-1]):
          yield {"k": "binform", "t": t, "form": form, "v": bad}


_V4_TAILS = ["1.2", "1.2.3", "1", "1.2.3.4.5", "1..3.4", ".1.2.3", "1.2.3.", "1.2.3.4.", "0x1.2.3.4", "1.2.3.0x4", "1.2.3.4 ", "1.2.3.4 x",
             " 1.2.3.4", "1.2.3.4\n", "+1.2.3.4", "1.2.3.-4", "1.2.3.256", "256.1.1.1", "1.2.3.999", "1.2.3.1000", "1.2.3.a", "a.b.c.d",
             "\u0661.2.3.4", "1.2.3.\u0664", "1_0.2.3.4", "1.2.3.4.5.6", "16909060.", "1.131844", "1.2.772", "0.0", "0.",
             "010.1.1.1", "01.2.3.4", "1.2.3.04", "1.02.3.4", "00.0.0.0", "1.2.3.010", "0001.2.3.4", "001.002.003.004", "1.2.3.0377",
             "1.2.3.4", "0.0.0.0", "255.255.255.255", "10.0.0.1"]
_V4_HEADS = ["::", "::ffff:", "1::", "1:2:3:4:5:6:", "64:ff9b::", "::1:", "1:2:3::", "0:0:0:0:0:ffff:"]


def enum_ip6tail(tier):
  """IPv6 mixed notation: every well-formed hex part x every curated dotted tail (well-formed, BSD short forms, radix
  prefixes, blanks, junk, out-of-range, leading zeros), plus hex groups of more than four digits"""
  for h in _V4_HEADS:
    for tl in _V4_TAILS:
      yield {"k": "ip6bad", "text": h + tl}
  for g in ("00001", "0ffff", "00000", "000000001", "0" * 20 + "1", "00abc", "0ABCD", "10000", "012345", "fffff", "00010000"):
    for tmpl in ("%s::", "::%s", "1::%s", "%s::1", "1:2:3:4:5:6:7:%s", "%s:2:3:4:5:6:7:8", "1:2:3:%s:5:6:7:8", "1:%s::8", "::%s:1.2.3.4", ":%s", "%s:", "1:2:%s"):
      yield {"k": "ip6bad", "text": tmpl % g}


def enum_dpid(tier):
  vals = set()
  for sh in range(0, 64):
    for d in (-1, 0, 1):
      vals.add(((1 << sh) + d) & 0xffffffffffffffff)
  vals |= {0, 1, 0xffffffffffff, 0x1000000000000, 0xffffffffffffffff, 0x0001000000000001, 0xffff000000000000,
           0x00000000000000ff, 0x123456789abcdef0, 0x8000000000000000, 0x7fffffffffffffff, 0x0000ffffffffffff + 1}
  for v in sorted(vals):
    yield {"k": "dpid", "v": v, "long": True}
  for t in ("zz", "00-00-00-00-00-0g", "", "0x", "1|x", "hello|1"):
    yield {"k": "dpidbad", "text": t}


def _all_enum(tier):
  return itertools.chain(enum_ip4(tier), enum_ip4net(tier), enum_ip4text(tier), enum_ip6(tier), enum_ip6bad(tier),
                         enum_ip6net(tier), enum_eth(tier), enum_cmp(tier), enum_cmpcross(tier), enum_dpid(tier),
                         enum_textforms(tier), enum_cmpdata(tier), enum_binform(tier), enum_ip6tail(tier))


# --------------------------------------------------------------------------- Hypothesis strategies

def _u(bits):
  m = (1 << bits) - 1
  edge = [0, 1, m, m - 1, 1 << (bits - 1), (1 << (bits - 1)) - 1]
  return st.one_of(st.sampled_from(edge), st.integers(0, m),
                   st.integers(0, bits - 1).map(lambda s: 1 << s),
                   st.tuples(st.integers(0, bits), st.integers(0, m)).map(lambda t: (t[1] >> t[0]) << t[0] & m))


def _raw(n):
  return _u(8 * n).map(lambda v: v.to_bytes(n, "big"))


@st.composite
def _s_net(draw, width, kind, styles):
  full = (1 << width) - 1
  plen = draw(st.integers(0, width))
  base = draw(_u(width))
  mask = (full << (width - plen)) & full
  net = base & mask
  probes = _net_probe_addrs(net, plen, width)
  a = draw(st.one_of(st.sampled_from(probes), _u(width), _u(width).map(lambda h: net | (h & ~mask & full))))
  return {"k": kind, "addr": a, "net": net, "plen": plen, "style": draw(st.sampled_from(styles))}


@st.composite
def _s_cidr(draw, width, kind, styles):
  return {"k": kind, "addr": draw(_u(width)), "plen": draw(st.integers(0, width)),
          "allow_host": draw(st.booleans()), "style": draw(st.sampled_from(styles))}


@st.composite
def _s_badmask(draw, width, kind):
  full = (1 << width) - 1
  i = draw(st.integers(1, width - 1))
  j = draw(st.integers(0, i - 1))
  m = draw(_u(width)) | (1 << j)
  m &= ~(1 << i)
  m &= full
  inv = ~m & full
  if inv & (inv + 1) == 0:      # became contiguous by accident: force a hole
    m = (full & ~(1 << i)) & ~((1 << j) - 1)
  return {"k": kind, "mask": m}


@st.composite
def _s_ip6text(draw):
  groups = draw(st.lists(st.one_of(st.just(0), st.just(0), st.sampled_from([1, 0xf, 0x10, 0xff, 0x100, 0xfff, 0x1000, 0xffff]), st.integers(0, 0xffff)), min_size=8, max_size=8))
  v4 = draw(st.booleans())
  n = 6 if v4 else 8
  runs = [None]
  for s in range(n):
    for l in range(1, n - s + 1):
      if not any(groups[s:s + l]):
        runs.append([s, l])
  return {"k": "ip6text", "groups": groups, "spec": {
      "run": draw(st.sampled_from(runs)), "pad": draw(st.lists(st.integers(0, 3), min_size=8, max_size=8)),
      "upper": draw(st.lists(st.booleans(), min_size=8, max_size=8)), "v4": v4}}


_TEXT_ALPHABET4 = "0123456789.:/ax-"
_TEXT_ALPHABET6 = "0123456789abcdefg:.:/"


def _strategy(tier):
  cmp_s = st.one_of(
    st.tuples(st.just("ip4"), _raw(4), _raw(4), _raw(4)), st.tuples(st.just("ip6"), _raw(16), _raw(16), _raw(16)),
    st.tuples(st.just("eth"), _raw(6), _raw(6), _raw(6))).map(lambda t: {"k": "cmp", "t": t[0], "a": t[1], "b": t[2], "c": t[3]})
  return st.one_of(
    _raw(4).map(lambda r: {"k": "ip4", "raw": r}),
    _s_net(32, "ip4net", _STYLES4), _s_cidr(32, "ip4cidr", ["cidr", "mask"]),
    _u(32).map(lambda a: {"k": "ip4infer", "addr": a}), _s_badmask(32, "ip4badmask"),
    st.text(_TEXT_ALPHABET4, max_size=18).map(lambda t: {"k": "ip4text", "text": t}),
    st.lists(st.integers(0, 300), min_size=3, max_size=5).map(lambda l: {"k": "ip4text", "text": ".".join(map(str, l))}),
    st.tuples(_raw(16), st.one_of(st.none(), _raw(6))).map(lambda t: {"k": "ip6", "raw": t[0], "mac": t[1]}),
    _raw(4).map(lambda r: {"k": "ip6", "raw": b"\0" * 10 + b"\xff\xff" + r, "mac": None}),
    _s_ip6text(), _s_ip6text(),
    st.text(_TEXT_ALPHABET6, max_size=30).map(lambda t: {"k": "ip6bad", "text": t}),
    _s_ip6_decorated(),
    _s_net(128, "ip6net", _STYLES6), _s_cidr(128, "ip6cidr", ["cidr", "mask", "plain"]), _s_badmask(128, "ip6badmask"),
    st.tuples(_raw(6), st.lists(st.sampled_from([1, 2]), min_size=6, max_size=6)).map(lambda t: {"k": "eth", "raw": t[0], "shape": t[1]}),
    cmp_s,
    st.one_of(st.tuples(st.just("ip4"), _raw(4)), st.tuples(st.just("ip6"), _raw(16)), st.tuples(st.just("eth"), _raw(6))).flatmap(
        lambda t: st.sampled_from(_FOREIGN).map(lambda o: {"k": "cmpforeign", "t": t[0], "a": t[1], "o": o})),
    st.tuples(_u(64), st.booleans()).map(lambda t: {"k": "dpid", "v": t[0], "long": t[1]}),
    _s_cmpcross(),
    _s_ethtext(), _s_cidrtext(),
    _s_cmpdata(), _s_cmpdata(), _s_binform(), _s_ip6tail(),
  )


def _s_ethtext():
  """six groups joined by ':' (sometimes '-' or nothing); each group is 1..2 hex digits or, for one or two of them, a
  decorated / foreign group -- so both verdict classes (must accept with exact octets, must reject) are common"""
  good = st.one_of(st.integers(0, 255).map(lambda v: "%x" % v), st.integers(0, 255).map(lambda v: "%02x" % v),
                   st.integers(0, 255).map(lambda v: "%02X" % v))
  bad = st.one_of(st.sampled_from(_NOT_HEX_GROUPS + ["", "100", "fff"]),
                  st.tuples(st.sampled_from(["+", "0x", " ", "\t", "_", "-"]), good).map(lambda t: t[0] + t[1]),
                  st.tuples(good, st.sampled_from([" ", "\n", "_", "\u0660", "h"])).map(lambda t: t[0] + t[1]))
  def build(t):
    groups, nbad, positions, bads, sep = t
    g = list(groups)
    for i in range(nbad):
      g[positions[i] % 6] = bads[i]
    return {"k": "ethtext", "text": sep.join(g)}
  return st.tuples(st.lists(good, min_size=6, max_size=6), st.sampled_from([0, 0, 1, 1, 1, 2]), st.lists(st.integers(0, 5), min_size=2, max_size=2),
                   st.lists(bad, min_size=2, max_size=2), st.sampled_from([":", ":", ":", "-", ""])).map(build)


def _s_cidrtext():
  digits = st.one_of(st.integers(0, 140).map(str), st.integers(0, 140).map(lambda n: "%03d" % n))
  deco = st.one_of(st.sampled_from([s for s, _ in _CIDR_SUFFIX_BAD]),
                   st.tuples(st.sampled_from(["+", "-", " ", "\t", "0x", "_"]), digits).map(lambda t: t[0] + t[1]),
                   st.tuples(digits, st.sampled_from([" ", "\n", "/", "/8", "_", "\u0660", "."])).map(lambda t: t[0] + t[1]),
                   digits, digits)
  return st.tuples(st.sampled_from([(4, "0.0.0.0"), (4, "10.0.0.0"), (6, "::"), (6, "fe80::")]), deco).map(
      lambda t: {"k": "cidrtext", "fam": t[0][0], "text": t[0][1] + "/" + t[1]})


def _s_ip6_decorated():
  """A well-formed IPv6 text with one group replaced by something int(x, 16) would swallow but that is not hex."""
  grp = st.integers(0, 0xffff).map(lambda v: "%x" % v)
  deco = st.one_of(st.sampled_from(_NOT_HEX_GROUPS),
                   st.tuples(st.sampled_from(["+", "0x", "0X", " ", "\t", "_"]), grp).map(lambda t: t[0] + t[1]),
                   st.tuples(grp, st.sampled_from([" ", "\n", "_", "\u0660"])).map(lambda t: t[0] + t[1]),
                   st.tuples(st.sampled_from("123456789abcdef"), st.sampled_from("0123456789abcdef")).map(lambda t: t[0] + "_" + t[1]))
  def build(t):
    groups, pos, d, compress = t
    g = list(groups)
    g[pos] = d
    if compress and pos >= 2:
      return "::" + ":".join(g[pos:])
    if compress and pos <= 5:
      return ":".join(g[:pos + 1]) + "::"
    return ":".join(g)
  return st.tuples(st.lists(grp, min_size=8, max_size=8), st.integers(0, 7), deco, st.booleans()).map(build).filter(
      lambda t: "." not in t.split(":")[-1]).map(lambda t: {"k": "ip6bad", "text": t})


_CMPDATA_KINDS = ["near-text"] * 5 + ["listed-text"] * 3 + ["soup4", "soup6", "family-text", "text-as-bytes", "text-as-bytes",
                  "octets", "octets", "octets-bytearray", "int", "int", "float", "other", "seq", "seq", "seq-near"]
_EDIT_CHARS = list("0123456789abcdefg.:-/ x+\0")
_LISTED_TEXTS = _JUNK_TEXTS + [x for x, _ in _IP4_BAD + _IP6_BAD + _ETH_BAD] + _IP4_AMBIG + _IP6_AMBIG


@st.composite
def _s_cmpdata(draw):
  """address + plain-data operand: texts near the address's own text (equal, case-changed, one edit away), texts of the
  other families, alphabet soup, octet strings / sequences of length 0..17 near the address's octets, numbers"""
  t = draw(st.sampled_from(["ip4", "ip4", "ip6", "eth"]))
  raw = draw(_raw(_WIDTH[t]))
  kind = draw(st.sampled_from(_CMPDATA_KINDS))
  def text():
    if kind in ("near-text", "text-as-bytes"):
      canon = _canon_text(t, raw)
      how = draw(st.sampled_from(["same", "upper", "ins", "del", "sub", "sub"]))
      if how == "same": return canon
      if how == "upper": return canon.upper()
      i, ch = draw(st.integers(0, len(canon))), draw(st.sampled_from(_EDIT_CHARS))
      return canon[:i] + (ch if how != "del" else "") + canon[i + (0 if how == "ins" else 1):]
    if kind == "listed-text": return draw(st.sampled_from(_LISTED_TEXTS))
    if kind == "soup4": return draw(st.text(_TEXT_ALPHABET4, max_size=18))
    if kind == "soup6": return draw(st.text(_TEXT_ALPHABET6, max_size=30))
    ft = draw(st.sampled_from(["ip4", "ip6", "eth"]))
    return _canon_text(ft, draw(_raw(_WIDTH[ft])))
  def octets():
    how = draw(st.sampled_from(["same", "short", "long", "len", "any"]))
    if how == "same": return raw
    if how == "short": return raw[:-1]
    if how == "long": return raw + b"\0"
    k = draw(st.sampled_from(_BIN_LENGTHS)) if how == "len" else draw(st.integers(0, 17))
    return draw(st.binary(min_size=k, max_size=k))
  if kind in ("near-text", "listed-text", "soup4", "soup6", "family-text"):
    o = {"ty": "text", "v": text()}
  elif kind == "text-as-bytes":
    o = {"ty": "bytes", "v": text().encode("utf-8")}
  elif kind == "octets":
    o = {"ty": "bytes", "v": octets()}
  elif kind == "octets-bytearray":
    o = {"ty": "bytearray", "v": octets()}
  elif kind == "int":
    o = {"ty": "int", "v": draw(st.one_of(st.just(int.from_bytes(raw, "big")), st.integers(-(1 << 33), 1 << 33), _u(130)))}
  elif kind == "float":
    o = {"ty": "float", "v": draw(st.integers(-80, 80))}
  elif kind == "other":
    o = {"ty": draw(st.sampled_from(["none", "object", "dict"]))}
  elif kind == "seq-near":
    o = {"ty": draw(st.sampled_from(["list", "tuple"])), "v": list(octets())}
  else:
    o = {"ty": draw(st.sampled_from(["list", "tuple"])), "v": draw(st.lists(st.integers(-1, 256), max_size=17))}
  return {"k": "cmpdata", "t": t, "a": raw, "o": o}


def _s_binform():
  def build(tf):
    t, form = tf
    elems = st.integers(-1, 256) if form in ("list", "tuple") else st.integers(0, 255)
    v = st.one_of(st.sampled_from(_BIN_LENGTHS).flatmap(lambda k: st.lists(st.integers(0, 255), min_size=k, max_size=k)),
                  st.lists(elems, max_size=17),
                  st.lists(st.sampled_from(list(b"0123456789abcdefABCDEF:.-")), max_size=17))
    return v.map(lambda l: {"k": "binform", "t": t, "form": form, "v": l})
  return st.sampled_from([(t, f) for t in ("eth", "ip4", "ip6") for f in _BIN_FORMS[t]]).flatmap(build)


_TAIL_PARTS = ["", "0x1", "+1", " 1", "1 ", "a", "\u0661", "256", "999", "1000", "65536", "00", "010", "0377", "08", "001", "0001"]


@st.composite
def _s_ip6tail(draw):
  """a well-formed hex part ('::' anywhere, up to six groups) followed by a dotted tail of 1..6 parts -- decimal octets,
  sometimes zero-padded / octal-looking / > 255 / decorated -- or a curated tail; or a plain IPv6 text in which one group
  is written with more than four digits"""
  hexgrp = st.integers(0, 0xffff).map(lambda v: "%x" % v)
  k = draw(st.integers(0, 6))
  groups = draw(st.lists(hexgrp, min_size=k, max_size=k))
  if draw(st.integers(0, 4)) == 0:
    # over-long group in a text without dotted part
    groups = groups + ["1", "2"][:max(0, 2 - k)]
    i = draw(st.integers(0, len(groups) - 1))
    groups[i] = "0" * (5 - len(groups[i]) + draw(st.integers(0, 3))) + groups[i]
    if len(groups) == 8:
      return {"k": "ip6bad", "text": ":".join(groups)}
    cut = draw(st.integers(0, len(groups)))
    return {"k": "ip6bad", "text": ":".join(groups[:cut]) + "::" + ":".join(groups[cut:])}
  if k == 6:
    head = ":".join(groups) + ":"
  else:
    cut = draw(st.integers(0, k))
    head = ":".join(groups[:cut]) + "::" + ":".join(groups[cut:]) + (":" if cut < k else "")
  if draw(st.integers(0, 3)) == 0:
    tail = draw(st.sampled_from(_V4_TAILS))
  else:
    n = draw(st.sampled_from([4, 4, 4, 4, 1, 2, 3, 5, 6]))
    octet = st.integers(0, 255).map(str)
    parts = draw(st.lists(octet, min_size=n, max_size=n))
    for _ in range(draw(st.sampled_from([0, 0, 1, 1, 2]))):
      parts[draw(st.integers(0, n - 1))] = draw(st.sampled_from(_TAIL_PARTS))
    tail = ".".join(parts)
  return {"k": "ip6bad", "text": head + tail}


def _s_cmpcross():
  """Pairs of different classes; an IPv6 operand is, half the time, the mapped / compatible image of an IPv4 value
  near the other operand so that equal and adjacent pairs are common."""
  def v6_near(r4):
    return st.one_of(st.just(_MAPPED + r4), st.just(b"\0" * 12 + r4),
                     st.just(_MAPPED + ((int.from_bytes(r4, "big") + 1) & 0xffffffff).to_bytes(4, "big")),
                     st.just(_MAPPED + ((int.from_bytes(r4, "big") - 1) & 0xffffffff).to_bytes(4, "big")), _raw(16))
  p46 = _raw(4).flatmap(lambda r4: v6_near(r4).map(lambda r6: (("ip4", r4), ("ip6", r6))))
  p4e = st.tuples(st.tuples(st.just("ip4"), _raw(4)), st.tuples(st.just("eth"), _raw(6)))
  p6e = st.tuples(st.tuples(st.just("ip6"), _raw(16)), st.tuples(st.just("eth"), _raw(6)))
  return st.tuples(st.one_of(p46, p46, p4e, p6e), st.booleans()).map(
      lambda t: (lambda a, b: {"k": "cmpcross", "tx": a[0], "x": a[1], "ty": b[0], "y": b[1]})(*(t[0] if t[1] else t[0][::-1])))


def case_from_bytes(data):
  """atheris entry: the bytes are a text offered to one of the three text parsers, judged differentially
  against ipaddress (IPv4/IPv6: values must agree whenever both accept) -- the kind is the first byte."""
  if len(data) < 2:
    return None
  try:
    text = data[1:].decode("ascii")
  except UnicodeDecodeError:
    return None
  if "\0" in text:
    return None
  k = data[0] % 2
  if k == 0:
    return {"k": "ip4text", "text": text}
  return {"k": "ip6bad", "text": text}


def plan(tier):
  n = 64000 if tier == "quick" else 2000000
  return [
    Enum("grids", lambda: _all_enum(tier), shards=16),
    Hyp("generated", lambda: _strategy(tier), examples=n, shards=16),
    atheris_driver("fuzz-text", "pvf.props.c16", runs=40000 if tier == "quick" else 8000000, corpus="corpus/C16",
                   max_len=48, timeout_s=60 if tier == "quick" else 1500),
  ]
