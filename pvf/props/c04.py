"""C04 -- the flow table evolves as the OpenFlow 1.0 FLOW_MOD / timeout state machine.

A case is a history: a list of small op records (flow_mod with any of the five commands, a
data-plane packet, a virtual-clock advance, a direct expiry sweep, a flow / aggregate stats
request).  Every op is sent to a SoftwareSwitch through its byte-level connection (messages
built with our own struct code, replies decoded with our own decoder) and applied to
pvf/ref/of10_table in lock-step.  After every step: table contents, order, and every message
the switch sent are compared.
"""
import itertools

from hypothesis import strategies as st

from ..runner import Outcome, Enum, Hyp, HarnessError, exc_key
from ..ref import of10_match as M
from ..ref import of10_tablemsgs as W
from ..ref import of10_table as T
from ..ref import frames as F
from ..gen import framespec as FS
from ..sim.tableswitch import TableSwitch

ID = "C04"
LEVEL = "exploration"
TECHNIQUE = ("model-based (stateful) testing: histories of flow_mods, packets, virtual-clock advances, expiry sweeps and stats "
             "requests run against the switch and an independent OpenFlow 1.0 table model in lock-step; exhaustive short "
             "histories over a reduced alphabet plus Hypothesis-generated long ones")
LEVEL_TEXT = ("Exploration by generated histories. Every history of length <= 2 (quick) / <= 3 (thorough) over a reduced alphabet "
              "of 51 operations and of length 3 / 4 over its 17-op core is enumerated, with and without the ExpireMixin timer; Hypothesis adds histories of up to 40 / 60 "
              "operations over the full alphabet. After every step the table (contents, counters, order) and every message sent "
              "are compared with the reference model under a virtual clock with dyadic instants, so there is no tolerance. The "
              "space of histories is infinite: this is dense search, not a proof.")
LEVEL_NOTE = ("trusts pvf/ref/of10_table and of10_match as the reading of OpenFlow 1.0 section 4.6; outcomes the specification "
              "leaves open (equal-priority ties, cookie on MODIFY, the reason when both timeouts expired, removal exactly at the "
              "timeout instant, what a switch without emergency table answers) are accepted either way and followed")
RULE = ("a case is a list of op records (flow_mod / packet / advance / sweep / stats) plus switch options (ExpireMixin timer on or "
        "off, max_entries); matches come from a lattice of 12 overlapping wildcarded matches plus 3 exact-match ones and 4 pairs that differ only in one field whose value is 0 on one side. Non-trivial: the history contains a "
        "non-strict MODIFY or DELETE that hits >= 1 and misses >= 1 installed entry, or a timeout removal, or a replace-on-ADD. "
        "Distinct by SHA-1 of the canonical JSON of the case")
ASSUMPTIONS = [
  "matches carry canonical values (no bits beyond the prefix), so 'identical match' is unambiguous; the three exact-match "
  "(wildcards == 0) matches are each used with one fixed priority field (0, 0xffff, 2), because what an identical exact match "
  "with a different priority field means under ADD / strict commands is not specified",
  "an exact-match entry outranks every wildcarded one in lookup whatever its priority field (section 3.4); under CHECK_OVERLAP "
  "an exact-match and a wildcarded entry with equal priority fields may or may not count as 'the same priority' (either verdict "
  "accepted and followed), but two wildcarded entries of equal priority that overlap must be refused whatever else is in the table",
  "EMERG is only sent with ADD; a switch without an emergency table may answer any OFPET_FLOW_MOD_FAILED error, but an EMERG add "
  "with a non-zero timeout must be refused with OFPFMFC_BAD_EMERG_TIMEOUT",
  "MODIFY changes the actions only; whether it updates the cookie is not specified (either accepted)",
  "an entry whose timeout is reached exactly at a sweep may or may not be removed by it (the statement says 'no earlier than'); "
  "when both timeouts have expired either reason is accepted",
  "with several matching entries of equal priority any may take the packet; the model follows the switch's choice",
  "two entries overlap (CHECK_OVERLAP) iff a single packet may match both and their priorities are equal (section 4.6)",
  "a flow_mod (ADD / MODIFY / MODIFY_STRICT) whose action list contains a type the switch cannot execute (a vendor action, or "
  "OFPAT_STRIP_VLAN when SwitchFeatures disable it) must be refused with OFPET_BAD_ACTION/OFPBAC_BAD_TYPE or "
  "OFPET_FLOW_MOD_FAILED/OFPFMFC_UNSUPPORTED carrying the request's xid, and change nothing; when the command is refusable for "
  "another reason as well, either error is accepted; a DELETE carrying such an action may be executed or refused (followed)",
  "all instants are dyadic (multiples of 1/8 s), so durations are exact",
  "frames are well formed; byte counters count the bytes of the frame as received",
]
EXHAUSTIVE_SCOPE = {
  "quick": "all histories of length 1 and 2 over the reduced alphabet (51 ops: 22 ADD variants incl. four CHECK_OVERLAP pairs that differ only in a zero-valued field, 4 MODIFY / MODIFY_STRICT, 7 DELETE / DELETE_STRICT, "
           "3 packets, 5 advances, a direct sweep, 4 stats requests) and all histories of length 3 over its 17-op core, "
           "each x {timer off, ExpireMixin timer on}",
  "thorough": "all histories of length <= 3 over the same alphabet and all histories of length 4 over its 17-op core, each x {timer off, timer on}",
}

_BOOTED = False


def setup():
  global _BOOTED
  if not _BOOTED:
    from ..sim import world
    world.boot()
    _BOOTED = True


# --------------------------------------------------------------------------- the alphabet

_W = M.OFPFW_ALL
_MAC_A = 0x020000000001


def _m(**kw):
  w = _W
  for k in kw:
    if k == "nw_src":
      continue
    if k == "nw_dst":
      continue
    w &= ~M.BIT_OF[k]
  m = {}
  for k, v in kw.items():
    if k in ("nw_src", "nw_dst"):
      addr, plen = v
      shift = M.OFPFW_NW_SRC_SHIFT if k == "nw_src" else M.OFPFW_NW_DST_SHIFT
      mask = M.OFPFW_NW_SRC_MASK if k == "nw_src" else M.OFPFW_NW_DST_MASK
      w = (w & ~mask) | ((32 - plen) << shift)
      m[k] = addr
    else:
      m[k] = v
  return M.make_match(w, **m)


LATTICE = [
  _m(),                                                                      # 0 everything
  _m(in_port=1),                                                             # 1
  _m(dl_type=0x0800),                                                        # 2
  _m(dl_type=0x0800, nw_src=(0x0a000000, 8)),                                # 3
  _m(dl_type=0x0800, nw_src=(0x0a010000, 16)),                               # 4
  _m(dl_type=0x0800, nw_proto=6, tp_dst=80),                                 # 5
  _m(in_port=1, dl_type=0x0800),                                             # 6
  _m(dl_type=0x0806),                                                        # 7
  _m(dl_type=0x0800, nw_src=(0x0a010000, 16), nw_proto=6, tp_dst=80),        # 8
  _m(dl_src=_MAC_A),                                                         # 9
  _m(in_port=2),                                                             # 10
  _m(dl_type=0x0800, nw_dst=(0x0a020000, 16)),                               # 11
]
FRAMES = [
  {"l3": "ip", "l4": "tcp", "src": _MAC_A, "ip_src": 0x0a010203, "ip_dst": 0x0a020001, "sport": 1025, "dport": 80, "pay": 10},
  {"l3": "ip", "l4": "udp", "src": 0x020000000002, "ip_src": 0x0a090909, "ip_dst": 0x0a030001, "sport": 53, "dport": 53, "pay": 20},
  {"l3": "arp", "src": _MAC_A, "op": 1, "spa": 0x0a010203, "tpa": 0x0a020001},
  {"l3": "ip", "l4": "tcp", "src": 0x020000000003, "ip_src": 0x0b000001, "ip_dst": 0x0a020002, "sport": 80, "dport": 80, "pay": 30},
  {"l3": "raw", "src": 0x020000000004, "etype": 0x88b5, "pay": 46},
]
FRAMES_RAW = [FS.mkframe(s) for s in FRAMES]


def _exact(frame, in_port):
  f = M.extract(frame, in_port)
  return M.make_match(0, **{k: f[k] for k in M.MATCH_FIELDS})


# fully specified (wire-exact) matches: what a reactive controller installs for a packet.  Each has ONE
# priority field (what "identical match, different priority field" means for exact entries is not
# specified): below every wildcarded priority, above every one, and equal to one of them.
N_WILD = len(LATTICE)
LATTICE += [_exact(FRAMES_RAW[0], 1), _exact(FRAMES_RAW[1], 2), _exact(FRAMES_RAW[3], 1)]      # 12, 13, 14
EXACT_PRIO = {12: 0, 13: 0xffff, 14: 2}
# pairs that differ ONLY in one field whose value is 0 on one side: disjoint, never overlapping (15..22)
LATTICE += [
  _m(dl_type=0x0800, nw_proto=1, tp_src=0), _m(dl_type=0x0800, nw_proto=1, tp_src=8),     # ICMP echo reply / request
  _m(dl_vlan=100, dl_vlan_pcp=0), _m(dl_vlan=100, dl_vlan_pcp=5),
  _m(dl_type=0x0800, nw_tos=0), _m(dl_type=0x0800, nw_tos=0x10),
  _m(dl_vlan=0), _m(dl_vlan=7),
]
LATTICE_RAW = [M.pack_match(m) for m in LATTICE]

# action lists: an int is an output to that port; "V" is a vendor action (no switch here can execute it);
# "S" is OFPAT_STRIP_VLAN (executable unless the case disables it through SwitchFeatures)
ACTS = [[4], [5], [6], [7], [4, 5], [], [4, "V"], ["V"], ["S", 5], [6, "S"]]
_BAD_ACTION_ERRORS = ((W.OFPET_BAD_ACTION, W.OFPBAC_BAD_TYPE), (W.OFPET_FLOW_MOD_FAILED, W.OFPFMFC_UNSUPPORTED))


def _action_bytes(acts):
  return b"".join(W.action_vendor() if a == "V" else (W.action_strip_vlan() if a == "S" else W.action_output(a)) for a in acts)
N_PORTS = 8
CMD_NAMES = ["add", "modify", "modify_strict", "delete", "delete_strict"]


def _fm(cmd, m, prio=1, idle=0, hard=0, flags=0, out_port=W.OFPP_NONE, act=0):
  return {"op": "fm", "cmd": cmd, "m": m, "prio": prio, "idle": idle, "hard": hard, "flags": flags,
          "out_port": out_port, "act": act}


SFR, CHK, EMG = W.OFPFF_SEND_FLOW_REM, W.OFPFF_CHECK_OVERLAP, W.OFPFF_EMERG

REDUCED = [
  _fm(0, 3, 1, idle=2, flags=SFR, act=0),
  _fm(0, 3, 1, act=1),
  _fm(0, 2, 1, hard=3, flags=SFR, act=1),
  _fm(0, 1, 2, flags=CHK, act=2),
  _fm(0, 2, 2, flags=CHK, act=0),
  _fm(0, 8, 2, idle=4, hard=8, flags=SFR, act=4),
  _fm(0, 3, 1, flags=CHK, act=3),
  _fm(0, 0, 1, idle=2, flags=EMG, act=0),
  _fm(0, 0, 1, flags=EMG, act=0),
  _fm(1, 2, 1, act=3),
  _fm(1, 5, 2, flags=SFR, act=3),
  _fm(2, 3, 1, act=3),
  _fm(2, 3, 2, flags=CHK, act=3),
  _fm(3, 2),
  _fm(3, 2, out_port=5),
  _fm(3, 0),
  _fm(3, 3, out_port=4),
  _fm(4, 3, 1),
  _fm(4, 3, 2),
  {"op": "pkt", "f": 0, "port": 1},
  {"op": "pkt", "f": 1, "port": 2},
  {"op": "pkt", "f": 3, "port": 1},
  {"op": "adv", "dt8": 1},
  {"op": "adv", "dt8": 8},
  {"op": "adv", "dt8": 16},
  {"op": "adv", "dt8": 17},
  {"op": "adv", "dt8": 32},
  {"op": "sweep"},
  {"op": "stats", "agg": False, "m": 0, "out_port": W.OFPP_NONE},
  {"op": "stats", "agg": False, "m": 2, "out_port": 5},
  {"op": "stats", "agg": True, "m": 0, "out_port": W.OFPP_NONE},
  {"op": "stats", "agg": True, "m": 3, "out_port": 4},
  _fm(0, 12, 0, flags=SFR, act=2),
  _fm(0, 13, 0xffff, idle=2, act=3),
  _fm(0, 14, 2, flags=CHK, act=2),
  _fm(4, 12, 0),
  _fm(0, 15, 2, flags=CHK, act=0), _fm(0, 16, 2, flags=CHK, act=1),
  _fm(0, 17, 2, flags=CHK, act=0), _fm(0, 18, 2, flags=CHK, act=1),
  _fm(0, 19, 2, flags=CHK, act=0), _fm(0, 20, 2, flags=CHK, act=1),
  _fm(0, 21, 2, flags=CHK, act=0), _fm(0, 22, 2, flags=CHK, act=1),
  _fm(1, 2, 1, act=6),                 # 44: MODIFY with an action the switch cannot execute
  _fm(2, 3, 1, act=7),                 # 45: MODIFY_STRICT ditto
  _fm(0, 3, 1, flags=SFR, act=6),      # 46: ADD ditto (would replace)
  _fm(3, 2, act=7),                    # 47: DELETE carrying one
  _fm(4, 3, 1, act=6),                 # 48: DELETE_STRICT carrying one
  _fm(2, 3, 1, act=8),                 # 49: MODIFY_STRICT with strip_vlan (executable unless disabled)
  _fm(0, 2, 1, act=9),                 # 50: ADD with strip_vlan
]


# the core of the alphabet, for exhaustive histories of length 3 in the quick tier
CORE = [REDUCED[i] for i in (0, 1, 2, 6, 9, 11, 13, 16, 17, 19, 24, 25, 26, 27, 28, 32, 44)]


# --------------------------------------------------------------------------- observing the switch

def _raw_mac(x):
  if x is None:
    return b"\0" * 6
  return x.toRaw() if hasattr(x, "toRaw") else bytes(x)


def _raw_ip(x):
  if x is None:
    return 0
  return x.toUnsigned() if hasattr(x, "toUnsigned") else int(x)


def _match_of(pm):
  """Our match dict from the attributes of a POX ofp_match (no POX encoder involved)."""
  return {"wildcards": pm.wildcards, "in_port": pm._in_port or 0, "dl_src": _raw_mac(pm._dl_src), "dl_dst": _raw_mac(pm._dl_dst),
          "dl_vlan": pm._dl_vlan or 0, "dl_vlan_pcp": pm._dl_vlan_pcp or 0, "dl_type": pm._dl_type or 0,
          "nw_tos": pm._nw_tos or 0, "nw_proto": pm._nw_proto or 0, "nw_src": _raw_ip(pm._nw_src), "nw_dst": _raw_ip(pm._nw_dst),
          "tp_src": pm._tp_src or 0, "tp_dst": pm._tp_dst or 0}


def _observe(sw):
  rows = []
  for te in sw.table.entries:
    m = _match_of(te.match)
    outs = []
    for a in te.actions:
      if getattr(a, "type", None) == 0:
        outs.append(a.port)
      else:
        outs.append(("other", getattr(a, "type", None)))
    rows.append({"key": (M.canon(m), te.priority), "priority": te.priority, "idle": te.idle_timeout, "hard": te.hard_timeout,
                 "cookie": te.cookie, "flags": te.flags, "packets": te.packet_count, "bytes": te.byte_count, "outs": outs,
                 "eff": T.INF if M.is_exact_semantic(m) else te.priority})
  return rows


def _outs(actions):
  return [a[1] for a in W.parse_actions(actions) if a[0] == "output"]


def _alist(actions):
  """[port | ("other", type)] in order: the shape _observe() reports"""
  return [a[1] if a[0] == "output" else ("other", a[1]) for a in W.parse_actions(actions)]


def _kname(key):
  return "%s@%d" % (", ".join("%s=%r" % (f, v) for f, v in key[0] if v is not None) or "any", key[1])


def _zero_sibling(a, b):
  """a and b compare the same fields and differ in exactly one, whose value is 0 on one side."""
  ea, eb = M.effective(a), M.effective(b)
  diff = [f for f in M.MATCH_FIELDS if ea[f] != eb[f]]
  return len(diff) == 1 and ea[diff[0]] is not None and eb[diff[0]] is not None and 0 in (ea[diff[0]], eb[diff[0]])


def _features_without_strip_vlan():
  """The default feature set of SoftwareSwitch with OFPAT_STRIP_VLAN switched off."""
  import pox.datapaths.switch as SW
  f = SW.SwitchFeatures()
  f.cap_flow_stats = f.cap_table_stats = f.cap_port_stats = True
  for name in f._act_info:
    setattr(f, name, name not in ("act_vendor", "act_strip_vlan"))
  return f


class _Stop(Exception):
  pass


class _Run(object):
  def __init__(self, case, out):
    self.case, self.out = case, out
    kw = {}
    if case.get("max_entries"):
      kw["max_entries"] = case["max_entries"]
    if case.get("no_strip_vlan"):
      kw["features"] = _features_without_strip_vlan()
      out.label("strip-vlan-disabled")
    self.sw = TableSwitch(ports=N_PORTS, expire=bool(case.get("expire")), **kw)
    self.ref = T.RefTable(max_entries=case.get("max_entries") or None)
    self.t_boot = self.sw.now
    self.xid = 10
    self.step = 0
    self.ctx = ""

  # -- failure helper: first divergence ends the case (model and switch are no longer comparable)
  def fail(self, clause, msg, **key):
    self.out.fail(clause, "step %d (%s): %s" % (self.step, self.ctx, msg), **key)
    raise _Stop()

  def check_swallowed(self):
    if self.sw.swallowed:
      x = self.sw.swallowed[0]
      self.out.violations.append({"key": exc_key(x, clause="handler-exception"),
                                  "msg": "step %d (%s): exception in the switch's message handler: %r" % (self.step, self.ctx, x)})
      raise _Stop()

  # -- comparison of the table
  def compare_table(self, cmd=None):
    rows = _observe(self.sw)
    want = self.ref.by_key()
    seen = {}
    for r in rows:
      if r["key"] in seen:
        self.fail("table-duplicate", "two entries with identical match and priority %s" % _kname(r["key"]), cmd=cmd)
      seen[r["key"]] = r
    for k in want:
      if k not in seen:
        self.fail("table-missing-entry", "entry %s is missing; table has %s" % (_kname(k), [_kname(x) for x in seen]), cmd=cmd)
    for k in seen:
      if k not in want:
        self.fail("table-extra-entry", "unexpected entry %s; expected %s" % (_kname(k), [_kname(x) for x in want]), cmd=cmd)
    for k, r in seen.items():
      e = want[k]
      for field, got, exp in (("actions", r["outs"], _alist(e.actions)), ("idle_timeout", r["idle"], e.idle),
                              ("hard_timeout", r["hard"], e.hard), ("flags", r["flags"], e.flags),
                              ("packet_count", r["packets"], e.packets), ("byte_count", r["bytes"], e.bytes)):
        if got != exp:
          self.fail("table-field", "entry %s: %s is %r, expected %r" % (_kname(k), field, got, exp), field=field, cmd=cmd)
      if r["cookie"] not in e.cookies:
        self.fail("table-field", "entry %s: cookie is %r, expected one of %r" % (_kname(k), r["cookie"], sorted(e.cookies)),
                  field="cookie", cmd=cmd)
    effs = [r["eff"] for r in rows]
    if any(effs[i] < effs[i + 1] for i in range(len(effs) - 1)):
      self.fail("table-order", "entries not sorted by non-increasing effective priority: %r" % (effs,), cmd=cmd)
    return seen

  # -- comparison of messages
  def compare_messages(self, got, expected, cmd=None):
    got = list(got)
    for ex in expected:
      found = None
      if ex["kind"] == "error":
        for g in got:
          if g.get("kind") == "error":
            found = g
            break
        if found is None:
          if ex["optional"]:
            continue
          self.fail("error-missing", "expected an error %r, switch sent %r" % (ex, got), cmd=cmd,
                    code=sorted(ex["codes"])[0] if ex["codes"] else None, detail=ex.get("detail"))
        got.remove(found)
        if "alts" in ex:
          if not any(found["etype"] == t and (c is None or found["code"] in c) for t, c in ex["alts"]):
            self.fail("error-code", "error type/code %d/%d, expected one of %r" % (found["etype"], found["code"], ex["alts"]),
                      cmd=cmd, got=[found["etype"], found["code"]], detail=ex.get("detail"))
        elif found["etype"] != ex["etype"] or (ex["codes"] is not None and found["code"] not in ex["codes"]):
          self.fail("error-code", "error type/code %d/%d, expected type %d code in %r" % (
              found["etype"], found["code"], ex["etype"], ex["codes"]), cmd=cmd, got=[found["etype"], found["code"]])
        if found["xid"] != ex["xid"]:
          self.fail("error-xid", "error carries xid %d, the request had %d" % (found["xid"], ex["xid"]), cmd=cmd)
      elif ex["kind"] == "flow_removed":
        for g in got:
          if g.get("kind") == "flow_removed" and "match" in g and (M.canon(g["match"]), g["priority"]) == ex["key"]:
            found = g
            break
        if found is None:
          self.fail("flow-removed-missing", "no flow_removed for %s (reasons %r); switch sent %r" % (
              _kname(ex["key"]), sorted(ex["reasons"]), [x.get("kind") for x in got]), cmd=cmd, reason=sorted(ex["reasons"])[0])
        got.remove(found)
        if found.get("malformed"):
          self.fail("flow-removed-malformed", found["malformed"], cmd=cmd)
        sec, nsec = T.split_duration(ex["duration"])
        for field, g, e in (("duration_sec", found["duration_sec"], sec), ("duration_nsec", found["duration_nsec"], nsec),
                            ("idle_timeout", found["idle_timeout"], ex["idle_timeout"]),
                            ("packet_count", found["packet_count"], ex["packet_count"]),
                            ("byte_count", found["byte_count"], ex["byte_count"])):
          if g != e:
            self.fail("flow-removed-field", "flow_removed for %s: %s is %r, expected %r" % (_kname(ex["key"]), field, g, e),
                      field=field, cmd=cmd)
        if found["reason"] not in ex["reasons"]:
          self.fail("flow-removed-field", "flow_removed for %s: reason %r, expected one of %r" % (
              _kname(ex["key"]), found["reason"], sorted(ex["reasons"])), field="reason", cmd=cmd)
        if found["cookie"] not in ex["cookies"]:
          self.fail("flow-removed-field", "flow_removed for %s: cookie %r, expected one of %r" % (
              _kname(ex["key"]), found["cookie"], sorted(ex["cookies"])), field="cookie", cmd=cmd)
    for g in got:
      k = g.get("kind")
      if k == "flow_removed":
        self.fail("flow-removed-unexpected", "unexpected flow_removed %r" % (
            {x: g[x] for x in g if x not in ("match",)},), cmd=cmd, reason=g.get("reason"))
      if k == "error":
        self.fail("error-unexpected", "unexpected error type %d code %d (xid %d)" % (g["etype"], g["code"], g["xid"]),
                  cmd=cmd, got=[g["etype"], g["code"]])
      self.fail("message-unexpected", "unexpected message %r" % ({x: g[x] for x in g if x != "raw"},), cmd=cmd, kind=k, type=g["type"])

  # -- ops
  def op_fm(self, op):
    cmd = op["cmd"] % 5
    name = CMD_NAMES[cmd]
    mi = op["m"] % len(LATTICE)
    flags = op["flags"] & 7
    if cmd != 0:
      flags &= ~EMG
    acts = ACTS[op["act"] % len(ACTS)]
    actions = _action_bytes(acts)
    bad = "V" in acts or ("S" in acts and bool(self.case.get("no_strip_vlan")))
    self.xid += 1
    cookie = 0x1000 + self.step
    if mi in EXACT_PRIO:
      op = dict(op, prio=EXACT_PRIO[mi])
      self.out.label("fm-exact-match")
    fm = {"command": cmd, "match": LATTICE[mi], "priority": op["prio"], "idle": op["idle"], "hard": op["hard"],
          "cookie": cookie, "flags": flags, "out_port": op["out_port"], "actions": actions, "xid": self.xid}
    self.ctx = "%s m%d prio %d idle %d hard %d flags %d out_port %#x acts %r" % (
        name, mi, op["prio"], op["idle"], op["hard"], flags, op["out_port"], acts)
    before = self.ref.by_key()
    sel = None
    if cmd in (1, 3):
      sel = [e for e in self.ref.entries if M.subsumes(LATTICE[mi], e.match)]
      if sel and len(sel) < len(self.ref.entries):
        self.out.nontrivial = True
        self.out.label("nonstrict-hits-and-misses")
    had_identical = (M.canon(LATTICE[mi]), op["prio"]) in before
    self.sw.send(W.flow_mod(LATTICE_RAW[mi], cmd, priority=op["prio"], idle=op["idle"], hard=op["hard"], cookie=cookie,
                            flags=flags, out_port=op["out_port"], actions=actions, xid=self.xid))
    self.check_swallowed()
    got = self.sw.replies()
    refused = any(g.get("kind") == "error" and g["etype"] == W.OFPET_FLOW_MOD_FAILED and g["code"] == W.OFPFMFC_OVERLAP for g in got)
    fm["bad_action"] = bad
    fm["bad_refused"] = any(g.get("kind") == "error" and (g["etype"], g["code"]) in _BAD_ACTION_ERRORS for g in got)
    expected = self.ref.flow_mod(self.sw.now, fm, refused=refused)
    if bad:
      self.out.label("unsupported-action-" + name)
      if cmd in (1, 2) and sel is None:
        sel = [e for e in before.values() if e.canon == M.canon(LATTICE[mi]) and e.priority == op["prio"]]
      if cmd in (1, 2) and sel:
        self.out.label("unsupported-action-modify-hits-installed")
    if expected and expected[0].get("detail") == "exact-vs-wildcard":
      self.out.label("overlap-exact-vs-wildcard-refused")
    after = self.ref.by_key()
    # labels
    self.out.label("fm-" + name)
    if expected and expected[0]["kind"] == "error":
      c = expected[0]["codes"]
      self.out.label("expect-error-bad-action" if expected[0].get("detail") == "bad-action" else "expect-error-" + ({0: "full", 1: "overlap", 3: "bad-emerg"}.get(sorted(c)[0], "x") if c else "emerg-unsupported"))
    if cmd == 0 and had_identical and not expected:
      self.out.nontrivial = True
      self.out.label("replace-on-add")
    if cmd in (1, 2) and not expected and len(after) > len(before):
      self.out.label("modify-acts-as-add")
    if cmd in (1, 2) and len(after) == len(before) and not expected and before:
      self.out.label("modify-hits")
    if cmd in (3, 4) and op["out_port"] != W.OFPP_NONE:
      self.out.label("delete-out-port-filter")
      if sel is not None and len(before) - len(after) not in (0, len(sel)):
        self.out.label("out-port-filter-splits")
    if any(x["kind"] == "flow_removed" for x in expected):
      self.out.label("notify-on-delete")
    if cmd in (3, 4) and len(after) < len(before) and not expected:
      self.out.label("delete-without-notify")
    if (flags & CHK) and cmd in (0, 1, 2) and not expected and any(
        e.priority == op["prio"] and not M.overlaps(e.match, LATTICE[mi]) and _zero_sibling(e.match, LATTICE[mi]) for e in before.values()):
      self.out.label("check-overlap-disjoint-by-zero-valued-field-accepted")
    if (flags & CHK) and any(M.is_exact(e.match) for e in before.values()):
      self.out.label("check-overlap-with-exact-entries-present")
    if expected and expected[0].get("detail") == "partial" and not any(g.get("kind") == "error" for g in got):
      # the switch did not refuse a partially overlapping entry: record it and keep following the switch,
      # so that the rest of the history is still explored
      self.out.fail("error-missing", "step %d (%s): expected OFPFMFC_OVERLAP (an entry of the same priority overlaps partially), "
                    "switch sent %r" % (self.step, self.ctx, got), cmd=name, code=1, detail="partial")
      self.out.label("continued-after-missing-overlap-error")
      expected = self.ref.flow_mod(self.sw.now, fm, skip_overlap=True)
    self.compare_messages(got, expected, cmd=name)
    self.compare_table(cmd=name)

  def op_pkt(self, op):
    fi = op["f"] % len(FRAMES_RAW)
    port = 1 + (op["port"] - 1) % 3
    frame = FRAMES_RAW[fi]
    self.ctx = "packet f%d on port %d" % (fi, port)
    before = {r["key"]: r for r in _observe(self.sw)}
    cands = self.ref.candidates(M.extract(frame, port))
    emitted = self.sw.frame(frame, port)
    msgs = self.sw.replies()
    after = {r["key"]: r for r in _observe(self.sw)}
    changed = [k for k in after if k in before and (after[k]["packets"], after[k]["bytes"]) != (before[k]["packets"], before[k]["bytes"])]
    pins = [m for m in msgs if m.get("kind") == "packet_in"]
    rest = [m for m in msgs if m.get("kind") != "packet_in"]
    self.out.label("pkt-hit" if cands else "pkt-miss")
    if len(cands) > 1:
      self.out.label("pkt-tie")
    if not cands:
      if changed or emitted:
        self.fail("packet-hit-but-no-match", "no entry matches, yet counters of %r changed / ports %r emitted" % (
            [_kname(k) for k in changed], [p for p, _ in emitted]))
      if len(pins) != 1:
        self.fail("packet-miss-packet-in", "%d packet-ins for a table miss" % len(pins))
    else:
      if len(changed) != 1:
        self.fail("packet-miss-but-match" if not changed else "packet-several-entries",
                  "entries %r match, counters changed on %r" % ([_kname(e.key) for e in cands], [_kname(k) for k in changed]))
      k = changed[0]
      hit = [e for e in cands if e.key == k]
      if not hit:
        self.fail("packet-wrong-entry", "entry %s took the packet, the best matching entries are %r" % (
            _kname(k), [_kname(e.key) for e in cands]))
      e = hit[0]
      if M.is_exact(e.match) and any(M.matches(x.match, M.extract(frame, port)) for x in self.ref.entries if x is not e):
        self.out.label("pkt-exact-outranks-wildcard")
      if e.idle:
        self.out.label("pkt-refreshes-idle")
      self.ref.touch(e, len(frame), self.sw.now)
      ports = sorted(p for p, _ in emitted)
      want = sorted(p for p in _outs(e.actions) if p != port)      # non-output actions (strip_vlan) move nothing
      if ports != want:
        self.fail("packet-output", "entry %s has outputs %r, frame left on ports %r" % (_kname(k), _outs(e.actions), ports))
      if pins:
        self.fail("packet-hit-packet-in", "packet-in although entry %s matched" % _kname(k))
    self.compare_messages(rest, [])
    self.compare_table(cmd="packet")

  def _sweep_at(self, now, removed_keys, msgs, how):
    """Judge what a sweep at `now` removed (validity predicate) and make the model follow."""
    must, may = self.ref.expiry(now)
    allowed = {e.key: e for e in must + may}
    for k in removed_keys:
      if k not in allowed:
        e = self.ref.by_key().get(k)
        self.fail("expiry-early", "entry %s was removed at t=%.3f: created %.3f (hard %s), last packet %.3f (idle %s)" % (
            _kname(k), now - self.t_boot, (e.created - self.t_boot) if e else -1, e.hard if e else "?",
            (e.touched - self.t_boot) if e else -1, e.idle if e else "?"), how=how)
    for e in must:
      if e.key not in removed_keys:
        self.fail("expiry-late", "entry %s survived the sweep at t=%.3f: created %.3f (hard %d), last packet %.3f (idle %d)" % (
            _kname(e.key), now - self.t_boot, e.created - self.t_boot, e.hard, e.touched - self.t_boot, e.idle), how=how)
    if may:
      self.out.label("sweep-exactly-at-deadline")
    gone = [allowed[k] for k in removed_keys]
    if gone:
      self.out.nontrivial = True
      self.out.label("timeout-removal")
      for e in gone:
        r = self.ref._reasons(e, now, False)
        self.out.label("timeout-" + ("both" if len(r) == 2 else ("idle" if W.OFPRR_IDLE_TIMEOUT in r else "hard")))
        if e.packets and W.OFPRR_HARD_TIMEOUT in r and e.idle:
          self.out.label("idle-refreshed-then-hard-expiry")
        if e in may:
          self.out.label("timeout-exactly-at-deadline")
    expected = self.ref.remove_expired(now, gone)
    if expected:
      self.out.label("notify-on-timeout")
    elif gone:
      self.out.label("timeout-without-notify")
    return expected

  def op_sweep(self, op):
    self.ctx = "direct sweep"
    before = [r["key"] for r in _observe(self.sw)]
    self.sw.table.remove_expired_entries()
    after = set(r["key"] for r in _observe(self.sw))
    removed = [k for k in before if k not in after]
    msgs = self.sw.replies()
    expected = self._sweep_at(self.sw.now, removed, msgs, "direct")
    self.compare_messages(msgs, expected, cmd="sweep")
    self.compare_table(cmd="sweep")

  def op_adv(self, op):
    dt = (op["dt8"] % 65) / 8.0
    self.ctx = "advance %.3f s" % dt
    t0, t1 = self.sw.now, self.sw.now + dt
    if not self.case.get("expire"):
      self.sw.advance(dt)
      if self.sw.now != t1:
        raise HarnessError("virtual clock at %r, expected %r" % (self.sw.now, t1))
      self.compare_messages(self.sw.replies(), [], cmd="advance")
      self.compare_table(cmd="advance")
      return
    # the ExpireMixin timer fires every 2 s from the creation of the switch: advance from firing to firing
    period = 2.0
    k = int((t0 - self.t_boot) // period) + 1
    while self.t_boot + k * period <= t1:
      tf = self.t_boot + k * period
      before = [r["key"] for r in _observe(self.sw)]
      self.sw.advance(tf - self.sw.now)
      if self.sw.now != tf:
        raise HarnessError("virtual clock at %r, expected %r" % (self.sw.now, tf))
      after = set(r["key"] for r in _observe(self.sw))
      removed = [x for x in before if x not in after]
      self.ctx = "advance %.3f s: timer sweep at t=%.3f" % (dt, tf - self.t_boot)
      self.out.label("timer-sweep")
      msgs = self.sw.replies()
      expected = self._sweep_at(tf, removed, msgs, "timer")
      self.compare_messages(msgs, expected, cmd="timer")
      self.compare_table(cmd="timer")
      k += 1
    if t1 > self.sw.now:
      self.sw.advance(t1 - self.sw.now)
    self.compare_messages(self.sw.replies(), [], cmd="advance")
    self.compare_table(cmd="advance")

  def op_stats(self, op):
    mi = op["m"] % len(LATTICE)
    agg = bool(op["agg"])
    self.xid += 1
    self.ctx = "%s stats m%d out_port %#x" % ("aggregate" if agg else "flow", mi, op["out_port"])
    self.out.label("stats-aggregate" if agg else "stats-flow")
    self.sw.send(W.stats_request_flow(LATTICE_RAW[mi], out_port=op["out_port"], aggregate=agg, xid=self.xid))
    self.check_swallowed()
    msgs = self.sw.replies()
    replies = [m for m in msgs if m.get("kind") == "stats_reply"]
    self.compare_messages([m for m in msgs if m.get("kind") != "stats_reply"], [], cmd="stats")
    kind = "aggregate" if agg else "flow"
    if len(replies) != 1:
      self.fail("stats-reply-count", "%d stats replies" % len(replies), stats=kind)
    r = replies[0]
    if r.get("malformed"):
      self.fail("stats-malformed", r["malformed"], stats=kind)
    if r["xid"] != self.xid or r["stype"] != (W.OFPST_AGGREGATE if agg else W.OFPST_FLOW) or r["flags"] != 0:
      self.fail("stats-header", "reply xid %d type %d flags %d for request xid %d" % (r["xid"], r["stype"], r["flags"], self.xid), stats=kind)
    if agg:
      want = self.ref.aggregate(LATTICE[mi], op["out_port"])
      got = (r["packet_count"], r["byte_count"], r["flow_count"])
      if got != want:
        self.fail("stats-aggregate", "aggregate (packets, bytes, flows) %r, expected %r" % (got, want))
    else:
      want = {w["key"]: w for w in self.ref.flow_stats(LATTICE[mi], op["out_port"], self.sw.now)}
      if op["out_port"] != W.OFPP_NONE and len(want) < len(self.ref.flow_stats(LATTICE[mi], W.OFPP_NONE, self.sw.now)):
        self.out.label("stats-out-port-filter-splits")
      got = {}
      for f in r["flows"]:
        k = (M.canon(f["match"]), f["priority"])
        if k in got:
          self.fail("stats-flow-set", "entry %s listed twice" % _kname(k))
        got[k] = f
      if set(got) != set(want):
        self.fail("stats-flow-set", "flow stats list %r, expected %r" % (sorted(_kname(k) for k in got), sorted(_kname(k) for k in want)))
      for k, f in got.items():
        w = want[k]
        sec, nsec = T.split_duration(w["duration"])
        for field, g, e in (("duration_sec", f["duration_sec"], sec), ("duration_nsec", f["duration_nsec"], nsec),
                            ("idle_timeout", f["idle_timeout"], w["idle_timeout"]), ("hard_timeout", f["hard_timeout"], w["hard_timeout"]),
                            ("packet_count", f["packet_count"], w["packet_count"]), ("byte_count", f["byte_count"], w["byte_count"]),
                            ("actions", f["actions"], w["actions"]), ("table_id", f["table_id"], 0)):
          if g != e:
            self.fail("stats-flow-field", "flow stats of %s: %s is %r, expected %r" % (_kname(k), field, g, e), field=field)
        if f["cookie"] not in w["cookies"]:
          self.fail("stats-flow-field", "flow stats of %s: cookie %r not in %r" % (_kname(k), f["cookie"], sorted(w["cookies"])), field="cookie")
    self.compare_table(cmd="stats")

  def run(self):
    try:
      self.compare_messages(self.sw.replies(), [])
      for i, op in enumerate(self.case["ops"]):
        self.step = i
        getattr(self, "op_" + op["op"])(op)
      self.out.label("history-completed")
    except _Stop:
      self.out.label("history-stopped-at-divergence")
    finally:
      self.sw.close()


def run_case(case):
  setup()
  out = Outcome()
  out.label("timer-on" if case.get("expire") else "timer-off")
  _Run(case, out).run()
  return out


# --------------------------------------------------------------------------- enumeration

def enum_histories(maxlen, alphabet=None, minlen=1):
  for n in range(minlen, maxlen + 1):
    for ops in itertools.product(alphabet or REDUCED, repeat=n):
      for expire in (False, True):
        yield {"ops": list(ops), "expire": expire}
      if any(o["op"] == "fm" and "S" in ACTS[o["act"]] for o in ops):
        # the same history on a switch whose SwitchFeatures disable OFPAT_STRIP_VLAN
        yield {"ops": list(ops), "expire": False, "no_strip_vlan": True}


# --------------------------------------------------------------------------- Hypothesis

_prio = st.sampled_from([1, 1, 2, 2, 0x8000])
_mi = st.sampled_from([2, 3, 4, 8, 2, 3, 4, 8, 0, 1, 5, 6, 7, 9, 10, 11, 12, 12, 13, 14, 15, 16, 17, 18, 19, 20, 21, 22])
_flags = st.sampled_from([0, 0, SFR, SFR, CHK, SFR | CHK, EMG, EMG | SFR])
_outp = st.sampled_from([W.OFPP_NONE, W.OFPP_NONE, W.OFPP_NONE, 4, 5, 6])


@st.composite
def _op(draw):
  k = draw(st.sampled_from(["fm", "fm", "fm", "pkt", "pkt", "adv", "adv", "sweep", "stats"]))
  if k == "fm":
    cmd = draw(st.sampled_from([0, 0, 0, 1, 2, 3, 4]))
    return _fm(cmd, draw(_mi), draw(_prio), idle=draw(st.sampled_from([0, 0, 2, 4])),
               hard=draw(st.sampled_from([0, 0, 3, 8])), flags=draw(_flags),
               out_port=draw(_outp) if cmd in (3, 4) else draw(st.sampled_from([W.OFPP_NONE, W.OFPP_NONE, 5])),
               act=draw(st.integers(0, len(ACTS) - 1)))
  if k == "pkt":
    return {"op": "pkt", "f": draw(st.sampled_from([0, 0, 0, 1, 2, 3, 3, 4])), "port": draw(st.integers(1, 3))}
  if k == "adv":
    return {"op": "adv", "dt8": draw(st.sampled_from([1, 3, 8, 9, 15, 16, 17, 24, 32, 64]))}
  if k == "sweep":
    return {"op": "sweep"}
  return {"op": "stats", "agg": draw(st.booleans()), "m": draw(st.sampled_from([0, 0, 2, 3, 1, 12])), "out_port": draw(_outp)}


def _history(maxlen):
  return st.fixed_dictionaries({
    # long histories on purpose (Hypothesis' default list sizes are tiny); the length still shrinks
    "ops": st.integers(6, maxlen).flatmap(lambda n: st.lists(_op(), min_size=n, max_size=n)),
    "expire": st.booleans(),
    "max_entries": st.sampled_from([0, 0, 0, 2, 4]),
    "no_strip_vlan": st.sampled_from([False, False, True]),
  })


def plan(tier):
  if tier == "quick":
    return [
      Enum("histories<=2", lambda: enum_histories(2), shards=16),
      Enum("core-histories=3", lambda: enum_histories(3, CORE, 3), shards=16),
      Hyp("histories", lambda: _history(40), examples=2400, shards=16),
    ]
  return [
    Enum("histories<=3", lambda: enum_histories(3), shards=16),
    Enum("core-histories=4", lambda: enum_histories(4, CORE, 4), shards=16),
    Hyp("histories", lambda: _history(60), examples=200000, shards=16),
  ]
