"""C02 -- message framing is independent of how the byte stream is segmented.

Both receivers are the real ones: of_01.Connection on a fake socket (one recv(2048) per read()) with its
handler table replaced by recorders, and datapaths.switch.OFConnection on a real IOWorker with
set_message_handler(recorder), fed either through _push_receive_data or (via="recv") through the real
IOWorker._do_recv reading a non-blocking fake socket once per select wake-up.  A recorder can be told to raise
on its k-th message, and the switch-side worker can have read a prefix before the OFConnection is built.
With via="tcp" both receivers run on a real loopback TCP connection (pvf/sim/c02_tcp.py): the real RecocoIOLoop /
OpenFlow_01_Task generators are woken exactly for what the real select.select(timeout 0) reports on the real
descriptors, after the harness has seen (FIONREAD) that the kernel holds every written byte at the receiving socket.

Oracle (exact, per read): the stream is framed independently by pvf.ref.of10_bytes.split (declared lengths);
after every single read exactly the messages wholly contained in the bytes received so far have been
delivered, in order, once each, each equal to what decoding that message's bytes on their own gives;
the connection's residual buffer is exactly the undelivered suffix; an incomplete tail is delivered
exactly when its last byte arrives.  On the real-socket path "received" is measured at the kernel (bytes shown at
the socket minus FIONREAD), and one more clause applies when the real select has nothing more to report for the
connection: every message all of whose bytes have arrived at the socket has been delivered (`held-back`) -- a
receiver may leave bytes of an incomplete message in the socket, it may not stop being woken for a complete one.
If the kernel does not show the written bytes within a bounded number of polls the case is not judged
(label skipped:tcp-not-exposed).
"""
import bisect
import itertools

from hypothesis import strategies as st

from ..runner import Outcome, Enum, Hyp, HarnessError, exc_key
from ..ref import of10_bytes as R
from ..sim import world as W

ID = "C02"
LEVEL = "exploration"
TECHNIQUE = ("metamorphic + exact framing oracle: every segmentation of a generated message stream must deliver the "
             "independently framed sequence; exhaustive 1-/2-cut enumeration, dribble, Hypothesis k-cuts")
LEVEL_TEXT = ("Exploration by generated-input search over (message sequence x segmentation): for a fixed catalogue of streams "
              "covering every message type of each direction, every 1-cut and (for the short streams) every 2-cut position and the "
              "1-byte dribble are enumerated exhaustively, plus Hypothesis-drawn sequences with k cuts biased to header-relative "
              "offsets and to the 2048/8192-byte read boundaries; a share of both runs over a real loopback TCP connection with the real "
              "I/O loops woken by the real select (readiness as the kernel reports it). Each read is judged exactly against an independent framing of the "
              "stream. Framing code is small and deterministic, so dense enumeration of cut positions is the right level; nothing "
              "is claimed beyond the enumerated bounds.")
LEVEL_NOTE = ("trusts the byte-level builder pvf/ref/of10_bytes.py (written from openflow.h 1.0.0) to produce well-formed messages; "
              "message *content* equality is judged against POX's own decoder applied to the single message (codec correctness is C01)")
RULE = ("a case is (side, list of message specs built by the independent byte builder, optional truncated tail, cut positions); "
        "for the switch side also whether segments are pushed into the IOWorker or read by IOWorker._do_recv from a non-blocking socket, "
        "or carried over a real loopback TCP connection with the real I/O loop woken by the real select (both sides; the switch-side "
        "worker established, or connecting with the connection completing before / together with the first data), "
        "and optionally a prefix the worker has read before the OFConnection is built on it; optionally the indices of messages on "
        "which the recorder raises after recording (the raising call is that message's delivery); "
        "non-trivial when the stream has >= 2 messages and either >= 1 cut lies strictly inside a message, or a truncated tail is held, "
        "or a single read makes more than 32 messages complete at once, or the handler raises on a message with further complete "
        "messages behind it in the same read, or a complete message was read before the connection object existed; "
        "distinct by SHA-1 of the canonical JSON of the case")
ASSUMPTIONS = [
  "messages are well-formed OpenFlow 1.0 messages of the direction the receiver handles (switch->controller types for "
  "of_01.Connection, controller->switch types for OFConnection; the symmetric types HELLO, ERROR, ECHO_REQUEST/REPLY, VENDOR in both "
  "directions), version 1 (a HELLO may carry a higher version and a body)",
  "a well-formed message that POX's decoder itself cannot decode when handed exactly its bytes (a codec defect, property C01) "
  "is outside this property's domain: such cases are counted under 'skipped:undecodable' and not judged",
  "a non-blocking socket returns what is pending capped at the requested size, raises EAGAIN when nothing is pending and returns "
  "b'' only at EOF; the select loop calls the reader once per wake-up while the socket is readable",
  "the controller socket returns at most 2048 bytes per recv and the IO loop hands at most 8192 bytes per _push_receive_data, "
  "as the real callers do",
  "real-socket path: loopback TCP on this kernel; select() with a zero timeout called after FIONREAD has shown the bytes pending "
  "is a function of kernel state only (readable iff pending >= SO_RCVLOWAT); the harness has at most 16384 bytes in flight and "
  "writes the next piece only when select reports nothing more for the connection, so segment boundaries are arrival boundaries; "
  "a case whose bytes the kernel does not show within the poll budget is not judged",
]
EXHAUSTIVE_SCOPE = {
  "quick": "catalogue of 11 controller-side and 12 switch-side streams (the switch side pushed into the IOWorker, read through "
           "IOWorker._do_recv from a non-blocking fake socket, and read that way by a worker that starts in the connecting state and "
           "builds its OFConnection in the connect handler -- 1-cuts, dribbles, tails and bursts only): every 1-cut position for streams <= 3000 bytes; for larger "
           "streams the cut positions within 9 bytes of a message boundary, within 2 of a multiple of 2048/8192 and every 89th offset; "
           "every 2-cut for streams <= 120 bytes (direct read()/push paths; thorough: all paths), all pairs of positions within 9 bytes of a boundary for streams <= 3000 bytes, and all "
           "pairs of the offsets -1,0,1,3,4,7,8 around each boundary and of the first two 2048/8192 read boundaries for larger ones; dribble with chunk sizes "
           "1,2,3,5,7,8,9,2047,2048,2049,8191,8192,8193,16383,16384,16385; every truncation length of a trailing message (held, then "
           "completed); bursts of 2,31,32,33,34,40,64,65,100,255,256,257,300,1000,1024,1025 small messages x 3 type mixes delivered "
           "as one segment, in 2 and 3 large segments, in segments of exactly 2048/4096/8192/16384 bytes, and followed by a held tail; "
           "handler raising on message k for every k of every catalogue stream <= 3000 bytes (k in {0,1,5,30,31,32,38,39} of a "
           "40-message burst) x {whole stream, cuts at/around the first 12 message boundaries, 7-byte dribble}, on all and on every "
           "second message; switch side: every prefix length (<= 420-byte streams; header-relative and 1..63 otherwise) read by the "
           "worker before the OFConnection exists x {rest whole, rest cut after 3 bytes, 1-byte dribble}; "
           "real loopback TCP (controller task; switch worker established / connecting, connect completing before or with the first "
           "data): catalogue streams <= 3000 bytes x {the last d = 1..9 bytes of every message arriving on their own -- all messages at "
           "once, with and without cuts at the boundaries, and one message at a time --, every 1-cut of streams <= 420 bytes (every "
           "third for the connecting variants), dribbles of 1,2,3,5,7,8,9,11 bytes, held tails of 1,3,4,7 and len-9..len-1 bytes, "
           "then completed; one-message-at-a-time and tails on the controller and the established switch worker only}, bursts of 40/300/1100 messages whole, with a 3-/5-byte last piece and a held tail, and the streams around "
           "the read sizes in 2048-/8192-byte chunks and cuts around them",
  "thorough": "as quick, every 2-cut for streams <= 420 bytes, every 1-cut of every catalogue stream, all pairs of header-relative "
              "and read-boundary positions for the large streams; real loopback TCP: streams <= 30000 bytes, header-relative 1-cuts "
              "of the larger ones, all variants for the connecting workers",
}

_M = None


class _Stub(object):
  sending = False

  def __init__(self):
    self.calls = []

  def send(self, con, data):
    self.calls.append(bytes(data))

  def kill(self, con):
    pass


def setup():
  global _M
  if _M is None:
    W.boot()
    import pox.openflow.of_01 as of_01
    import pox.openflow.libopenflow_01 as of
    import pox.datapaths.switch as SW
    _M = (of_01, of, SW)


def _reset():
  """Module-level state the two receivers touch."""
  of_01, of, SW = _M
  of_01.Connection.ID = 0
  of_01.Connection._aborted_connections = 0
  SW.OFConnection.ID = 0
  of.generate_xid = of.xid_generator()
  W.FakeSock._n = 0
  of_01.deferredSender = _Stub()


# --------------------------------------------------------------------------- signatures of delivered objects

# attributes a receiver attaches to a decoded object after decoding (the raw bytes kept for quoting in error
# replies); they are not part of what was decoded
_BOOKKEEPING = frozenset(["_raw_ofp"])


def dump(o, depth=0):
  """Structural rendering of a decoded object (used when pack() itself raises)."""
  if depth > 8:
    return "..."
  if o is None or isinstance(o, (bool, int, str, float)):
    return o
  if isinstance(o, (bytes, bytearray)):
    return bytes(o).hex()
  if isinstance(o, (list, tuple)):
    return [dump(x, depth + 1) for x in o]
  if isinstance(o, dict):
    return sorted((str(k), dump(v, depth + 1)) for k, v in o.items())
  d = getattr(o, "__dict__", None)
  if d is not None:
    return [type(o).__name__] + sorted((k, dump(v, depth + 1)) for k, v in d.items() if k not in _BOOKKEEPING)
  return repr(o)


def sig(msg):
  """(type, xid, bytes) of a delivered message object; bytes are its pack(), or a structural dump when
  pack() raises (several pack() methods are broken at this commit; that is C01's business)."""
  t = getattr(msg, "header_type", None)
  x = getattr(msg, "_xid", None)
  try:
    b = msg.pack()
  except Exception as e:
    b = ["pack-raises", type(e).__name__, dump(msg)]
  return (t, x, b)


_EXPECT = {}


def expect(data):
  """What POX's own decoder makes of exactly these bytes: sig, or None when it cannot decode them on
  their own (raises or reports a different length)."""
  data = bytes(data)
  r = _EXPECT.get(data, 0)
  if r == 0:
    of_01 = _M[0]
    try:
      t = data[1]
      off, obj = of_01.unpackers[t](data, 0)
      r = sig(obj) if off == len(data) else None
    except Exception:
      r = None
    if len(_EXPECT) > 20000:
      _EXPECT.clear()
    _EXPECT[data] = r
  return r


# --------------------------------------------------------------------------- receivers

class PeekSock(W.FakeSock):
  """FakeSock whose recv honours MSG_PEEK (IOWorker._try_connect probes a connecting socket with it)."""

  def recv(self, n, flags=0):
    import socket as _socket
    if flags & _socket.MSG_PEEK:
      if self.closed:
        raise OSError(9, "Bad file descriptor")
      if self.inbox:
        return bytes(self.inbox[:max(1, n)])
      if self.eof:
        return b""
      raise BlockingIOError(11, "Resource temporarily unavailable")
    return W.FakeSock.recv(self, n, flags)


class HandlerBoom(Exception):
  """Raised by a recorder that the case tells to fail on its k-th message (after recording it: the
  raising invocation is the delivery of that message)."""


class CtlRx(object):
  """of_01.Connection on a FakeSock, handlers replaced by recorders."""
  side = "ctl"
  READ = 2048
  quiescent = False

  def __init__(self, raise_at=()):
    of_01 = _M[0]
    self.sock = W.FakeSock()
    self.con = of_01.Connection(self.sock)
    self.delivered = []
    self.raise_at = frozenset(raise_at)
    rec = self._rec
    self.con.handlers = [rec] * 256
    self.received = 0
    self.closed = False

  def _rec(self, con, msg):
    self.delivered.append(msg)
    if len(self.delivered) - 1 in self.raise_at:
      raise HandlerBoom("handler fails on message %d" % (len(self.delivered) - 1))

  def push(self, seg, after):
    self.sock.feed(seg)
    while self.sock.inbox:
      before = len(self.sock.inbox)
      r = self.con.read()
      self.received += before - len(self.sock.inbox)
      if r is False:
        self.closed = True
      after()
      if self.closed:
        return

  def residual(self):
    return bytes(self.con.buf)


class CtlLoopRx(CtlRx):
  """The controller connection as the real dispatcher sees it: OpenFlow_01_Task.run() driven as a generator
  (pvf.sim.loops.ControllerLoop) accepts the socket, creates the Connection and calls read() on every wake-up;
  whatever run() makes of read()'s result (close, drop) is part of the read path."""

  def __init__(self, raise_at=()):
    from ..sim import loops as L
    self.world = W.World()
    _M[0].deferredSender = _Stub()
    self.loop = L.ControllerLoop(self.world)
    self.sock = W.FakeSock()
    self.con = self.loop.connect(self.sock)
    if self.con is None or not self.loop.alive:
      raise HarnessError("the controller loop did not accept the connection")
    self.delivered = []
    self.raise_at = frozenset(raise_at)
    self.con.handlers = [self._rec] * 256
    self.received = 0
    self.closed = False
    self.loop_error = None

  def push(self, seg, after):
    self.sock.feed(seg)
    while self.sock.inbox:
      before = len(self.sock.inbox)
      self.loop.step([self.con])
      self.received += before - len(self.sock.inbox)
      if not self.loop.alive:
        self.loop_error = self.loop.ended
        self.closed = True
      elif self.sock.closed or self.con not in self.loop.selected:
        self.closed = True
      after()
      if self.closed or len(self.sock.inbox) == before:
        return

  def finish(self):
    self.loop.close()
    self.world.close()


class SwRx(object):
  """OFConnection on a real IOWorker, message handler replaced by a recorder."""
  side = "sw"
  READ = 8192

  def __init__(self, raise_at=(), early=b"", connecting=False):
    self.sock = PeekSock()
    self.worker = W._make_worker(self.sock)
    self.delivered = []
    self.raise_at = frozenset(raise_at)
    self.received = 0
    self.closed = False
    self.conn = None
    if connecting:
      # as pox.datapaths does: the worker starts in the connecting state and the OFConnection is built by its
      # connect handler, which IOWorker._try_connect runs on the first select wake-up
      self.worker._connecting = True
      self.worker.connect_handler = lambda w: self._build()
      return
    if early:
      # the worker is already registered with its loop and reading before the OFConnection is built on it
      self._early(early)
    self._build()

  def _build(self):
    self.conn = _M[2].OFConnection(self.worker)
    self.conn.set_message_handler(self._rec)

  def _early(self, data):
    for i in range(0, len(data), self.READ):
      self.worker._push_receive_data(data[i:i + self.READ])
    self.received += len(data)

  def _rec(self, conn, msg):
    self.delivered.append(msg)
    k = len(self.delivered) - 1
    if k in self.reenter_at and self.queue and self.last_piece:
      # an in-process peer answers at once: the next segment reaches the same worker while this handler runs
      seg = self.queue.pop(0)
      self.nested += 1
      for i in range(0, len(seg), self.READ):
        self.received += len(seg[i:i + self.READ])
        self.worker._push_receive_data(seg[i:i + self.READ])
    if k in self.raise_at:
      raise HandlerBoom("handler fails on message %d" % k)

  quiescent = False
  reenter_at = frozenset()
  queue = ()
  last_piece = False
  nested = 0

  def push(self, seg, after):
    for i in range(0, len(seg), self.READ):       # RecocoIOWorker._do_recv: recv(8192) then _push_receive_data
      d = seg[i:i + self.READ]
      self.last_piece = i + self.READ >= len(seg)
      self.received += len(d)
      self.worker._push_receive_data(d)
      self.last_piece = False
      if self.worker.closed or self.worker.shutdown_calls:
        self.closed = True
      after()
      if self.closed:
        return

  def residual(self):
    return bytes(self.worker.receive_buf)


class _StubLoop(object):
  """What IOWorker._do_recv needs of its loop: the read size and the worker set."""

  def __init__(self, worker):
    import pox.lib.ioworker as IOW
    self._BUF_SIZE = IOW.RecocoIOLoop._BUF_SIZE
    self._workers = set([worker])


class SwIoRx(SwRx):
  """As SwRx, but the bytes take the whole switch-side read path: a non-blocking fake socket (recv returns what
  is pending, capped at the requested size; EAGAIN when nothing is pending; b'' only on EOF) is read by the
  real IOWorker._do_recv, once per select wake-up while the socket is readable."""
  side = "sw"

  def __init__(self, raise_at=(), early=b"", connecting=False):
    self.loop = None
    SwRx.__init__(self, raise_at, early, connecting)
    if self.loop is None:
      self.loop = _StubLoop(self.worker)

  def _early(self, data):
    self.loop = _StubLoop(self.worker)
    self.sock.feed(data)
    while self.sock.inbox:
      self.worker._do_recv(self.loop)
    self.received += len(data)

  def push(self, seg, after):
    self.sock.feed(seg)
    while self.sock.inbox:
      before = len(self.sock.inbox)
      self.worker._do_recv(self.loop)
      self.received += before - len(self.sock.inbox)
      if self.worker.closed or self.worker.shutdown_calls or self.worker not in self.loop._workers:
        self.closed = True
      after()
      if self.closed:
        return


class _TcpRx(object):
  """Common part of the two real-socket receivers (pvf.sim.c02_tcp): the harness end writes one piece at a time,
  waits until the kernel shows all of it pending at the receiving socket (FIONREAD), and then lets the real loop
  run one pass per wake-up that the real select.select(timeout 0) reports, until select reports nothing more for
  the connection.  `received` is what the receiver has taken out of the socket (bytes arrived minus FIONREAD --
  measured at the kernel, not asked of POX); `arrived` is what the kernel has shown at the socket; `quiescent` is
  True in the one after() call made when select has nothing more to report."""
  quiescent = False
  inconclusive = None
  pieces = 0
  max_wakeups = 0
  left_unread = False

  def _rx_sock(self):
    raise NotImplementedError

  def _dead(self):
    raise NotImplementedError

  @property
  def arrived(self):
    return self.hub.writer.arrived

  def push(self, seg, after):
    from ..sim import c02_tcp as T
    if self.inconclusive:
      return
    for i in range(0, len(seg), T.PIECE):
      piece = seg[i:i + T.PIECE]
      try:
        self.hub.writer.write(piece, self.received)
      except T.NotExposed as e:
        self.inconclusive = str(e)
        self.closed = True               # stops the case; run_case looks at .inconclusive first
        return
      self.pieces += 1
      self._pump(after, self._rx_sock())
      if self.closed:
        return

  def _pump(self, after, sock):
    from ..sim import c02_tcp as T
    idle = 0
    wakeups = 0
    for _ in range(self.arrived - self.received + 16):
      w = self.hub.wake()
      if w is None:
        break
      wakeups += 1
      p = T.pending(sock)
      progressed = False
      if p >= 0:
        taken = self.arrived - p
        progressed = taken != self.received
        self.received = taken
      if p < 0 or self._dead():
        self.closed = True
      after()
      if self.closed:
        return
      if not progressed:
        idle += 1
        if idle >= 3:
          break                          # woken for the connection, takes nothing: judged below as it stands
      else:
        idle = 0
    self.max_wakeups = max(self.max_wakeups, wakeups)
    if self.received < self.arrived:
      self.left_unread = True
    self.quiescent = True
    try:
      after()
    finally:
      self.quiescent = False


class SwTcpRx(_TcpRx, SwRx):
  """OFConnection on a real RecocoIOWorker registered with a real RecocoIOLoop, on a loopback TCP socket."""
  side = "sw"

  def __init__(self, raise_at=(), connecting=False, settle=False):
    from ..sim import c02_tcp as T
    self.delivered = []
    self.raise_at = frozenset(raise_at)
    self.received = 0
    self.closed = False
    self.conn = None
    self.world = W.World()
    self.hub = None
    try:
      self.hub = T.SwitchTcp(self.world, self._build_on, connecting)
      self.worker = self.hub.worker
      if settle:
        for _ in range(8):
          if self.hub.wake() is None:
            break
    except BaseException:
      self.finish()
      raise

  def _build_on(self, worker):
    self.worker = worker
    self._build()

  def _rx_sock(self):
    return self.hub.rx_sock

  def _dead(self):
    return self.worker.closed or not self.hub.alive or not self.hub.registered()

  def finish(self):
    try:
      if self.hub is not None:
        self.hub.close()
    finally:
      self.world.close()

  @property
  def loop_error(self):
    if self.hub is not None and not self.hub.alive:
      return self.hub.sl.ended
    return None


class CtlTcpRx(_TcpRx, CtlRx):
  """of_01.Connection accepted by the real OpenFlow_01_Task from its own listening socket on loopback."""
  side = "ctl"

  def __init__(self, raise_at=()):
    from ..sim import c02_tcp as T
    self.delivered = []
    self.raise_at = frozenset(raise_at)
    self.received = 0
    self.closed = False
    self.world = W.World()
    _M[0].deferredSender = _Stub()
    self.hub = None
    try:
      self.hub = T.ControllerTcp(self.world)
      self.con = self.hub.accept()
      if self.con is None or not self.hub.alive:
        raise HarnessError("the controller task did not accept the loopback connection")
      self.sock = self.con.sock
      self.con.handlers = [self._rec] * 256
    except BaseException:
      self.finish()
      raise

  def _rx_sock(self):
    return self.sock

  def _dead(self):
    return not self.hub.alive or not any(c is self.con for c in self.hub.selected)

  def finish(self):
    try:
      if self.hub is not None:
        self.hub.close()
    finally:
      self.world.close()

  @property
  def loop_error(self):
    if self.hub is not None and not self.hub.alive:
      return self.hub.ended
    return None


# --------------------------------------------------------------------------- the case

def stream_of(case):
  """(stream bytes, list of end offsets of the complete messages, message byte strings, tail info)."""
  msgs = [R.build(s).data for s in case["msgs"]]
  tail = case.get("tail")
  extra = b""
  tail_msg = None
  if tail:
    tail_msg = R.build(tail["spec"]).data
    keep = max(1, min(int(tail["keep"]), len(tail_msg) - 1))
    extra = tail_msg[:keep]
  return msgs, extra, tail_msg


def segments_of(case, total):
  chunk = case.get("chunk")
  if chunk:
    cuts = list(range(int(chunk), total, int(chunk)))
  else:
    cuts = sorted(set(int(c) for c in case.get("cuts", []) if 0 < int(c) < total))
  return cuts


def run_case(case):
  setup()
  _reset()
  out = Outcome()
  side = case["side"]
  out.label("side:" + side)
  msgs, extra, tail_msg = stream_of(case)
  allowed = R.TO_CONTROLLER if side == "ctl" else R.TO_SWITCH
  for s in case["msgs"] + ([case["tail"]["spec"]] if case.get("tail") else []):
    if s["t"] not in allowed:
      raise HarnessError("message type %r is not one the %s side receives" % (s["t"], side))
    if s.get("ver", 1) != 1 and not (side == "ctl" and s["t"] == R.HELLO):
      raise HarnessError("only a controller-side HELLO may carry another version")
  exp = []
  for m in msgs + ([tail_msg] if tail_msg else []):
    e = expect(m)
    if e is None:
      out.label("skipped:undecodable:" + R.TYPE_NAMES[m[1]])
      return out
    exp.append(e)
  stream = b"".join(msgs) + extra
  # independent framing of what will have been sent
  fr = R.split(b"".join(msgs))
  if fr.why is not None or len(fr.messages) != len(msgs):
    raise HarnessError("reference builder and reference splitter disagree")
  complete = bool(case.get("tail") and case["tail"].get("complete"))
  full = stream + (tail_msg[len(extra):] if complete else b"")
  ends = []
  p = 0
  for m in msgs + ([tail_msg] if complete else []):
    p += len(m)
    ends.append(p)
  cuts = segments_of(case, len(stream))
  pre = int(case.get("pre", 0) or 0)
  if pre:
    if side != "sw":
      raise HarnessError("pre (bytes read before the OFConnection exists) is a switch-side scenario")
    pre = max(1, min(pre, len(stream) - 1))
    cuts = [c for c in cuts if c > pre]
  raise_at = sorted(set(int(k) for k in (case.get("raise") or [])))
  bounds = [pre] + cuts + [len(stream)]
  segs = [stream[bounds[i]:bounds[i + 1]] for i in range(len(bounds) - 1)]
  if complete:
    segs.append(full[len(stream):])

  # ---- labels / non-trivial
  inside = 0
  mstarts = [0]
  for m in msgs:
    mstarts.append(mstarts[-1] + len(m))
  for c in cuts:
    i = bisect.bisect_right(mstarts, c) - 1
    rel = c - mstarts[i]
    if rel == 0:
      out.label("cut:at-boundary")
    else:
      inside += 1
      out.label("cut:in-header-0-3" if rel < 4 else "cut:in-header-4-7" if rel < 8 else "cut:in-body")
  biggest = max(len(m) for m in msgs + ([tail_msg] if tail_msg else []))
  if biggest > 8192:
    out.label("msg>8192")
  elif biggest > 2048:
    out.label("msg>2048")
  if case.get("chunk"):
    out.label("dribble:%s" % ("1" if case["chunk"] == 1 else "n"))
  if case.get("tail"):
    out.label("tail:completed" if complete else "tail:incomplete")
  out.label("cuts:%s" % (len(cuts) if len(cuts) < 3 else "3-9" if len(cuts) < 10 else "10+"))
  out.label("msgs:%s" % (len(msgs) if len(msgs) < 4 else "4+"))
  out.nontrivial = (len(msgs) + (1 if tail_msg else 0)) >= 2 and (inside >= 1 or bool(case.get("tail")))

  # ---- run
  via = case.get("via", "push")
  if via not in ("push", "recv", "loop", "tcp") or (via == "recv" and side != "sw") or (via == "loop" and side != "ctl"):
    raise HarnessError("via=%r is not defined for side %r" % (via, side))
  if via == "tcp" and (pre or case.get("reenter")):
    raise HarnessError("via=tcp has no early-data / re-entrant variants")
  reenter = sorted(set(int(k) for k in (case.get("reenter") or [])))
  if reenter and not (side == "sw" and via == "push"):
    raise HarnessError("re-entrant pushes are a switch-side via=push scenario")
  state = {"bad": False, "k": 0, "burst": 0, "after_raise": 0}
  try:
    connecting = bool(case.get("connecting"))
    if connecting and (via not in ("recv", "tcp") or pre or side != "sw"):
      raise HarnessError("a connecting worker is a switch-side via=recv/tcp scenario without early data")
    if side == "ctl":
      rx = CtlTcpRx(raise_at) if via == "tcp" else CtlLoopRx(raise_at) if via == "loop" else CtlRx(raise_at)
      out.label("via:" + ("tcp" if via == "tcp" else "task-loop" if via == "loop" else "read"))
    elif via == "tcp":
      rx = SwTcpRx(raise_at, connecting, bool(case.get("settle")))
      if connecting:
        out.label("tcp:connect-%s" % ("before-data" if case.get("settle") else "with-data"))
    else:
      rx = (SwIoRx if via == "recv" else SwRx)(raise_at, stream[:pre], connecting)
      rx.reenter_at = frozenset(reenter)
    if connecting:
      out.label("connecting:first-seg-%s" % (len(segs[0]) if len(segs[0]) <= 8 else "9+"))
  except Exception as e:
    if via == "tcp" and type(e).__name__ == "NotExposed":
      out.nontrivial = False
      out.label("skipped:tcp-setup")
      return out
    if W_is_harness(e):
      raise
    out.violations.append({"key": exc_key(e, clause="setup-raises", side=side),
                           "msg": "building the connection on a worker that has already read %d bytes raised %r" % (pre, e)})
    return out
  if side == "sw":
    out.label("via:" + via)
  if pre:
    npre = bisect.bisect_right(ends, pre)
    out.label("early:%s" % ("partial" if npre == 0 else "1-msg" if npre == 1 else "2+msgs"))
    if npre >= 1 and len(msgs) >= 2:
      out.nontrivial = True
    if rx.delivered and len(rx.delivered) > npre:
      out.fail("delivered-early", "%d messages delivered while only %d were complete before the connection object existed" % (
          len(rx.delivered), npre), side=side)
      return out

  def after():
    if state["bad"]:
      return
    got = rx.received
    k = bisect.bisect_right(ends, got)
    state["burst"] = max(state["burst"], k - state["k"])
    for ra in raise_at:
      if state["k"] <= ra < k - 1:
        state["after_raise"] = max(state["after_raise"], k - 1 - ra)     # messages completed by the same read, behind the failing one
    state["k"] = k
    nd = len(rx.delivered)
    if rx.closed:
      out.fail("closed", "the connection was closed/refused by the receiver after %d bytes of a well-formed stream" % got, side=side)
      state["bad"] = True
      return
    if nd > k:
      out.fail("delivered-early", "after %d bytes received, %d messages are complete but %d were delivered "
               "(last delivered: type %r xid %r)" % (got, k, nd, rx.delivered[-1].header_type, rx.delivered[-1]._xid), side=side)
      state["bad"] = True
      return
    if nd < k:
      out.fail("delivered-late", "after %d bytes received, %d messages are complete but only %d were delivered" % (got, k, nd), side=side)
      state["bad"] = True
      return
    if rx.quiescent:
      # real-socket path: the real select has nothing more to report for this connection
      ka = bisect.bisect_right(ends, rx.arrived)
      if nd < ka:
        out.fail("held-back", "all %d bytes written so far are at the receiving socket (the kernel showed them pending) and %d "
                 "messages are complete, but with only %d bytes taken out of the socket the loop's own select() is no longer "
                 "woken for the connection and %d messages have been delivered (message %d is held back)" % (
                     rx.arrived, ka, got, nd, nd), side=side)
        state["bad"] = True
        return
    lo = ends[k - 1] if k else 0
    want = full[lo:got]
    res = rx.residual()
    if res != want:
      out.fail("residual", "after %d bytes received and %d messages delivered the reassembly buffer holds %d bytes, "
               "expected the %d undelivered bytes [%d:%d]" % (got, k, len(res), len(want), lo, got), side=side)
      state["bad"] = True

  queue = list(segs)
  rx.queue = queue
  try:
    while queue:
      if state["bad"]:
        break
      rx.push(queue.pop(0), after)
  except Exception as e:
    if W_is_harness(e):
      raise
    out.violations.append({"key": exc_key(e, clause="read-raises", side=side),
                           "msg": "reading a well-formed stream raised %r" % (e,)})
    return out
  finally:
    if hasattr(rx, "finish"):
      rx.finish()
  if getattr(rx, "inconclusive", None):
    # the kernel never showed the written bytes at the receiving socket: nothing was observed, nothing is judged
    out.nontrivial = False
    out.label("skipped:tcp-not-exposed")
    return out
  if getattr(rx, "loop_error", None) is not None:
    out.fail("loop-ended", "the %s task loop ended while serving a well-formed stream: %r" % (
        "controller's" if side == "ctl" else "switch's I/O", rx.loop_error,), side=side)
    return out
  if via == "tcp":
    out.label("tcp:wakeups-per-piece:%s" % ("0-1" if rx.max_wakeups < 2 else "2+"))
    if rx.left_unread:
      out.label("tcp:bytes-left-in-socket")
    # the classes the kernel's readiness rule can tell apart: how many bytes the piece that completes a message brings
    last = 0
    short = False
    endset = set(ends)
    for b in sorted(set(bounds[1:] + ([len(full)] if complete else []))):
      if b in endset and 0 < b - last < 8:
        short = True
      last = b
    out.label("tcp:completing-piece:%s" % ("1-7-bytes" if short else "8+bytes"))
  if reenter:
    out.label("reenter:%s" % ("none" if not rx.nested else "nested-push"))
    if rx.nested and len(msgs) >= 2:
      out.nontrivial = True
  if raise_at:
    ar = state["after_raise"]
    out.label("raise:%s" % ("none-behind" if ar == 0 else "1-behind" if ar == 1 else "2+behind"))
    if ar >= 1:
      out.nontrivial = True
  b = state["burst"]
  out.label("burst:%s" % ("0-1" if b < 2 else "2-32" if b <= 32 else "33-256" if b <= 256 else "257+"))
  if b > 32 and len(msgs) >= 2:
    out.nontrivial = True
  if state["bad"]:
    return out
  if getattr(rx, "arrived", rx.received) != len(full):
    raise HarnessError("receiver was given %d of %d bytes" % (getattr(rx, "arrived", rx.received), len(full)))
  # ---- content and order
  want = exp[:len(ends)]
  got = [sig(m) for m in rx.delivered]
  if got != want:
    for i, (g, w) in enumerate(zip(got, want)):
      if g != w:
        what = "type" if g[0] != w[0] else "xid" if g[1] != w[1] else "content"
        out.fail("sequence", "message %d delivered as type %r xid %r (%s differs from the message sent: type %r xid %r)" % (
            i, g[0], g[1], what, w[0], w[1]), side=side, what=what)
        break
    else:
      out.fail("sequence", "%d messages delivered, %d sent" % (len(got), len(want)), side=side, what="count")
  return out


def W_is_harness(e):
  from ..runner import exc_is_from_harness
  return isinstance(e, HarnessError) or exc_is_from_harness(e)


# --------------------------------------------------------------------------- catalogue of streams

def _s(t, n=0, f=0, k=0, xid=None, ver=None):
  d = {"t": t}
  if n:
    d["n"] = n
  if f:
    d["f"] = f
  if k:
    d["k"] = k
  if ver:
    d["ver"] = ver
  d["xid"] = xid if xid is not None else (0x10 * t + f + 1)
  return d


def catalogue(side):
  """name -> list of specs.  Every message type of the direction occurs; sizes cross 2048 and 8192."""
  T = R
  if side == "ctl":
    return [
      ("A", [_s(T.HELLO), _s(T.ECHO_REQUEST, 5, 1), _s(T.BARRIER_REPLY), _s(T.GET_CONFIG_REPLY, f=2), _s(T.PACKET_IN, 7, 1)]),
      ("B", [_s(T.ERROR, 4, 1), _s(T.VENDOR, 3), _s(T.ECHO_REPLY), _s(T.HELLO, 4, 1), _s(T.FLOW_REMOVED, f=1)]),
      ("C", [_s(T.PORT_STATUS, f=1), _s(T.STATS_REPLY, 3, 1, R.OFPST_AGGREGATE), _s(T.QUEUE_GET_CONFIG_REPLY, 1),
             _s(T.FEATURES_REPLY, 1, 2), _s(T.STATS_REPLY, 2, 1, R.OFPST_FLOW)]),
      ("D", [_s(T.STATS_REPLY, 1, 0, R.OFPST_TABLE), _s(T.STATS_REPLY, 1, 1, R.OFPST_PORT), _s(T.STATS_REPLY, 1, 2, R.OFPST_QUEUE),
             _s(T.STATS_REPLY, 0, 1, R.OFPST_DESC), _s(T.BARRIER_REPLY, xid=0xffffffff)]),
      ("E", [_s(T.BARRIER_REPLY, xid=1), _s(T.BARRIER_REPLY, xid=2), _s(T.HELLO, xid=3), _s(T.ECHO_REPLY, xid=4)]),
      ("F", [_s(T.HELLO, 8, 1, ver=4), _s(T.ECHO_REQUEST, 1), _s(T.QUEUE_GET_CONFIG_REPLY, 3, 1)]),
      ("G", [_s(T.PACKET_IN, 2022, 1), _s(T.HELLO), _s(T.PACKET_IN, 2023, 2), _s(T.ECHO_REQUEST)]),       # 2040+8+2041+8
      ("big1", [_s(T.ECHO_REQUEST, 1), _s(T.PACKET_IN, 2100, 1), _s(T.HELLO), _s(T.PACKET_IN, 4090, 3), _s(T.BARRIER_REPLY)]),
      ("big2", [_s(T.FEATURES_REPLY, 200, 1), _s(T.ECHO_REPLY), _s(T.STATS_REPLY, 90, 2, R.OFPST_FLOW), _s(T.HELLO)]),
      ("big3", [_s(T.ERROR, 8180, 1), _s(T.VENDOR, 8181), _s(T.BARRIER_REPLY)]),
      ("max", [_s(T.PACKET_IN, 65517, 1), _s(T.HELLO), _s(T.ECHO_REQUEST, 65527, 2)]),
    ]
  return [
    ("A", [_s(T.HELLO), _s(T.FEATURES_REQUEST), _s(T.SET_CONFIG, f=1), _s(T.ECHO_REQUEST, 5, 1), _s(T.BARRIER_REQUEST)]),
    # the symmetric types, as a controller sends them (an OFPT_ERROR / HELLO_FAILED included)
    ("S", [_s(T.HELLO, 4, 1), _s(T.ERROR, 12, 0), _s(T.ECHO_REQUEST, 2), _s(T.ERROR, 0, 1), _s(T.ECHO_REPLY, 2), _s(T.VENDOR, 4, 1),
           _s(T.ERROR, 64, 2), _s(T.BARRIER_REQUEST)]),
    ("B", [_s(T.GET_CONFIG_REQUEST), _s(T.QUEUE_GET_CONFIG_REQUEST, f=1), _s(T.STATS_REQUEST, 0, 0, R.OFPST_DESC), _s(T.VENDOR, 3),
           _s(T.ECHO_REPLY, 2), _s(T.PORT_MOD, f=1)]),
    ("C", [_s(T.FLOW_MOD, 2, 1), _s(T.PACKET_OUT, 30, 1), _s(T.STATS_REQUEST, 0, 1, R.OFPST_FLOW), _s(T.STATS_REQUEST, 0, 2, R.OFPST_PORT),
           _s(T.PACKET_OUT, 0, 2)]),
    ("D", [_s(T.STATS_REQUEST, 0, 1, R.OFPST_AGGREGATE), _s(T.STATS_REQUEST, 0, 0, R.OFPST_TABLE), _s(T.STATS_REQUEST, 0, 1, R.OFPST_QUEUE),
           _s(T.STATS_REQUEST, 5, 1, R.OFPST_VENDOR), _s(T.FLOW_MOD, 0, 0)]),
    ("E", [_s(T.BARRIER_REQUEST, xid=1), _s(T.BARRIER_REQUEST, xid=2), _s(T.HELLO, xid=3), _s(T.FEATURES_REQUEST, xid=4)]),
    ("F", [_s(T.HELLO, 8, 1), _s(T.FLOW_MOD, 13, 3), _s(T.ECHO_REQUEST, 1)]),
    ("G", [_s(T.PACKET_OUT, 8170, 1), _s(T.HELLO), _s(T.PACKET_OUT, 8171, 2), _s(T.ECHO_REQUEST)]),       # around 8192
    ("big1", [_s(T.ECHO_REQUEST, 1), _s(T.PACKET_OUT, 2100, 1), _s(T.HELLO), _s(T.FLOW_MOD, 400, 3), _s(T.BARRIER_REQUEST)]),
    ("big2", [_s(T.FLOW_MOD, 900, 1), _s(T.ECHO_REPLY), _s(T.PACKET_OUT, 9000, 2), _s(T.HELLO)]),
    ("max", [_s(T.PACKET_OUT, 65500, 1), _s(T.HELLO), _s(T.ECHO_REQUEST, 65527, 2)]),
    # messages ending exactly on multiples of the 8192-byte read size: 8192, 8192+8192, then small ones
    ("x8192", [_s(T.ECHO_REQUEST, 8184, 1), _s(T.VENDOR, 8180, 2), _s(T.HELLO), _s(T.BARRIER_REQUEST)]),
  ]


def _lens(specs):
  return [len(R.build(s).data) for s in specs]


def _special_offsets(lens, total):
  pos = set()
  p = 0
  for l in lens:
    for d in range(-9, 10):
      pos.add(p + d)
    p += l
  for d in range(-9, 10):
    pos.add(p + d)
  for unit in (2048, 8192):
    for m in range(unit, total + unit, unit):
      for d in (-2, -1, 0, 1, 2):
        pos.add(m + d)
  return sorted(x for x in pos if 0 < x < total)


def enum_cut1(tier):
  for side, extra in _sides():
    for name, specs in catalogue(side):
      lens = _lens(specs)
      total = sum(lens)
      if total <= 3000 or tier == "thorough":
        cuts = range(1, total)
      else:
        cuts = sorted(set(_special_offsets(lens, total)) | set(range(89, total, 89)))
      for c in cuts:
        yield dict(extra, side=side, msgs=specs, cuts=[c])


def enum_cut2(tier):
  bound = 120 if tier == "quick" else 420
  for side, extra in _sides():
    for name, specs in catalogue(side):
      if extra and tier == "quick":
        continue                       # 2-cuts: Connection.read() and _push_receive_data only (the other paths get 1-cuts,
                                       # dribbles, tails, bursts; thorough runs 2-cuts on every path)
      lens = _lens(specs)
      total = sum(lens)
      if total <= bound:
        pos = list(range(1, total))
      elif total > 3000 and tier == "quick":
        # large streams cost milliseconds per case: header-relative offsets and the first read boundaries only
        near = set()
        p = 0
        for l in lens + [0]:
          for d in (-1, 0, 1, 3, 4, 7, 8):
            near.add(p + d)
          p += l
        for unit in (2048, 8192):
          for m in (unit, 2 * unit):
            near.update((m - 1, m, m + 1))
        pos = sorted(x for x in near if 0 < x < total)
      else:
        pos = _special_offsets(lens, total)
        if len(pos) > 120:
          # header-relative positions only (within 5 of a boundary, and the read boundaries)
          near = set()
          p = 0
          for l in lens + [0]:
            for d in range(-2, 9):
              near.add(p + d)
            p += l
          pos = [x for x in pos if x in near or x % 2048 in (0, 1, 2047) or x % 8192 in (0, 1, 8191)]
      for a, b in itertools.combinations(pos, 2):
        yield dict(extra, side=side, msgs=specs, cuts=[a, b])


_CHUNKS = [1, 2, 3, 5, 7, 8, 9, 2047, 2048, 2049, 8191, 8192, 8193, 16383, 16384, 16385]


def _sides():
  """(side, extra case fields): the switch side is exercised both by pushing segments into the IOWorker and
  through IOWorker._do_recv on a non-blocking socket."""
  return [("ctl", {}), ("ctl", {"via": "loop"}), ("sw", {}), ("sw", {"via": "recv"}), ("sw", {"via": "recv", "connecting": True})]


def burst_specs(side, count, variant):
  """`count` small messages (8..64 bytes) of mixed types with distinct xids."""
  T = R
  if side == "ctl":
    pool = [_s(T.ECHO_REQUEST, 0), _s(T.HELLO), _s(T.BARRIER_REPLY), _s(T.PORT_STATUS, f=1), _s(T.ECHO_REPLY, 3, 1),
            _s(T.GET_CONFIG_REPLY, f=1), _s(T.PACKET_IN, 6, 1)]
  else:
    pool = [_s(T.ECHO_REQUEST, 0), _s(T.HELLO), _s(T.BARRIER_REQUEST), _s(T.PORT_MOD, f=1), _s(T.ECHO_REPLY, 3, 1),
            _s(T.SET_CONFIG, f=1), _s(T.FEATURES_REQUEST), _s(T.ERROR, 8, 1), _s(T.VENDOR, 2)]
  if variant == 0:
    pool = pool[:1]                 # all 8-byte echo requests
  elif variant == 1:
    pool = pool[:3]                 # 8-byte messages of three types
  out = []
  for i in range(count):
    d = dict(pool[i % len(pool)])
    d["xid"] = i + 1
    out.append(d)
  return out


def enum_raises(tier):
  """The message handler raises on message k (every k), with the rest of the stream already received or
  arriving in the same / a later read."""
  for side, extra in _sides():
    if extra.get("connecting") or extra.get("via") == "loop":
      continue
    streams = [(n, sp) for n, sp in catalogue(side) if sum(_lens(sp)) <= 3000]
    streams.append(("burst40", burst_specs(side, 40, 2)))
    for name, specs in streams:
      lens = _lens(specs)
      total = sum(lens)
      bnds = [sum(lens[:i]) for i in range(1, len(lens))]
      ks = range(len(specs)) if len(specs) <= 8 else [0, 1, 5, 30, 31, 32, 38, 39]
      for k in ks:
        base = dict(extra, side=side, msgs=specs)
        yield dict(base, cuts=[], **{"raise": [k]})
        for b in bnds[:12]:
          for d in (-1, 0, 3):
            if 0 < b + d < total:
              yield dict(base, cuts=[b + d], **{"raise": [k]})
        yield dict(base, chunk=7, **{"raise": [k]})
      yield dict(extra, side=side, msgs=specs, cuts=[], **{"raise": list(range(len(specs)))})
      yield dict(extra, side=side, msgs=specs, cuts=[], **{"raise": list(range(0, len(specs), 2))})


def enum_reenter(tier):
  """Switch side: while the handler of message k runs, an in-process peer pushes the next segment into the same
  IOWorker (nested delivery).  Every k x every 1-cut of the short streams (header-relative cuts of the others)."""
  for name, specs in catalogue("sw") + [("burst40", burst_specs("sw", 40, 2))]:
    lens = _lens(specs)
    total = sum(lens)
    if total > 3000:
      continue
    cuts = range(1, total) if total <= 140 else _special_offsets(lens, total)
    ks = range(len(specs)) if len(specs) <= 8 else [0, 1, 5, 31, 32, 38]
    for c in cuts:
      for k in ks:
        yield {"side": "sw", "msgs": specs, "cuts": [c], "reenter": [k]}
    for k in ks:
      bnds = [sum(lens[:i]) for i in range(1, len(lens))]
      yield {"side": "sw", "msgs": specs, "cuts": bnds[:16], "reenter": list(range(len(specs)))}
      yield {"side": "sw", "msgs": specs, "chunk": 11, "reenter": [k]}


def enum_early(tier):
  """Switch side: the worker has already read a prefix of the stream when the OFConnection is built on it."""
  for side, extra in _sides():
    if side != "sw" or extra.get("connecting"):
      continue
    streams = [(n, sp) for n, sp in catalogue(side) if sum(_lens(sp)) <= 3000]
    streams.append(("burst40", burst_specs(side, 40, 2)))
    for name, specs in streams:
      lens = _lens(specs)
      total = sum(lens)
      pres = range(1, total) if total <= 420 else sorted(set(_special_offsets(lens, total)) | set(range(1, 64)))
      for pre in pres:
        base = dict(extra, side=side, msgs=specs, pre=pre)
        yield dict(base, cuts=[])
        if pre + 3 < total:
          yield dict(base, cuts=[pre + 3])
        if pre % 5 == 0:
          yield dict(base, chunk=1)
    # large prefix: more than one read's worth is queued before the connection exists
    big = [_s(R.PACKET_OUT, 9000, 1), _s(R.HELLO), _s(R.ECHO_REQUEST, 3)]
    for pre in (8191, 8192, 8193, 9015, 9016, 9017, 9024, 9030):
      yield dict(extra, side=side, msgs=big, pre=pre, cuts=[])


_BURSTS = [2, 31, 32, 33, 34, 40, 64, 65, 100, 255, 256, 257, 300, 1000, 1024, 1025]


def enum_bursts(tier):
  """Many small messages becoming complete in one read: the whole stream as one segment, in two and three
  large segments, and in segments of exactly the read sizes."""
  for side, extra in _sides():
    for count in _BURSTS:
      for variant in (0, 1, 2):
        specs = burst_specs(side, count, variant)
        total = sum(_lens(specs))
        base = dict(extra, side=side, msgs=specs)
        yield dict(base, cuts=[])
        for parts in (2, 3):
          yield dict(base, cuts=[total * i // parts for i in range(1, parts)])
          yield dict(base, cuts=[total * i // parts + 3 for i in range(1, parts)])
        for ch in (2048, 4096, 8192, 16384):
          if ch < total:
            yield dict(base, chunk=ch)
        # a burst followed by a held tail
        yield dict(base, cuts=[], tail={"spec": specs[0], "keep": 5, "complete": True})


def enum_dribble(tier):
  for side, extra in _sides():
    for name, specs in catalogue(side):
      total = sum(_lens(specs))
      for ch in _CHUNKS:
        if ch >= total:
          continue
        if ch < 5 and total > 30000 and tier == "quick":
          continue                       # 1-byte dribble of 130 kB: thorough only
        yield dict(extra, side=side, msgs=specs, chunk=ch)


def enum_tail(tier):
  """A trailing message truncated at every length: held (never delivered, buffered intact), and delivered
  exactly once when the rest arrives."""
  for side, extra in _sides():
    cat = catalogue(side)
    for name, specs in cat[:4]:
      head = specs[:2]
      for tspec in specs[2:]:
        tl = len(R.build(tspec).data)
        for keep in range(1, tl):
          for complete in (False, True):
            yield dict(extra, side=side, msgs=head, tail={"spec": tspec, "keep": keep, "complete": complete}, cuts=[])
    # a large tail crossing the read size
    big = _s(R.PACKET_IN, 5000, 1) if side == "ctl" else _s(R.PACKET_OUT, 9000, 1)
    tl = len(R.build(big).data)
    for keep in sorted(set([1, 3, 4, 7, 8, 9, 2047, 2048, 2049, 4096, tl - 1] + ([8191, 8192, 8193] if tl > 8200 else []))):
      for complete in (False, True):
        yield dict(extra, side=side, msgs=cat[0][1][:2], tail={"spec": big, "keep": keep, "complete": complete}, cuts=[5])


def _tcp_sides():
  """(side, extra) for the real-socket path: the controller task with its own listener; the switch-side worker on an
  established socket, and as pox.datapaths runs it -- a connecting worker whose connect handler builds the
  OFConnection, with the connection completing before the first data or together with it."""
  return [("ctl", {"via": "tcp"}), ("sw", {"via": "tcp"}), ("sw", {"via": "tcp", "connecting": True}),
          ("sw", {"via": "tcp", "connecting": True, "settle": True})]


def enum_tcp(tier):
  """Readiness as the kernel reports it: the streams travel over a loopback TCP connection, the real loops are
  woken by the real select.  What the kernel's readiness rule can tell apart is how many bytes are pending when
  a piece arrives, so the segmentations are dense in the size of the piece that completes a message (1..9 bytes
  before every message end, every 1-cut of the short streams, small-chunk dribbles, held tails completed by
  1..9 bytes) and sparse elsewhere; pieces larger than one read (2048 / 8192) make one arrival need several
  wake-ups."""
  quick = tier == "quick"
  for side, extra in _tcp_sides():
    first = not extra.get("connecting")
    for name, specs in catalogue(side):
      lens = _lens(specs)
      total = sum(lens)
      if total > (3000 if quick else 30000):
        continue
      base = dict(extra, side=side, msgs=specs)
      bnds = [sum(lens[:i]) for i in range(1, len(lens) + 1)]
      # every message's last d bytes arrive on their own (d = 1..9), all messages at once and one message at a time
      for d in range(1, 10):
        yield dict(base, cuts=[b - d for b in bnds])
        yield dict(base, cuts=sorted(set([b - d for b in bnds] + bnds[:-1])))
        if first or not quick:
          for b in bnds:
            yield dict(base, cuts=[b - d])
            yield dict(base, cuts=[c for c in (b - lens[bnds.index(b)], b - d) if c > 0])
      if total <= 420 or not quick:
        cuts = range(1, total) if total <= 420 else _special_offsets(lens, total)
        if not first and quick:
          cuts = [c for c in cuts if c <= 12 or c % 3 == 0]
        for c in cuts:
          yield dict(base, cuts=[c])
      for ch in (1, 2, 3, 5, 7, 8, 9, 11):
        if ch == 1 and total > 600 and quick:
          continue
        yield dict(base, chunk=ch)
      # a held tail completed by its last d bytes
      if first or not quick:
        for tspec in specs[:3]:
          tl = len(R.build(tspec).data)
          for keep in sorted(set([1, 3, 4, 7] + [tl - d for d in range(1, 10)])):
            if 0 < keep < tl:
              for complete in (False, True):
                yield dict(base, msgs=specs[1:3], tail={"spec": tspec, "keep": keep, "complete": complete}, cuts=[])
    # one arrival larger than a read: several wake-ups for one piece, with a short completing piece behind it
    for count in (40, 300, 1100):
      specs = burst_specs(side, count, 2)
      total = sum(_lens(specs))
      base = dict(extra, side=side, msgs=specs)
      yield dict(base, cuts=[])
      yield dict(base, cuts=[total - 3])
      yield dict(base, cuts=[total // 2 + 1, total - 5])
      yield dict(base, cuts=[], tail={"spec": specs[0], "keep": 5, "complete": True})
    big = [n for n in catalogue(side) if n[0] in ("G", "big1")]
    for name, specs in big:
      lens = _lens(specs)
      total = sum(lens)
      base = dict(extra, side=side, msgs=specs)
      yield dict(base, cuts=[])
      for d in (1, 4, 7, 8):
        yield dict(base, cuts=[sum(lens[:i]) - d for i in range(1, len(lens) + 1)])
      for unit in (2048, 8192):
        yield dict(base, chunk=unit)
        yield dict(base, cuts=[c for c in (unit - 1, unit, unit + 1, 2 * unit + 3) if c < total])


# --------------------------------------------------------------------------- Hypothesis

@st.composite
def _sizes(draw):
  sel = draw(st.integers(0, 19))
  if sel < 8:
    return draw(st.integers(0, 4))
  if sel < 12:
    return draw(st.integers(0, 80))
  if sel < 14:
    return draw(st.integers(0, 600))
  if sel < 19:
    return draw(st.sampled_from([2030, 2039, 2040, 2041, 2048, 2049, 2100, 4096, 8180, 8184, 8192, 8200, 9000]))
  return draw(st.sampled_from([20000, 65535]))


@st.composite
def spec_strategy(draw, side, small=False):
  types = R.TO_CONTROLLER if side == "ctl" else R.TO_SWITCH
  t = draw(st.sampled_from(types))
  k = 0
  if t in (R.STATS_REQUEST, R.STATS_REPLY):
    k = draw(st.sampled_from(R.STATS_KINDS[:6] * 3 + [R.OFPST_VENDOR]))
  f = draw(st.integers(0, 40))
  target = draw(st.integers(0, 80) if small else _sizes())
  if R.unit(t, k) > 1:
    target = min(target, 9200)            # thousands of actions/ports/entries only cost decode time
  n = R.n_for_size(t, k, f, target)
  xid = draw(st.one_of(st.integers(0, 20), st.sampled_from([0, 0x7fffffff, 0x80000000, 0xffffffff]), st.integers(0, 0xffffffff)))
  d = {"t": t, "xid": xid}
  if n:
    d["n"] = n
  if f:
    d["f"] = f
  if k:
    d["k"] = k
  if side == "ctl" and t == R.HELLO and draw(st.integers(0, 5)) == 0:
    d["ver"] = draw(st.sampled_from([2, 3, 4, 5, 0x7f]))
  return d


@st.composite
def case_strategy(draw, tier):
  side = draw(st.sampled_from(["ctl", "sw"]))
  many = draw(st.integers(0, 7)) == 0            # an eighth of the cases: a burst of many small messages
  if many:
    count = draw(st.one_of(st.integers(30, 70), st.integers(9, 400)))
    msgs = burst_specs(side, count, draw(st.integers(0, 2)))
    nm = len(msgs)
  else:
    nm = draw(st.integers(1, 8))
    heavy = draw(st.integers(0, 3)) == 0         # allow large messages in a quarter of the cases
    msgs = [draw(spec_strategy(side, small=not heavy and i > 0)) for i in range(nm)]
  lens = [len(R.build(s).data) for s in msgs]
  total = sum(lens)
  case = {"side": side, "msgs": msgs}
  if side == "ctl" and draw(st.integers(0, 2)) == 0:
    case["via"] = "loop"
  if side == "sw" and draw(st.booleans()):
    case["via"] = "recv"
    if draw(st.integers(0, 2)) == 0:
      case["connecting"] = True
  tcp = total < 40000 and draw(st.integers(0, 7)) == 0      # an eighth: over loopback TCP, woken by the real select
  if tcp:
    case["via"] = "tcp"
    case.pop("connecting", None)
    if side == "sw" and draw(st.booleans()):
      case["connecting"] = True
      if draw(st.booleans()):
        case["settle"] = True
  if draw(st.integers(0, 3)) == 0:
    tspec = draw(spec_strategy(side, small=draw(st.booleans())))
    tl = len(R.build(tspec).data)
    case["tail"] = {"spec": tspec, "keep": draw(st.one_of(st.integers(1, 9), st.integers(1, max(1, tl - 1)))),
                    "complete": draw(st.booleans())}
    total += max(1, min(case["tail"]["keep"], tl - 1))
  if draw(st.integers(0, 3)) == 0:
    case["raise"] = sorted(set(draw(st.lists(st.integers(0, max(0, nm - 1)), min_size=1, max_size=3))))
  if side == "sw" and not case.get("connecting") and not tcp and draw(st.integers(0, 3)) == 0:
    case["pre"] = draw(st.one_of(st.integers(1, 40), st.integers(1, max(1, total - 1))))
  if side == "sw" and "via" not in case and draw(st.integers(0, 3)) == 0:
    case["reenter"] = sorted(set(draw(st.lists(st.integers(0, max(0, nm - 1)), min_size=1, max_size=3))))
  mode = draw(st.integers(0, 9))
  if mode == 0 and total < 20000:
    case["chunk"] = draw(st.sampled_from([1, 1, 2, 3, 4, 7, 8, 9, 13]))
    return case
  k = draw(st.one_of(st.integers(0, 3), st.integers(0, 12), st.integers(0, 40)))
  starts = [0]
  for l in lens:
    starts.append(starts[-1] + l)
  cuts = set()
  for _ in range(k):
    how = draw(st.integers(0, 3))
    if how <= 1:
      i = draw(st.integers(0, len(starts) - 1))
      c = starts[i] + draw(st.integers(-3, 10))
    elif how == 2:
      c = draw(st.integers(1, max(1, total - 1)))
    else:
      unit = draw(st.sampled_from([2048, 8192]))
      c = unit * draw(st.integers(1, max(1, total // unit))) + draw(st.sampled_from([-2, -1, 0, 0, 0, 1, 2]))
    if 0 < c < total:
      cuts.add(c)
  case["cuts"] = sorted(cuts)
  return case


def plan(tier):
  n = 2000 if tier == "quick" else 400000
  return [
    Enum("cut1", lambda: enum_cut1(tier), shards=16),
    Enum("cut2", lambda: enum_cut2(tier), shards=16),
    Enum("dribble", lambda: enum_dribble(tier), shards=4 if tier == "quick" else 16),
    Enum("tail", lambda: enum_tail(tier), shards=2 if tier == "quick" else 16),
    Enum("bursts", lambda: enum_bursts(tier), shards=4 if tier == "quick" else 16),
    Enum("raises", lambda: enum_raises(tier), shards=2 if tier == "quick" else 16),
    Enum("early", lambda: enum_early(tier), shards=2 if tier == "quick" else 16),
    Enum("reenter", lambda: enum_reenter(tier), shards=2 if tier == "quick" else 16),
    Enum("tcp", lambda: enum_tcp(tier), shards=4 if tier == "quick" else 16),
    Hyp("kcuts", lambda: case_strategy(tier), examples=n, shards=8 if tier == "quick" else 16),
  ]
