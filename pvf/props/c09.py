"""C09 -- connection lifecycle events and the connection registry stay consistent.

The controller side (of_01.Connection on fake sockets, OpenFlowNexus, the accept/read/close
discipline of OpenFlow_01_Task) is driven by scripted switch peers whose bytes are built by
pvf.ref.swbytes (struct only).  A history is a flat list of small ops; it is interpreted against
the real code and against pvf.ref.c09_lifecycle in lock step and the events raised on the nexus
and on every connection, the registry and the bytes written to every socket are compared after
every op.
"""
import errno
import itertools

from hypothesis import strategies as st

from ..runner import Outcome, Enum, Hyp, HarnessError, exc_key, exc_is_from_harness
from ..ref import swbytes as sb
from ..ref import c09_lifecycle as lc

ID = "C09"
LEVEL = "exploration"
TECHNIQUE = ("model-based history testing: exhaustive interleavings of the handshake with asynchronous messages and of "
             "connection lifecycles over shared datapath ids, plus Hypothesis histories, byte-level scripted switch peers")
LEVEL_TEXT = ("Exploration: every interleaving of the four handshake replies (three barrier outcomes) with up to two (thorough: "
              "three) asynchronous messages on one connection, every merge of the lifecycles of two (and, coarser, three) "
              "connections over two datapath ids, connection loss at every byte of the handshake (thorough), and Hypothesis-"
              "generated histories are executed against the real Connection/OpenFlowNexus code on fake sockets and judged "
              "after every step against a reference lifecycle model written from the property statement. Histories are "
              "unbounded in principle, so this is bounded exhaustive search plus sampling, not a proof.")
LEVEL_NOTE = ("most drivers emulate the accept/read/close loop of OpenFlow_01_Task (read() False or raising -> close(), "
              "socket dropped); the real-task-loop drivers run OpenFlow_01_Task.run() itself as a generator and choose what each "
              "select round reports (readable / exceptional / both / neither per connection) and how the switch's bytes are cut into TCP segments "
              "(a message may arrive in 2..4 segments with a read after each, or exceed one 2048-byte recv); the emulated-loop drivers feed whole "
              "messages only (optionally several per recv) -- reassembly as such is C02's subject, here only its consequences for the lifecycle are judged")
RULE = ("a case is a history of ops (open / message / message in several TCP segments / loss / disconnect / sendToDPID / DownEvent / select round) over <= 3 connections and 2 "
        "datapath ids; non-trivial when at least one asynchronous message arrived on a connection before it was announced, or "
        "two connections with the same datapath id had overlapping lifetimes; distinct by SHA-1 of the canonical JSON of the ops")
ASSUMPTIONS = [
  "'most recent live connection' is read as most recently announced; when the most recently opened live connection is another one, either is accepted",
  "port-status messages that arrive before the features reply may be dropped (the features reply supersedes them); only at-most-once, order and not-before-up are required of them",
  "what the controller does with a barrier reply carrying a foreign xid is not prescribed; the model follows the implementation there (POX drops the connection) and only forbids announcing it at that moment",
  "connection-down for a connection that was never announced is neither required nor forbidden",
  "after a fatal send error connection-down may be raised at once or when the socket is closed; after EOF/recv error/disconnect()/DownEvent it is due within the same step",
  "after a registry discrepancy for a datapath id has been recorded, that id is not judged again until registry and model agree (so a known finding does not mask the rest of the history)",
  "when the newest connection of a datapath goes away while an older announced connection of the same datapath is still open, the statement can be read both ways (the survivor is its 'stale connection' or its 'most recent live connection'): the registry may hold the survivor or nothing, sendToDPID must agree with the registry",
  "the scripted switch may answer every message the controller sent during the handshake (features request, stats request, set_config, flow_mod, barrier request) with an error echoing that message's xid and carrying a copy of it; only BAD_REQUEST/BAD_TYPE in answer to the barrier request itself (identified by type and position in the controller's output) finishes the handshake",
  "core DownEvent: every connection that is registered (the most recent live announced one per datapath) must get ConnectionDown exactly once within that step and leave the registry; a superseded, unregistered older connection of the same datapath is not judged",
  "real task loop: a connection is only reported readable when its fake socket has data, EOF or an error pending (as select would); it may be reported exceptional at any time, which counts as a loss: it must be closed and get its ConnectionDown; messages queued but unread at that moment count as never received; at the end every switch goes away and every connection must have been closed by the loop",
  "a switch answers the handshake barrier once (the quantifier's multiset); histories with a second barrier reply can be replayed but are not generated",
  "real task loop: a connection whose switch is there (no EOF / reset / exceptional report / failed send), that the application has not disconnected and whose switch sent only well-formed messages none of which lets the controller drop it (foreign barrier xid: followed) must not be closed by the loop, however its bytes are cut into TCP segments -- otherwise its connection-up can never be raised once after the features and barrier replies, or it gets a connection-down and leaves the registry although it was not lost (clause healthy-connection-closed-by-the-loop; not judged for a round in which the task logged an exception)",
]
EXHAUSTIVE_SCOPE = {
  "quick": ("one connection: all 24 orders of {hello, features, desc-stats, barrier outcome} x 3 barrier outcomes x every "
            "insertion of <= 2 of 5 asynchronous messages (port-status, echo request, packet-in, unrelated error with data, flow-stats reply), each followed by port-status/sendToDPID/EOF; two connections: "
            "all 70 merges of [open, features, barrier, lose] x same/different dpid x 4x4 loss kinds; three connections: all 90 "
            "merges of [handshake, lose] x 4 dpid assignments x 2 loss kinds; EOF / reset at 7 byte offsets inside each of the 6 "
            "messages of a handshake while an announced connection of the same dpid is live; an error of 3 type/code pairs answering each "
            "of the controller's 5 handshake messages (and all 25 pairs of BAD_REQUEST/BAD_TYPE errors) at every position x 4 barrier outcomes; "
            "core DownEvent after every announced/half/none mix of 1..3 connections over 8 dpid assignments and all orders, and at every point "
            "of all 70 merges of two lifecycles on different dpids; real task loop: one select round reporting each of two connections "
            "not at all / readable / exceptional / both, with and without data pending, at each of 5 handshake stages; each of the 8 messages of "
            "a handshake-plus-traffic sequence (2 barrier outcomes) cut into 2 or 3 TCP segments at 7 boundary offsets with a read after each segment, alone or read together with "
            "the message before it, with and without an announced connection of the same dpid; features replies of 42/43/64 ports and packet-ins of 2048/2049/5032 bytes "
            "whole and in segments; EOF / reset after a first segment at 3 offsets of each message"),
  "thorough": ("as quick with <= 3 asynchronous messages, three connections with [open, handshake, lose] stages (1680 merges x 4 "
               "dpid assignments), and EOF / reset after every byte prefix of the handshake with a second live connection on the same dpid"),
}

_HANDSHAKE_REQUESTS = (sb.OFPT_FEATURES_REQUEST, sb.OFPT_STATS_REQUEST, sb.OFPT_SET_CONFIG, sb.OFPT_FLOW_MOD, sb.OFPT_BARRIER_REQUEST)
_REQ_NAMES = {sb.OFPT_FEATURES_REQUEST: "features_request", sb.OFPT_STATS_REQUEST: "stats_request", sb.OFPT_SET_CONFIG: "set_config",
              sb.OFPT_FLOW_MOD: "flow_mod", sb.OFPT_BARRIER_REQUEST: "barrier_request"}
_RERR_CODES = [(sb.OFPET_BAD_REQUEST, sb.OFPBRC_BAD_TYPE), (sb.OFPET_BAD_REQUEST, sb.OFPBRC_BAD_LEN), (sb.OFPET_FLOW_MOD_FAILED, 0),
               (sb.OFPET_BAD_REQUEST, sb.OFPBRC_BAD_STAT), (sb.OFPET_BAD_ACTION, 1)]

DPIDS = [0x0000000000000001, 0x00a1b2c3d4e5f607]
# datapath ids a switch may report: any 64-bit value (OF 1.0: 48-bit MAC + 16 implementer-defined bits), including 0
DPID_VALUES = [0, 1, 2, 0xffff, 0x0000ffffffffffff, 0x0001000000000000, 0x7fffffffffffffff, 0x8000000000000000, 0xffffffffffffffff, 0x00a1b2c3d4e5f607]
MAX_CONNS = 3

_W = None


def setup():
  global _W
  if _W is None:
    from ..sim import world
    world.boot()
    _W = world


# --------------------------------------------------------------------------- harness

class _C(object):
  __slots__ = ("idx", "con", "sock", "closed", "pending", "joined", "parsed", "m", "armed", "acts", "requests", "barrier_answered", "dead")


class _H(object):
  def __init__(self, out, app=None, dpids=None):
    self.app = dict(app or {})      # behaviour of the application's listeners (see _rec)
    self.dpids = list(dpids) if dpids else DPIDS   # the two datapath ids the case's switches report
    self.refreshed = set()          # connections that got a features reply after their handshake during this op
    self.up_obs = []                # what an application sees in the registry while ConnectionUp is delivered
    setup()
    import pox.openflow.of_01 as of_01
    import pox.core
    self.of_01 = of_01
    self.poxcore = pox.core
    self.out = out
    self.w = _W.World()
    self.model = lc.Lifecycle()
    self.cs = []
    self.by_id = {}
    self.log = []            # (level, kind, idx, tag)
    self.step = 0
    self.tainted = set()
    self.ps_seq = 0
    self.xid_seq = 0x5000
    self.once = _Once(out)
    self.batch = 0           # number of messages queued for the read in progress
    self.before = []         # (lost, closed) per connection before the current op
    self.acted = set()       # connections that were lost/closed during the current op
    for n in ("ConnectionUp", "ConnectionDown", "PortStatus"):
      self.w.nexus.addListenerByName(n, self._rec("nexus", n))

  def close(self):
    self.w.close()

  def _rec(self, level, kind):
    def h(e):
      c = self.by_id.get(id(e.connection))
      idx = c.idx if c is not None else -1
      tag = None
      if kind == "PortStatus":
        tag = e.ofp.desc.curr
      elif kind == "ConnectionUp":
        tag = e.dpid
      self.log.append((level, kind, idx, tag))
      if kind == "ConnectionUp" and c is not None:
        self._observe_up(level, c, e)
      elif kind == "ConnectionDown" and self.app.get("down") and level == self.app.get("down_level", "nexus"):
        # an application that cleans up in its ConnectionDown handler
        if self.app["down"] == "close" and self.app_may_close:
          e.connection.close()
        else:
          e.connection.disconnect()
    return h

  app_may_close = True

  def _observe_up(self, level, c, e):
    """an application's ConnectionUp handler looks the datapath up in the registry (and may send to it)"""
    nexus = self.w.nexus
    ok = set([c.idx])
    for o in self.cs:
      if o is not c and o.m.up and not o.m.lost and o.m.dpid == c.m.peer_dpid and o.idx > c.idx:
        ok.add(o.idx)             # opened later, announced earlier: either may count as the most recent
    reg = nexus.getConnection(e.dpid)
    rc = self.by_id.get(id(reg)) if reg is not None else None
    got = None if reg is None else (rc.idx if rc is not None else -1)
    listed = e.dpid in nexus.connections.dpids
    sent = None
    if self.app.get("send_on_up") and level == self.app.get("send_level", "nexus") and not any(o.armed and not o.sock.fatal for o in self.cs):
      self.xid_seq += 1
      payload = sb.echo_request(0x61000000 | self.xid_seq, b"on-up")
      before = [len(o.sock.sent) for o in self.cs]
      r = nexus.sendToDPID(e.dpid, payload)
      writers = [o.idx for i, o in enumerate(self.cs) if bytes(o.sock.sent[before[i]:])]
      exact = all(bytes(o.sock.sent[before[i]:]) in (b"", payload) for i, o in enumerate(self.cs))
      sent = (r, writers, exact)
    self.up_obs.append((level, c.idx, sorted(ok), got, listed, sent))

  # ---- connections
  def open(self, d):
    if len(self.cs) >= MAX_CONNS:
      return None
    c = _C()
    c.idx = len(self.cs)
    c.sock = _W.FakeSock()
    c.con = self.make_connection(c.sock)
    c.closed = c.pending = c.joined = c.armed = False
    c.dead = False           # its switch died in the middle of a message: nothing more can arrive on it
    c.parsed = 0
    c.acts = []
    c.barrier_answered = False
    c.requests = []          # (type, xid, bytes) of what the controller sent during the handshake, in order
    c.m = self.model.open(self.dpids[d])
    self.cs.append(c)
    self.by_id[id(c.con)] = c
    for n in ("ConnectionUp", "ConnectionDown", "PortStatus"):
      c.con.addListenerByName(n, self._rec("con", n))
    return c

  def make_connection(self, sock):
    return self.of_01.Connection(sock)

  def get(self, i):
    if i >= len(self.cs):
      return None
    c = self.cs[i]
    return None if c.closed else c

  def _do_close(self, c):
    """what OpenFlow_01_Task does when read() returned False or raised"""
    c.con.close()
    c.closed = True
    c.pending = False
    self.model.closed(c.m)

  def _after_read(self, c):
    """socket-level consequences of what the controller just did (no verdicts, no model)"""
    if c.closed:
      return
    if c.sock.fatal or c.sock.shutdowns:
      c.pending = True
    if c.pending:
      c.sock.eof = True

  def _note_loss(self, c):
    """a send on this socket failed fatally: the controller has observed the loss"""
    if not c.closed and c.sock.fatal and not c.m.lost:
      self.model.lost(c.m, down_now=False)

  def pump(self, c):
    n = 0
    while c.sock.inbox and not c.closed:
      try:
        r = c.con.read()
      except Exception as e:
        if exc_is_from_harness(e):
          raise
        self.out.violations.append({"key": exc_key(e, clause="read-raised"),
                                    "msg": "Connection.read() raised on well-formed input: %r (the task closes the connection)" % (e,)})
        self.out.label("read-raised")
        if self.batch > 1:
          # several messages were queued and the harness cannot tell after which one read() blew up:
          # this connection (and its dpid in the registry) is not judged any further
          c.m.unjudged = True
          self.out.label("read-raised-inside-a-batch: connection not judged further")
        self._do_close(c)
        break
      if r is False:
        self._do_close(c)
        break
      self._after_read(c)
      n += 1
      if n > 1000:
        raise HarnessError("read loop does not drain")
    c.joined = False
    self._scan_sent()

  def poll(self, c):
    """one pass of the select loop for a socket that reports EOF / error"""
    if c.closed:
      return
    if c.sock.inbox:
      self.pump(c)
    if c.closed:
      return
    if c.sock.eof or c.sock.recv_error is not None:
      r = c.con.read()
      if r is not False:
        raise HarnessError("read() on a dead socket returned %r" % (r,))
      self._do_close(c)

  def _scan_sent(self):
    for c in self.cs:
      data = bytes(c.sock.sent[c.parsed:])
      msgs, rest = sb.split(data)
      for v, t, x, b in msgs:
        if t in _HANDSHAKE_REQUESTS:
          c.requests.append((t, x, b))
        if t == sb.OFPT_BARRIER_REQUEST:
          # the barrier is identified by its type and position in the controller's output
          self.model.barrier_request_seen(c.m, x)
      c.parsed += len(data) - len(rest)

  # ---- messages
  def build(self, c, msg):
    """returns (bytes, model action)"""
    t = msg[0]
    m = self.model
    self.xid_seq += 1
    bx = c.m.barrier_xid
    if t == "hello":
      return sb.hello(0), None
    if t == "feat":
      # ["feat"] describes two ports; ["feat", n] describes n (32 + 48n bytes: 42 ports fill one 2048-byte recv exactly,
      # 43 and more cannot arrive in one read)
      nports = msg[1] if len(msg) > 1 else 2
      ports = [{"no": k, "hw": b"\x02\x00\x00\x00" + bytes([0x0a + (k >> 8), k & 0xff]), "name": "eth%d" % k} for k in range(1, nports + 1)]
      if nports != 2:
        self.out.label("features-reply:%s" % ("one-recv-or-less" if 32 + 48 * nports <= 2048 else "larger-than-one-recv"))
      if c.m.up:
        self.refreshed.add(c.idx)      # a features reply after the handshake (the application asked again)
        self.out.label("features-reply-after-handshake" + ("/superseded" if c.m.superseded else ""))
      return sb.features_reply(self.xid_seq, c.m.peer_dpid, ports), lambda: m.features(c.m)
    if t == "desc":
      return sb.desc_stats_reply(self.xid_seq), None
    if t == "bar":
      if bx is None:
        xid = 0x7777
      elif msg[1] == "right":
        xid = bx
      elif msg[1] == "old":
        # the reply to an EARLIER barrier request of this handshake (after a second features reply the
        # controller has sent a second one): what a switch that answers every barrier in order sends first
        old = [rx for (rt, rx, rb) in c.requests if rt == sb.OFPT_BARRIER_REQUEST and rx != bx]
        xid = old[0] if old else (bx + 1) & 0xffffffff
        self.out.label("barrier-reply:" + ("superseded-barrier" if old else "foreign-xid"))
      else:
        xid = (bx + 1 + (msg[2] if len(msg) > 2 else 0)) & 0xffffffff
      if bx is not None:
        c.barrier_answered = True
      return sb.barrier_reply(xid), lambda: m.barrier_reply(c.m, xid)
    if t == "berr":
      xid = bx if bx is not None else 0x7777
      if bx is not None:
        c.barrier_answered = True
      return (sb.error(xid, sb.OFPET_BAD_REQUEST, sb.OFPBRC_BAD_TYPE, sb.barrier_request(xid)),
              # (judged when it is read: a features reply read before it in the same segment has made the controller
              #  send a new barrier request, and this error then answers a superseded one)
              lambda: m.error(c.m, bx is not None and bx == c.m.barrier_xid, sb.OFPET_BAD_REQUEST, sb.OFPBRC_BAD_TYPE))
    if t == "rerr":
      # an error answering the k-th message the controller has sent during the handshake so far, echoing
      # THAT message's xid and carrying a copy of it, with one of several type/code pairs
      et, code = _RERR_CODES[msg[2] % len(_RERR_CODES)]
      if not c.requests:
        xid = self.xid_seq | 0x40000000
        def act0():
          m.other(c.m)
          return m.error(c.m, False, et, code)
        return sb.error(xid, et, code, b""), act0
      rt, rx, rb = c.requests[msg[1] % len(c.requests)]
      if rt == sb.OFPT_BARRIER_REQUEST and rx == bx and c.barrier_answered:
        # the switch answers the barrier once (the quantifier's multiset): answer another request instead
        rt, rx, rb = c.requests[msg[1] % (len(c.requests) - 1)]
        if rt == sb.OFPT_BARRIER_REQUEST and rx == bx:
          rt, rx, rb = c.requests[0]
      # "the" barrier is the outstanding one: after a second features reply during the handshake the
      # controller has sent a second barrier request, and an answer to the first (superseded) one says
      # nothing about the messages sent after it -- the statement does not make it complete the handshake
      is_barrier = rt == sb.OFPT_BARRIER_REQUEST and rx == bx
      if rt == sb.OFPT_BARRIER_REQUEST and not is_barrier:
        self.out.label("error-answering:superseded-barrier")
      if is_barrier:
        c.barrier_answered = True
      self.out.label("error-answering:%s/%s" % (_REQ_NAMES[rt], "BAD_REQUEST-BAD_TYPE" if (et, code) == _RERR_CODES[0] else "other-code"))
      def act1():
        if not is_barrier:
          m.other(c.m)
        return m.error(c.m, is_barrier and rx == c.m.barrier_xid, et, code)
      return sb.error(rx, et, code, rb[:64]), act1
    if t == "ps":
      self.ps_seq += 1
      tag = self.ps_seq
      port = {"no": 1 + msg[2] % 3, "hw": b"\x02\x00\x00\x00\x0a" + bytes([1 + msg[2] % 3]), "name": "p%d" % tag, "curr": tag}
      return sb.port_status(0, msg[1] % 3, port), lambda: m.port_status(c.m, tag)
    if t == "echo":
      return sb.echo_request(self.xid_seq, b"ping"), lambda: m.other(c.m)
    if t == "pin":
      # ["pin"] carries an ARP frame; ["pin", n] a frame with n payload bytes (message = 32 + n bytes for n >= 46)
      npay = msg[1] if len(msg) > 1 else 28
      frame = sb.ethernet_frame(b"\xff" * 6, b"\x02\x00\x00\x00\x00\x01", 0x0806, b"\x00" * npay)
      data = sb.packet_in(0, 0xffffffff, 1, frame)
      if npay != 28:
        self.out.label("packet-in:%s" % ("one-recv-or-less" if len(data) <= 2048 else "larger-than-one-recv"))
      return data, lambda: m.other(c.m)
    if t == "err":
      v = msg[1] % 4
      data = (b"\x01\x0e\x00\x48" + b"\x00" * 60) if (len(msg) > 2 and msg[2]) else b""
      other = self.xid_seq | 0x40000000
      if v == 0:
        xid, et, code = other, sb.OFPET_BAD_REQUEST, sb.OFPBRC_BAD_TYPE
      elif v == 1:
        xid, et, code = (bx if bx is not None else other), sb.OFPET_BAD_REQUEST, sb.OFPBRC_BAD_LEN
      elif v == 2:
        xid, et, code = (bx if bx is not None else other), sb.OFPET_FLOW_MOD_FAILED, 1
      else:
        xid, et, code = other, sb.OFPET_HELLO_FAILED, 0
      answers_barrier = v in (1, 2) and bx is not None
      def act():
        m.other(c.m)
        return m.error(c.m, answers_barrier, et, code)
      return sb.error(xid, et, code, data), act
    if t == "stats":
      k = msg[1] % 3
      if k == 0:
        b = sb.stats_reply_entries(self.xid_seq, sb.OFPST_FLOW, [{"cookie": 1, "out": [1]}, {"cookie": 2}])
      elif k == 1:
        b = sb.stats_reply_entries(self.xid_seq, sb.OFPST_PORT, [{"port_no": 1}])
      else:
        b = sb.aggregate_stats_reply(self.xid_seq, 1, 2, 3)
      return b, lambda: m.other(c.m)
    raise HarnessError("unknown message %r" % (msg,))

  def message(self, c, msg, join):
    if c.pending and not c.joined:
      # the controller has shut the socket down: nothing more is delivered, the loop closes it
      self.poll(c)
      return
    data, act = self.build(c, msg)
    c.sock.feed(data)
    # the model sees a message when the controller reads it; with `join` that is at the next pump
    c.acts.append(act)
    if join and not (c.armed and not c.sock.fatal):
      # (with a send failure armed, messages are delivered one by one so that the model knows
      # which message the failure belongs to)
      c.joined = True
      return
    self.deliver(c)

  def deliver(self, c):
    """read everything queued on c, then tell the model, message by message.  A message that refers to
    the barrier xid had it resolved when it was built, i.e. before the queued ones were read -- that is
    what a peer that pipelines its messages can know."""
    acts = c.acts
    c.acts = []
    self.batch = len(acts)
    self.pump(c)
    self.batch = 0
    for a in acts:
      if a is not None:
        a()
      self._follow(c)
    self._note_loss(c)

  def _follow(self, c):
    """points where the statement is silent: follow what the controller did"""
    if c.m.wrong_barrier and not c.m.lost and not c.m.up:
      if c.con.disconnected:
        self.model.lost(c.m, down_now=True)
        self.out.label("wrong-barrier-dropped")
      c.m.wrong_barrier = False


# --------------------------------------------------------------------------- oracle

def _counts(h, kind, level):
  n = {}
  for lv, k, idx, tag in h.log:
    if lv == level and k == kind:
      n[idx] = n.get(idx, 0) + 1
  return n


class _Once(object):
  """records each violation key once per case"""
  def __init__(self, out):
    self.out = out
    self.seen = set()

  def fail(self, clause, msg, **key):
    k = (clause,) + tuple(sorted(key.items()))
    if k in self.seen:
      return
    self.seen.add(k)
    self.out.fail(clause, msg, **key)


def _check(h, op):
  out = h.once
  now = [(c.m.lost, c.m.closed) for c in h.cs]
  h.acted = set(i for i, st_ in enumerate(now) if i >= len(h.before) or st_ != h.before[i])
  # ---- connection-up / connection-down counts
  for level in ("nexus", "con"):
    ups = _counts(h, "ConnectionUp", level)
    downs = _counts(h, "ConnectionDown", level)
    for c in h.cs:
      m = c.m
      if m.unjudged:
        continue
      u = ups.get(c.idx, 0)
      want = 1 if m.up else 0
      if u > 1:
        out.fail("up-duplicate", "connection %d: ConnectionUp raised %d times on the %s (after op %r)" % (c.idx, u, level, op), level=level)
      elif u > want:
        why = "lost" if m.lost else ("no-features" if not m.got_features else "no-barrier-reply")
        out.fail("up-early", "connection %d: ConnectionUp raised on the %s although the handshake is not complete (%s) (after op %r)" % (c.idx, level, why, op), level=level, why=why)
      elif u < want:
        out.fail("up-missing", "connection %d: features and barrier reply received but no ConnectionUp on the %s (after op %r)" % (c.idx, level, op), level=level)
      d = downs.get(c.idx, 0)
      if d > 1:
        out.fail("down-duplicate", "connection %d: ConnectionDown raised %d times on the %s (after op %r)" % (c.idx, d, level, op), level=level)
      elif m.up:
        if not m.lost and d:
          out.fail("down-on-live", "connection %d: ConnectionDown on the %s for a live connection (after op %r)" % (c.idx, level, op), level=level)
        elif m.lost and m.down_now and d == 0:
          out.fail("down-missing", "connection %d was announced and is lost (closed=%s) but no ConnectionDown on the %s (after op %r)" % (c.idx, m.closed, level, op), level=level)
    # ---- order: Up before any PortStatus, Up carries the right dpid
    for c in h.cs:
      if c.m.unjudged:
        continue
      seq = [(k, tag) for lv, k, idx, tag in h.log if lv == level and idx == c.idx]
      kinds = [k for k, _ in seq]
      if "PortStatus" in kinds and ("ConnectionUp" not in kinds or kinds.index("PortStatus") < kinds.index("ConnectionUp")):
        out.fail("port-status-before-up", "connection %d: PortStatus event on the %s before ConnectionUp (after op %r)" % (c.idx, level, op), level=level)
      for k, tag in seq:
        if k == "ConnectionUp" and tag != c.m.peer_dpid:
          out.fail("up-dpid", "connection %d: ConnectionUp.dpid is %r, the switch reported %r" % (c.idx, tag, c.m.peer_dpid), level=level)
      delivered = [tag for k, tag in seq if k == "PortStatus"]
      err = lc.check_port_status_order(c.m, delivered)
      if err:
        out.fail("port-status-" + err, "connection %d: PortStatus events on the %s %r, arrival order %r (after op %r)" % (c.idx, level, delivered, c.m.ps_all, op), level=level)
      elif c.m.up and not c.joined:
        miss = lc.missing_mandatory(c.m, delivered)
        if miss:
          out.fail("port-status-missing", "connection %d: port-status %r arrived after the features reply but no PortStatus event on the %s; delivered %r (after op %r)" % (c.idx, miss, level, delivered, op), level=level)
  # ---- what an application saw from inside its ConnectionUp handler
  for level, idx, ok, got, listed, sent in h.up_obs:
    if h.cs[idx].m.unjudged:
      continue
    if got not in ok or not listed:
      out.fail("registry-during-connection-up", "connection %d: while ConnectionUp was delivered on the %s, the registry mapped its dpid to %s (listed=%s); the connection being announced is the datapath's most recent live one" % (
          idx, level, "nothing" if got is None else "connection %d" % got, listed), level=level, saw="nothing" if got is None else "another-connection")
    if sent is not None:
      r, writers, exact = sent
      if r is not True or len(writers) != 1 or writers[0] not in ok or not exact:
        out.fail("send-to-dpid-during-connection-up", "connection %d: sendToDPID from a ConnectionUp handler on the %s returned %r and wrote to sockets %r" % (idx, level, r, writers), level=level)
  h.up_obs = []
  # ---- registry
  _check_registry(h, op)
  h.before = now
  h.refreshed = set()
  h.prev_real = _real_registry(h)


def _real_registry(h):
  real = {}
  for d, con in dict.items(h.w.nexus.connections):
    c = h.by_id.get(id(con))
    real[d] = c.idx if c is not None else -1
  return real


def _check_registry(h, op):
  out = h.once
  exp = h.model.registry()
  real = _real_registry(h)
  prev = h.prev_real
  for d in sorted(set(exp) | set(real) | set(h.tainted), key=lambda x: (x is None, x or 0)):
    r = real.get(d)
    e = exp.get(d)
    ok = (r is None and (e is None or e[2])) or (e is not None and r in e[1])
    if any(c.m.unjudged and c.m.dpid == d for c in h.cs):
      continue
    if d in h.tainted:
      if ok:
        h.tainted.discard(d)
      continue
    if ok:
      continue
    h.tainted.add(d)
    acted = h.acted
    if r is None:
      p = prev.get(d)
      others = sorted(i for i in acted if h.cs[i].m.peer_dpid == d and i != p)
      if p is not None and p not in acted and others:
        a = h.cs[others[0]]
        stage = "announced" if a.m.up else "half-handshaken"
        out.fail("registry", "dpid %#x: disconnecting/closing connection %d (%s) removed the registry entry of live connection %d (op %r)" % (
            d, a.idx, stage, p, op), cause="live-connection-unregistered-by-another-connections-disconnect")
      else:
        out.fail("registry", "dpid %#x: live fully-handshaken connection %d is not in the registry (op %r)" % (d, e[0].idx, op),
                 cause="live-connection-missing")
    elif e is None:
      c = h.cs[r] if 0 <= r < len(h.cs) else None
      if c is None:
        why = "unknown"
      elif c.m.lost:
        why = "lost"
      elif not c.m.up:
        why = "not-handshaken"
      else:
        why = "other"
      out.fail("registry", "registry maps %s to connection %d which is %s (op %r)" % ("%#x" % d if d is not None else None, r, why, op),
               cause="entry-not-live-or-not-handshaken", why=why, none_key=(d is None))
    elif r in h.refreshed:
      out.fail("registry", "dpid %#x: a features reply on the superseded connection %d put it back into the registry in place of the datapath's most recent live connection %d (op %r)" % (
          d, r, e[0].idx, op), cause="stale-connection-re-registered-by-features-reply")
    else:
      out.fail("registry", "dpid %#x: registry has connection %d, most recent live connection is %d (op %r)" % (d, r, e[0].idx, op),
               cause="wrong-connection")


def _send_to(h, d, op):
  dpid = h.dpids[d]
  exp = h.model.registry().get(dpid)
  h.xid_seq += 1
  payload = sb.echo_request(0x60000000 | h.xid_seq, b"to-dpid")
  before = [len(c.sock.sent) for c in h.cs]
  armed = [c.armed and not c.sock.fatal for c in h.cs]
  r = h.w.nexus.sendToDPID(dpid, payload)
  got = [bytes(c.sock.sent[before[i]:]) for i, c in enumerate(h.cs)]
  for c in h.cs:
    h._after_read(c)
  if dpid in h.tainted or any(c.m.unjudged and c.m.dpid == dpid for c in h.cs):
    h.out.label("send-on-tainted-dpid")
    return
  writers = [i for i, g in enumerate(got) if g]
  if exp is not None and exp[2] and h.prev_real.get(dpid) is None:
    h.out.label("send:only-a-superseded-connection-left (either reading accepted)")
    exp = None
  if exp is None:
    h.out.label("send:no-connection")
    if r is not False or writers:
      h.out.fail("send-to-dpid", "sendToDPID(%#x) with no live connection returned %r and wrote to sockets %r" % (dpid, r, writers), case="none-live")
    return
  h.out.label("send:live")
  ok_targets = exp[1]
  if r is not True:
    h.out.fail("send-to-dpid", "sendToDPID(%#x) returned %r although connection %d is live" % (dpid, r, exp[0].idx), case="returned-false")
    return
  failed_send = [i for i in ok_targets if armed[i] and h.cs[i].sock.fatal]
  if failed_send:
    if writers:
      h.out.fail("send-to-dpid", "send failed on socket %r but bytes appeared on %r" % (failed_send, writers), case="failed-send")
    return
  if len(writers) != 1 or writers[0] not in ok_targets or got[writers[0]] != payload:
    h.out.fail("send-to-dpid", "sendToDPID(%#x): expected exactly the payload on connection %d, sockets written: %r" % (
        dpid, exp[0].idx, [(i, got[i].hex()) for i in writers]), case="wrong-socket")


# --------------------------------------------------------------------------- interpreter

def run_case(case):
  out = Outcome()
  if case["k"] == "loop":
    out.label("driver:real-OpenFlow_01_Task-loop")
    h = _HL(out, case.get("app"), case.get("dpids"))
    try:
      _run_loop(h, case["ops"])
    finally:
      h.close()
    return out
  h = _H(out, case.get("app"), case.get("dpids"))
  if case.get("dpids"):
    out.label("datapath-ids:" + ("with-zero" if 0 in h.dpids else "with-top-bit" if max(h.dpids) >> 63 else "other"))
  if h.app:
    out.label("app:" + ",".join("%s=%s" % kv for kv in sorted(h.app.items())))
  try:
    _run(h, case["ops"])
  finally:
    h.close()
  return out


# --------------------------------------------------------------------------- the same, through the real task loop

class _HL(_H):
  """Connections are accepted, read and closed by the real OpenFlow_01_Task.run() (driven as a generator by
  pvf.sim.loops.ControllerLoop); the harness only chooses what each select() round reports."""

  app_may_close = False      # (in this driver a closed socket is the sign that the LOOP closed the connection)

  def __init__(self, out, app=None, dpids=None):
    _H.__init__(self, out, app, dpids)
    from ..sim import loops
    self.loop = loops.ControllerLoop(self.w)
    self.fedn = {}             # connection index -> bytes its switch has sent so far
    self.bounds = {}           # connection index -> stream offsets at which a message ends

  def feed(self, c, data, ends_message=True):
    c.sock.feed(data)
    self.fedn[c.idx] = self.fedn.get(c.idx, 0) + len(data)
    if ends_message:
      self.bounds.setdefault(c.idx, set([0])).add(self.fedn[c.idx])

  def mid_message(self, c):
    """has the controller read part of a message whose rest has not been read yet"""
    return (self.fedn.get(c.idx, 0) - len(c.sock.inbox)) not in self.bounds.get(c.idx, set([0]))

  def close(self):
    try:
      self.loop.close()
    finally:
      _H.close(self)

  def make_connection(self, sock):
    # one select round that reports only the listener (ControllerLoop.connect would also read every
    # connection that has data queued, behind the model's back)
    loop = self.loop
    loop.listener.pending.append(sock)
    loop.select = loop._advance(([loop.listener], [], []))
    for con in loop.connections():
      if getattr(con, "sock", None) is sock:
        return con
    raise HarnessError("the task loop did not accept the connection")

  def round(self, spec, op):
    """one wake-up of the task.  spec[i] for connection i: bit 0 = report it readable (only honoured when its
    socket really has data / EOF / an error pending, as select would), bit 1 = report it exceptional."""
    if not self.loop.alive:
      raise HarnessError("the task loop has ended: %r" % (self.loop.ended,))
    selected = set(id(x) for x in self.loop.selected)
    rl, el = [], []
    for c in self.cs:
      sp = spec[c.idx] if c.idx < len(spec) else 0
      if c.closed or id(c.con) not in selected:
        continue
      if sp & 1 and c.sock.v_readable():
        rl.append(c)
      if sp & 2:
        el.append(c)
    if not rl and not el:
      return
    for c in el:
      self.out.label("loop:reported-exceptional" + ("+readable" if c in rl else "") + ("/data-pending" if c.sock.inbox else "") + _stage(c))
    # a connection whose switch is there and on which the controller has seen no loss so far
    sound = set(c.idx for c in rl if c not in el and not c.m.lost and not c.pending and not c.sock.eof and c.sock.recv_error is None
                and not c.sock.fatal)
    n_exc = len(self.loop.log.exceptions)
    mid = {}
    self.loop.select = self.loop._advance(([c.con for c in rl], [], [c.con for c in el]))
    for c in rl:
      mid[c.idx] = self.mid_message(c)
      if mid[c.idx] and not c.sock.closed:
        self.out.label("loop:read-ended-inside-a-message" + _stage(c))
    # whatever is still queued on a connection that was read and survived is read in further rounds
    n = 0
    while self.loop.alive:
      more = [c for c in rl if c not in el and not c.sock.closed and c.sock.inbox and id(c.con) in set(id(x) for x in self.loop.selected)]
      if not more:
        break
      self.loop.select = self.loop._advance(([c.con for c in more], [], []))
      for c in more:
        if self.mid_message(c):
          mid[c.idx] = True
          if not c.sock.closed:
            self.out.label("loop:read-ended-inside-a-message" + _stage(c))
      n += 1
      if n > 1000:
        raise HarnessError("task loop does not drain")
    # ---- tell the model (as in the emulated loop: what the controller wrote while reading is known first, so that a
    # pipelined answer to a barrier request that had not been sent when the answer was built is recognised as foreign)
    self._scan_sent()
    for c in self.cs:
      if c in el:
        # reported exceptional: the loop tears it down without reading; queued messages were never received
        c.acts = []
        c.joined = False
        c.closed = True
        c.pending = False
        self.model.closed(c.m)
      elif c in rl:
        acts, c.acts = c.acts, []
        c.joined = False
        for a in acts:
          if a is not None:
            a()
          self._follow(c)
        self._note_loss(c)
        if c.sock.closed:
          if c.idx in sound and not c.m.lost and not c.m.unjudged and len(self.loop.log.exceptions) == n_exc:
            # the switch is there, the application has not disconnected it, nothing it sent lets the controller drop it
            # (the model has followed the foreign-barrier-xid case above) and nothing was raised: the loop has thrown a
            # healthy connection away -- its connection-up can no longer be raised once after the features and barrier
            # replies / it gets a connection-down and leaves the registry although it was not lost
            self.once.fail("healthy-connection-closed-by-the-loop",
                           "connection %d (%s): its switch is there and sent only well-formed messages, but the task loop closed it after a read that %s (op %r)" % (
                               c.idx, _stage(c)[1:], "ended inside a message (the rest had not arrived yet)" if mid.get(c.idx) else "ended on a message boundary", op),
                           read="ended-inside-a-message" if mid.get(c.idx) else "whole-messages")
          c.closed = True
          c.pending = False
          self.model.closed(c.m)
    _settle(self, op)
    for c in el:
      if not c.sock.closed:
        self.once.fail("exceptional-connection-left-open", "connection %d was reported exceptional by select but the task loop did not close it (op %r)" % (c.idx, op))


def _run_loop(h, ops):
  out = h.out
  h.prev_real = {}
  h.opened_at, h.closed_at = {}, {}
  for step, op in enumerate(ops):
    h.step = step
    o = op[0]
    if o == "open":
      c = h.open(op[1] % 2)
      if c is not None:
        h.opened_at[c.idx] = step
    elif o == "m":
      c = h.get(op[1])
      if c is None or c.pending or c.dead:
        continue
      out.label("msg:" + op[2][0] + ("/pre-up" if not c.m.up else "/post-up"))
      data, act = h.build(c, op[2])
      h.feed(c, data)
      c.acts.append(act)
      c.joined = True
    elif o == "mseg":
      # one message that reaches the controller in several TCP segments: after each segment but the last the
      # task wakes up and reads this connection (the rest has not arrived yet); the last one is queued like "m"
      # (or, with op[4] = "eof"/"rst", never arrives: the connection dies instead)
      c = h.get(op[1])
      if c is None or c.pending or c.dead:
        continue
      data, act = h.build(c, op[2])
      points = sorted(set(1 + k % (len(data) - 1) for k in op[3]))
      out.label("msg:" + op[2][0] + ("/pre-up" if not c.m.up else "/post-up"))
      out.label("segmented:%s/%d-segments%s" % (op[2][0], len(points) + 1, "/first-inside-header" if points and points[0] < 8 else ""))
      out.label("segmented" + _stage(c))
      prev = 0
      only = [1 if i == c.idx else 0 for i in range(MAX_CONNS)]
      for pt in points:
        if c.closed or c.pending:
          break
        h.feed(c, data[prev:pt], ends_message=False)
        prev = pt
        c.joined = True
        h.round(only, ["mseg-round", c.idx, pt])
      if c.closed or c.pending:
        continue
      if len(op) > 4 and op[4]:
        # the rest never arrives: the connection dies with part of a message delivered
        if op[4] == "rst":
          c.sock.recv_error = errno.ECONNRESET
        else:
          c.sock.eof = True
        c.dead = True
        out.label("loss:inside-a-segmented-message" + _stage(c))
      else:
        h.feed(c, data[prev:])
        c.acts.append(act)
        c.joined = True
    elif o == "lose":
      c = h.get(op[1])
      if c is None:
        continue
      if op[2] == "rst":
        c.sock.recv_error = errno.ECONNRESET
      else:
        c.sock.eof = True
      out.label("loss:" + op[2] + _stage(c))
    elif o == "disc":
      c = h.get(op[1])
      if c is None or c.joined:
        continue
      out.label("loss:disconnect()" + _stage(c))
      c.con.disconnect()
      h.model.lost(c.m, down_now=True)
    elif o == "send":
      _send_to(h, op[1] % 2, op)
    elif o == "round":
      h.round(op[1], op)
      continue
    else:
      raise HarnessError("unknown op %r" % (op,))
    _settle(h, op)
  # ---- the switches go away; the loop must notice every one of them
  h.step = len(ops)
  for c in h.cs:
    if not c.closed:
      c.sock.eof = True
  for _ in range(4):
    h.round([1] * len(h.cs), ["end-round"])
  for c in h.cs:
    if not c.sock.closed:
      # the loop no longer selects on it (or never closed it): for the controller this connection is lost for good
      h.model.closed(c.m)
      c.closed = True
      h.once.fail("lost-connection-never-closed", "connection %d: its switch went away but the task loop never closed it (no longer selected on: %s)" % (
          c.idx, id(c.con) not in set(id(x) for x in h.loop.selected)))
  _settle(h, ["end"])
  nt = False
  for c in h.cs:
    if c.m.async_before_up:
      nt = True
  n = len(h.cs)
  for i in range(n):
    for j in range(i + 1, n):
      a, b = h.cs[i], h.cs[j]
      if a.m.peer_dpid == b.m.peer_dpid and a.m.got_features and b.m.got_features and h.opened_at[j] < h.closed_at.get(i, 10 ** 9):
        nt = True
  out.nontrivial = nt
  out.label("announced:%d" % sum(1 for c in h.cs if c.m.up))
  if h.loop.log.exceptions:
    out.label("loop:exception-logged-by-the-task")


def _stage(c):
  return "/announced" if c.m.up else ("/half" if c.m.got_features else "/early")


def _settle(h, op):
  """after anything that ran controller code: notice failed sends / shutdowns, learn xids, judge"""
  for c in h.cs:
    h._after_read(c)
    h._note_loss(c)
  h._scan_sent()
  for c in h.cs:
    if (c.closed or c.m.lost) and c.idx not in h.closed_at:
      h.closed_at[c.idx] = h.step
  _check(h, op)


def _run(h, ops):
  out = h.out
  h.prev_real = {}
  h.opened_at, h.closed_at = {}, {}
  early_ps = False
  for step, op in enumerate(ops):
    h.step = step
    o = op[0]
    if o == "open":
      c = h.open(op[1] % 2)
      if c is not None:
        h.opened_at[c.idx] = step
    elif o == "m":
      c = h.get(op[1])
      if c is None:
        continue
      msg = op[2]
      join = bool(op[3]) if len(op) > 3 else False
      if msg[0] == "ps" and c.m.got_features and not c.m.up and not c.m.lost:
        early_ps = True
      out.label("msg:" + msg[0] + ("/pre-up" if not c.m.up else "/post-up"))
      h.message(c, msg, join)
    elif o == "lose":
      c = h.get(op[1])
      if c is None:
        continue
      if c.joined:
        h.deliver(c)
        _settle(h, ["lose-deliver", c.idx])
      if not c.closed:
        if op[2] == "rst":
          c.sock.recv_error = errno.ECONNRESET
        else:
          c.sock.eof = True
        out.label("loss:" + op[2] + _stage(c))
        h.poll(c)
    elif o == "cut":
      # a proper prefix of a message arrives, then the connection dies
      c = h.get(op[1])
      if c is None or c.pending:
        continue
      if c.joined:
        h.deliver(c)
        _settle(h, ["cut-deliver", c.idx])
      if c.closed or c.pending:
        continue
      data, act = h.build(c, op[2])
      n = op[3] % len(data)
      c.sock.feed(data[:n])
      h.pump(c)
      if not c.closed:
        if len(op) > 4 and op[4] == "rst":
          c.sock.recv_error = errno.ECONNRESET
        else:
          c.sock.eof = True
        out.label("loss:cut" + _stage(c))
        h.poll(c)
    elif o == "sendfail":
      c = h.get(op[1])
      if c is None or c.pending:
        continue
      if c.joined:
        h.deliver(c)
        _settle(h, ["sendfail-deliver", c.idx])
        if c.closed or c.pending:
          continue
      c.sock.send_script = ["EPIPE"]
      c.armed = True
      out.label("armed-send-failure" + _stage(c))
    elif o == "disc":
      c = h.get(op[1])
      if c is None:
        continue
      if c.joined:
        h.deliver(c)
        _settle(h, ["disc-deliver", c.idx])
      if c.closed:
        continue
      out.label("loss:disconnect()" + _stage(c))
      c.con.disconnect()
      h.model.lost(c.m, down_now=True)
    elif o == "poll":
      for c in h.cs:
        if not c.closed and c.pending and not c.joined:
          h.poll(c)
          _settle(h, op)
    elif o == "send":
      _send_to(h, op[1] % 2, op)
    elif o == "down":
      for c in h.cs:
        if c.joined and not c.closed:
          h.deliver(c)
          _settle(h, ["down-deliver", c.idx])
      snapshot = h.model.registry()
      bad = set(h.tainted)
      out.label("core-DownEvent")
      h.w.core.raiseEvent(h.poxcore.DownEvent())
      for d, (pref, acc, absent_ok) in snapshot.items():
        if d in bad:
          continue
        if len(acc) > 1 or absent_ok:
          # ambiguous 'most recent': follow which one the controller had registered
          for i in sorted(acc):
            if h.cs[i].con.disconnected:
              h.model.lost(h.cs[i].m, down_now=True)
        else:
          h.model.lost(pref, down_now=True)
      for c in h.cs:
        if c.m.dpid in bad and c.m.dpid is not None and not c.closed:
          c.m.unjudged = True
    else:
      raise HarnessError("unknown op %r" % (op,))
    _settle(h, op)
  # ---- end of history: deliver what is queued, let the loop close what is dead
  h.step = len(ops)
  for c in h.cs:
    if c.joined and not c.closed:
      h.deliver(c)
      _settle(h, ["end-deliver", c.idx])
  for c in h.cs:
    if not c.closed and c.pending:
      h.poll(c)
      _settle(h, ["end-poll", c.idx])
  # ---- classification
  nt = False
  for c in h.cs:
    if c.m.async_before_up:
      nt = True
      out.label("async-inside-handshake")
    if c.m.up:
      out.label("announced")
    elif c.m.got_features:
      out.label("half-handshaken-at-end")
  if early_ps:
    out.label("port-status-between-features-and-up")
  n = len(h.cs)
  for i in range(n):
    for j in range(i + 1, n):
      a, b = h.cs[i], h.cs[j]
      if a.m.peer_dpid != b.m.peer_dpid or not (a.m.got_features and b.m.got_features):
        continue
      if h.opened_at[j] < h.closed_at.get(i, 10 ** 9):
        nt = True
        out.label("same-dpid-overlap")
        if a.m.up and b.m.up:
          out.label("same-dpid-overlap-both-announced")
      else:
        out.label("same-dpid-reconnect-after-close")
  out.nontrivial = nt
  out.label("connections:%d" % len(h.cs))
  out.label("announced:%d" % sum(1 for c in h.cs if c.m.up))
  if h.tainted:
    out.label("registry-judging-suspended-for-a-dpid")
  if any(c.m.superseded and c.m.up for c in h.cs):
    out.label("superseded-connection")
  if any(ab for (_, _, ab) in h.model.registry().values()):
    out.label("only-superseded-connection-left-at-end")
  if h.w.deferred.calls:
    raise HarnessError("deferred sender was used")


# --------------------------------------------------------------------------- enumerations

_ASYNC = [["ps", 2, 0], ["echo"], ["pin"], ["err", 1, 1], ["stats", 0]]
_BARRIER = [["bar", "right"], ["berr"], ["bar", "wrong"]]


def _insertions(base, extra):
  """all ways to insert the ordered list `extra` into `base` keeping both orders"""
  n, k = len(base), len(extra)
  for pos in itertools.combinations(range(n + k), k):
    res = []
    bi = ei = 0
    ps = set(pos)
    for i in range(n + k):
      if i in ps:
        res.append(extra[ei])
        ei += 1
      else:
        res.append(base[bi])
        bi += 1
    yield res


def enum_handshake(max_async):
  tail = [["m", 0, ["ps", 0, 1]], ["send", 0], ["send", 1], ["m", 0, ["err", 0, 0]], ["lose", 0, "eof"], ["send", 0]]
  for bar in _BARRIER:
    base4 = [["hello"], ["feat"], ["desc"], bar]
    for perm in itertools.permutations(base4):
      for k in range(max_async + 1):
        for extra in itertools.product(_ASYNC, repeat=k):
          for seq in _insertions(list(perm), list(extra)):
            ops = [["open", 0]] + [["m", 0, m] for m in seq] + tail
            yield {"k": "hist", "ops": ops}


def enum_barrier_answers(tier):
  """one or two features replies, then every sequence of 1..3 answers to the barrier(s) -- the right reply,
  a reply with a foreign xid, the reply to the superseded first barrier, the barrier-unsupported error, an
  error quoting the k-th request -- under every way of packing them into reads (each answer alone or in the
  same segment as the next).  Connection-up is due at most once, and never after the controller has dropped
  the connection because of an earlier answer in the same segment."""
  answers = [["bar", "right"], ["bar", "wrong"], ["bar", "old"], ["berr"], ["rerr", 4, 0], ["rerr", 7, 0]]
  tail = [["m", 0, ["ps", 0, 1], 0], ["send", 0], ["lose", 0, "eof"], ["send", 0]]
  for nfeat in (1, 2):
    head = [["open", 0], ["m", 0, ["hello"], 0]] + [["m", 0, ["feat"], 0]] * nfeat
    for n in (1, 2, 3):
      for seq in itertools.product(answers, repeat=n):
        for joins in itertools.product((0, 1), repeat=n - 1):
          ops = list(head)
          for i, a in enumerate(seq):
            ops.append(["m", 0, a, joins[i] if i < n - 1 else 0])
          yield {"k": "hist", "ops": ops + tail}
          if tier != "quick" or n < 3:
            # the same with a second connection of the same datapath already announced
            pre = [["open", 0], ["m", 0, ["hello"], 0], ["m", 0, ["feat"], 0], ["m", 0, ["bar", "right"], 0]]
            ops2 = pre + [[o[0], 1] + o[2:] if o[0] in ("m",) else (["open", 0] if o[0] == "open" else o) for o in head]
            for i, a in enumerate(seq):
              ops2.append(["m", 1, a, joins[i] if i < n - 1 else 0])
            yield {"k": "hist", "ops": ops2 + [["send", 0], ["lose", 1, "eof"], ["send", 0], ["lose", 0, "eof"], ["send", 0]]}


def enum_request_errors(tier):
  """the switch answers each message the controller sends during the handshake (features request, stats
  request, set_config, flow_mod, barrier request) with an error echoing that message's xid, at every point
  after it was sent; only BAD_REQUEST/BAD_TYPE answering the barrier may finish the handshake"""
  tail = [["m", 0, ["ps", 0, 1]], ["send", 0], ["lose", 0, "eof"], ["send", 0]]
  singles = [["rerr", k, v] for k in range(5) for v in range(3)]
  pairs = [[["rerr", k, 0], ["rerr", k2, 0]] for k in range(5) for k2 in range(5)]
  for bar in _BARRIER + [None]:
    base = [["hello"], ["feat"], ["desc"]] + ([bar] if bar is not None else [])
    for extra in [[x] for x in singles] + pairs:
      for seq in _insertions(base, extra):
        # (an error can only answer what has been sent: index k is taken modulo the requests seen so far)
        ops = [["open", 0]] + [["m", 0, m] for m in seq] + tail
        yield {"k": "hist", "ops": ops}


def enum_down(tier):
  """core DownEvent with 1..3 announced connections over the two datapath ids, at every point of the
  lifecycles of two connections, and with announced / half-handshaken mixes of three"""
  up = lambda i: [["m", i, ["hello"]], ["m", i, ["feat"]], ["m", i, ["bar", "right"]]]
  half = lambda i: [["m", i, ["hello"]], ["m", i, ["feat"]]]
  after = [["send", 0], ["send", 1], ["poll"], ["send", 0], ["send", 1]]
  for dpids in ([0], [0, 1], [1, 0], [0, 0], [0, 1, 0], [0, 1, 1], [0, 0, 1], [1, 0, 1]):
    n = len(dpids)
    for stages in itertools.product(("up", "half", "none"), repeat=n):
      for order in itertools.permutations(range(n)):
        if list(order) != sorted(order) and n < 3:
          pass
        ops = [["open", d] for d in dpids]
        for i in order:
          if stages[i] == "up":
            ops += up(i)
          elif stages[i] == "half":
            ops += half(i)
        ops += [["send", 0], ["send", 1], ["down"]] + after
        for i in range(n):
          ops += [["lose", i, "eof"]]
        yield {"k": "hist", "ops": ops}
  # DownEvent at every point of two interleaved lifecycles on different datapaths
  la = [[["open", 0]], up(0), [["m", 0, ["ps", 2, 0]]], [["lose", 0, "eof"]]]
  lb = [[["open", 1]], up(1), [["m", 1, ["ps", 0, 1]]], [["lose", 1, "rst"]]]
  for merge in _merges([["a0", "a1", "a2", "a3"], ["b0", "b1", "b2", "b3"]]):
    stagesl = [(la if t[0] == "a" else lb)[int(t[1])] for t in merge]
    for pos in range(1, len(stagesl) + 1):
      ops = []
      for j, st_ in enumerate(stagesl):
        ops.extend(st_)
        if j + 1 == pos:
          ops += [["down"], ["send", 0], ["send", 1]]
      ops += [["poll"], ["send", 0], ["send", 1]]
      if merge.index("b0") < merge.index("a0"):
        ops = _swap01(ops)
      yield {"k": "hist", "ops": ops}


def enum_dpid_values(tier):
  """the lifecycle and registry clauses for every ordered pair of boundary datapath-id values (0, 1, 48-bit and 64-bit
  extremes, top bit): announce, send, lose, send again; two datapaths; a datapath reconnecting before its old
  connection closes; core DownEvent -- through the emulated loop and through the real task loop"""
  up = lambda i: [["m", i, ["hello"]], ["m", i, ["feat"]], ["m", i, ["bar", "right"]]]
  sends = [["send", 0], ["send", 1]]
  hists = []
  for kind in ("eof", "rst", "disc", "sendfail"):
    hists.append([["open", 0]] + up(0) + sends + _loss_ops(0, kind) + sends + [["poll"]] + sends)
  hists.append([["open", 0], ["open", 1]] + up(0) + up(1) + sends + [["lose", 0, "eof"]] + sends + [["lose", 1, "rst"]] + sends)
  hists.append([["open", 1], ["open", 0]] + up(1) + up(0) + sends + [["lose", 1, "eof"]] + sends + [["lose", 0, "eof"]] + sends)
  hists.append([["open", 0]] + up(0) + sends + [["open", 0]] + up(1) + sends + [["lose", 0, "eof"]] + sends + [["lose", 1, "eof"]] + sends)
  hists.append([["open", 0]] + up(0) + [["lose", 0, "eof"]] + sends + [["open", 0]] + up(1) + sends + [["lose", 1, "rst"]] + sends)
  hists.append([["open", 0], ["m", 0, ["hello"]], ["m", 0, ["feat"]], ["lose", 0, "eof"]] + sends + [["open", 0]] + up(1) + sends)
  hists.append([["open", 0], ["open", 1]] + up(0) + up(1) + sends + [["down"]] + sends + [["lose", 0, "eof"], ["lose", 1, "eof"]] + sends)
  pairs = [(a, b) for a in DPID_VALUES for b in DPID_VALUES if a != b]
  if tier == "quick":
    pairs = [(a, b) for (a, b) in pairs if a in (0, 1, 0xffffffffffffffff, 0x8000000000000000) or b == 0]
  for a, b in pairs:
    for ops in hists:
      yield {"k": "hist", "ops": ops, "dpids": [a, b]}
    for kind in ("eof", "rst"):
      lops = [["open", 0], ["m", 0, ["hello"]], ["round", [1, 0, 0]], ["m", 0, ["feat"]], ["round", [1, 0, 0]], ["m", 0, ["bar", "right"]],
              ["round", [1, 0, 0]], ["send", 0], ["send", 1], ["lose", 0, kind], ["round", [1, 1, 1]], ["send", 0], ["send", 1]]
      yield {"k": "loop", "ops": lops, "dpids": [a, b]}


def enum_loop(tier):
  """histories through the real task loop: every combination of {not reported, readable, exceptional, both} for
  two connections in one select round, with and without data pending, at every stage of the handshake"""
  R = ["round", [1, 1, 1]]
  steps = [["hello"], ["feat"], ["ps", 2, 0], ["bar", "right"]]
  for same in (0, 1):
    for stage0 in range(len(steps) + 1):           # how far connection 0 has got
      for pend in (0, 1):
        for s0 in range(4):
          for s1 in range(4):
            if tier == "quick" and stage0 < len(steps) and s1 not in (0, 2):
              continue
            ops = [["open", 0], ["open", 0 if same else 1]]
            for m in steps:
              ops += [["m", 1, m], R]
            for m in steps[:stage0]:
              ops += [["m", 0, m], R]
            if pend:
              ops += [["m", 0, ["ps", 0, 1]], ["m", 1, ["ps", 0, 2]]]
            ops += [["round", [s0, s1]], ["send", 0], ["send", 1]]
            for m in steps[stage0:]:
              ops += [["m", 0, m], R]
            ops += [["m", 0, ["ps", 2, 1]], ["m", 1, ["ps", 2, 2]], R, ["send", 0], ["send", 1]]
            yield {"k": "loop", "ops": ops}


_SEG_LENS = {"hello": 8, "feat": 128, "ps": 64, "desc": 1068, "bar": 8, "berr": 20, "pin": 78, "echo": 12}


def enum_loop_segments(tier):
  """through the real task loop: each message of a handshake (and of the traffic after it) reaches the controller in
  two or three TCP segments, cut inside the header, right after it, in the middle and before the last byte, with the
  task reading the connection after every segment; alone or in the same read as the whole message before it; with and
  without an announced connection of the same datapath; messages larger than one 2048-byte recv (features reply with
  42 / 43 / 64 ports, packet-in of 2048 / 2049 / 5032 bytes); and the connection dying after a first segment"""
  R = ["round", [1, 1, 1]]
  up = lambda i: [["m", i, ["hello"]], R, ["m", i, ["feat"]], R, ["m", i, ["bar", "right"]], R]

  def cutsets(name):
    L = _SEG_LENS[name]
    pts = [1, 4, 7, 8, 9, L // 2, L - 1]
    pts = sorted(set(p_ for p_ in pts if 1 <= p_ <= L - 1))
    sets = [[p_ - 1] for p_ in pts]
    if L > 16:
      sets.append([3, L // 2 - 1])          # three segments: inside the header, inside the body
      sets.append([7, 8])                   # the header alone, one more byte, the rest
    return sets

  def tail(i):
    return [["m", i, ["ps", 2, 1]], R, ["send", 0], ["send", 1], ["lose", i, "eof"], R, ["send", 0]]

  for bar in (["bar", "right"], ["berr"]):
    seq = [["hello"], ["feat"], ["ps", 2, 0], ["desc"], bar, ["ps", 0, 1], ["pin"], ["echo"]]
    for second in (0, 1):
      i = 1 if second else 0
      pre = ([["open", 0]] + up(0)) if second else []
      post = [["send", 0], ["lose", 0, "eof"], R, ["send", 0]] if second else []
      for k in range(len(seq)):
        for cuts in cutsets(seq[k][0]):
          for glue in (0, 1):
            if glue and (k == 0 or (tier == "quick" and len(cuts) > 1)):
              continue
            ops = pre + [["open", 0]]
            for j, m in enumerate(seq):
              if j == k:
                ops += [["mseg", i, m, cuts], R]
              elif j == k - 1 and glue:
                ops += [["m", i, m]]           # read together with the first segment of the next message
              else:
                ops += [["m", i, m], R]
            yield {"k": "loop", "ops": ops + tail(i) + post}
      # every message of the handshake in two segments
      ops = pre + [["open", 0]]
      for m in seq:
        ops += [["mseg", i, m, [_SEG_LENS[m[0]] // 2 - 1]], R]
      yield {"k": "loop", "ops": ops + tail(i) + post}
      # messages that do not fit one recv: whole (the loop needs two or more reads) and in segments
      for big, where in ([["feat", 42], 1], [["feat", 43], 1], [["feat", 64], 1], [["pin", 2016], 2], [["pin", 2017], 2], [["pin", 5000], 2],
                         [["pin", 2017], 5], [["pin", 5000], 5], [["feat", 43], 6]):
        for cuts in (None, [99], [2047], [2048], [7, 2100]):
          ops = pre + [["open", 0]]
          for j, m in enumerate(seq):
            if j == where:
              ops += [["m", i, big] if cuts is None else ["mseg", i, big, cuts], R]
              if where == 1:
                continue                       # it is the features reply of the handshake
            ops += [["m", i, m], R]
          yield {"k": "loop", "ops": ops + tail(i) + post}
      # the connection dies after the first segment(s) of a message
      for how in ("eof", "rst"):
        for k in range(len(seq)):
          L = _SEG_LENS[seq[k][0]]
          for cuts in ([0], [6], [7], [L // 2 - 1], [L - 2], [3, L // 2 - 1]):
            if tier == "quick" and cuts[0] not in (6, 7, L - 2):
              continue
            ops = pre + [["open", 0]]
            for m in seq[:k]:
              ops += [["m", i, m], R]
            ops += [["mseg", i, seq[k], cuts, how], R, ["send", 0], ["send", 1]]
            yield {"k": "loop", "ops": ops + post}


def _merges(lists):
  """all interleavings of the given lists (each keeps its order)"""
  lists = [l for l in lists if l]
  if not lists:
    yield []
    return
  for i, l in enumerate(lists):
    rest = lists[:i] + [l[1:]] + lists[i + 1:]
    for m in _merges(rest):
      yield [l[0]] + m


def _loss_ops(i, kind):
  if kind == "eof":
    return [["lose", i, "eof"]]
  if kind == "rst":
    return [["lose", i, "rst"]]
  if kind == "disc":
    return [["disc", i], ["poll"]]
  if kind == "sendfail":
    return [["sendfail", i], ["m", i, ["echo"]], ["poll"]]
  raise HarnessError(kind)


def enum_two(tier):
  kinds = ["eof", "rst", "disc", "sendfail"]
  for same in (True, False):
    for ka in kinds:
      for kb in kinds:
        la = [[["open", 0]], [["m", 0, ["hello"]], ["m", 0, ["feat"]]], [["m", 0, ["bar", "right"]], ["m", 0, ["ps", 2, 0]]], _loss_ops(0, ka)]
        db = 0 if same else 1
        lb = [[["open", db]], [["m", 1, ["hello"]], ["m", 1, ["feat"]], ["m", 1, ["ps", 0, 1]]], [["m", 1, ["berr"]]], _loss_ops(1, kb)]
        for merge in _merges([["a0", "a1", "a2", "a3"], ["b0", "b1", "b2", "b3"]]):
          ops = []
          for t in merge:
            stage = (la if t[0] == "a" else lb)[int(t[1])]
            ops.extend(stage)
            ops.append(["send", 0])
            if not same:
              ops.append(["send", 1])
          # indices: connection numbers are assigned in order of opening
          if merge.index("b0") < merge.index("a0"):
            ops = _swap01(ops)
          yield {"k": "hist", "ops": ops}


_APPS = [{"send_on_up": 1, "send_level": "nexus"}, {"send_on_up": 1, "send_level": "con"},
         {"down": "disconnect", "down_level": "nexus"}, {"down": "disconnect", "down_level": "con"},
         {"down": "close", "down_level": "nexus"}, {"down": "close", "down_level": "con", "send_on_up": 1, "send_level": "nexus"}]


def enum_app(tier):
  """applications that act from inside their handlers: sendToDPID from the ConnectionUp handler, disconnect() /
  close() from the ConnectionDown handler -- over all merges of two lifecycles, and around a core DownEvent"""
  up = lambda i: [["m", i, ["hello"]], ["m", i, ["feat"]], ["m", i, ["bar", "right"]]]
  for app in _APPS:
    for same in (True, False):
      for ka, kb in (("eof", "disc"), ("disc", "rst"), ("sendfail", "eof")):
        la = [[["open", 0]], [["m", 0, ["hello"]], ["m", 0, ["feat"]]], [["m", 0, ["bar", "right"]], ["m", 0, ["ps", 2, 0]]], _loss_ops(0, ka)]
        db = 0 if same else 1
        lb = [[["open", db]], [["m", 1, ["hello"]], ["m", 1, ["feat"]], ["m", 1, ["ps", 0, 1]]], [["m", 1, ["berr"]]], _loss_ops(1, kb)]
        for merge in _merges([["a0", "a1", "a2", "a3"], ["b0", "b1", "b2", "b3"]]):
          ops = []
          for t in merge:
            ops.extend((la if t[0] == "a" else lb)[int(t[1])])
            ops.append(["send", 0])
          if merge.index("b0") < merge.index("a0"):
            ops = _swap01(ops)
          yield {"k": "hist", "ops": ops, "app": app}
    for dpids in ([0], [0, 1], [0, 1, 0]):
      ops = [["open", d] for d in dpids]
      for i in range(len(dpids)):
        ops += up(i)
      ops += [["down"], ["send", 0], ["poll"], ["send", 1]]
      yield {"k": "hist", "ops": ops, "app": app}


def enum_refresh(tier):
  """a features reply after the handshake (the application asked for the features again) on the newest, on a
  superseded and on the only connection of a datapath, before and after the other one goes away"""
  up = lambda i: [["m", i, ["hello"]], ["m", i, ["feat"]], ["m", i, ["bar", "right"]]]
  for d1 in (0, 1):
    for who in (0, 1):
      for before in ([], [["lose", 1 - who, "eof"]], [["disc", 1 - who]]):
        for after in ([], [["lose", who, "eof"]], [["lose", 1 - who, "eof"]]):
          ops = [["open", 0]] + up(0) + [["open", d1]] + up(1) + [["send", 0]] + before + [["m", who, ["feat"]], ["send", 0], ["send", 1],
                 ["m", who, ["ps", 2, 0]]] + after + [["send", 0], ["send", 1], ["poll"], ["send", 0]]
          yield {"k": "hist", "ops": ops}
  yield {"k": "hist", "ops": [["open", 0]] + up(0) + [["m", 0, ["feat"]], ["send", 0], ["m", 0, ["feat"]], ["lose", 0, "eof"], ["send", 0]]}


def _swap01(ops):
  res = []
  for op in ops:
    op = list(op)
    if op[0] in ("m", "lose", "disc", "sendfail", "cut") and op[1] in (0, 1):
      op[1] = 1 - op[1]
    res.append(op)
  return res


def _renumber(ops, order):
  """order: list of symbolic connection names in the order they open; ops use names"""
  num = {n: i for i, n in enumerate(order)}
  res = []
  for op in ops:
    op = list(op)
    if op[0] in ("m", "lose", "disc", "sendfail", "cut"):
      op[1] = num[op[1]]
    res.append(op)
  return res


def enum_three(tier):
  names = ["a", "b", "c"]
  assigns = [(0, 0, 0), (0, 0, 1), (0, 1, 0), (0, 1, 1)]
  if tier == "quick":
    stages = lambda n, d: [[["open", d], ["m", n, ["hello"]], ["m", n, ["feat"]], ["m", n, ["bar", "right"]]], None]
    loss_kinds = ["eof", "disc"]
  else:
    stages = lambda n, d: [[["open", d]], [["m", n, ["hello"]], ["m", n, ["feat"]], ["m", n, ["bar", "right"]]], None]
    loss_kinds = ["eof", "disc", "sendfail"]
  for assign in assigns:
    for lk in loss_kinds:
      per = {}
      for n, d in zip(names, assign):
        s = stages(n, d)
        s[-1] = "LOSS"
        per[n] = s
      nst = len(per["a"])
      for merge in _merges([[(n, i) for i in range(nst)] for n in names]):
        order = []
        ops = []
        for n, i in merge:
          st_ = per[n][i]
          if i == 0:
            order.append(n)
          if st_ == "LOSS":
            ops.extend(_loss_ops(n, lk))
          else:
            ops.extend(st_)
          ops.append(["send", 0])
          ops.append(["send", 1])
        ops.append(["down"])
        ops.append(["poll"])
        yield {"k": "hist", "ops": _renumber(ops, order)}


def enum_cut(tier):
  """loss after every byte prefix of the handshake, with a second, live connection on the same dpid"""
  pre = [["open", 0], ["m", 0, ["hello"]], ["m", 0, ["feat"]], ["m", 0, ["bar", "right"]], ["open", 0]]
  seq = [["hello"], ["feat"], ["ps", 2, 0], ["desc"], ["bar", "right"], ["ps", 0, 1]]
  lens = {"hello": 8, "feat": 32 + 96, "ps": 64, "desc": 1068, "bar": 8}
  for how in ("eof", "rst"):
    for upto in range(len(seq)):
      L = lens[seq[upto][0]]
      for n in range(L):
        if seq[upto][0] == "desc" and 16 < n < L - 16 and n % 37:
          continue
        if tier == "quick" and n not in (0, 1, 7, 8, 9, L // 2, L - 1):
          continue
        ops = list(pre) + [["m", 1, m] for m in seq[:upto]]
        if n:
          ops.append(["cut", 1, seq[upto], n, how])
        else:
          ops.append(["lose", 1, how])
        ops += [["send", 0], ["m", 0, ["ps", 2, 2]], ["lose", 0, how], ["send", 0]]
        yield {"k": "hist", "ops": ops}


# --------------------------------------------------------------------------- Hypothesis

_msg_async = st.one_of(
  st.tuples(st.just("ps"), st.integers(0, 2), st.integers(0, 2)).map(list),
  st.just(["echo"]), st.just(["pin"]),
  st.tuples(st.just("err"), st.integers(0, 3), st.integers(0, 1)).map(list),
  st.tuples(st.just("stats"), st.integers(0, 2)).map(list),
  st.tuples(st.just("rerr"), st.integers(0, 4), st.integers(0, 4)).map(list),
  st.tuples(st.just("rerr"), st.integers(0, 4), st.just(0)).map(list),
)
_msg_barrier = st.one_of(st.just(["bar", "right"]), st.just(["bar", "right"]), st.just(["berr"]), st.just(["bar", "old"]),
                         st.tuples(st.just("bar"), st.just("wrong"), st.integers(0, 3)).map(list))


@st.composite
def _script(draw, i, tier):
  """ops of connection i (without the index-free global ops)"""
  hs = [["hello"], ["feat"], ["desc"], draw(_msg_barrier)]
  if draw(st.integers(0, 7)) == 0:
    hs.insert(2, ["feat"])                 # a second features reply inside the handshake (a second barrier follows)
  for _ in range(draw(st.sampled_from([0, 0, 0, 0, 1, 1, 2]))):
    hs.append(draw(_msg_barrier))          # the switch answers (what it takes for) the barrier more than once
  if draw(st.integers(0, 9)) >= 6:
    hs = list(draw(st.permutations(hs)))
  n_async = draw(st.integers(0, 3))
  for _ in range(n_async):
    pos = draw(st.integers(0, len(hs)))
    hs.insert(pos, draw(_msg_async))
  ops = [["m", i, m, 1 if draw(st.integers(0, 5)) == 0 else 0] for m in hs]
  # tail while (possibly) announced
  for _ in range(draw(st.integers(0, 3))):
    ops.append(["m", i, draw(_msg_async), 0])
  if draw(st.integers(0, 5)) == 0:
    ops.append(["m", i, ["feat"], 0])      # the features again, after the handshake
    if draw(st.booleans()):
      ops.append(["m", i, draw(_msg_async), 0])
  # an armed send failure somewhere
  if draw(st.integers(0, 5)) == 0:
    ops.insert(draw(st.integers(0, len(ops))), ["sendfail", i])
  end = draw(st.sampled_from(["none", "eof", "eof", "rst", "disc", "cut"]))
  if end in ("eof", "rst"):
    ops.insert(draw(st.integers(0, len(ops))), ["lose", i, end])
  elif end == "disc":
    ops.insert(draw(st.integers(0, len(ops))), ["disc", i])
  elif end == "cut":
    pos = draw(st.integers(0, len(ops)))
    ops.insert(pos, ["cut", i, draw(st.sampled_from([["hello"], ["feat"], ["desc"], ["bar", "right"], ["ps", 0, 0]])), draw(st.integers(1, 1100))])
  return ops


@st.composite
def _history(draw, tier):
  n = draw(st.sampled_from([1, 2, 2, 2, 3, 3]))
  same = draw(st.integers(0, 3)) != 0
  scripts = []
  for i in range(n):
    d = 0 if same and i < 2 else draw(st.integers(0, 1))
    scripts.append([["open", d]] + draw(_script(i, tier)))
  # merge: connection i must open before connection i+1 (indices are creation order)
  order = draw(st.lists(st.integers(0, n - 1), min_size=0, max_size=sum(len(s) for s in scripts)))
  ptr = [0] * n
  opened = 0
  ops = []

  def take(i):
    nonlocal opened
    if ptr[i] >= len(scripts[i]):
      return
    if ptr[i] == 0:
      if i != opened:
        return
      opened += 1
    ops.append(scripts[i][ptr[i]])
    ptr[i] += 1
    g = draw(st.integers(0, 11))
    if g == 0:
      ops.append(["send", draw(st.integers(0, 1))])
    elif g == 1:
      ops.append(["poll"])

  for i in order:
    take(i)
  for i in range(n):
    while ptr[i] < len(scripts[i]):
      if ptr[i] == 0 and i != opened:
        # open the earlier ones first
        for j in range(opened, i):
          take(j)
      take(i)
  ops.append(["send", 0])
  ops.append(["send", 1])
  if draw(st.integers(0, 3)) == 0:
    ops.insert(draw(st.integers(0, len(ops))), ["down"])
  case = {"k": "hist", "ops": ops}
  if draw(st.integers(0, 2)) == 0:
    case["app"] = draw(st.sampled_from(_APPS))
  _draw_dpids(draw, case)
  return case


def _draw_dpids(draw, case):
  """in a third of the cases the two datapath ids are boundary / arbitrary 64-bit values instead of the fixed pair"""
  if draw(st.integers(0, 2)) == 0:
    v = st.one_of(st.sampled_from(DPID_VALUES), st.integers(0, 2 ** 64 - 1))
    a = draw(v)
    b = draw(v)
    if a != b:
      case["dpids"] = [a, b]


@st.composite
def _loop_history(draw, tier):
  """a generated history re-expressed for the real loop: messages are queued, select rounds (drawn) deliver them"""
  base = draw(_history(tier))["ops"]      # (its "app", if any, is not carried over; one is drawn below)
  ops = []
  spec = lambda: [draw(st.sampled_from([1, 1, 1, 1, 1, 0, 0, 2, 3])) for _ in range(MAX_CONNS)]
  nfeat = {}
  for op in base:
    o = op[0]
    if o == "m":
      msg = op[2]
      g = draw(st.integers(0, 15))
      if msg[0] == "feat" and g == 0:
        msg = ["feat", draw(st.sampled_from([0, 1, 41, 42, 43, 44, 85, 86, 120]))]       # 42 ports = 2048 bytes = one recv exactly
      elif msg[0] == "pin" and g <= 2:
        msg = ["pin", draw(st.sampled_from([46, 2015, 2016, 2017, 4064, 4065, 9000]))]
      if draw(st.integers(0, 5)) == 0:
        # the message arrives in 2..4 TCP segments (cut points are taken modulo its length; small ones fall into the header)
        cut = st.one_of(st.integers(0, 9), st.integers(0, 12000))
        seg = ["mseg", op[1], msg, draw(st.lists(cut, min_size=1, max_size=3))]
        if draw(st.integers(0, 9)) == 0:
          seg.append(draw(st.sampled_from(["eof", "rst"])))
        ops.append(seg)
      else:
        ops.append(["m", op[1], msg])
      dup_feat = False
      if op[2] == ["feat"]:
        nfeat[op[1]] = nfeat.get(op[1], 0) + 1
        dup_feat = nfeat[op[1]] > 1
      if dup_feat:
        # a repeated features reply makes the controller send a new barrier request: the scripted switch must have
        # been able to see it before it builds its next answer, so the reply is read in a round of its own
        r = [0] * MAX_CONNS
        r[op[1]] = 1
        ops.append(["round", r])
      elif not (len(op) > 3 and op[3]):
        r = [0] * MAX_CONNS
        r[op[1]] = 1
        ops.append(["round", r if draw(st.integers(0, 4)) else spec()])
    elif o == "lose":
      ops.append(op)
      ops.append(["round", [1] * MAX_CONNS if draw(st.integers(0, 2)) else spec()])
    elif o == "poll":
      ops.append(["round", spec()])
    elif o in ("open", "send", "disc"):
      ops.append(op)
    # (cut / sendfail / down belong to the emulated-loop driver)
  case = {"k": "loop", "ops": ops}
  if draw(st.integers(0, 2)) == 0:
    case["app"] = draw(st.sampled_from(_APPS))
  _draw_dpids(draw, case)
  return case


def plan(tier):
  if tier == "quick":
    return [
      Enum("handshake-interleavings", lambda: enum_handshake(2), shards=16),
      Enum("two-connections", lambda: enum_two(tier), shards=8),
      Enum("three-connections", lambda: enum_three(tier), shards=4),
      Enum("loss-inside-the-handshake", lambda: enum_cut(tier), shards=2),
      Enum("errors-answering-handshake-requests", lambda: enum_request_errors(tier), shards=4),
      Enum("barrier-answer-sequences", lambda: enum_barrier_answers(tier), shards=4),
      Enum("core-DownEvent", lambda: enum_down(tier), shards=4),
      Enum("real-task-loop", lambda: enum_loop(tier), shards=2),
      Enum("real-task-loop-segmented-messages", lambda: enum_loop_segments(tier), shards=4),
      Enum("applications-acting-inside-handlers", lambda: enum_app(tier), shards=4),
      Enum("features-reply-after-the-handshake", lambda: enum_refresh(tier), shards=1),
      Enum("datapath-id-values", lambda: enum_dpid_values(tier), shards=4),
      Hyp("histories", lambda: _history(tier), examples=4000, shards=16),
      Hyp("real-task-loop-histories", lambda: _loop_history(tier), examples=1000, shards=8),
    ]
  return [
    Enum("handshake-interleavings", lambda: enum_handshake(3), shards=16),
    Enum("two-connections", lambda: enum_two(tier), shards=16),
    Enum("three-connections", lambda: enum_three(tier), shards=16),
    Enum("loss-inside-the-handshake", lambda: enum_cut(tier), shards=16),
    Enum("errors-answering-handshake-requests", lambda: enum_request_errors(tier), shards=8),
    Enum("barrier-answer-sequences", lambda: enum_barrier_answers(tier), shards=8),
    Enum("core-DownEvent", lambda: enum_down(tier), shards=8),
    Enum("real-task-loop", lambda: enum_loop(tier), shards=8),
    Enum("real-task-loop-segmented-messages", lambda: enum_loop_segments(tier), shards=8),
    Enum("applications-acting-inside-handlers", lambda: enum_app(tier), shards=8),
    Enum("features-reply-after-the-handshake", lambda: enum_refresh(tier), shards=2),
    Enum("datapath-id-values", lambda: enum_dpid_values(tier), shards=4),
    Hyp("real-task-loop-histories", lambda: _loop_history(tier), examples=60000, shards=16),
    Hyp("histories", lambda: _history(tier), examples=300000, shards=16),
  ]
