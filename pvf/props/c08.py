"""C08 -- component rendezvous fires each waiter exactly once, exactly when ready; goUp/quit lifecycle.

A case is a history over a fresh pox.core.POXCore: register / registerNew (every naming form),
call_when_ready (callbacks with scripts: register further components, declare further waiters,
release deferrals, raise), listen_to_dependencies (generated sink classes with
_handle_<component>_<Event> methods), GoingUp listeners taking deferrals, goUp, release of a
deferral at any point (also inside GoingUp delivery), quit (before or after goUp, repeated).
The history is interpreted against the real core and, in lock-step, against
pvf.ref.rendezvous.Monitor, written from the property statement.
"""
import contextlib
import functools
import gc
import io
import itertools
import threading
import traceback

from hypothesis import strategies as st

from ..runner import Outcome, Enum, Hyp, HarnessError, exc_key
from ..ref import rendezvous

ID = "C08"
LEVEL = "exploration"
TECHNIQUE = ("model-based testing of operation histories on a fresh POXCore: all ordered selections of up to 4 operations from a "
             "fixed pool + Hypothesis-drawn histories, real core run single-threaded under a virtual clock in lock-step with an "
             "independent rendezvous/lifecycle monitor")
LEVEL_TEXT = ("Exploration by generated histories: every ordered selection of up to 4 (quick) / 5 (thorough) distinct operations "
              "from a pool of 17 (registrations in both naming forms and of an object whose truth value is False, declarations with plain / registering / failing callbacks, "
              "listen_to_dependencies, GoingUp listeners that hold or immediately release a deferral, goUp, release, a second "
              "release of an already released deferral, quit, a GoingDown listener that calls quit again from inside the delivery, a high-priority ComponentRegistered listener that halts the event) is run "
              "on a fresh POXCore, plus Hypothesis-drawn histories with nested operations inside callbacks and GoingUp handlers; "
              "each is judged by a monitor restating the property (exactly once, never early by the registry contents at call "
              "time, fired by the time the completing call returns, listener wiring counted by raising every component event, "
              "lifecycle events once each in order, Up not before the last release). The core is small and deterministic once "
              "threads and time are owned by the harness, so enumeration of short histories plus random longer ones fits; "
              "nothing is claimed beyond the explored bounds.")
LEVEL_NOTE = ("quit's worker thread is replaced by a harness-run callable executed between operations (one legal schedule); "
              "concurrent quit from two threads is outside the property's quantifier and is not explored")
RULE = ("a case is a history of register / call_when_ready / listen_to_dependencies / GoingUp-listener / goUp / release / re-release / quit "
        "operations with scripted callbacks; it is non-trivial when some declaration's dependencies are completed by a "
        "registration made inside another dependent's callback, or when a GoingUp deferral is taken; distinct by SHA-1 of the "
        "canonical JSON of the case")
ASSUMPTIONS = [
  "'immediately' means: by the time the register / call_when_ready / listen_to_dependencies call that completed the dependencies returns (also when nested inside a callback)",
  "component names are identifiers that do not shadow POXCore attributes; event names contain no underscore; a component name may contain one",
  "callbacks of one declaration that cannot tell declarations apart (same callback, no arguments) are judged as a group (count and never-early by existence of a consistent assignment)",
  "quit() before goUp takes effect when its worker next runs after goUp has begun; the worker is run between history operations",
  "a deferral may be released again after it has been released (immediately, later, inside GoingUp delivery, after Up): being refused with RuntimeError and being silently ignored are both accepted, only the lifecycle afterwards is judged",
  "goUp is called at most once; GoingUp handlers do not raise",
  "the dependency argument of call_when_ready is a str or any iterable of names the unchanged tree accepts: list, tuple, set, frozenset, generator, map object, dict view, dict",
  "other parties may listen to core's ComponentRegistered at any priority and return None, halt the event or raise; the rendezvous must be unaffected",
  "a waiter's callback is any callable: function, lambda, bound method, functools.partial of either, instance with __call__, builtin bound method (list.append; never fails, its firing is read off the list after the API call), partial of a failing builtin (its own firing is not observable; only containment and the other waiters are judged)",
  "registered components are arbitrary objects, including ones whose truth value is False (empty table-like objects)",
  "quit() may be called again from inside a GoingDown or Down handler (same thread); it must not start a second shutdown",
  "the order of UpEvent relative to GoingDownEvent/DownEvent (quit while a deferral is outstanding) is not judged",
]
EXHAUSTIVE_SCOPE = {
  "quick": "all ordered selections without repetition of 1..4 operations from the fixed 17-operation pool (61 489 histories)",
  "thorough": "all ordered selections without repetition of 1..5 operations from the fixed 17-operation pool (804 049 histories)",
}

NAMES = ["a", "b", "c", "x", "x_y"]
EVS = ["EvP", "EvQ"]
COMP_EVENTS = {"a": [0, 1], "b": [0], "c": None, "x": [1], "x_y": [0, 1]}
REG_HOW = ["name", "new", "single", "corename_new", "corename_single", "falsy", "falsy_new"]
CWR_FORMS = ["list", "tuple", "set", "str", "frozenset", "gen", "map", "keys", "dict"]
ARG_MODES = ["id", "none", "kw"]
ATTR_MODES = ["attrs", "short", "none"]
# what kind of callable a waiter's callback is
CB_KINDS = ["func", "lambda", "bound", "partial", "partial_bound", "inst", "builtin", "partial_builtin_fail"]
# kinds without function-like __name__ / __module__ (call_when_ready derives a default name from those)
CB_NAMELESS = ("partial", "partial_bound", "inst", "builtin", "partial_builtin_fail")

_P = None


class CbBoom(Exception):
  """The exception a scripted callback raises."""


class _Party(object):
  """A waiter as an object: its bound method `fire` or the instance itself is the callback."""
  def __init__(self, rt, w):
    self._rt, self._w = rt, w

  def fire(self, *args, **kw):
    return self._rt.on_callback(self._w, args, kw)

  def __call__(self, *args, **kw):
    return self._rt.on_callback(self._w, args, kw)


class _FakeThread(object):
  """Stands in for threading.Thread while a case runs: start() hands the target to the harness."""
  rt = None

  def __init__(self, group=None, target=None, name=None, args=(), kwargs=None, daemon=None):
    self._target, self._args, self._kwargs = target, args, kwargs or {}
    self.daemon = daemon
    self.name = name or "fake"

  def start(self):
    if _FakeThread.rt is None:
      raise HarnessError("thread started outside a case")
    _FakeThread.rt.pending.append(self)

  def run_now(self):
    self._target(*self._args, **self._kwargs)

  def join(self, timeout=None):
    pass

  def is_alive(self):
    return False


class _TimeShim(object):
  def __init__(self, rt):
    self._rt = rt

  def time(self):
    return self._rt.now

  def sleep(self, dt):
    self._rt.now += dt
    self._rt.drive()

  def __getattr__(self, n):
    import time
    return getattr(time, n)


def setup():
  global _P
  if _P is not None:
    return
  from ..sim import world
  with contextlib.redirect_stdout(io.StringIO()):
    world.boot()
  import pox.core as PC
  import pox.lib.recoco as RP
  import pox.lib.recoco.recoco as R
  import pox.lib.revent.revent as RE
  import pox.lib.util as U
  if U.makePinger is not world.FakePinger:
    raise HarnessError("fake pinger not installed")
  evcls = [type(n, (RE.Event,), {}) for n in EVS]
  comp, alt, falsy = {}, {}, {}
  for n in NAMES:
    evs = COMP_EVENTS[n]
    if evs is None:
      comp[n] = type(n, (object,), {})
      alt[n] = type("Alt_" + n, (object,), {"_core_name": n})
      falsy[n] = type(n, (object,), {"__bool__": lambda self: False})
    else:
      decl = set(evcls[i] for i in evs)
      comp[n] = type(n, (RE.EventMixin,), {"_eventMixin_events": decl})
      alt[n] = type("Alt_" + n, (RE.EventMixin,), {"_eventMixin_events": decl, "_core_name": n})
      # a table-like component that happens to be empty: a real object whose truth value is False
      falsy[n] = type(n, (RE.EventMixin,), {"_eventMixin_events": decl, "__len__": lambda self: 0})
  _P = {"PC": PC, "RP": RP, "R": R, "RE": RE, "evcls": evcls, "comp": comp, "alt": alt, "falsy": falsy}
  gc.collect()
  gc.freeze()


# --------------------------------------------------------------------------- the interpreter

class RT(object):
  def __init__(self, case, out):
    self.case, self.out = case, out
    self.P = _P
    self.mon = rendezvous.Monitor(preregistered=["core"])
    self.now = 1000.0
    self.pending = []
    self.objs = []            # (name, object) in registration order; the index is the model's token
    self.harness_error = None
    self.stop = False
    self.nv = 0
    self.flags = set()
    self.decl_no = 0
    self.deferrals = []       # (id, release function) outstanding
    self.released = []        # (id, release function) already released once
    self.ndeferrals = 0
    self.sink_counts = {}
    self.met_counts = {}
    self.nomet_declared = set()
    self.goup_called = False
    self.down_quits = 0
    self.cb_stack = []
    self.core = None
    self.waiters = case.get("waiters", [])
    self.sinkspecs = case.get("sinks", [])
    self.gupspecs = case.get("gups", [])
    self.blog = {}            # waiter -> list that a builtin-kind callback (list.append) appends to
    self.blog_seen = {}
    self.callbacks = [self._mk_callback(w) for w in range(len(self.waiters))]
    self.sinks = [self._mk_sink(k) for k in range(len(self.sinkspecs))]
    self.guphandlers = [self._mk_gup(g) for g in range(len(self.gupspecs))]

  # ---------------------------------------------------------------- environment
  def start(self):
    P = self.P
    PC, RP, R = P["PC"], P["RP"], P["R"]
    self.saved = (PC.core, PC.time, R.defaultScheduler, threading.Thread)
    # POXCore._quit calls gc.collect() several times (to let weak listeners go).  A full collection scans
    # everything the test driver has allocated so far, which makes cases slower the longer a run lasts;
    # collect the young generation only (nothing in this property depends on the collector).
    self._gc_collect = gc.collect
    gc.collect = self._young_collect
    orig = R.Scheduler

    def factory(*a, **kw):
      kw["startInThread"] = False
      kw["threaded_selecthub"] = False
      return orig(*a, **kw)
    RP.Scheduler = factory
    R.defaultScheduler = None
    try:
      with contextlib.redirect_stdout(io.StringIO()):
        self.core = PC.POXCore(threaded_selecthub=False, handle_signals=False)
    finally:
      RP.Scheduler = orig
    if R.defaultScheduler is not self.core.scheduler:
      raise HarnessError("the fresh core's scheduler is not the default scheduler")
    self.sched = self.core.scheduler
    self.hub = self.sched._selectHub
    self.hub._select_func = self._vselect
    PC.core = self.core
    PC.time = _TimeShim(self)
    _FakeThread.rt = self
    threading.Thread = _FakeThread
    self.nthreads = threading.active_count()
    # lifecycle observers
    c = self.core
    c.addListener(PC.GoingUpEvent, self._obs_goingup_first, priority=1000000)
    c.addListener(PC.GoingUpEvent, self._obs_goingup_last, priority=-1000000)
    c.addListener(PC.UpEvent, lambda e: self._obs("UpEvent"))
    c.addListener(PC.GoingDownEvent, lambda e: self._obs("GoingDownEvent"))
    c.addListener(PC.DownEvent, lambda e: self._obs("DownEvent"))

  def finish(self):
    PC, R = self.P["PC"], self.P["R"]
    PC.core, PC.time, R.defaultScheduler, threading.Thread = self.saved
    gc.collect = self._gc_collect
    _FakeThread.rt = None
    if self.core is not None:
      self.core.scheduler._hasQuit = True
      self.core._eventMixin_handlers = {}
      self.core._waiters = []
    if threading.active_count() != self.nthreads:
      raise HarnessError("a real thread was started during the case")

  def _young_collect(self, generation=0):
    return self._gc_collect(0)

  @staticmethod
  def _readable(o):
    f = getattr(o, "v_readable", None)
    return bool(f()) if f is not None else False

  def _vselect(self, rl, wl, xl, timeout):
    return [r for r in rl if self._readable(r)], [], []

  def drive(self):
    """Run the cooperative scheduler until nothing is runnable (what a scheduler thread would do
    while the caller sleeps)."""
    for _ in range(10000):
      progressed = False
      while len(self.sched._ready):
        self.sched.cycle()
        progressed = True
      hub = self.hub
      wake = hub._pinger.count > 0 or not hub._incoming.empty()
      if not wake:
        for stuff in list(hub._tasks.values()):
          if any(self._readable(r) for r in (stuff[1] or ())):
            wake = True
            break
      if wake:
        hub._select(hub._tasks, {})
        progressed = True
      if not progressed:
        return
    raise HarnessError("scheduler does not quiesce")

  # ---------------------------------------------------------------- reporting
  def sync(self):
    vs = self.mon.violations
    while self.nv < len(vs):
      clause, disc, msg = vs[self.nv]
      self.nv += 1
      self.out.fail(clause, msg, **disc)

  def flag(self, f):
    self.flags.add(f)

  def _guard(self):
    if self.harness_error is None:
      self.harness_error = traceback.format_exc()

  def exc_violation(self, e, clause, **extra):
    self.out.violations.append({"key": exc_key(e, clause=clause, **extra),
                                "msg": "%s: %r\n%s" % (clause, e, "".join(traceback.format_exception(e))[-1400:])})

  # ---------------------------------------------------------------- observers
  def _obs(self, name):
    try:
      self.mon.lifecycle(name)
      self.sync()
    except BaseException:
      self._guard()
      raise

  def _obs_goingup_first(self, e):
    self.mon.in_goingup_delivery = True
    self._obs("GoingUpEvent")

  def _obs_goingup_last(self, e):
    self.mon.in_goingup_delivery = False

  # ---------------------------------------------------------------- scripted parties
  def kind(self, w):
    k = self.waiters[w].get("kind", "func")
    if k not in CB_KINDS:
      raise HarnessError("unknown callback kind %r" % (k,))
    return k

  def _mk_callback(self, w):
    kind = self.kind(w)

    def cb(*args, **kw):
      return self.on_callback(w, args, kw)
    cb.__name__ = "waiter%d" % w
    if kind == "func":
      return cb
    if kind == "lambda":
      return lambda *args, **kw: self.on_callback(w, args, kw)
    if kind == "bound":
      return _Party(self, w).fire
    if kind == "partial":
      return functools.partial(cb)
    if kind == "partial_bound":
      return functools.partial(_Party(self, w).fire)
    if kind == "inst":
      return _Party(self, w)
    if kind == "builtin":
      # a builtin bound method; it never fails and runs no script.  It is always declared with the
      # declaration number as its only argument, and its firing is read off the list afterwards.
      self.blog[w] = []
      self.blog_seen[w] = 0
      return self.blog[w].append
    # a partial of a builtin that always fails; whether it ran cannot be observed, only that the
    # failure is contained and that everybody else still fires
    return functools.partial(int, "not a number")

  def on_callback(self, w, args, kw):
    spec = self.waiters[w]
    try:
      if args:
        group = ("cb", w, args[0])
      elif kw:
        group = ("cb", w, kw["d"])
      else:
        group = ("cb", w)
      self.mon.fired(group, set(self.core.components))
      self.sync()
      self.flag("callback-fired")
      if len(self.mon.open_calls) > 1 or self.cb_stack:
        self.flag("callback-fired-nested")
      self.cb_stack.append(w)
      try:
        for op in spec.get("ops", ()):
          self.do_op(op, True)
      finally:
        self.cb_stack.pop()
    except BaseException:
      self._guard()
      raise
    if spec.get("raise"):
      self.flag("callback-raised")
      raise CbBoom(w)

  def _mk_sink(self, k):
    spec = self.sinkspecs[k]
    ns = {}
    rt = self

    def mk(mname):
      def h(self_, event):
        rt.sink_counts[(k, mname)] = rt.sink_counts.get((k, mname), 0) + 1
      h.__name__ = mname
      return h
    for ni, ei in spec.get("h", ()):
      mname = "_handle_%s_%s" % (NAMES[ni % len(NAMES)], EVS[ei % len(EVS)])
      ns[mname] = mk(mname)
    met = spec.get("met", "ok")
    if met != "none":
      def _all_dependencies_met(self_):
        rt.on_met(k)
      ns["_all_dependencies_met"] = _all_dependencies_met
    return type("Sink%d" % k, (object,), ns)()

  def sink_handlers(self, k):
    out = []
    for ni, ei in self.sinkspecs[k].get("h", ()):
      t = (NAMES[ni % len(NAMES)], ei % len(EVS))
      if t not in out:
        out.append(t)
    return out

  def on_met(self, k):
    try:
      self.met_counts[k] = self.met_counts.get(k, 0) + 1
      self.mon.fired(("sink", k), set(self.core.components))
      self.sync()
      self.flag("sink-dependencies-met")
    except BaseException:
      self._guard()
      raise
    if self.sinkspecs[k].get("met") == "raise":
      raise CbBoom("sink%d" % k)

  def _mk_gup(self, g):
    def h(event):
      return self.on_goingup(g, event)
    return h

  def on_goingup(self, g, event):
    spec = self.gupspecs[g]
    try:
      rel = spec.get("rel", [])
      for j in range(spec.get("take", 0)):
        fn = event.get_deferral()
        self.ndeferrals += 1
        did = self.ndeferrals
        self.deferrals.append((did, fn))
        self.mon.deferral_taken(did)
        self.flag("deferral-taken")
        if j < len(rel) and rel[j]:
          self.release(did)
          again = spec.get("again", [])
          if j < len(again) and again[j]:
            self.rerelease(len(self.released) - 1)
      self.cb_stack.append(-1)
      try:
        for op in spec.get("ops", ()):
          self.do_op(op, True)
      finally:
        self.cb_stack.pop()
    except BaseException:
      self._guard()
      raise

  def release(self, did):
    for i, (d, fn) in enumerate(self.deferrals):
      if d == did:
        del self.deferrals[i]
        self.released.append((d, fn))
        break
    else:
      raise HarnessError("unknown deferral")
    self.mon.deferral_released(did)
    if self.mon.in_goingup_delivery:
      self.flag("release-inside-goingup-delivery")
    else:
      self.flag("release-later")
    try:
      fn()
    except HarnessError:
      raise
    except Exception as e:
      if not self.stop:           # (after a failed call everything downstream is its consequence)
        self.exc_violation(e, "release-raised")
        self.stop = True
    self.sync()

  def rerelease(self, k):
    """Release a deferral that has been released before.  Being refused (RuntimeError) and being ignored are
    both fine; what the lifecycle does afterwards is judged by the monitor."""
    if not self.released:
      self.flag("op-skipped-nothing-released-yet")
      return
    did, fn = self.released[k % len(self.released)]
    self.mon.deferral_rereleased(did)
    where = ("inside-goingup-delivery" if self.mon.in_goingup_delivery else
             "after-up" if "UpEvent" in self.mon.seen else "before-up")
    self.flag("duplicate-release-" + where)
    if not self.mon.outstanding:
      self.flag("duplicate-release-with-nothing-outstanding")
    try:
      fn()
    except HarnessError:
      raise
    except RuntimeError:
      self.flag("duplicate-release-refused")
    except Exception as e:
      if not self.stop:
        self.exc_violation(e, "release-raised", duplicate=True)
        self.stop = True
    else:
      self.flag("duplicate-release-ignored")
    self.sync()

  # ---------------------------------------------------------------- operations
  def do_op(self, op, nested):
    if self.stop:
      return
    k = op["op"]
    if k == "reg":
      self.op_reg(op, nested)
    elif k == "cwr":
      self.op_cwr(op, nested)
    elif k == "ltd":
      self.op_ltd(op, nested)
    elif k == "rel":
      if self.deferrals:
        self.release(self.deferrals[op.get("k", 0) % len(self.deferrals)][0])
      else:
        self.flag("op-skipped-no-deferral")
    elif k == "rel2":
      self.rerelease(op.get("k", 0))
    elif nested:
      raise HarnessError("operation %r is not available inside callbacks" % (k,))
    elif k == "gup":
      self.op_gup(op)
    elif k == "gdl":
      self.op_gdl(op)
    elif k == "crl":
      self.op_crl(op)
    elif k == "goup":
      self.op_goup()
    elif k == "quit":
      self.op_quit()
    else:
      raise HarnessError("unknown op %r" % (k,))
    self.sync()

  def _end_call(self, call, failed=False):
    # sinks without _all_dependencies_met: the attributes are the only sign that the wiring ran
    have = set(self.core.components)
    for w, lst in self.blog.items():
      while self.blog_seen[w] < len(lst):
        no = lst[self.blog_seen[w]]
        self.blog_seen[w] += 1
        self.mon.fired(("cb", w, no), have)
        self.flag("callback-fired")
        self.flag("builtin-callback-fired")
    for d in self.mon.decls:
      if d.kind == "sink" and d.fired == 0 and d.completing is not None and not d.broken:
        k = d.group[1]
        if self.sinkspecs[k].get("met", "ok") == "none" and d.deps and all(
            hasattr(self.sinks[k], "_%s_" % n) for n in d.deps):
          self.mon.fired(d.group, have)
    self.mon.call_end(call, failed)
    self.sync()

  def op_reg(self, op, nested):
    P = self.P
    name = NAMES[op["n"] % len(NAMES)]
    how = op.get("how", "name")
    if name in self.mon.registry:
      if nested:
        self.flag("op-skipped-nested-reregistration")
        return
      self.flag("re-registration")
    call = self.mon.call_begin()
    tok = len(self.objs)
    core = self.core
    try:
      if how == "name":
        obj = P["comp"][name]()
        self.objs.append((name, obj))
        self.mon.register(call, name, tok)
        core.register(name, obj)
      elif how == "new":
        # the object only exists once registerNew has built it
        self.objs.append((name, None))
        self.mon.register(call, name, tok)
        obj = core.registerNew(P["comp"][name])
        self.objs[tok] = (name, obj)
      elif how == "single":
        obj = P["comp"][name]()
        self.objs.append((name, obj))
        self.mon.register(call, name, tok)
        core.register(obj)
      elif how == "corename_new":
        self.objs.append((name, None))
        self.mon.register(call, name, tok)
        obj = core.registerNew(P["alt"][name])
        self.objs[tok] = (name, obj)
      elif how == "falsy":
        obj = P["falsy"][name]()
        self.objs.append((name, obj))
        self.mon.register(call, name, tok)
        core.register(name, obj)
      elif how == "falsy_new":
        self.objs.append((name, None))
        self.mon.register(call, name, tok)
        obj = core.registerNew(P["falsy"][name])
        self.objs[tok] = (name, obj)
      elif how == "corename_single":
        obj = P["alt"][name]()
        self.objs.append((name, obj))
        self.mon.register(call, name, tok)
        core.register(obj)
      else:
        raise HarnessError("unknown registration form %r" % (how,))
    except HarnessError:
      raise
    except Exception as e:
      if not self.stop:
        self.exc_violation(e, "register-raised", how=how)
      self._end_call(call, failed=True)
      self.stop = True
      return
    if self.objs[tok][1] is None or core.components.get(name) is not self.objs[tok][1]:
      self.out.fail("registry-content", "after registering %r (%s form) core.components[%r] is %r" % (
          name, how, name, core.components.get(name)), how=how)
    self.flag("reg-" + how)
    if nested:
      self.flag("reg-inside-callback")
    self._end_call(call)

  def op_cwr(self, op, nested):
    nw = len(self.waiters)
    if nw == 0:
      return
    w = op["w"] % nw
    if nested:
      cur = self.cb_stack[-1] if self.cb_stack else -1
      if cur >= nw - 1:
        self.flag("op-skipped-no-later-waiter")
        return
      w = cur + 1 + (op["w"] % (nw - cur - 1))
    deps = []
    for i in op.get("deps", ()):
      n = NAMES[i % len(NAMES)] if i >= 0 else "core"
      if n not in deps:
        deps.append(n)
    form = op.get("form", "list")
    if form == "str" and len(deps) != 1:
      form = "list"
    if form not in CWR_FORMS:
      raise HarnessError("unknown dependency container %r" % (form,))
    comps = {
      "list": list(deps), "tuple": tuple(deps), "set": set(deps), "str": deps[0] if deps else None,
      "frozenset": frozenset(deps), "gen": (n for n in list(deps)), "map": map(str, list(deps)),
      "keys": dict.fromkeys(deps).keys(), "dict": dict.fromkeys(deps),
    }[form]
    arg = op.get("arg", "id")
    kind = self.kind(w)
    if kind == "builtin":
      arg = "id"
    explicit = op.get("name", "default") == "explicit"
    self.decl_no += 1
    no = self.decl_no
    if arg == "id":
      group, a, kw = ("cb", w, no), (no,), {}
    elif arg == "kw":
      group, a, kw = ("cb", w, no), (), {"d": no}
    else:
      group, a, kw = ("cb", w), (), {}
      if any(d.group == group for d in self.mon.decls):
        self.flag("indistinguishable-duplicate-declaration")
    call = self.mon.call_begin()
    already = set(deps) <= set(self.mon.registry)
    d = self.mon.declare(call, group, deps, "cb")
    cause = "empty-sequence" if (not deps and form in ("list", "tuple")) else "-"
    if cause == "-" and not explicit and kind in CB_NAMELESS:
      cause = "default-name"    # the callable has no function-like __name__ / __module__ to derive a name from
    d.tag = cause
    if kind == "partial_builtin_fail":
      d.broken = True           # nothing about its own firing can be observed
    try:
      if explicit:
        self.core.call_when_ready(self.callbacks[w], comps, name="waiter-%d" % w, args=a, kw=kw)
      else:
        self.core.call_when_ready(self.callbacks[w], comps, args=a, kw=kw)
    except HarnessError:
      raise
    except Exception as e:
      if not self.stop:
        self.exc_violation(e, "call_when_ready-raised", deps=("empty" if not deps else "nonempty"), cause=cause)
      d.broken = True
      self._end_call(call, failed=True)
      if cause == "default-name" and not any(en[0] is self.callbacks[w] and en[3] == a and en[4] == kw for en in self.core._waiters):
        self.flag("cwr-rejected-before-registration")   # nothing was stored: the history can go on
        return
      self.stop = True          # the half-made entry stays in core._waiters; nothing after this is meaningful
      return
    self.flag("cwr-kind-" + kind)
    self.flag("cwr-name-" + ("explicit" if explicit else "default"))
    self.flag("cwr-" + form)
    self.flag("cwr-deps-already-registered" if already else "cwr-declared-before-registration")
    if not deps:
      self.flag("cwr-empty-deps")
    if nested:
      self.flag("cwr-inside-callback")
    self._end_call(call)
    if d.late_reported:
      d.broken = True
      self.stop = True          # an entry that can never fire stays in core._waiters

  def op_ltd(self, op, nested):
    if not self.sinks:
      return
    k = op["k"] % len(self.sinks)
    spec = self.sinkspecs[k]
    sink = self.sinks[k]
    extra = []
    for i in op.get("extra", ()):
      n = NAMES[i % len(NAMES)]
      if n not in extra:
        extra.append(n)
    deps = []
    for n, _ in self.sink_handlers(k):
      if n not in deps:
        deps.append(n)
    for n in extra:
      if n not in deps:
        deps.append(n)
    mode = op.get("attrs", "attrs")
    if spec.get("met", "ok") == "none":
      # wiring of such a sink is only observable through the attributes, once
      if k in self.nomet_declared or not deps:
        self.flag("op-skipped-unobservable")
        return
      self.nomet_declared.add(k)
      mode = "attrs"
    call = self.mon.call_begin()
    d = self.mon.declare(call, ("sink", k), deps, "sink", attrs=mode)
    try:
      if op.get("extra_form") == "none" and not extra:
        self.core.listen_to_dependencies(sink, attrs=(mode == "attrs"), short_attrs=(mode == "short"))
      elif op.get("extra_form") == "str" and len(extra) == 1:
        self.core.listen_to_dependencies(sink, extra[0], attrs=(mode == "attrs"), short_attrs=(mode == "short"))
      else:
        self.core.listen_to_dependencies(sink, list(extra), attrs=(mode == "attrs"), short_attrs=(mode == "short"))
    except HarnessError:
      raise
    except Exception as e:
      if not self.stop:
        self.exc_violation(e, "listen_to_dependencies-raised")
      d.broken = True
      self._end_call(call, failed=True)
      self.stop = True
      return
    self.flag("ltd")
    self.flag("ltd-attrs-" + mode)
    if nested:
      self.flag("ltd-inside-callback")
    self._end_call(call)

  def op_gup(self, op):
    if not self.guphandlers:
      return
    g = op["g"] % len(self.guphandlers)
    PC = self.P["PC"]
    self.core.addListener(PC.GoingUpEvent, self.guphandlers[g], priority=op.get("p", 0))
    self.flag("goingup-listener")
    if self.goup_called:
      self.flag("goingup-listener-after-goup")

  def op_gdl(self, op):
    """Subscribe a GoingDown (ev 0) or Down (ev 1) listener that calls core.quit() from inside the
    delivery, the first time it runs."""
    PC = self.P["PC"]
    ev = op.get("ev", 0) % 2
    state = {"done": False}

    def h(event):
      if state["done"]:
        return
      state["done"] = True
      try:
        self.flag("quit-from-inside-%s-delivery" % ("GoingDown" if ev == 0 else "Down"))
        self.mon.quit_attempt()
        n = len(self.pending)
        self._call_quit(self.core.quit)
        if len(self.pending) != n:
          self.flag("quit-after-goup-used-a-thread")
        self.sync()
      except BaseException:
        self._guard()
        raise
    self.core.addListener(PC.GoingDownEvent if ev == 0 else PC.DownEvent, h, priority=op.get("p", 0))
    self.flag("goingdown-listener" if ev == 0 else "down-listener")

  def op_crl(self, op):
    """Subscribe somebody else's listener to core's ComponentRegistered: it returns None, halts the event
    or raises.  None of that is the rendezvous' business."""
    PC, RE = self.P["PC"], self.P["RE"]
    ret = op.get("ret", "none")

    def h(event):
      self.flag("component-registered-listener-ran")
      if ret == "halt":
        self.flag("component-registered-event-halted")
        return RE.EventHalt
      if ret == "raise":
        self.flag("component-registered-listener-raised")
        raise CbBoom("ComponentRegistered listener")
      return None
    self.core.addListener(PC.ComponentRegistered, h, priority=op.get("p", 0))
    self.flag("component-registered-listener")

  def op_goup(self):
    if self.goup_called:
      self.flag("op-skipped-second-goup")
      return
    self.goup_called = True
    self.mon.goup_begin()
    try:
      self.core.goUp()
    except HarnessError:
      raise
    except Exception as e:
      self.mon.in_goingup_delivery = False
      if not self.stop:
        self.exc_violation(e, "goUp-raised")
      self.stop = True
      return
    self.mon.in_goingup_delivery = False
    self.mon.goup_end()
    self.flag("goup")
    if self.mon.outstanding:
      self.flag("goup-returned-with-deferral-outstanding")

  def op_quit(self):
    self.flag("quit")
    if self.mon.goup_begun:
      # starting_up is False: quit() runs _quit in the calling thread
      eff = self.mon.quit_attempt()
      self.flag("quit-effective" if eff else "quit-repeated")
      n = len(self.pending)
      self._call_quit(self.core.quit)
      if len(self.pending) != n:
        self.flag("quit-after-goup-used-a-thread")
    else:
      self.flag("quit-before-goup")
      self._call_quit(self.core.quit)

  def _call_quit(self, f):
    try:
      f()
    except HarnessError:
      raise
    except Exception as e:
      if not self.stop:
        self.exc_violation(e, "quit-raised")
      self.stop = True

  def run_pending(self):
    """One generation of the threads quit() started: each runs to completion, now."""
    todo, self.pending = self.pending, []
    for t in todo:
      eff = self.mon.quit_attempt()
      if eff:
        self.flag("quit-effective")
        self.flag("early-quit-took-effect-after-goup")
      self._call_quit(t.run_now)
      self.sync()

  # ---------------------------------------------------------------- checks between operations
  def settle_checks(self):
    self.mon.check_settled()
    self.sync()
    self.check_sinks()
    if self.harness_error is not None:
      raise HarnessError("exception inside the harness's callback:\n" + self.harness_error)

  def check_sinks(self):
    P = self.P
    for k, sink in enumerate(self.sinks):
      decls = [d for d in self.mon.decls if d.group == ("sink", k) and not d.broken]
      consistent = all(d.fired == (1 if d.completing is not None else 0) for d in decls)
      complete = [d for d in decls if d.completing is not None]
      mets = self.met_counts.get(k, 0)
      if self.sinkspecs[k].get("met", "ok") != "none" and consistent and mets != len(complete):
        self.out.fail("sink-met-count", "_all_dependencies_met of sink %d ran %d times for %d complete declarations" % (k, mets, len(complete)))
      # attributes
      for n in NAMES:
        for mode, attr in (("attrs", "_%s_" % n), ("short", n)):
          want = any(d.attrs == mode and n in d.deps for d in complete)
          has = hasattr(sink, attr)
          if has and not any(d.attrs == mode and n in d.deps for d in decls):
            self.out.fail("sink-attr-unexpected", "sink %d has attribute %s which no declaration asks for" % (k, attr))
          elif has and not want and consistent:
            self.out.fail("sink-attr-early", "sink %d has attribute %s before all its components are registered" % (k, attr))
          elif want and consistent and not has:
            self.out.fail("sink-attr-missing", "sink %d lacks attribute %s after its dependencies were met" % (k, attr), mode=mode)
          elif want and has:
            v = getattr(sink, attr)
            if not any(nm == n and o is v for nm, o in self.objs):
              self.out.fail("sink-attr-value", "sink %d attribute %s is %r, not a component registered as %r" % (k, attr, v, n))
    # wiring: raise every event of every component object ever registered and count
    for tok, (name, obj) in enumerate(self.objs):
      evs = COMP_EVENTS[name]
      if evs is None or obj is None:
        continue
      for ei in evs:
        before = dict(self.sink_counts)
        try:
          obj.raiseEvent(P["evcls"][ei]())
        except HarnessError:
          raise
        except Exception as e:
          self.exc_violation(e, "component-raise-raised")
          continue
        for k in range(len(self.sinks)):
          decls = [d for d in self.mon.decls if d.group == ("sink", k) and not d.broken]
          if not all(d.fired == (1 if d.completing is not None else 0) for d in decls):
            continue
          for n, ej in self.sink_handlers(k):
            mname = "_handle_%s_%s" % (n, EVS[ej])
            delta = self.sink_counts.get((k, mname), 0) - before.get((k, mname), 0)
            want = 0
            if n == name and ej == ei:
              want = sum(1 for d in decls if d.completing is not None and d.bound.get(n) == tok)
            if delta != want:
              self.out.fail("sink-wiring-count", "raising %s on the %s registered as %r invoked %s of sink %d %d time(s), expected %d" % (
                  EVS[ei], "object" if want else "(other) object", name, mname, k, delta, want),
                  kind=("missing" if delta < want else "extra"))
            elif want:
              self.flag("sink-handler-wired-once")


def run_case(case):
  setup()
  out = Outcome()
  rt = RT(case, out)
  gc.disable()
  try:
    rt.start()
    with contextlib.redirect_stdout(io.StringIO()):
      for op in case["ops"]:
        if rt.stop:
          break
        rt.do_op(op, False)
        if rt.stop:
          break
        rt.run_pending()
        rt.settle_checks()
    if rt.harness_error is not None:
      raise HarnessError("exception inside the harness's callback:\n" + rt.harness_error)
  finally:
    try:
      rt.finish()
    finally:
      gc.enable()
  m = rt.mon
  out.nontrivial = bool(m.stats.get("completed-inside-callback")) or m.deferrals_taken > 0
  for f in sorted(rt.flags):
    out.label(f)
  if m.stats.get("completed-inside-callback"):
    out.label("dependencies-completed-inside-callback")
  if m.seen:
    out.label("lifecycle:" + ",".join(e.replace("Event", "") for e in m.seen))
  if rt.stop:
    out.label("case-cut-short-by-failed-call")
  if out.violations:
    out.label("case-with-violation")
  return out


# --------------------------------------------------------------------------- exhaustive pool

def _pool_case(seq):
  A, B = 0, 1
  waiters = [
    {"ops": [], "raise": False, "kind": "func"},
    {"ops": [{"op": "reg", "n": B, "how": "name"}, {"op": "cwr", "w": 1, "deps": [A], "form": "list", "arg": "id", "name": "explicit"}],
     "raise": False, "kind": "bound"},
    {"ops": [], "raise": True, "kind": "partial"},
    {"ops": [], "raise": False, "kind": "inst"},
  ]
  sinks = [{"h": [[A, 0], [B, 0]], "met": "ok"}]
  gups = [{"take": 1, "rel": [False], "ops": []}, {"take": 1, "rel": [True], "ops": []}]
  pool = [
    {"op": "reg", "n": A, "how": "name"},
    {"op": "reg", "n": B, "how": "new"},
    {"op": "cwr", "w": 0, "deps": [A], "form": "list", "arg": "id"},
    {"op": "cwr", "w": 1, "deps": [A], "form": "str", "arg": "kw"},
    {"op": "cwr", "w": 2, "deps": [B], "form": "gen", "arg": "id", "name": "explicit"},
    {"op": "cwr", "w": 0, "deps": [A, B], "form": "frozenset", "arg": "none"},
    {"op": "ltd", "k": 0, "extra": [], "attrs": "attrs"},
    {"op": "gup", "g": 0, "p": 0},
    {"op": "gup", "g": 1, "p": 0},
    {"op": "goup"},
    {"op": "quit"},
    {"op": "rel", "k": 0},
    {"op": "reg", "n": A, "how": "falsy"},
    {"op": "cwr", "w": 3, "deps": [], "form": "set", "arg": "id", "name": "explicit"},
    {"op": "rel2", "k": 0},
    {"op": "gdl", "ev": 0, "p": 0},
    {"op": "crl", "p": 5, "ret": "halt"},
  ]
  return {"waiters": waiters, "sinks": sinks, "gups": gups, "ops": [pool[i] for i in seq]}


POOL_SIZE = 17


def _enum(maxlen):
  for n in range(1, maxlen + 1):
    for seq in itertools.permutations(range(POOL_SIZE), n):
      yield _pool_case(seq)


# --------------------------------------------------------------------------- Hypothesis

def _s_ops(kind):
  """kind: 'nested' (inside callbacks / GoingUp handlers), 'pre' (before goUp), 'post' (after it), 'free'."""
  name = st.integers(0, 4)
  some = st.lists(st.sampled_from([0, 0, 0, 1, 1, 1, 2, 3, 4, -1]), min_size=1, max_size=3)
  deps = some
  reg = st.fixed_dictionaries({"op": st.just("reg"), "n": st.sampled_from([0, 0, 0, 1, 1, 1, 2, 3, 4]), "how": st.sampled_from(REG_HOW[:2] * 2 + REG_HOW + ["falsy"])})
  cwr = st.fixed_dictionaries({"op": st.just("cwr"), "w": st.integers(0, 4), "deps": deps,
                               "form": st.sampled_from(["list", "list", "set", "str", "tuple"] + CWR_FORMS),
                               "arg": st.sampled_from(["id", "kw", "none", "none"]),
                               "name": st.sampled_from(["explicit"] * 5 + ["default"])})
  cwr0 = st.fixed_dictionaries({"op": st.just("cwr"), "w": st.integers(0, 4), "deps": st.just([]),
                                "form": st.sampled_from(["set", "list", "tuple", "frozenset", "gen", "keys", "dict"]),
                                "arg": st.sampled_from(["id", "none"]), "name": st.just("explicit")})
  ltd = st.fixed_dictionaries({"op": st.just("ltd"), "k": st.integers(0, 2), "extra": st.lists(name, max_size=2),
                               "attrs": st.sampled_from(ATTR_MODES), "extra_form": st.sampled_from(["list", "none", "str"])})
  rel = st.fixed_dictionaries({"op": st.just("rel"), "k": st.integers(0, 3)})
  rel2 = st.fixed_dictionaries({"op": st.just("rel2"), "k": st.integers(0, 3)})
  if kind == "nested":
    return st.one_of(reg, reg, reg, reg, cwr, cwr, rel, rel, ltd, ltd, cwr0, rel2)
  gup = st.fixed_dictionaries({"op": st.just("gup"), "g": st.integers(0, 2), "p": st.sampled_from([0, 0, 5, -3])})
  crl = st.fixed_dictionaries({"op": st.just("crl"), "p": st.sampled_from([5, 0, -5]), "ret": st.sampled_from(["none", "halt", "raise"])})
  gdl = st.fixed_dictionaries({"op": st.just("gdl"), "ev": st.integers(0, 1), "p": st.sampled_from([0, 0, 5, -3])})
  goup = st.just({"op": "goup"})
  quit_ = st.just({"op": "quit"})
  if kind == "pre":
    return st.one_of(reg, reg, reg, reg, cwr, cwr, cwr, cwr, ltd, ltd, ltd, gup, gup, gup, quit_, cwr0, gdl, crl, crl)
  if kind == "post":
    return st.one_of(rel, rel, rel, rel, reg, reg, reg, reg, cwr, cwr, cwr, ltd, ltd, quit_, quit_, cwr0, rel2, rel2, gdl)
  return st.one_of(reg, reg, reg, reg, cwr, cwr, cwr, cwr, ltd, ltd, gup, gup, goup, goup, rel, rel, quit_, quit_, cwr0, rel2, gdl, crl)


def _strategy(tier):
  n = 6 if tier == "quick" else 10
  waiter = st.fixed_dictionaries({"ops": st.lists(_s_ops("nested"), max_size=3), "raise": st.sampled_from([False, False, True]),
                                  "kind": st.sampled_from(CB_KINDS)})
  sink = st.fixed_dictionaries({
    "h": st.lists(st.tuples(st.sampled_from([0, 0, 1, 1, 2, 3, 4]), st.integers(0, 1)).map(list), min_size=0, max_size=3),
    "met": st.sampled_from(["ok", "ok", "ok", "raise", "none"]),
  })
  gup = st.fixed_dictionaries({
    "take": st.sampled_from([0, 1, 1, 2]), "rel": st.lists(st.sampled_from([False, False, True]), min_size=2, max_size=2),
    "again": st.lists(st.sampled_from([False, False, True]), min_size=2, max_size=2),
    "ops": st.lists(_s_ops("nested"), max_size=2),
  })
  phased = st.tuples(st.lists(_s_ops("pre"), min_size=3, max_size=n), st.lists(_s_ops("post"), min_size=2, max_size=n)).map(
      lambda t: t[0] + [{"op": "goup"}] + t[1])
  free = st.lists(_s_ops("free"), min_size=5, max_size=2 * n)
  return st.fixed_dictionaries({
    "waiters": st.lists(waiter, min_size=1, max_size=5),
    "sinks": st.lists(sink, min_size=1, max_size=3),
    "gups": st.lists(gup, min_size=1, max_size=3),
    "ops": st.one_of(phased, phased, phased, free),
  })


def plan(tier):
  if tier == "quick":
    return [
      Enum("permutations", lambda: _enum(4), shards=16),
      Hyp("histories", lambda: _strategy(tier), examples=2000, shards=16),
    ]
  return [
    Enum("permutations", lambda: _enum(5), shards=16),
    Hyp("histories", lambda: _strategy(tier), examples=300000, shards=16),
  ]
