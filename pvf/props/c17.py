"""C17 -- the controller's picture of switch ports and multipart statistics is exact.

A handshaken of_01.Connection on a fake socket is fed bytes built by pvf.ref.swbytes (struct only).
Ports: a features reply, then port-status notifications (and possibly another features reply); after
every message the whole mapping API of con.ports and con.original_ports is compared with
pvf.ref.portview, and so it is from inside the PortStatus listeners (nexus and connection) while each notification
is announced.  Statistics: replies split into parts with the MORE flag, interleaved with other
messages (among them errors that turn down other requests, quoting them) and other requests' replies; the aggregated events and RawStatsReply raised on the nexus and
on the connection are compared with what the property statement prescribes.
Several connections: 2..3 switches that use the same port numbers are connected at the same time in one
world; the script interleaves their handshakes, notifications, features replies, statistics parts and
stream closures; after every message EVERY live connection's views are compared with its own reference
and every statistics event is attributed to the connection it names.
"""
import copy
import itertools
import struct

from hypothesis import strategies as st

from ..runner import Outcome, Enum, Hyp, HarnessError, exc_key
from ..ref import swbytes as sb
from ..ref import portview as pv

ID = "C17"
LEVEL = "exploration"
TECHNIQUE = ("model-based testing against a reference port view and a reference multipart assembler: exhaustive short "
             "port-status sequences and exhaustive partitions of a stats body, plus Hypothesis histories, byte-level input")
LEVEL_TEXT = ("Exploration: all port-status sequences up to length 3 (thorough: 4, and 5 on the full port set) over 2 ports and "
              "6 notification shapes from every initial port set, all weak compositions of a 6-entry body into <= 6 parts for "
              "each multipart-capable type, every placement of a second request's reply around/between the parts, and "
              "Hypothesis histories (<= 12 notifications over 5 port numbers, <= 3 requests of <= 6 parts) are fed as bytes into "
              "a handshaken Connection; after every message the complete mapping API of con.ports / con.original_ports is "
              "compared with an independent reference view (also from inside the PortStatus listeners while each notification is announced) and every statistics event with an independent reassembly rule; "
              "error messages that turn down another request (8 kinds of quoted request, 3 quotation lengths) at every position of every strict composition of 4 entries. "
              "The same with two or three connections alive at once (exhaustive <= 2 notifications for either of two switches "
              "with the same port numbers x every placement of the second switch's handshake; every merge of a 3-part and a "
              "2-part reply of two switches; Hypothesis scripts of <= 16 items over 2..3 switches): every connection's view "
              "and statistics are judged against that connection's own messages only. Statistics replies of types without "
              "an aggregated event (vendor, undefined) travel in the streams as further requests. "
              "Bounded search plus sampling, no proof.")
LEVEL_NOTE = ("trusts the independent encoder pvf.ref.swbytes; field-level decoding is C01's subject and only the fields that "
              "identify an entry are compared; TCP segmentation is C02's subject, each message is delivered by one read()")
RULE = ("a case is either (features reply with 0..4 ports, k notifications delivered before the handshake is finished by the barrier reply or by the barrier-unsupported error, then "
        "<= 12 port-status / features messages) or (<= 3 statistics requests, each a list of parts, and a stream that merges "
        "the parts with other messages, among them error messages quoting another request of the controller), each optionally with listeners that halt events on the nexus / the connection; non-trivial when a deleted port is re-added, a port is renamed or changes hardware "
        "address, or a reply has >= 3 parts; or (kind 'multi') 2..3 connection descriptions (dpid, features reply, how the handshake ends, optional "
        "statistics reply as a list of parts) and a script of items [hs1 | hs2 | ps | feat | sp | close, connection index, ...] "
        "(an item for a connection that is not up yet brings it up first; items for a closed connection are skipped), non-trivial when a message "
        "arrives for one connection while another live connection has state it could disturb: a notification for a port number another live connection has or has deleted, "
        "a features reply / handshake while another connection has a deleted port, a statistics part while another connection's reply is incomplete, "
        "or a closure while others live; distinct by SHA-1 of the canonical JSON of the case")
ASSUMPTIONS = [
  "OFPPR_ADD and OFPPR_MODIFY both carry the complete new description of the port and set view[port_no]; OFPPR_DELETE of an unknown port is a no-op",
  "when several current ports share a name or hardware address a lookup by it may return any of them",
  "a failed [] lookup raises a LookupError (POX: IndexError), `in` is False, get() returns the default",
  "a request's reply is 'contiguous' when no other statistics reply arrives between its parts (other message types may); only such requests must produce exactly one aggregated event; for interleaved ones only at-most-once, never-merged, never-before-the-final-part and in-order are required (of_01 documents that interleaving is unsupported)",
  "a request whose final part never arrives must not produce an aggregated event",
  "listeners may halt RawStatsReply, the aggregated events, PortStatus and FeaturesReceived (return EventHalt / True, or set event.halt) on the nexus or on the connection; the only documented effect is that an event halted on the nexus is not raised on the connection, so the connection level may then omit exactly that event; aggregation, the nexus-level events and the port view must not depend on listeners",
  "port-status messages that arrive before a features reply (the first, or a second one during the handshake) are superseded by it: the view is the LAST features reply with the notifications that FOLLOW it applied",
  "statistics xids cover the whole 32-bit range including 0",
  "a later request may reuse the xid (and type) of an earlier one once that one is complete; their entries must not be merged either",
  "connections are independent: what arrives on one connection (handshake, features reply, notification, statistics part, end of stream) changes nothing in any other connection's port views or statistics assembly, also when two live connections report the same datapath id",
  "a connection's views are judged only while it is up (after its handshake, before its stream ends); notifications buffered during its handshake count once it is up",
  "a statistics reply whose type has no aggregated event (OFPST_VENDOR, types OpenFlow 1.0 does not define) raises RawStatsReply per part and nothing else; it counts as 'another statistics reply' for the contiguity of the judged ones; handling any well-formed statistics reply must not make the message handler raise (Connection.read() would swallow it; the harness wraps the handlers to see it)",
  "error messages are 'other message types' for the statistics clause: an OFPT_ERROR that turns down ANOTHER request of the controller (its data quotes up to 64 bytes of that request - a statistics request of any type, flow-mod, barrier request, packet-out, port-mod; its xid is never that of a request whose reply is in the stream) changes nothing in the assembly of the replies in progress, wherever it arrives",
  "the PortStatus event is the announcement of a notification and its listeners are where applications consult connection.ports: while the event for notification k is delivered (on the nexus and on the connection, also for the notifications buffered during the handshake and announced when it finishes) both views already equal 'reported ports with notifications 1..k applied in order'",
]
EXHAUSTIVE_SCOPE = {
  "quick": ("ports: every sequence of <= 3 notifications from a 12-letter alphabet (2 ports x {add, add renamed, modify, "
            "modify renamed, modify hw address, delete}) from each of the 4 initial subsets of {1,2}; stats: all 792 weak "
            "compositions of 6 entries into <= 6 parts x {flow, table, port, queue}; all 32 compositions x 4 types x 4 kinds "
            "of second reply x every gap x with/without other messages in every gap; every subset of the 4 raw events of a 4-part "
            "reply halted on the nexus or on the connection x aggregated event halted nowhere/nexus/connection x 3 ways of halting; "
            "0..3 notifications buffered during the handshake (all sequences of <= 2, all of 3 on one port) x 4 initial sets x "
            "handshake finished by barrier reply / by the barrier-unsupported error; "
            "all 2-notification sequences with PortStatus/FeaturesReceived listeners halting on nexus or connection; "
            "every strict composition of 4 entries x 4 types x every position of an error message that turns down another request x 8 kinds of quoted request "
            "(4 statistics requests, flow-mod, barrier, packet-out, port-mod) x {fresh xid, xid next to the reply's} and header-only / 12-byte quotations; "
            "every port-status case also judges both views from inside the PortStatus listeners on the nexus and on the connection; "
            "vendor / undefined statistics types in 1..3 parts alone, unfinished, and before / between / after the two parts of a judged reply x 4 types; "
            "two connections whose switches both number their ports 1, 2 (other names and addresses): every sequence of <= 2 notifications from a 24-letter "
            "alphabet (2 connections x 2 ports x 6 shapes) x every placement (start, finish) of the second connection's handshake from the full initial sets, "
            "two placements from 3 other pairs of initial sets; one notification then a further features reply (4 port subsets) on either connection then nothing / a delete / an add; "
            "notification, closure of either stream, notification; a third switch connecting after every 2-notification sequence; every merge of a 3-part reply on one "
            "connection with a 2-part (or desc) reply on the other x same/other type x same/other xid, also with the final part missing"),
  "thorough": ("as quick with notification sequences <= 4 from every initial subset and <= 5 from the full set; two connections: all placements from all 4 pairs of initial sets, "
               "both ways of finishing the handshake, and every sequence of 3 notifications with the second handshake (in one piece) at every position"),
}

PORT_NOS = [1, 2, 3, 4, 0xfffe]
NAMES = ["eth1", "eth2", "eth3", "eth4", "br0", "foo", "bar", "new1", "new2"]
HWS = [bytes.fromhex(h) for h in ("020000000001", "020000000002", "020000000003", "020000000004", "0200000000fe",
                                  "0a0000000001", "0a0000000002", "000000000000")]
DPID = 0x2a

_W = None


def setup():
  global _W
  if _W is None:
    from ..sim import world
    world.boot()
    _W = world


class _Once(object):
  def __init__(self, out):
    self.out = out
    self.seen = set()

  def fail(self, clause, msg, **key):
    k = (clause,) + tuple(sorted(key.items()))
    if k in self.seen:
      return
    self.seen.add(k)
    self.out.fail(clause, msg, **key)


class _Con(object):
  """a controller-side connection taken through the handshake"""

  def __init__(self, out, w=None, dpid=None, once=None):
    """w: an existing World to live in (several connections at the same time); by default a fresh one"""
    setup()
    import pox.openflow.of_01 as of_01
    from pox.lib.addresses import EthAddr
    self.EthAddr = EthAddr
    self.out = out
    self.once = once if once is not None else _Once(out)
    self.owns_world = w is None
    self.w = _W.World() if w is None else w
    self.dpid = DPID if dpid is None else dpid
    self.sock = _W.FakeSock()
    self.con = of_01.Connection(self.sock)
    self.step = -1
    self.log = []            # (level, kind, step, payload)
    self.excs = []           # (step, exception) raised by a message handler (read() swallows them)
    self.xid = 0x100

  def close(self):
    if self.owns_world:
      self.w.close()

  def feed(self, data):
    self.sock.feed(data)
    n = 0
    while self.sock.inbox:
      if self.con.read() is False:
        raise HarnessError("the controller dropped the connection")
      n += 1
      if n > 1000:
        raise HarnessError("read loop does not drain")

  def handshake(self, ports, early=(), finish="barrier", pre=(), again=None):
    """hello; `pre` notifications (before the features reply); features reply; `early` notifications, with
    (again = (j, ports2)) a second features reply after the first j of them; then the answer to the barrier"""
    self.feed(sb.hello(0))
    for reason, rec in pre:
      self.feed(sb.port_status(0, reason, rec))
    self.feed(sb.features_reply(1, self.dpid, ports))
    early = list(early)
    if again is not None:
      j, ports2 = again
      for reason, rec in early[:j]:
        self.feed(sb.port_status(0, reason, rec))
      self.feed(sb.features_reply(2, self.dpid, ports2))
      early = early[j:]
    msgs, rest = sb.split(bytes(self.sock.sent))
    bx = [x for v, t, x, b in msgs if t == sb.OFPT_BARRIER_REQUEST]
    if len(bx) != (1 if again is None else 2):
      raise HarnessError("unexpected barrier requests during the handshake: %r" % (bx,))
    bx = bx[-1:]          # the barrier that belongs to the latest features reply
    for reason, rec in early:
      self.feed(sb.port_status(0, reason, rec))
    if finish == "error":
      # a switch without barrier support answers the barrier request with BAD_REQUEST / BAD_TYPE
      self.feed(sb.error(bx[0], sb.OFPET_BAD_REQUEST, sb.OFPBRC_BAD_TYPE, sb.barrier_request(bx[0])))
    else:
      self.feed(sb.barrier_reply(bx[0]))
    self._established()

  def _established(self):
    if self.con.connect_time is None:
      raise HarnessError("handshake did not complete")
    # message handlers run inside read()'s catch-all; remember what they raise
    self.con.handlers = [self._wrap(h) for h in self.con.handlers]

  # the handshake in two steps, so that other connections' traffic can arrive in between
  def hs1(self, ports):
    self.feed(sb.hello(0))
    self.feed(sb.features_reply(1, self.dpid, ports))

  def hs2(self, finish="barrier"):
    msgs, rest = sb.split(bytes(self.sock.sent))
    bx = [x for v, t, x, b in msgs if t == sb.OFPT_BARRIER_REQUEST]
    if len(bx) != 1:
      raise HarnessError("unexpected barrier requests during the handshake: %r" % (bx,))
    if finish == "error":
      self.feed(sb.error(bx[0], sb.OFPET_BAD_REQUEST, sb.OFPBRC_BAD_TYPE, sb.barrier_request(bx[0])))
    else:
      self.feed(sb.barrier_reply(bx[0]))
    self._established()

  def _wrap(self, h):
    def wrapped(con, msg):
      try:
        return h(con, msg)
      except Exception as e:
        self.excs.append((self.step, e))
        raise
    return wrapped

  def next_xid(self):
    self.xid += 1
    return self.xid


# =========================================================================== listeners that halt events

class _Halter(object):
  """Decides, per (level, event class), whether the k-th event is halted by the recording listener, and how.
  spec: {"nexus:raw": [0/1, ...], "con:agg": [...], ..., "style": 0|1|2}; the k-th event of a class uses
  list[k % len]; a missing or empty list never halts.  style 0: return EventHalt, 1: set event.halt and
  return None, 2: return True (all three are documented ways to stop an event)."""

  def __init__(self, spec):
    self.spec = spec or {}
    self.count = {}
    self.halted = 0
    from pox.lib.revent import EventHalt
    self.EventHalt = EventHalt

  def decide(self, level, cls):
    k = "%s:%s" % (level, cls)
    n = self.count.get(k, 0)
    self.count[k] = n + 1
    pat = self.spec.get(k) or []
    return bool(pat) and bool(pat[n % len(pat)])

  def do(self, e):
    self.halted += 1
    style = self.spec.get("style", 0) % 3
    if style == 0:
      return self.EventHalt
    if style == 1:
      e.halt = True
      return None
    return True


# =========================================================================== ports

def _tup(p):
  return (p.port_no, p.hw_addr.toRaw(), p.name, p.config, p.state, p.curr, p.advertised, p.supported, p.peer)


def _lookup(f, *a):
  """-> (found, value) ; LookupError means not found, anything else propagates"""
  try:
    return True, f(*a)
  except LookupError:
    return False, None


_SENTINEL = object()


def _probe(c, P, view, ref, which, when, names, addrs, extra=None):
  """compare one PortCollection with one reference view through the whole mapping API"""
  once = c.once
  EthAddr = c.EthAddr
  want_keys = sorted(view)
  extra = extra or {}

  def fail(clause, msg, **k):
    k.update(extra)
    once.fail(clause, "%s %s: %s" % (which, when, msg), coll=which, **k)

  # ---- size, keys, iteration
  n = len(P)
  if n != len(view):
    fail("len", "len() is %d, the switch has %d ports %r" % (n, len(view), want_keys))
  for name, got in (("keys", list(P.keys())), ("iter", list(iter(P))), ("iterkeys", list(P.iterkeys()))):
    if sorted(got) != want_keys:
      fail(name, "%s gives %r, expected %r" % (name, sorted(got), want_keys), api=name)
  want_vals = sorted(view.values())
  for name, got in (("values", list(P.values())), ("itervalues", list(P.itervalues()))):
    g = sorted(_tup(p) for p in got)
    if g != want_vals:
      fail("values", "%s gives %r, expected %r" % (name, g, want_vals), api=name)
  for name, got in (("items", list(P.items())), ("iteritems", list(P.iteritems()))):
    g = sorted((k, _tup(p)) for k, p in got)
    if g != sorted(view.items()):
      fail("items", "%s gives %r, expected %r" % (name, g, sorted(view.items())), api=name)
  # ---- by number
  for no in PORT_NOS + [7]:
    exp = view.get(no)
    found, p = _lookup(P.__getitem__, no)
    inn = no in P
    g = P.get(no, _SENTINEL)
    hk = P.has_key(no)
    if exp is None:
      if found or inn or g is not _SENTINEL or hk:
        fail("absent-number-found", "port %d is not present but [] found=%s, in=%s, get found=%s" % (no, found, inn, g is not _SENTINEL), by="number")
    else:
      if not found or not inn or g is _SENTINEL or not hk:
        fail("present-number-missing", "port %d is present but [] found=%s, in=%s, get found=%s" % (no, found, inn, g is not _SENTINEL), by="number")
      else:
        if _tup(p) != exp or _tup(g) != exp:
          fail("number-wrong-port", "port %d: [] gives %r, get gives %r, expected %r" % (no, _tup(p), _tup(g), exp), by="number")
  # ---- by name and by hardware address
  for by, keys, finder, mk in (("name", names, pv.PortView.by_name, lambda x: x),
                               ("addr", addrs, pv.PortView.by_addr, lambda x: EthAddr(x))):
    for key in keys:
      holders = finder(view, key)
      k = mk(key)
      found, p = _lookup(P.__getitem__, k)
      inn = k in P
      g = P.get(k, _SENTINEL)
      shown = key if by == "name" else key.hex()
      if not holders:
        if found or inn or g is not _SENTINEL:
          ghost = _tup(p) if found else (_tup(g) if g is not _SENTINEL else None)
          former = (key in ref.former_names) if by == "name" else (key in ref.former_addrs)
          if former:
            fail("attribute-lookup", "no current port has %s %r, but [] found=%s, in=%s, get found=%s -> %r (a port that had it before)" % (
                by, shown, found, inn, g is not _SENTINEL, ghost), by=by, symptom="former-attribute-still-found")
          else:
            fail("attribute-lookup", "no port has %s %r, but [] found=%s, in=%s, get found=%s -> %r" % (
                by, shown, found, inn, g is not _SENTINEL, ghost), by=by, symptom="never-used-attribute-found")
      else:
        if not found or not inn or g is _SENTINEL:
          fail("attribute-lookup", "port(s) %r have %s %r but [] found=%s, in=%s, get found=%s" % (
              [h[0] for h in holders], by, shown, found, inn, g is not _SENTINEL), by=by, symptom="current-attribute-not-found")
        elif _tup(p) not in holders or _tup(g) not in holders:
          fail("attribute-lookup", "%s %r: [] gives %r, get gives %r, but the current ports with it are %r" % (by, shown, _tup(p), _tup(g), holders), by=by, symptom="outdated-port-returned")


def case_ports(case, out):
  c = _Con(out)
  try:
    ref = pv.PortView()
    feat = case["feat"]
    ops = case["ops"]
    early = max(0, min(case.get("early", 0), len(ops)))
    # only port-status messages can be 'early'
    while early and any(op[0] != "ps" for op in ops[:early]):
      early -= 1
    # notifications that arrive before the features reply are superseded by it (it reports the ports as they
    # are when it is sent); so is everything before a second features reply
    pre = [(op[1], op[2]) for op in case.get("pre", []) if op[0] == "ps"]
    again = case.get("again")
    if again is not None:
      again = (max(0, min(again[0], early)), again[1])
    ref.features(feat)
    for k, op in enumerate(ops[:early]):
      if again is not None and k == again[0]:
        ref.features(again[1])
      ref.status(op[1], op[2])
    if again is not None and again[0] >= early:
      ref.features(again[1])
    # listeners that (per the case) halt PortStatus / FeaturesReceived: the port view must not depend on them
    halter = _Halter(case.get("halt"))
    # The PortStatus event is how applications learn of a notification, and its listeners are where they consult
    # con.ports: while the event for notification k is being delivered the views must already be 'the reported ports
    # with notifications 1..k applied'.  announce: what is still to be announced, in order -- [reason, port number,
    # reference view with that notification applied, text]; the listener on the nexus (always reached) takes the next
    # matching entry, the one on the connection (not reached when the nexus halted the event) judges the same entry.
    announce = []
    current = [None]
    in_event = {"nexus": 0, "con": 0}
    probe_ctx = {}

    def at_event(level, e):
      if level == "nexus":
        current[0] = None
        while announce:
          a = announce.pop(0)
          if a[0] == e.ofp.reason and a[1] == e.ofp.desc.port_no:
            current[0] = a
            break
      a = current[0]
      if a is None or e.connection is not c.con:
        return
      in_event[level] += 1
      when = "seen by a PortStatus listener on the %s while %s is announced" % (
          "nexus" if level == "nexus" else "connection", a[3])
      extra = {"at": "PortStatus-event"}
      _probe(c, c.con.ports, a[2].current, a[2], "ports", when, probe_ctx["names"], probe_ctx["addrs"], extra)
      _probe(c, c.con.original_ports, a[2].original, a[2], "original_ports", when, probe_ctx["names"], probe_ctx["addrs"], extra)

    def listener(level, cls):
      def h(e):
        if cls == "ps":
          at_event(level, e)
        if halter.decide(level, cls):
          return halter.do(e)
      return h
    for kind, cls in (("PortStatus", "ps"), ("FeaturesReceived", "feat")):
      c.w.nexus.addListenerByName(kind, listener("nexus", cls))
      c.con.addListenerByName(kind, listener("con", cls))
    finish = "error" if case.get("finish") == "error" else "barrier"
    names = list(NAMES)
    addrs = list(HWS)
    for r in (list(feat) + [op[2] for op in ops if op[0] == "ps"] + [r for op in ops if op[0] == "feat" for r in op[1]] +
              [rec for _, rec in pre] + (list(again[1]) if again is not None else [])):
      if r["name"] not in names:
        names.append(r["name"])
      if bytes(r["hw"]) not in addrs:
        addrs.append(bytes(r["hw"]))
    # inside the listeners: the names and addresses this case uses (current, former and never-current ones among them)
    probe_ctx["names"] = names[len(NAMES):] + NAMES[5:6]
    probe_ctx["addrs"] = addrs[len(HWS):] + HWS[7:]
    for r in list(feat) + [op[2] for op in ops if op[0] == "ps"]:
      if r["name"] not in probe_ctx["names"]:
        probe_ctx["names"].append(r["name"])
      if bytes(r["hw"]) not in probe_ctx["addrs"]:
        probe_ctx["addrs"].append(bytes(r["hw"]))
    # notifications buffered during the handshake are announced when it finishes, in order, each on top of the (last)
    # features reply and its predecessors
    replayed = ops[:early] if again is None else ops[again[0]:early]
    rv = pv.PortView()
    rv.features(feat if again is None else again[1])
    for k, op in enumerate(replayed):
      rv.status(op[1], op[2])
      announce.append([op[1], op[2]["no"], copy.deepcopy(rv), "buffered notification %d %s (handshake finished)" % (k, _show_op(op))])
    c.handshake(feat, [(op[1], op[2]) for op in ops[:early]], finish, pre, again)
    del announce[:]
    if pre:
      out.label("ports:%d-notifications-before-the-features-reply" % len(pre))
    if again is not None:
      out.label("ports:second-features-reply-during-handshake")
    out.label("ports:handshake-finished-by-" + ("barrier-unsupported-error" if finish == "error" else "barrier-reply"))
    if early:
      out.label("ports:notifications-during-handshake")
      out.label("ports:%d-notifications-during-handshake/%s" % (early, finish))
    def probe(when):
      _probe(c, c.con.ports, ref.current, ref, "ports", when, names, addrs)
      _probe(c, c.con.original_ports, ref.original, ref, "original_ports", when, names, addrs)

    probe("after the handshake")
    for i, op in enumerate(ops[early:]):
      c.step = i
      if op[0] == "ps":
        reason, rec = op[1], op[2]
        present = rec["no"] in ref.current
        out.label("ps:%s/%s" % (("add", "delete", "modify")[reason], "present" if present else "absent"))
        ref.status(reason, rec)
        del announce[:]
        announce.append([reason, rec["no"], ref, "message %d %s" % (i + early, _show_op(op))])
        c.feed(sb.port_status(0, reason, rec))
      elif op[0] == "feat":
        out.label("ports:second-features-reply")
        c.feed(sb.features_reply(c.next_xid(), DPID, op[1]))
        ref.features(op[1])
      else:
        raise HarnessError("unknown op %r" % (op,))
      probe("after message %d %s" % (i + early, _show_op(op)))
    if c.excs:
      e = c.excs[0][1]
      out.violations.append({"key": exc_key(e, clause="port-handler-raised"), "msg": "a port-status / features handler raised %r" % (e,)})
    for flag, label in ((ref.renamed, "ports:rename"), (ref.readded, "ports:delete-then-re-add"), (ref.hw_changed, "ports:hw-address-change")):
      if flag:
        out.label(label)
    out.nontrivial = ref.renamed or ref.readded or ref.hw_changed
    if halter.halted:
      out.label("ports:listener-halted-an-event")
    if in_event["nexus"]:
      out.label("ports:view-judged-inside-PortStatus-listener")
    if in_event["con"] < in_event["nexus"]:
      out.label("ports:event-halted-before-the-connection-level")
    dup_n = len(set(t[2] for t in ref.current.values())) < len(ref.current)
    if dup_n:
      out.label("ports:two-ports-share-a-name")
    if len(set(t[1] for t in ref.current.values())) < len(ref.current):
      out.label("ports:two-ports-share-an-address")
  finally:
    c.close()


def _show_op(op):
  if op[0] == "ps":
    r = op[2]
    return "%s(port %d name %r hw %s)" % (("ADD", "DELETE", "MODIFY")[op[1]], r["no"], r["name"], bytes(r["hw"]).hex())
  return "FEATURES(%r)" % ([r["no"] for r in op[1]],)


# =========================================================================== statistics

LIST_TYPES = {"flow": sb.OFPST_FLOW, "table": sb.OFPST_TABLE, "port": sb.OFPST_PORT, "queue": sb.OFPST_QUEUE}
# statistics types for which POX has no aggregated event: the vendor extension type and types OpenFlow 1.0 does not define
OPAQUE_TYPES = {"vendor": 0xffff, "undefined-6": 6, "undefined-0x1234": 0x1234}
EVENT_OF = {"flow": "FlowStatsReceived", "table": "TableStatsReceived", "port": "PortStatsReceived",
            "queue": "QueueStatsReceived", "desc": "SwitchDescReceived", "agg": "AggregateFlowStatsReceived"}


def _entry(t, tag):
  if t == "flow":
    return {"cookie": tag, "out": [1 + i for i in range(tag % 3)], "packet_count": tag * 7}
  if t == "table":
    return {"table_id": tag & 0xff, "name": "t%d" % tag, "max_entries": tag}
  if t == "port":
    return {"port_no": tag, "rx_packets": tag * 3, "collisions": tag}
  if t == "queue":
    return {"queue_id": tag, "port_no": 1, "tx_bytes": tag * 5}
  raise HarnessError(t)


def _tag_of(t, e):
  """read the identifying fields of a decoded entry back (two fields, to notice mis-slicing)"""
  try:
    return _tag_of_entry(t, e)
  except AttributeError:
    return ("not-an-entry", type(e).__name__)


def _tag_of_entry(t, e):
  if t == "flow":
    return e.cookie if (len(e.actions) == e.cookie % 3 and e.packet_count == e.cookie * 7) else ("garbled", e.cookie)
  if t == "table":
    return e.max_entries if (e.name == "t%d" % e.max_entries and e.table_id == e.max_entries & 0xff) else ("garbled", e.max_entries)
  if t == "port":
    return e.port_no if (e.rx_packets == e.port_no * 3 and e.collisions == e.port_no) else ("garbled", e.port_no)
  if t == "queue":
    return e.queue_id if e.tx_bytes == e.queue_id * 5 else ("garbled", e.queue_id)
  raise HarnessError(t)


def _all_tags(req):
  """what the aggregated event of a request must carry"""
  t = req["t"]
  if t in LIST_TYPES:
    return [g for part in req["parts"] for g in part]
  if t == "desc":
    return ["mfr%d" % req["parts"][0][0]]
  if t == "agg":
    g = req["parts"][0][0]
    return [(g * 2, g * 3, g)]
  return []


def _part_bytes(req, j):
  t = req["t"]
  tags = req["parts"][j]
  more = j < len(req["parts"]) - 1
  if t in LIST_TYPES:
    return sb.stats_reply_entries(req["xid"], LIST_TYPES[t], [_entry(t, g) for g in tags], more=more)
  if t == "desc":
    return sb.desc_stats_reply(req["xid"], mfr="mfr%d" % tags[0])
  if t == "agg":
    return sb.aggregate_stats_reply(req["xid"], packet_count=tags[0] * 2, byte_count=tags[0] * 3, flow_count=tags[0])
  if t in OPAQUE_TYPES:
    # vendor statistics start with the 4-byte vendor id; the rest is opaque
    return sb.stats_reply(req["xid"], OPAQUE_TYPES[t], b"\x00\x00\x23\x20" + bytes(g & 0xff for g in tags), more=more)
  raise HarnessError(t)


def _other_bytes(c, kind):
  k = kind % 5
  if k == 0:
    return sb.echo_request(c.next_xid(), b"x")
  if k == 1:
    return sb.port_status(0, sb.OFPPR_MODIFY, {"no": 1, "hw": HWS[0], "name": "eth1", "config": c.next_xid() & 1})
  if k == 2:
    return sb.packet_in(0, 0xffffffff, 1, sb.ethernet_frame(b"\xff" * 6, HWS[0], 0x0806, b"\0" * 28))
  if k == 3:
    return sb.barrier_reply(c.next_xid())
  return sb.error(c.next_xid(), sb.OFPET_BAD_REQUEST, sb.OFPBRC_BAD_LEN, b"")


# Requests of the controller that a switch may turn down with an OFPT_ERROR; the error's data field quotes the request
# ("at least 64 bytes of the failed request", OpenFlow 1.0 section 5.4.4).  name -> (request bytes for an xid, error type, code)
def _stats_request(xid, stype, body):
  return sb.header(sb.OFPT_STATS_REQUEST, 12 + len(body), xid) + struct.pack("!HH", stype, 0) + body


_MATCH_ALL = struct.pack("!LH", sb.OFPFW_ALL, 0) + b"\0" * 34
QUOTED = [
  ("stats-request:flow", lambda x: _stats_request(x, sb.OFPST_FLOW, _MATCH_ALL + struct.pack("!BxH", 0xff, 0xffff)), sb.OFPET_BAD_REQUEST, sb.OFPBRC_BAD_STAT),
  ("stats-request:port", lambda x: _stats_request(x, sb.OFPST_PORT, struct.pack("!H6x", 0xffff)), sb.OFPET_BAD_REQUEST, sb.OFPBRC_BAD_STAT),
  ("stats-request:queue", lambda x: _stats_request(x, sb.OFPST_QUEUE, struct.pack("!H2xL", 0xfffc, 0xffffffff)), sb.OFPET_QUEUE_OP_FAILED, 1),
  ("stats-request:table", lambda x: _stats_request(x, sb.OFPST_TABLE, b""), sb.OFPET_BAD_REQUEST, sb.OFPBRC_BAD_LEN),
  ("flow-mod", lambda x: sb.header(sb.OFPT_FLOW_MOD, 72, x) + _MATCH_ALL + struct.pack("!QHHHHLHH", 0, 0, 0, 0, 0x8000, 0xffffffff, 0xffff, 0),
   sb.OFPET_FLOW_MOD_FAILED, 0),
  ("barrier-request", lambda x: sb.barrier_request(x), sb.OFPET_BAD_REQUEST, sb.OFPBRC_BAD_TYPE),
  ("packet-out", lambda x: sb.header(sb.OFPT_PACKET_OUT, 16, x) + struct.pack("!LHH", 77, 0xffff, 0), sb.OFPET_BAD_REQUEST, 8),
  ("port-mod", lambda x: sb.header(sb.OFPT_PORT_MOD, 32, x) + struct.pack("!H6sLLL4x", 9, b"\x02\0\0\0\0\x09", 0, 0, 0), sb.OFPET_PORT_MOD_FAILED, 0),
]
QUOTE_CUT = [64, 8, 12]          # how much of the request the switch quotes: the 64 bytes of the specification, the header only, 12 bytes


def _error_item(c, reqs, item):
  """["e", q, x, n]: the switch turns down ANOTHER request of the controller (never one of the requests whose reply is in
  the stream): kind QUOTED[q]; xid fresh (x = 0) or the next after the first statistics request's (x = 1); data cut to
  QUOTE_CUT[n] bytes -> (label, bytes)"""
  name, build, etype, code = QUOTED[item[1] % len(QUOTED)]
  taken = set(r["xid"] for r in reqs)
  xid = c.next_xid()
  if len(item) > 2 and item[2] % 2 == 1:
    xid = (reqs[0]["xid"] + 1) & 0xffffffff
  while xid in taken:
    xid = c.next_xid()
  cut = QUOTE_CUT[(item[3] if len(item) > 3 else 0) % len(QUOTE_CUT)]
  return name, sb.error(xid, etype, code, build(xid)[:cut])


def case_stats(case, out):
  c = _Con(out)
  try:
    reqs = case["reqs"]
    stream = case["stream"]
    c.handshake([{"no": 1, "hw": HWS[0], "name": "eth1"}])
    by_xid = {}
    for r, req in enumerate(reqs):
      by_xid.setdefault(req["xid"], []).append(r)
    ev_kinds = sorted(set(EVENT_OF.values()))
    kind_type = {}
    for t, k in EVENT_OF.items():
      kind_type[k] = t

    halter = _Halter(case.get("halt"))

    def rec(level, kind):
      def h(e):
        if kind == "RawStatsReply":
          halt = halter.decide(level, "raw")
          c.log.append((level, kind, c.step, e.ofp.xid, None, halt))
          return halter.do(e) if halt else None
        t = kind_type[kind]
        parts = e.ofp if isinstance(e.ofp, list) else [e.ofp]
        xids = [p.xid for p in parts]
        if t in LIST_TYPES:
          tags = [_tag_of(t, x) for x in e.stats]
        elif t == "desc":
          tags = [e.stats.mfr_desc]
        else:
          tags = [(e.stats.packet_count, e.stats.byte_count, e.stats.flow_count)]
        halt = halter.decide(level, "agg")
        c.log.append((level, kind, c.step, xids, tags, halt))
        return halter.do(e) if halt else None
      return h

    for k in ev_kinds + ["RawStatsReply"]:
      c.w.nexus.addListenerByName(k, rec("nexus", k))
      c.con.addListenerByName(k, rec("con", k))

    # ---- play the stream
    sent = [0] * len(reqs)          # parts sent per request
    part_steps = [[] for _ in reqs]  # step at which each part was fed
    part_seq = []                    # (request, part index) in arrival order, statistics parts only
    raw_expected = {}                # step -> xid
    err_steps = []                   # (step, kind of request quoted) of the error messages in the stream
    for i, item in enumerate(stream):
      c.step = i
      if item[0] == "p":
        r = item[1] % len(reqs)
        j = sent[r]
        if j >= len(reqs[r]["parts"]):
          continue
        sent[r] += 1
        part_steps[r].append(i)
        part_seq.append((r, j))
        raw_expected[i] = reqs[r]["xid"]
        c.feed(_part_bytes(reqs[r], j))
      elif item[0] == "o":
        out.label("stats:other-message-in-stream")
        c.feed(_other_bytes(c, item[1]))
      elif item[0] == "e":
        name, data = _error_item(c, reqs, item)
        out.label("stats:error-quoting-a-" + name + "-in-stream")
        err_steps.append((i, name))
        c.feed(data)
      else:
        raise HarnessError("unknown stream item %r" % (item,))
    c.step = len(stream)
    for i, name in err_steps:
      if any(len(ps) > 1 and ps[0] < i < ps[-1] and sent[r] == len(reqs[r]["parts"]) for r, ps in enumerate(part_steps)):
        out.label("stats:error-for-another-request-between-the-parts-of-a-reply")
        if name.startswith("stats-request"):
          out.label("stats:another-stats-request-turned-down-between-the-parts-of-a-reply")
    for x, rs in by_xid.items():
      spans = sorted((part_steps[r][0], part_steps[r][-1]) for r in rs if part_steps[r])
      for a, b in zip(spans, spans[1:]):
        if b[0] <= a[1]:
          raise HarnessError("requests that share an xid must not overlap in the stream")
      if len(rs) > 1 and any(sent[r] not in (0, len(reqs[r]["parts"])) for r in rs):
        raise HarnessError("a request whose xid is reused must be complete (on the wire its successor would be its continuation)")

    once = c.once
    # ---- classify the requests
    info = []
    for r, req in enumerate(reqs):
      n = len(req["parts"])
      complete = sent[r] == n
      pos = [k for k, (rr, j) in enumerate(part_seq) if rr == r]
      contiguous = bool(pos) and pos == list(range(pos[0], pos[0] + len(pos)))
      info.append({"complete": complete, "contiguous": contiguous, "started": bool(pos),
                   "final_step": part_steps[r][-1] if complete else None,
                   "tags": [g for part in req["parts"] for g in part]})
    first_exc = min([s for s, e in c.excs], default=None)

    # a listener on the nexus that halts an event keeps it from being raised on the connection (that is
    # the documented effect, and the only one); what the connection level may then omit:
    raw_halted_on_nexus = set(step for lv, kind, step, _, _, halt in c.log if lv == "nexus" and kind == "RawStatsReply" and halt)
    agg_halted_on_nexus = set()
    for level in ("nexus", "con"):
      # ---- RawStatsReply: once per part, nothing else
      raws = {}
      for lv, kind, step, xid, _, _ in c.log:
        if lv == level and kind == "RawStatsReply":
          raws.setdefault(step, []).append(xid)
      for step in sorted(set(raws) | set(raw_expected)):
        got = raws.get(step, [])
        want = [raw_expected[step]] if step in raw_expected else []
        if level == "con" and step in raw_halted_on_nexus and got == []:
          continue
        if got != want:
          once.fail("raw-stats-reply", "stream item %d: RawStatsReply events on the %s for xids %r, expected %r" % (step, level, got, want), level=level)
      # ---- aggregated events
      fired = {}      # request -> list of (step, kind, tags)
      for lv, kind, step, xids, tags, halt in c.log:
        if lv != level or kind == "RawStatsReply":
          continue
        if len(set(xids)) != 1 or xids[0] not in by_xid:
          once.fail("merged", "%s on the %s is built from parts with xids %r" % (kind, level, xids), level=level, what="parts")
          continue
        # requests that reuse an xid are sequential: the owner is the one being received at that moment
        cands = [r for r in by_xid[xids[0]] if part_steps[r] and part_steps[r][0] <= step]
        if not cands:
          once.fail("merged", "%s on the %s for xid %#x before any part with that xid arrived" % (kind, level, xids[0]), level=level, what="time")
          continue
        r = max(cands, key=lambda q: part_steps[q][0])
        fired.setdefault(r, []).append((step, kind, tags))
        if level == "nexus" and halt:
          agg_halted_on_nexus.add(r)
      for r, req in enumerate(reqs):
        t = req["t"]
        inf = info[r]
        evs = fired.get(r, [])
        all_tags = _all_tags(req)
        ident = "request %d (%s, xid %#x, parts %r)" % (r, t, req["xid"], [len(p) for p in req["parts"]])
        if t in OPAQUE_TYPES:
          # no aggregated event exists for these; nothing may be raised in their name
          for step, kind, tags in evs:
            once.fail("wrong-event-type", "%s: raised %s on the %s" % (ident, kind, level), level=level, type="opaque")
          continue
        after_exc = first_exc is not None and inf["started"] and part_steps[r][-1] >= first_exc
        for step, kind, tags in evs:
          if kind != EVENT_OF[t]:
            once.fail("wrong-event-type", "%s: raised %s on the %s" % (ident, kind, level), level=level, type=t)
          foreign = [g for g in tags if g not in all_tags]
          if foreign:
            once.fail("merged", "%s: the event on the %s contains entries %r that belong to another request" % (ident, level, foreign), level=level, what="entries")
          elif len(set(map(repr, tags))) != len(tags) or [g for g in all_tags if g in tags] != tags:
            once.fail("entries-order", "%s: the event on the %s has entries %r, sent order is %r" % (ident, level, tags, all_tags), level=level, type=t)
          if not inf["complete"]:
            once.fail("fired-without-final-part", "%s: aggregated event on the %s although the final part never arrived" % (ident, level), level=level)
          elif step != inf["final_step"]:
            once.fail("fired-at-wrong-time", "%s: aggregated event on the %s while handling stream item %d, the final part is item %d" % (
                ident, level, step, inf["final_step"]), level=level, when="early" if step < inf["final_step"] else "late")
        if len(evs) > 1:
          once.fail("fired-more-than-once", "%s: %d aggregated events on the %s" % (ident, len(evs), level), level=level, type=t)
        if level == "con" and r in agg_halted_on_nexus and not evs:
          continue        # halted on the nexus: need not be raised on the connection
        if inf["complete"] and inf["contiguous"]:
          if after_exc and (not evs or evs[0][2] != all_tags):
            e = [x for s, x in c.excs if s == first_exc][0]
            k = exc_key(e, clause="aggregate-lost-by-handler-exception")
            if ("exc",) + tuple(sorted(k.items())) not in once.seen:
              once.seen.add(("exc",) + tuple(sorted(k.items())))
              out.violations.append({"key": k, "msg": "%s arrived contiguously but its aggregated event is %s on the %s: the stats handler raised %r at stream item %d (read() swallows it)" % (
                  ident, "missing" if not evs else "incomplete %r" % (evs[0][2],), level, e, first_exc)})
          elif not evs:
            once.fail("aggregate-missing", "%s arrived contiguously and completely but no aggregated event on the %s" % (ident, level), level=level, type=t)
          elif evs[0][2] != all_tags:
            once.fail("aggregate-incomplete", "%s: the event on the %s has entries %r, all parts together have %r" % (ident, level, evs[0][2], all_tags), level=level, type=t)
    # ---- a well-formed statistics reply (of whatever type) must not make its handler raise
    seen_exc = set()
    for s_, e in c.excs:
      k = exc_key(e, clause="stats-handler-raised")
      kk = tuple(sorted(k.items()))
      if kk not in seen_exc:
        seen_exc.add(kk)
        what = stream[s_] if 0 <= s_ < len(stream) else None
        out.violations.append({"key": k, "msg": "handling stream item %d %r the message handler raised %r (read() logs and swallows it)" % (s_, what, e)})
    # ---- labels
    nt = False
    for r, req in enumerate(reqs):
      inf = info[r]
      n = len(req["parts"])
      out.label("stats:type:" + req["t"])
      out.label("stats:parts:%s" % (n if n < 6 else "6+"))
      if n >= 3:
        nt = True
      if not inf["complete"]:
        out.label("stats:final-part-never-arrives")
      elif inf["contiguous"]:
        out.label("stats:contiguous")
      else:
        out.label("stats:interleaved-with-another-reply")
      if any(len(p) == 0 for p in req["parts"]):
        out.label("stats:empty-part")
      if req["t"] in OPAQUE_TYPES and sent[r]:
        out.label("stats:reply-of-a-type-without-aggregated-event")
        if n > 1:
          out.label("stats:multipart-reply-of-a-type-without-aggregated-event")
    if len(reqs) > 1:
      out.label("stats:several-requests")
    if any(len(rs) > 1 for rs in by_xid.values()):
      out.label("stats:xid-reused-by-a-later-request")
    if c.excs:
      out.label("stats:handler-exception")
    if raw_halted_on_nexus:
      out.label("stats:raw-event-halted-on-nexus")
      if any(info[r]["complete"] and part_steps[r][-1] in raw_halted_on_nexus for r in range(len(reqs))):
        out.label("stats:raw-event-of-final-part-halted-on-nexus")
    if agg_halted_on_nexus:
      out.label("stats:aggregated-event-halted-on-nexus")
    if any(halt for lv, _, _, _, _, halt in c.log if lv == "con"):
      out.label("stats:event-halted-on-connection")
    out.nontrivial = nt
  finally:
    c.close()


# =========================================================================== several connections at the same time

DPIDS = [0x2a, 0x2b, 0x2c]


def case_multi(case, out):
  """Several switches are connected to the controller at the same time.  Each has its own features reply, its own
  port-status notifications and (optionally) its own multipart statistics reply; the script interleaves them.  After
  every message EVERY live connection's port view is compared with ITS OWN reference (its features reply with its
  notifications applied), and every statistics event is attributed to the connection it names."""
  setup()
  w = _W.World()
  try:
    once = _Once(out)
    specs = case["cons"]
    n = len(specs)
    if not 1 <= n <= 4:
      raise HarnessError("1..4 connections")
    cons = [None] * n             # _Con
    refs = [pv.PortView() for _ in range(n)]
    state = ["new"] * n           # new -> handshaking -> up -> closed
    sent = [0] * n                # statistics parts sent
    part_steps = [[] for _ in range(n)]
    log = []                      # (level, owner index or None, kind, step, connection index named by the event, xids, tags)
    step = [0]
    names = list(NAMES)
    addrs = list(HWS)
    for spec in specs:
      for r in spec["feat"]:
        if r["name"] not in names:
          names.append(r["name"])
        if bytes(r["hw"]) not in addrs:
          addrs.append(bytes(r["hw"]))
    for op in case["script"]:
      recs = [op[3]] if op[0] == "ps" else (op[2] if op[0] == "feat" else [])
      for r in recs:
        if r["name"] not in names:
          names.append(r["name"])
        if bytes(r["hw"]) not in addrs:
          addrs.append(bytes(r["hw"]))
    ev_kinds = sorted(set(EVENT_OF.values()))
    kind_type = dict((k, t) for t, k in EVENT_OF.items())

    def index_of(con):
      for i, c in enumerate(cons):
        if c is not None and c.con is con:
          return i
      return None

    def rec(level, owner, kind):
      def h(e):
        who = index_of(e.connection)
        if kind == "RawStatsReply":
          log.append((level, owner, kind, step[0], who, [e.ofp.xid], None))
          return
        t = kind_type[kind]
        parts = e.ofp if isinstance(e.ofp, list) else [e.ofp]
        if t in LIST_TYPES:
          tags = [_tag_of(t, x) for x in e.stats]
        elif t == "desc":
          tags = [e.stats.mfr_desc]
        else:
          tags = [(e.stats.packet_count, e.stats.byte_count, e.stats.flow_count)]
        log.append((level, owner, kind, step[0], who, [p.xid for p in parts], tags))
      return h

    for k in ev_kinds + ["RawStatsReply"]:
      w.nexus.addListenerByName(k, rec("nexus", None, k))

    flags = set()

    def start(i):
      c = _Con(out, w=w, dpid=specs[i].get("dpid", DPIDS[i % len(DPIDS)]), once=once)
      cons[i] = c
      c.step = step[0]
      for k in ev_kinds + ["RawStatsReply"]:
        c.con.addListenerByName(k, rec("con", i, k))
      if any(refs[j]._deleted for j in range(n) if j != i and state[j] == "up"):
        flags.add("features-reply-while-another-connection-has-a-deleted-port")
      c.hs1(specs[i]["feat"])
      refs[i].features(specs[i]["feat"])
      state[i] = "handshaking"

    def finish(i):
      cons[i].hs2("error" if specs[i].get("finish") == "error" else "barrier")
      state[i] = "up"

    def ensure_up(i):
      if state[i] == "new":
        start(i)
      if state[i] == "handshaking":
        finish(i)

    def others_up(i):
      return [j for j in range(n) if j != i and state[j] == "up"]

    def probe_all(when, actor):
      for j in range(n):
        if state[j] != "up":
          continue
        scope = "receiving-connection" if j == actor else "bystander-connection"
        whenj = "(connection %d, dpid %#x; %s) %s" % (j, cons[j].dpid, scope, when)
        _probe(cons[j], cons[j].con.ports, refs[j].current, refs[j], "ports", whenj, names, addrs, {"scope": scope})
        _probe(cons[j], cons[j].con.original_ports, refs[j].original, refs[j], "original_ports", whenj, names, addrs, {"scope": scope})

    for s, op in enumerate(case["script"]):
      step[0] = s
      kind = op[0]
      i = op[1] % n
      if state[i] == "closed":
        out.label("multi:op-for-a-closed-connection-skipped")
        continue
      for c in cons:
        if c is not None:
          c.step = s
      if kind == "hs1":
        if state[i] == "new":
          start(i)
      elif kind == "hs2":
        ensure_up(i)
      elif kind == "ps":
        reason, r = op[2], op[3]
        if state[i] == "new":
          ensure_up(i)
        if state[i] == "handshaking":
          flags.add("notification-buffered-during-handshake")
        for j in others_up(i):
          if r["no"] in refs[j].current or r["no"] in refs[j].original:
            flags.add("%s-of-a-port-number-another-live-connection-has" % ("add", "delete", "modify")[reason])
          if r["no"] in refs[j]._deleted and r["no"] not in refs[j].current and reason != pv.OFPPR_DELETE:
            flags.add("add-of-a-port-number-another-live-connection-has-deleted")
        cons[i].feed(sb.port_status(0, reason, r))
        refs[i].status(reason, r)
      elif kind == "feat":
        ensure_up(i)
        if any(refs[j]._deleted for j in others_up(i)):
          flags.add("features-reply-while-another-connection-has-a-deleted-port")
        cons[i].feed(sb.features_reply(cons[i].next_xid(), cons[i].dpid, op[2]))
        refs[i].features(op[2])
      elif kind == "sp":
        req = specs[i].get("stats")
        if req is None or sent[i] >= len(req["parts"]):
          continue
        ensure_up(i)
        if any(0 < sent[j] < len(specs[j]["stats"]["parts"]) for j in others_up(i) if specs[j].get("stats")):
          flags.add("stats-part-while-another-connection's-reply-is-incomplete")
        j = sent[i]
        sent[i] += 1
        part_steps[i].append(s)
        cons[i].feed(_part_bytes(req, j))
      elif kind == "close":
        if state[i] == "new":
          continue
        if others_up(i):
          flags.add("connection-closed-while-others-live")
        cons[i].sock.eof = True
        if cons[i].con.read() is not False:
          raise HarnessError("read() at end of stream did not report the closure")
        cons[i].con.close()        # what the OpenFlow task does when read() returns False
        state[i] = "closed"
      else:
        raise HarnessError("unknown op %r" % (op,))
      probe_all("after script item %d %r" % (s, _show_mop(op)), i)
    step[0] = len(case["script"])

    # ---- statistics: every connection's reply is assembled on its own
    for level in ("nexus", "con"):
      for i in range(n):
        req = specs[i].get("stats")
        if cons[i] is None:
          continue
        mine = [x for x in log if x[0] == level and (x[4] == i if level == "nexus" else x[1] == i)]
        if level == "con":
          for x in mine:
            if x[4] != i:
              once.fail("event-names-another-connection", "%s raised on connection %d names connection %r" % (x[2], i, x[4]), level=level)
        raws = sorted(x[3] for x in mine if x[2] == "RawStatsReply")
        if raws != part_steps[i]:
          once.fail("raw-stats-reply", "connection %d: RawStatsReply on the %s at script items %r, its parts arrived at %r" % (i, level, raws, part_steps[i]), level=level, scope="several-connections")
        evs = [x for x in mine if x[2] != "RawStatsReply"]
        if req is None:
          if evs:
            once.fail("merged", "connection %d never received a statistics reply but %s was raised for it on the %s" % (i, evs[0][2], level), level=level, what="connection")
          continue
        t = req["t"]
        all_tags = _all_tags(req)
        complete = sent[i] == len(req["parts"])
        ident = "connection %d (%s, xid %#x, parts %r, %d sent)" % (i, t, req["xid"], [len(p) for p in req["parts"]], sent[i])
        for x in evs:
          _, _, kind, at, _, xids, tags = x
          if kind != EVENT_OF.get(t):
            once.fail("wrong-event-type", "%s: raised %s on the %s" % (ident, kind, level), level=level, type=t if t in EVENT_OF else "opaque")
            continue
          foreign = [g for g in tags if g not in all_tags]
          if foreign:
            once.fail("merged", "%s: the event on the %s contains entries %r of another connection's reply" % (ident, level, foreign), level=level, what="connection")
          elif not complete:
            once.fail("fired-without-final-part", "%s: aggregated event on the %s although the final part never arrived" % (ident, level), level=level)
          elif at != part_steps[i][-1]:
            once.fail("fired-at-wrong-time", "%s: aggregated event on the %s at script item %d, the final part is item %d" % (ident, level, at, part_steps[i][-1]),
                      level=level, when="early" if at < part_steps[i][-1] else "late")
          elif tags != all_tags:
            once.fail("aggregate-incomplete", "%s: the event on the %s has entries %r, all parts together have %r" % (ident, level, tags, all_tags), level=level, type=t)
        if len(evs) > 1:
          once.fail("fired-more-than-once", "%s: %d aggregated events on the %s" % (ident, len(evs), level), level=level, type=t)
        if complete and not evs and t in EVENT_OF:
          once.fail("aggregate-missing", "%s: all parts arrived (no other reply on this connection) but no aggregated event on the %s" % (ident, level), level=level, type=t)
      if level == "nexus":
        for x in log:
          if x[0] == "nexus" and x[4] is None:
            once.fail("event-names-another-connection", "%s on the nexus names a connection that is none of the %d" % (x[2], n), level=level)
    excs = [(c.excs[0][0], k, c.excs[0][1]) for k, c in enumerate(cons) if c is not None and c.excs]
    if excs:
      at, k, e = min(excs, key=lambda x: x[:2])
      op = case["script"][at] if 0 <= at < len(case["script"]) else ["?", k]
      clause = "stats-handler-raised" if op[0] == "sp" else "port-handler-raised"
      out.violations.append({"key": exc_key(e, clause=clause), "msg": "connection %d: handling script item %d %s the message handler raised %r (read() logs and swallows it)" % (k, at, _show_mop(op), e)})

    # ---- labels
    started = sum(1 for c in cons if c is not None)
    out.label("multi:connections:%d" % started)
    for f in sorted(flags):
      out.label("multi:" + f)
    dp = [c.dpid for c in cons if c is not None]
    if len(set(dp)) < len(dp):
      out.label("multi:two-connections-with-the-same-dpid")
    st_x = [specs[i]["stats"]["xid"] for i in range(n) if specs[i].get("stats") and sent[i]]
    if len(st_x) > 1:
      out.label("multi:stats-on-several-connections")
      if len(set(st_x)) < len(st_x):
        out.label("multi:same-stats-xid-on-two-connections")
    for i in range(n):
      for flag, label in ((refs[i].renamed, "ports:rename"), (refs[i].readded, "ports:delete-then-re-add"), (refs[i].hw_changed, "ports:hw-address-change")):
        if flag:
          out.label(label)
    out.nontrivial = bool(flags - set(["notification-buffered-during-handshake"]))
  finally:
    w.close()


def _show_mop(op):
  if op[0] == "ps":
    return "con %d %s" % (op[1], _show_op(["ps", op[2], op[3]]))
  if op[0] == "feat":
    return "con %d %s" % (op[1], _show_op(["feat", op[2]]))
  return "con %d %s" % (op[1], {"hs1": "hello + features reply", "hs2": "handshake finished", "sp": "next statistics part",
                                   "close": "stream closed by the switch"}.get(op[0], op[0]))


# =========================================================================== dispatch

def run_case(case):
  out = Outcome()
  out.label("kind:" + case["k"])
  if case["k"] == "ports":
    case_ports(case, out)
  elif case["k"] == "stats":
    case_stats(case, out)
  elif case["k"] == "multi":
    case_multi(case, out)
  else:
    raise HarnessError("unknown case kind %r" % (case["k"],))
  return out


# =========================================================================== enumerations

def _rec(no, name=None, hw=None, **kw):
  r = {"no": no, "hw": hw if hw is not None else HWS[PORT_NOS.index(no)], "name": name if name is not None else ("eth%d" % no if no < 0xff00 else "br0")}
  r.update(kw)
  return r


def _alphabet(ports):
  a = []
  for n in ports:
    a.append(["ps", pv.OFPPR_ADD, _rec(n)])
    a.append(["ps", pv.OFPPR_ADD, _rec(n, name="new%d" % n)])
    a.append(["ps", pv.OFPPR_MODIFY, _rec(n, config=1)])
    a.append(["ps", pv.OFPPR_MODIFY, _rec(n, name="new%d" % n)])
    a.append(["ps", pv.OFPPR_MODIFY, _rec(n, hw=HWS[5 + PORT_NOS.index(n)])])
    a.append(["ps", pv.OFPPR_DELETE, _rec(n)])
  return a


def enum_ports(tier):
  alpha = _alphabet([1, 2])
  subsets = [[], [1], [2], [1, 2]]
  maxlen = 3 if tier == "quick" else 4
  for init in subsets:
    feat = [_rec(n) for n in init]
    for L in range(maxlen + 1):
      for seq in itertools.product(alpha, repeat=L):
        yield {"k": "ports", "feat": feat, "early": 0, "ops": [list(s) for s in seq]}
  if tier != "quick":
    feat = [_rec(1), _rec(2)]
    for seq in itertools.product(alpha, repeat=5):
      yield {"k": "ports", "feat": feat, "early": 0, "ops": [list(s) for s in seq]}
  # notifications buffered during the handshake, for both ways a handshake can finish (barrier reply, or the
  # BAD_REQUEST/BAD_TYPE error of a switch without barriers): all sequences of <= 2, and of 3 on one port
  # (includes add-then-delete and delete-then-re-add of the same port), all early; and one more afterwards
  alpha1 = _alphabet([1])
  for init in subsets:
    feat = [_rec(n) for n in init]
    for finish in ("barrier", "error"):
      seqs = [()] + [(a,) for a in alpha] + list(itertools.product(alpha, repeat=2)) + list(itertools.product(alpha1, repeat=3))
      for seq in seqs:
        yield {"k": "ports", "feat": feat, "early": len(seq), "finish": finish, "ops": [list(x) for x in seq]}
      for seq in itertools.product(alpha, repeat=2):
        yield {"k": "ports", "feat": feat, "early": 1, "finish": finish, "ops": [list(x) for x in seq]}
  # notifications that arrive BEFORE the features reply (they must not show: the reply supersedes them), and a second
  # features reply during the handshake with notifications on both sides of it
  for init in subsets:
    feat = [_rec(n) for n in init]
    for finish in ("barrier", "error"):
      for pre in [(a,) for a in alpha] + list(itertools.product(alpha1, repeat=2)):
        for seq in [()] + [(a,) for a in alpha1]:
          yield {"k": "ports", "feat": feat, "pre": [list(x) for x in pre], "early": len(seq), "finish": finish, "ops": [list(x) for x in seq]}
    for feat2 in subsets:
      for seq in itertools.product(alpha, repeat=2):
        for j in (0, 1, 2):
          yield {"k": "ports", "feat": feat, "early": 2, "again": [j, [_rec(n) for n in feat2]], "ops": [list(x) for x in seq]}
  # listeners halting PortStatus / FeaturesReceived on the nexus and/or the connection
  for init in subsets:
    feat = [_rec(n) for n in init]
    for seq in itertools.product(alpha, repeat=2):
      for halt in ({"nexus:ps": [1]}, {"con:ps": [1]}, {"nexus:ps": [1, 0], "style": 1}, {"nexus:ps": [0, 1], "nexus:feat": [1], "style": 2}):
        for early in (0, 1):
          yield {"k": "ports", "feat": feat, "early": early, "ops": [list(s) for s in seq], "halt": halt}
  # notifications that arrive during the handshake, and a second features reply at every position
  for init in subsets:
    feat = [_rec(n) for n in init]
    for seq in itertools.product(alpha, repeat=2):
      for early in (1, 2):
        yield {"k": "ports", "feat": feat, "early": early, "ops": [list(s) for s in seq]}
      for pos in range(3):
        for feat2 in subsets:
          ops = [list(s) for s in seq]
          ops.insert(pos, ["feat", [_rec(n) for n in feat2]])
          yield {"k": "ports", "feat": feat, "early": 0, "ops": ops}


# ---- several connections

def _alphabet_of(ci, ports):
  """the 6 notification shapes per port for connection ci; connection 1's ports have the same NUMBERS as connection
  0's but other names and addresses, so that anything that leaks from one view into the other shows"""
  if ci % 2 == 0:
    return [["ps", ci, a[1], a[2]] for a in _alphabet(ports)]
  a = []
  for n in ports:
    base = dict(name="eth%d" % (n + 2), hw=HWS[n + 1])
    a.append(["ps", ci, pv.OFPPR_ADD, _rec(n, **base)])
    a.append(["ps", ci, pv.OFPPR_ADD, _rec(n, name=("foo", "bar")[n % 2], hw=base["hw"])])
    a.append(["ps", ci, pv.OFPPR_MODIFY, _rec(n, config=1, **base)])
    a.append(["ps", ci, pv.OFPPR_MODIFY, _rec(n, name=("foo", "bar")[n % 2], hw=base["hw"])])
    a.append(["ps", ci, pv.OFPPR_MODIFY, _rec(n, name=base["name"], hw=HWS[7] if n == 1 else HWS[4])])
    a.append(["ps", ci, pv.OFPPR_DELETE, _rec(n, **base)])
  return a


def _feat_of(ci, nos):
  if ci % 2 == 0:
    return [_rec(n) for n in nos]
  return [_rec(n, name="eth%d" % (n + 2), hw=HWS[n + 1]) for n in nos]


def enum_multi(tier):
  alpha = _alphabet_of(0, [1, 2]) + _alphabet_of(1, [1, 2])
  inits = [([1, 2], [1, 2]), ([1, 2], [1]), ([1, 2], []), ([1], [1, 2])]
  maxlen = 2 if tier == "quick" else 3
  # (a) connection 0 is up; connection 1's handshake starts before item a and finishes before item b of every
  #     sequence of <= 2 notifications for either connection (notifications for connection 1 before its features
  #     reply make it connect first; those between a and b are buffered by its handshake)
  for ia, ib in inits:
    full = (ia, ib) == ([1, 2], [1, 2])
    for finish in ("barrier", "error") if tier != "quick" else ("barrier",):
      cons = [{"dpid": DPIDS[0], "feat": _feat_of(0, ia)}, {"dpid": DPIDS[1], "feat": _feat_of(1, ib), "finish": finish}]
      for L in range(maxlen + 1):
        if L == 3 and not (full and finish == "barrier"):
          continue
        for seq in itertools.product(alpha, repeat=L):
          for a in range(L + 1):
            for b in range(a, L + 1):
              # every placement from the full initial sets (quick: sequences of 2; thorough: of 3 with connection 1's
              # handshake in one piece); from the others: up before everything, or started after the first item
              # and finished at the end
              if L == 3 and a != b:
                continue
              if not full and tier == "quick" and (a, b) not in ((0, 0), (min(1, L), L)):
                continue
              script = [["hs2", 0]]
              for k in range(L + 1):
                if k == a:
                  script.append(["hs1", 1])
                if k == b:
                  script.append(["hs2", 1])
                if k < L:
                  script.append(list(seq[k]))
              yield {"k": "multi", "cons": cons, "script": script}
  # (b) both up; one notification, then another features reply on either connection
  subsets = [[], [1], [2], [1, 2]]
  for ia, ib in inits[:2] if tier == "quick" else inits:
    cons = [{"dpid": DPIDS[0], "feat": _feat_of(0, ia)}, {"dpid": DPIDS[1], "feat": _feat_of(1, ib)}]
    for op in alpha:
      for ci in (0, 1):
        for f2 in subsets:
          for tail in ([], [alpha[5]], [alpha[12]]):      # nothing / delete port 1 on connection 0 / add port 1 on connection 1
            yield {"k": "multi", "cons": cons, "script": [["hs2", 0], ["hs2", 1], list(op), ["feat", ci, _feat_of(ci, f2)]] + [list(x) for x in tail]}
  # (c) both up; a notification, one switch closes its stream, another notification
  cons = [{"dpid": DPIDS[0], "feat": _feat_of(0, [1, 2])}, {"dpid": DPIDS[1], "feat": _feat_of(1, [1, 2])}]
  for op in alpha:
    for ci in (0, 1):
      for op2 in [None] + alpha:
        yield {"k": "multi", "cons": cons, "script": [["hs2", 0], ["hs2", 1], list(op), ["close", ci]] + ([list(op2)] if op2 else [])}
  # (d) a third switch (same port numbers) connects after two notifications on the first two
  cons3 = cons + [{"dpid": DPIDS[2], "feat": _feat_of(0, [2]) + [_rec(3)]}]
  for seq in itertools.product(alpha, repeat=2):
    yield {"k": "multi", "cons": cons3, "script": [["hs2", 0], ["hs2", 1], list(seq[0]), list(seq[1]), ["hs2", 2]]}
  # (e) statistics: every merge of a 3-part reply on connection 0 with a 2-part reply on connection 1 (same or other
  #     type, same or other xid), also with the final part of either missing
  one = [{"no": 1, "hw": HWS[0], "name": "eth1"}]
  for t in ("flow", "table", "port", "queue"):
    for t2, xid2 in ((t, 0x31), (t, 0x32), ("port" if t != "port" else "queue", 0x31), ("desc", 0x31)):
      parts2 = [[41], [42, 43]] if t2 in LIST_TYPES else [[41]]
      cons = [{"dpid": DPIDS[0], "feat": one, "stats": {"t": t, "xid": 0x31, "parts": [[1, 2], [3], [4, 5]]}},
              {"dpid": DPIDS[1], "feat": one, "stats": {"t": t2, "xid": xid2, "parts": parts2}}]
      total = 3 + len(parts2)
      for pos in itertools.combinations(range(total), len(parts2)):
        stream = [["sp", 1] if i in pos else ["sp", 0] for i in range(total)]
        yield {"k": "multi", "cons": cons, "script": stream}
        yield {"k": "multi", "cons": cons, "script": stream[:-1]}
        yield {"k": "multi", "cons": cons, "script": stream + [list(alpha[5]), list(alpha[17])]}


def _weak_compositions(n, k):
  """all ways to write n as an ordered sum of k non-negative integers"""
  if k == 1:
    yield [n]
    return
  for first in range(n + 1):
    for rest in _weak_compositions(n - first, k - 1):
      yield [first] + rest


def _parts_from_sizes(sizes, first_tag):
  parts = []
  g = first_tag
  for s in sizes:
    parts.append(list(range(g, g + s)))
    g += s
  return parts


def enum_stats(tier):
  # (a) every weak composition of 6 entries into 1..6 parts, each multipart type
  for t in ("flow", "table", "port", "queue"):
    for k in range(1, 7):
      for sizes in _weak_compositions(6, k):
        req = {"t": t, "xid": 0x21, "parts": _parts_from_sizes(sizes, 1)}
        yield {"k": "stats", "reqs": [req], "stream": [["p", 0]] * k}
  # (b) a second request's reply before / between / after the parts; other messages in the gaps
  seconds = lambda t: [("same", t, [[41, 42]]), ("other", "port" if t != "port" else "queue", [[41]]), ("desc", "desc", [[41]]), ("agg", "agg", [[41]])]
  for t in ("flow", "table", "port", "queue"):
    for k in range(1, 7):
      for sizes in _weak_compositions(6 - k, k):
        sizes = [s + 1 for s in sizes]           # strict composition
        req = {"t": t, "xid": 0x21, "parts": _parts_from_sizes(sizes, 1)}
        for _, t2, parts2 in seconds(t):
          req2 = {"t": t2, "xid": 0x22, "parts": parts2}
          for gap in range(k + 1):
            for others in (False, True):
              stream = []
              for j in range(k + 1):
                if others:
                  stream.append(["o", j])
                if j == gap:
                  stream.append(["p", 1])
                  if others:
                    stream.append(["o", j + 2])
                if j < k:
                  stream.append(["p", 0])
              yield {"k": "stats", "reqs": [req, req2], "stream": stream}
  # (a0) edge xids: 0 (a request sent with xid 0), 1, 2^31, 2^32-1 -- every strict composition of 4 entries
  for t in ("flow", "table", "port", "queue"):
    for xid in (0, 1, 0x80000000, 0xffffffff):
      for k in range(1, 5):
        for sizes in _weak_compositions(4 - k, k):
          req = {"t": t, "xid": xid, "parts": _parts_from_sizes([x + 1 for x in sizes], 1)}
          yield {"k": "stats", "reqs": [req], "stream": [["p", 0]] * k}
          req2 = {"t": "port" if t != "port" else "queue", "xid": 0 if xid else 7, "parts": [[41], [42]]}
          yield {"k": "stats", "reqs": [req, req2], "stream": [["p", 0]] * k + [["p", 1]] * 2}
  # (a') listeners that halt: every subset of the raw events of a 4-part reply halted on the nexus / on the
  #      connection, the aggregated event halted on the nexus / connection, each way of halting
  for t in ("flow", "table", "port", "queue"):
    for sizes in ([1, 2, 1, 2], [2, 0, 1, 0]):
      req = {"t": t, "xid": 0x21, "parts": _parts_from_sizes(sizes, 1)}
      for mask in range(16):
        pat = [(mask >> i) & 1 for i in range(4)]
        for lvl in ("nexus", "con"):
          for agg in ({}, {"nexus:agg": [1]}, {"con:agg": [1]}):
            for style in (0, 1, 2):
              if style and mask not in (1, 8, 15):
                continue
              halt = {lvl + ":raw": pat, "style": style}
              halt.update(agg)
              yield {"k": "stats", "reqs": [req], "stream": [["p", 0]] * 4, "halt": halt}
  for t, parts in (("desc", [[7]]), ("agg", [[7]])):
    for halt in ({"nexus:raw": [1]}, {"nexus:agg": [1]}, {"con:raw": [1], "con:agg": [1]}, {"nexus:raw": [1], "nexus:agg": [1], "style": 1}):
      yield {"k": "stats", "reqs": [{"t": t, "xid": 0x21, "parts": parts}], "stream": [["p", 0]], "halt": halt}
  # (b') a later request reuses the xid (and type) of a finished one
  for t in ("flow", "table", "port", "queue"):
    for sizes in ([2], [1, 1], [0, 2, 0], [1, 2, 3]):
      for sizes2 in ([1], [1, 1], [0]):
        a = {"t": t, "xid": 0x21, "parts": _parts_from_sizes(sizes, 1)}
        b = {"t": t, "xid": 0x21, "parts": _parts_from_sizes(sizes2, 41)}
        for gap_other in (False, True):
          stream = [["p", 0]] * len(sizes) + ([["o", 0]] if gap_other else []) + [["p", 1]] * len(sizes2)
          yield {"k": "stats", "reqs": [a, b], "stream": stream}
  # (d) replies of a type that has no aggregated event (vendor, undefined types), 1..3 parts, alone and before / between /
  #     after the parts of a judged reply: the judged reply still aggregates when it is contiguous, no handler raises
  for ot in sorted(OPAQUE_TYPES):
    for k in (1, 2, 3):
      o = {"t": ot, "xid": 0x51, "parts": [[90 + j] for j in range(k)]}
      yield {"k": "stats", "reqs": [o], "stream": [["p", 0]] * k}
      yield {"k": "stats", "reqs": [o], "stream": [["p", 0]] * (k - 1)}
      for t in ("flow", "table", "port", "queue"):
        a = {"t": t, "xid": 0x21, "parts": [[1, 2], [3]]}
        b = {"t": t, "xid": 0x22, "parts": [[4], [5, 6]]}
        for gap in range(3):
          stream = [["p", 0]] * 2
          stream[gap:gap] = [["p", 1]] * k
          yield {"k": "stats", "reqs": [a, o, b], "stream": stream + [["p", 2]] * 2}
        # the opaque reply is never finished; a judged one follows
        yield {"k": "stats", "reqs": [a, o, b], "stream": [["p", 0]] * 2 + [["p", 1]] * (k - 1) + [["p", 2]] * 2}
  # (e) the switch turns down another request of the controller (error message quoting it) before / between / after the
  #     parts: every strict composition of 4 entries x every gap x every kind of quoted request x fresh / neighbouring xid,
  #     and the shorter quotations with a fresh xid
  for t in ("flow", "table", "port", "queue"):
    for k in range(1, 5):
      for sizes in _weak_compositions(4 - k, k):
        req = {"t": t, "xid": 0x21, "parts": _parts_from_sizes([x + 1 for x in sizes], 1)}
        for gap in range(k + 1):
          for q in range(len(QUOTED)):
            for x, n in ((0, 0), (1, 0), (0, 1), (0, 2)):
              stream = [["p", 0]] * k
              stream.insert(gap, ["e", q, x, n])
              yield {"k": "stats", "reqs": [req], "stream": stream}
  # (c) two multipart replies, every merge of 3 + 2 parts, and a reply whose final part never arrives
  for t, t2 in (("flow", "flow"), ("flow", "port"), ("table", "queue")):
    a = {"t": t, "xid": 0x31, "parts": [[1, 2], [3], [4, 5]]}
    b = {"t": t2, "xid": 0x32, "parts": [[41], [42, 43]]}
    for pos in itertools.combinations(range(5), 2):
      stream = [["p", 1] if i in pos else ["p", 0] for i in range(5)]
      yield {"k": "stats", "reqs": [a, b], "stream": stream}
      yield {"k": "stats", "reqs": [a, b], "stream": stream[:-1]}


# =========================================================================== Hypothesis

@st.composite
def _s_halt(draw, classes):
  """listener behaviour: mostly none; otherwise halting patterns per (level, event class)"""
  if draw(st.integers(0, 2)) == 0:
    return {}
  h = {"style": draw(st.integers(0, 2))}
  for lvl in ("nexus", "con"):
    for cls in classes:
      g = draw(st.integers(0, 3 if lvl == "nexus" else 7))
      if g == 0:
        h["%s:%s" % (lvl, cls)] = [1]
      elif g == 1:
        h["%s:%s" % (lvl, cls)] = draw(st.lists(st.integers(0, 1), min_size=1, max_size=6))
  return h


@st.composite
def _s_rec(draw, nos=PORT_NOS):
  no = draw(st.sampled_from(nos))
  i = PORT_NOS.index(no)
  name = draw(st.one_of(st.just("eth%d" % no if no < 0xff00 else "br0"), st.sampled_from(NAMES)))
  hw = draw(st.one_of(st.just(HWS[i]), st.sampled_from(HWS)))
  r = {"no": no, "hw": hw, "name": name}
  if draw(st.booleans()):
    r["config"] = draw(st.sampled_from([0, 1, 0x40]))
    r["state"] = draw(st.sampled_from([0, 1, 0x200]))
  return r


@st.composite
def _s_ports(draw, tier):
  nos = draw(st.lists(st.sampled_from(PORT_NOS), unique=True, max_size=4))
  feat = [draw(_s_rec([n])) for n in nos]
  ops = []
  for _ in range(draw(st.integers(0, 12))):
    g = draw(st.integers(0, 19))
    if g == 0:
      nos2 = draw(st.lists(st.sampled_from(PORT_NOS), unique=True, max_size=4))
      ops.append(["feat", [draw(_s_rec([n])) for n in nos2]])
    else:
      ops.append(["ps", draw(st.sampled_from([0, 1, 2, 2])), draw(_s_rec())])
  early = draw(st.sampled_from([0, 0, 0, 1, 2, 3]))
  case = {"k": "ports", "feat": feat, "early": early, "finish": draw(st.sampled_from(["barrier", "error"])),
          "ops": ops, "halt": draw(_s_halt(["ps", "feat"]))}
  if draw(st.integers(0, 3)) == 0:
    case["pre"] = [["ps", draw(st.sampled_from([0, 1, 2])), draw(_s_rec())] for _ in range(draw(st.integers(1, 3)))]
  if draw(st.integers(0, 5)) == 0:
    nos2 = draw(st.lists(st.sampled_from(PORT_NOS), unique=True, max_size=4))
    case["again"] = [draw(st.integers(0, 3)), [draw(_s_rec([n])) for n in nos2]]
  return case


@st.composite
def _s_stats(draw, tier):
  n = draw(st.sampled_from([1, 1, 2, 2, 3]))
  reqs = []
  tag = 1
  for r in range(n):
    t = draw(st.sampled_from(["flow", "flow", "flow", "table", "table", "port", "port", "queue", "queue", "desc", "agg", "desc", "agg"] + sorted(OPAQUE_TYPES)))
    if t in LIST_TYPES:
      k = draw(st.integers(1, 6))
      sizes = [draw(st.sampled_from([0, 1, 1, 2, 3])) for _ in range(k)]
      while sum(sizes) > 12:
        sizes[sizes.index(max(sizes))] -= 1
      parts = _parts_from_sizes(sizes, tag)
      tag += sum(sizes)
    elif t in OPAQUE_TYPES:
      k = draw(st.sampled_from([1, 1, 2, 3]))
      parts = _parts_from_sizes([1] * k, tag)
      tag += k
    else:
      parts = [[tag]]
      tag += 1
    reqs.append({"t": t, "xid": 0x40 + r, "parts": parts})
  if draw(st.integers(0, 3)) == 0:
    # edge xids (distinct per request)
    edge = draw(st.permutations([0, 1, 0x7fffffff, 0x80000000, 0xffffffff]))
    for r, req in enumerate(reqs):
      req["xid"] = edge[r]
  mode = draw(st.integers(0, 3))
  reuse = False
  if n > 1 and reqs[0]["t"] in LIST_TYPES and draw(st.integers(0, 5)) == 0:
    # a later request reuses xid and type of an earlier one (never while that one is outstanding)
    for req in reqs[1:]:
      if req["t"] in LIST_TYPES:
        req["t"] = reqs[0]["t"]
        req["xid"] = reqs[0]["xid"]
    mode = 0
    reuse = True
  seqs = [[["p", r]] * len(req["parts"]) for r, req in enumerate(reqs)]
  stream = []
  if mode <= 1 or n == 1:
    order = draw(st.permutations(list(range(n))))
    for r in order:
      stream.extend(seqs[r])
  else:
    left = [len(s) for s in seqs]
    picks = draw(st.lists(st.integers(0, n - 1), min_size=sum(left), max_size=sum(left)))
    for p in picks:
      for d in range(n):
        r = (p + d) % n
        if left[r]:
          left[r] -= 1
          stream.append(["p", r])
          break
  if not reuse and draw(st.integers(0, 7)) == 0 and stream:
    # the final part of some request never arrives: drop the last part item of one request
    r = draw(st.integers(0, n - 1))
    idx = [i for i, it in enumerate(stream) if it[1] == r]
    if idx:
      del stream[idx[-1]]
  n_other = draw(st.integers(0, 4))
  for _ in range(n_other):
    stream.insert(draw(st.integers(0, len(stream))), ["o", draw(st.integers(0, 4))])
  # the switch turns down other requests of the controller: error messages that quote them
  for _ in range(draw(st.sampled_from([0, 0, 1, 1, 2]))):
    stream.insert(draw(st.integers(0, len(stream))), ["e", draw(st.integers(0, len(QUOTED) - 1)), draw(st.integers(0, 1)), draw(st.sampled_from([0, 0, 1, 2]))])
  return {"k": "stats", "reqs": reqs, "stream": stream, "halt": draw(_s_halt(["raw", "agg"]))}


@st.composite
def _s_multi(draw, tier):
  """2..3 switches connected at the same time: each its own features reply (the same small pool of port numbers, names
  and addresses, so numbers and attributes collide across connections), an optional multipart statistics reply, and a
  script of <= 16 items that interleaves handshakes, notifications, further features replies, statistics parts and
  stream closures of all of them"""
  n = draw(st.sampled_from([2, 2, 2, 3]))
  same_dpid = draw(st.integers(0, 7)) == 0
  cons = []
  tag = 1
  for i in range(n):
    nos = draw(st.lists(st.sampled_from(PORT_NOS), unique=True, max_size=4))
    spec = {"dpid": DPIDS[0] if (same_dpid and i < 2) else DPIDS[i], "feat": [draw(_s_rec([x])) for x in nos],
            "finish": draw(st.sampled_from(["barrier", "barrier", "error"]))}
    if draw(st.integers(0, 3)) != 0:
      t = draw(st.sampled_from(["flow", "flow", "table", "port", "queue", "desc", "agg", "vendor"]))
      if t in LIST_TYPES:
        sizes = [draw(st.sampled_from([0, 1, 1, 2])) for _ in range(draw(st.sampled_from([1, 2, 2, 3, 3, 4])))]
        parts = _parts_from_sizes(sizes, tag)
        tag += sum(sizes)
      elif t in OPAQUE_TYPES:
        k = draw(st.sampled_from([1, 2]))
        parts = _parts_from_sizes([1] * k, tag)
        tag += k
      else:
        parts = [[tag]]
        tag += 1
      spec["stats"] = {"t": t, "xid": draw(st.sampled_from([0x40, 0x40, 0x41, 0])), "parts": parts}
    cons.append(spec)
  # mostly all switches are connected before anything else happens; otherwise some connect in the course of the script
  script = [["hs2", i] for i in range(draw(st.sampled_from([n, n, n, 1, 0])))]
  closed = False
  for _ in range(draw(st.integers(2, 14))):
    g = draw(st.integers(0, 39))
    ci = draw(st.integers(0, n - 1))
    if g < 22:
      script.append(["ps", ci, draw(st.sampled_from([0, 1, 1, 2])), draw(_s_rec())])
    elif g < 30:
      script.append(["sp", ci])
    elif g == 30 and not closed:     # (Hypothesis favours the ends of an integer range: the rare item sits inside)
      closed = True                  # at most one switch goes away
      script.append(["close", ci])
    elif g < 33:
      script.append(["hs2", ci])
    elif g < 35:
      script.append(["hs1", ci])
      if draw(st.booleans()):        # a notification that the handshake has to buffer (when ci was not connected yet)
        script.append(["ps", ci, draw(st.sampled_from([0, 1, 2])), draw(_s_rec())])
    else:
      nos2 = draw(st.lists(st.sampled_from(PORT_NOS), unique=True, max_size=4))
      script.append(["feat", ci, [draw(_s_rec([x])) for x in nos2]])
  return {"k": "multi", "cons": cons, "script": script}


def plan(tier):
  if tier == "quick":
    return [
      Enum("port-status-sequences", lambda: enum_ports(tier), shards=16),
      Enum("stats-partitions", lambda: enum_stats(tier), shards=8),
      Hyp("port-histories", lambda: _s_ports(tier), examples=1500, shards=8),
      Hyp("stats-streams", lambda: _s_stats(tier), examples=2500, shards=8),
      Enum("several-connections", lambda: enum_multi(tier), shards=16),
      Hyp("several-connections-histories", lambda: _s_multi(tier), examples=1500, shards=8),
    ]
  return [
    Enum("port-status-sequences", lambda: enum_ports(tier), shards=16),
    Enum("stats-partitions", lambda: enum_stats(tier), shards=16),
    Hyp("port-histories", lambda: _s_ports(tier), examples=120000, shards=16),
    Hyp("stats-streams", lambda: _s_stats(tier), examples=250000, shards=16),
    Enum("several-connections", lambda: enum_multi(tier), shards=16),
    Hyp("several-connections-histories", lambda: _s_multi(tier), examples=20000, shards=16),
  ]
