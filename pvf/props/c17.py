"""C17 -- the controller's picture of switch ports and multipart statistics is exact.

A handshaken of_01.Connection on a fake socket is fed bytes built by pvf.ref.swbytes (struct only).
Ports: a features reply, then port-status notifications (and possibly another features reply); after
every message the whole mapping API of con.ports and con.original_ports is compared with
pvf.ref.portview.  Statistics: replies split into parts with the MORE flag, interleaved with other
messages and other requests' replies; the aggregated events and RawStatsReply raised on the nexus and
on the connection are compared with what the property statement prescribes.
"""
import itertools

from hypothesis import strategies as st

from ..runner import Outcome, Enum, Hyp, HarnessError, exc_key
from ..ref import swbytes as sb
from ..ref import portview as pv

ID = "C17"
LEVEL = "exploration"
TECHNIQUE = ("model-based testing against a reference port view and a reference multipart assembler: exhaustive short "
             "port-status sequences and exhaustive partitions of a stats body, plus Hypothesis histories, byte-level input")
LEVEL_TEXT = ("Exploration: all port-status sequences up to length 3 (thorough: 4, and 5 on the full port set) over 2 ports and "
              "6 notification shapes from every initial port set, all weak compositions of a 6-entry body into <= 6 parts for "
              "each multipart-capable type, every placement of a second request's reply around/between the parts, and "
              "Hypothesis histories (<= 12 notifications over 5 port numbers, <= 3 requests of <= 6 parts) are fed as bytes into "
              "a handshaken Connection; after every message the complete mapping API of con.ports / con.original_ports is "
              "compared with an independent reference view and every statistics event with an independent reassembly rule. "
              "Bounded search plus sampling, no proof.")
LEVEL_NOTE = ("trusts the independent encoder pvf.ref.swbytes; field-level decoding is C01's subject and only the fields that "
              "identify an entry are compared; TCP segmentation is C02's subject, each message is delivered by one read()")
RULE = ("a case is either (features reply with 0..4 ports, k notifications delivered before the handshake is finished by the barrier reply or by the barrier-unsupported error, then "
        "<= 12 port-status / features messages) or (<= 3 statistics requests, each a list of parts, and a stream that merges "
        "the parts with other messages), each optionally with listeners that halt events on the nexus / the connection; non-trivial when a deleted port is re-added, a port is renamed or changes hardware "
        "address, or a reply has >= 3 parts; distinct by SHA-1 of the canonical JSON of the case")
ASSUMPTIONS = [
  "OFPPR_ADD and OFPPR_MODIFY both carry the complete new description of the port and set view[port_no]; OFPPR_DELETE of an unknown port is a no-op",
  "when several current ports share a name or hardware address a lookup by it may return any of them",
  "a failed [] lookup raises a LookupError (POX: IndexError), `in` is False, get() returns the default",
  "a request's reply is 'contiguous' when no other statistics reply arrives between its parts (other message types may); only such requests must produce exactly one aggregated event; for interleaved ones only at-most-once, never-merged, never-before-the-final-part and in-order are required (of_01 documents that interleaving is unsupported)",
  "a request whose final part never arrives must not produce an aggregated event",
  "listeners may halt RawStatsReply, the aggregated events, PortStatus and FeaturesReceived (return EventHalt / True, or set event.halt) on the nexus or on the connection; the only documented effect is that an event halted on the nexus is not raised on the connection, so the connection level may then omit exactly that event; aggregation, the nexus-level events and the port view must not depend on listeners",
  "port-status messages that arrive before a features reply (the first, or a second one during the handshake) are superseded by it: the view is the LAST features reply with the notifications that FOLLOW it applied",
  "statistics xids cover the whole 32-bit range including 0",
  "a later request may reuse the xid (and type) of an earlier one once that one is complete; their entries must not be merged either",
  "error messages used as interleaved traffic carry no data (an error with data hit the separate, now fixed, hexdump defect recorded under C09)",
]
EXHAUSTIVE_SCOPE = {
  "quick": ("ports: every sequence of <= 3 notifications from a 12-letter alphabet (2 ports x {add, add renamed, modify, "
            "modify renamed, modify hw address, delete}) from each of the 4 initial subsets of {1,2}; stats: all 792 weak "
            "compositions of 6 entries into <= 6 parts x {flow, table, port, queue}; all 32 compositions x 4 types x 4 kinds "
            "of second reply x every gap x with/without other messages in every gap; every subset of the 4 raw events of a 4-part "
            "reply halted on the nexus or on the connection x aggregated event halted nowhere/nexus/connection x 3 ways of halting; "
            "0..3 notifications buffered during the handshake (all sequences of <= 2, all of 3 on one port) x 4 initial sets x "
            "handshake finished by barrier reply / by the barrier-unsupported error; "
            "all 2-notification sequences with PortStatus/FeaturesReceived listeners halting on nexus or connection"),
  "thorough": "as quick with notification sequences <= 4 from every initial subset and <= 5 from the full set",
}

PORT_NOS = [1, 2, 3, 4, 0xfffe]
NAMES = ["eth1", "eth2", "eth3", "eth4", "br0", "foo", "bar", "new1", "new2"]
HWS = [bytes.fromhex(h) for h in ("020000000001", "020000000002", "020000000003", "020000000004", "0200000000fe",
                                  "0a0000000001", "0a0000000002", "000000000000")]
DPID = 0x2a

_W = None


def setup():
  global _W
  if _W is None:
    from ..sim import world
    world.boot()
    _W = world


class _Once(object):
  def __init__(self, out):
    self.out = out
    self.seen = set()

  def fail(self, clause, msg, **key):
    k = (clause,) + tuple(sorted(key.items()))
    if k in self.seen:
      return
    self.seen.add(k)
    self.out.fail(clause, msg, **key)


class _Con(object):
  """a controller-side connection taken through the handshake"""

  def __init__(self, out):
    setup()
    import pox.openflow.of_01 as of_01
    from pox.lib.addresses import EthAddr
    self.EthAddr = EthAddr
    self.out = out
    self.once = _Once(out)
    self.w = _W.World()
    self.sock = _W.FakeSock()
    self.con = of_01.Connection(self.sock)
    self.step = -1
    self.log = []            # (level, kind, step, payload)
    self.excs = []           # (step, exception) raised by a message handler (read() swallows them)
    self.xid = 0x100

  def close(self):
    self.w.close()

  def feed(self, data):
    self.sock.feed(data)
    n = 0
    while self.sock.inbox:
      if self.con.read() is False:
        raise HarnessError("the controller dropped the connection")
      n += 1
      if n > 1000:
        raise HarnessError("read loop does not drain")

  def handshake(self, ports, early=(), finish="barrier", pre=(), again=None):
    """hello; `pre` notifications (before the features reply); features reply; `early` notifications, with
    (again = (j, ports2)) a second features reply after the first j of them; then the answer to the barrier"""
    self.feed(sb.hello(0))
    for reason, rec in pre:
      self.feed(sb.port_status(0, reason, rec))
    self.feed(sb.features_reply(1, DPID, ports))
    early = list(early)
    if again is not None:
      j, ports2 = again
      for reason, rec in early[:j]:
        self.feed(sb.port_status(0, reason, rec))
      self.feed(sb.features_reply(2, DPID, ports2))
      early = early[j:]
    msgs, rest = sb.split(bytes(self.sock.sent))
    bx = [x for v, t, x, b in msgs if t == sb.OFPT_BARRIER_REQUEST]
    if len(bx) != (1 if again is None else 2):
      raise HarnessError("unexpected barrier requests during the handshake: %r" % (bx,))
    bx = bx[-1:]          # the barrier that belongs to the latest features reply
    for reason, rec in early:
      self.feed(sb.port_status(0, reason, rec))
    if finish == "error":
      # a switch without barrier support answers the barrier request with BAD_REQUEST / BAD_TYPE
      self.feed(sb.error(bx[0], sb.OFPET_BAD_REQUEST, sb.OFPBRC_BAD_TYPE, sb.barrier_request(bx[0])))
    else:
      self.feed(sb.barrier_reply(bx[0]))
    if self.con.connect_time is None:
      raise HarnessError("handshake did not complete")
    # message handlers run inside read()'s catch-all; remember what they raise
    self.con.handlers = [self._wrap(h) for h in self.con.handlers]

  def _wrap(self, h):
    def wrapped(con, msg):
      try:
        return h(con, msg)
      except Exception as e:
        self.excs.append((self.step, e))
        raise
    return wrapped

  def next_xid(self):
    self.xid += 1
    return self.xid


# =========================================================================== listeners that halt events

class _Halter(object):
  """Decides, per (level, event class), whether the k-th event is halted by the recording listener, and how.
  spec: {"nexus:raw": [0/1, ...], "con:agg": [...], ..., "style": 0|1|2}; the k-th event of a class uses
  list[k % len]; a missing or empty list never halts.  style 0: return EventHalt, 1: set event.halt and
  return None, 2: return True (all three are documented ways to stop an event)."""

  def __init__(self, spec):
    self.spec = spec or {}
    self.count = {}
    self.halted = 0
    from pox.lib.revent import EventHalt
    self.EventHalt = EventHalt

  def decide(self, level, cls):
    k = "%s:%s" % (level, cls)
    n = self.count.get(k, 0)
    self.count[k] = n + 1
    pat = self.spec.get(k) or []
    return bool(pat) and bool(pat[n % len(pat)])

  def do(self, e):
    self.halted += 1
    style = self.spec.get("style", 0) % 3
    if style == 0:
      return self.EventHalt
    if style == 1:
      e.halt = True
      return None
    return True


# =========================================================================== ports

def _tup(p):
  return (p.port_no, p.hw_addr.toRaw(), p.name, p.config, p.state, p.curr, p.advertised, p.supported, p.peer)


def _lookup(f, *a):
  """-> (found, value) ; LookupError means not found, anything else propagates"""
  try:
    return True, f(*a)
  except LookupError:
    return False, None


_SENTINEL = object()


def _probe(c, P, view, ref, which, when, names, addrs):
  """compare one PortCollection with one reference view through the whole mapping API"""
  once = c.once
  EthAddr = c.EthAddr
  want_keys = sorted(view)

  def fail(clause, msg, **k):
    once.fail(clause, "%s %s: %s" % (which, when, msg), coll=which, **k)

  # ---- size, keys, iteration
  n = len(P)
  if n != len(view):
    fail("len", "len() is %d, the switch has %d ports %r" % (n, len(view), want_keys))
  for name, got in (("keys", list(P.keys())), ("iter", list(iter(P))), ("iterkeys", list(P.iterkeys()))):
    if sorted(got) != want_keys:
      fail(name, "%s gives %r, expected %r" % (name, sorted(got), want_keys), api=name)
  want_vals = sorted(view.values())
  for name, got in (("values", list(P.values())), ("itervalues", list(P.itervalues()))):
    g = sorted(_tup(p) for p in got)
    if g != want_vals:
      fail("values", "%s gives %r, expected %r" % (name, g, want_vals), api=name)
  for name, got in (("items", list(P.items())), ("iteritems", list(P.iteritems()))):
    g = sorted((k, _tup(p)) for k, p in got)
    if g != sorted(view.items()):
      fail("items", "%s gives %r, expected %r" % (name, g, sorted(view.items())), api=name)
  # ---- by number
  for no in PORT_NOS + [7]:
    exp = view.get(no)
    found, p = _lookup(P.__getitem__, no)
    inn = no in P
    g = P.get(no, _SENTINEL)
    hk = P.has_key(no)
    if exp is None:
      if found or inn or g is not _SENTINEL or hk:
        fail("absent-number-found", "port %d is not present but [] found=%s, in=%s, get found=%s" % (no, found, inn, g is not _SENTINEL), by="number")
    else:
      if not found or not inn or g is _SENTINEL or not hk:
        fail("present-number-missing", "port %d is present but [] found=%s, in=%s, get found=%s" % (no, found, inn, g is not _SENTINEL), by="number")
      else:
        if _tup(p) != exp or _tup(g) != exp:
          fail("number-wrong-port", "port %d: [] gives %r, get gives %r, expected %r" % (no, _tup(p), _tup(g), exp), by="number")
  # ---- by name and by hardware address
  for by, keys, finder, mk in (("name", names, pv.PortView.by_name, lambda x: x),
                               ("addr", addrs, pv.PortView.by_addr, lambda x: EthAddr(x))):
    for key in keys:
      holders = finder(view, key)
      k = mk(key)
      found, p = _lookup(P.__getitem__, k)
      inn = k in P
      g = P.get(k, _SENTINEL)
      shown = key if by == "name" else key.hex()
      if not holders:
        if found or inn or g is not _SENTINEL:
          ghost = _tup(p) if found else (_tup(g) if g is not _SENTINEL else None)
          former = (key in ref.former_names) if by == "name" else (key in ref.former_addrs)
          if former:
            fail("attribute-lookup", "no current port has %s %r, but [] found=%s, in=%s, get found=%s -> %r (a port that had it before)" % (
                by, shown, found, inn, g is not _SENTINEL, ghost), by=by, symptom="former-attribute-still-found")
          else:
            fail("attribute-lookup", "no port has %s %r, but [] found=%s, in=%s, get found=%s -> %r" % (
                by, shown, found, inn, g is not _SENTINEL, ghost), by=by, symptom="never-used-attribute-found")
      else:
        if not found or not inn or g is _SENTINEL:
          fail("attribute-lookup", "port(s) %r have %s %r but [] found=%s, in=%s, get found=%s" % (
              [h[0] for h in holders], by, shown, found, inn, g is not _SENTINEL), by=by, symptom="current-attribute-not-found")
        elif _tup(p) not in holders or _tup(g) not in holders:
          fail("attribute-lookup", "%s %r: [] gives %r, get gives %r, but the current ports with it are %r" % (by, shown, _tup(p), _tup(g), holders), by=by, symptom="outdated-port-returned")


def case_ports(case, out):
  c = _Con(out)
  try:
    ref = pv.PortView()
    feat = case["feat"]
    ops = case["ops"]
    early = max(0, min(case.get("early", 0), len(ops)))
    # only port-status messages can be 'early'
    while early and any(op[0] != "ps" for op in ops[:early]):
      early -= 1
    # notifications that arrive before the features reply are superseded by it (it reports the ports as they
    # are when it is sent); so is everything before a second features reply
    pre = [(op[1], op[2]) for op in case.get("pre", []) if op[0] == "ps"]
    again = case.get("again")
    if again is not None:
      again = (max(0, min(again[0], early)), again[1])
    ref.features(feat)
    for k, op in enumerate(ops[:early]):
      if again is not None and k == again[0]:
        ref.features(again[1])
      ref.status(op[1], op[2])
    if again is not None and again[0] >= early:
      ref.features(again[1])
    # listeners that (per the case) halt PortStatus / FeaturesReceived: the port view must not depend on them
    halter = _Halter(case.get("halt"))

    def listener(level, cls):
      def h(e):
        if halter.decide(level, cls):
          return halter.do(e)
      return h
    for kind, cls in (("PortStatus", "ps"), ("FeaturesReceived", "feat")):
      c.w.nexus.addListenerByName(kind, listener("nexus", cls))
      c.con.addListenerByName(kind, listener("con", cls))
    finish = "error" if case.get("finish") == "error" else "barrier"
    c.handshake(feat, [(op[1], op[2]) for op in ops[:early]], finish, pre, again)
    if pre:
      out.label("ports:%d-notifications-before-the-features-reply" % len(pre))
    if again is not None:
      out.label("ports:second-features-reply-during-handshake")
    out.label("ports:handshake-finished-by-" + ("barrier-unsupported-error" if finish == "error" else "barrier-reply"))
    if early:
      out.label("ports:notifications-during-handshake")
      out.label("ports:%d-notifications-during-handshake/%s" % (early, finish))
    names = list(NAMES)
    addrs = list(HWS)
    for r in (list(feat) + [op[2] for op in ops if op[0] == "ps"] + [r for op in ops if op[0] == "feat" for r in op[1]] +
              [rec for _, rec in pre] + (list(again[1]) if again is not None else [])):
      if r["name"] not in names:
        names.append(r["name"])
      if bytes(r["hw"]) not in addrs:
        addrs.append(bytes(r["hw"]))

    def probe(when):
      _probe(c, c.con.ports, ref.current, ref, "ports", when, names, addrs)
      _probe(c, c.con.original_ports, ref.original, ref, "original_ports", when, names, addrs)

    probe("after the handshake")
    for i, op in enumerate(ops[early:]):
      c.step = i
      if op[0] == "ps":
        reason, rec = op[1], op[2]
        present = rec["no"] in ref.current
        out.label("ps:%s/%s" % (("add", "delete", "modify")[reason], "present" if present else "absent"))
        c.feed(sb.port_status(0, reason, rec))
        ref.status(reason, rec)
      elif op[0] == "feat":
        out.label("ports:second-features-reply")
        c.feed(sb.features_reply(c.next_xid(), DPID, op[1]))
        ref.features(op[1])
      else:
        raise HarnessError("unknown op %r" % (op,))
      probe("after message %d %s" % (i + early, _show_op(op)))
    if c.excs:
      e = c.excs[0][1]
      out.violations.append({"key": exc_key(e, clause="port-handler-raised"), "msg": "a port-status / features handler raised %r" % (e,)})
    for flag, label in ((ref.renamed, "ports:rename"), (ref.readded, "ports:delete-then-re-add"), (ref.hw_changed, "ports:hw-address-change")):
      if flag:
        out.label(label)
    out.nontrivial = ref.renamed or ref.readded or ref.hw_changed
    if halter.halted:
      out.label("ports:listener-halted-an-event")
    dup_n = len(set(t[2] for t in ref.current.values())) < len(ref.current)
    if dup_n:
      out.label("ports:two-ports-share-a-name")
    if len(set(t[1] for t in ref.current.values())) < len(ref.current):
      out.label("ports:two-ports-share-an-address")
  finally:
    c.close()


def _show_op(op):
  if op[0] == "ps":
    r = op[2]
    return "%s(port %d name %r hw %s)" % (("ADD", "DELETE", "MODIFY")[op[1]], r["no"], r["name"], bytes(r["hw"]).hex())
  return "FEATURES(%r)" % ([r["no"] for r in op[1]],)


# =========================================================================== statistics

LIST_TYPES = {"flow": sb.OFPST_FLOW, "table": sb.OFPST_TABLE, "port": sb.OFPST_PORT, "queue": sb.OFPST_QUEUE}
EVENT_OF = {"flow": "FlowStatsReceived", "table": "TableStatsReceived", "port": "PortStatsReceived",
            "queue": "QueueStatsReceived", "desc": "SwitchDescReceived", "agg": "AggregateFlowStatsReceived"}


def _entry(t, tag):
  if t == "flow":
    return {"cookie": tag, "out": [1 + i for i in range(tag % 3)], "packet_count": tag * 7}
  if t == "table":
    return {"table_id": tag & 0xff, "name": "t%d" % tag, "max_entries": tag}
  if t == "port":
    return {"port_no": tag, "rx_packets": tag * 3, "collisions": tag}
  if t == "queue":
    return {"queue_id": tag, "port_no": 1, "tx_bytes": tag * 5}
  raise HarnessError(t)


def _tag_of(t, e):
  """read the identifying fields of a decoded entry back (two fields, to notice mis-slicing)"""
  try:
    return _tag_of_entry(t, e)
  except AttributeError:
    return ("not-an-entry", type(e).__name__)


def _tag_of_entry(t, e):
  if t == "flow":
    return e.cookie if (len(e.actions) == e.cookie % 3 and e.packet_count == e.cookie * 7) else ("garbled", e.cookie)
  if t == "table":
    return e.max_entries if (e.name == "t%d" % e.max_entries and e.table_id == e.max_entries & 0xff) else ("garbled", e.max_entries)
  if t == "port":
    return e.port_no if (e.rx_packets == e.port_no * 3 and e.collisions == e.port_no) else ("garbled", e.port_no)
  if t == "queue":
    return e.queue_id if e.tx_bytes == e.queue_id * 5 else ("garbled", e.queue_id)
  raise HarnessError(t)


def _part_bytes(req, j):
  t = req["t"]
  tags = req["parts"][j]
  more = j < len(req["parts"]) - 1
  if t in LIST_TYPES:
    return sb.stats_reply_entries(req["xid"], LIST_TYPES[t], [_entry(t, g) for g in tags], more=more)
  if t == "desc":
    return sb.desc_stats_reply(req["xid"], mfr="mfr%d" % tags[0])
  if t == "agg":
    return sb.aggregate_stats_reply(req["xid"], packet_count=tags[0] * 2, byte_count=tags[0] * 3, flow_count=tags[0])
  raise HarnessError(t)


def _other_bytes(c, kind):
  k = kind % 5
  if k == 0:
    return sb.echo_request(c.next_xid(), b"x")
  if k == 1:
    return sb.port_status(0, sb.OFPPR_MODIFY, {"no": 1, "hw": HWS[0], "name": "eth1", "config": c.next_xid() & 1})
  if k == 2:
    return sb.packet_in(0, 0xffffffff, 1, sb.ethernet_frame(b"\xff" * 6, HWS[0], 0x0806, b"\0" * 28))
  if k == 3:
    return sb.barrier_reply(c.next_xid())
  return sb.error(c.next_xid(), sb.OFPET_BAD_REQUEST, sb.OFPBRC_BAD_LEN, b"")


def case_stats(case, out):
  c = _Con(out)
  try:
    reqs = case["reqs"]
    stream = case["stream"]
    c.handshake([{"no": 1, "hw": HWS[0], "name": "eth1"}])
    by_xid = {}
    for r, req in enumerate(reqs):
      by_xid.setdefault(req["xid"], []).append(r)
    ev_kinds = sorted(set(EVENT_OF.values()))
    kind_type = {}
    for t, k in EVENT_OF.items():
      kind_type[k] = t

    halter = _Halter(case.get("halt"))

    def rec(level, kind):
      def h(e):
        if kind == "RawStatsReply":
          halt = halter.decide(level, "raw")
          c.log.append((level, kind, c.step, e.ofp.xid, None, halt))
          return halter.do(e) if halt else None
        t = kind_type[kind]
        parts = e.ofp if isinstance(e.ofp, list) else [e.ofp]
        xids = [p.xid for p in parts]
        if t in LIST_TYPES:
          tags = [_tag_of(t, x) for x in e.stats]
        elif t == "desc":
          tags = [e.stats.mfr_desc]
        else:
          tags = [(e.stats.packet_count, e.stats.byte_count, e.stats.flow_count)]
        halt = halter.decide(level, "agg")
        c.log.append((level, kind, c.step, xids, tags, halt))
        return halter.do(e) if halt else None
      return h

    for k in ev_kinds + ["RawStatsReply"]:
      c.w.nexus.addListenerByName(k, rec("nexus", k))
      c.con.addListenerByName(k, rec("con", k))

    # ---- play the stream
    sent = [0] * len(reqs)          # parts sent per request
    part_steps = [[] for _ in reqs]  # step at which each part was fed
    part_seq = []                    # (request, part index) in arrival order, statistics parts only
    raw_expected = {}                # step -> xid
    for i, item in enumerate(stream):
      c.step = i
      if item[0] == "p":
        r = item[1] % len(reqs)
        j = sent[r]
        if j >= len(reqs[r]["parts"]):
          continue
        sent[r] += 1
        part_steps[r].append(i)
        part_seq.append((r, j))
        raw_expected[i] = reqs[r]["xid"]
        c.feed(_part_bytes(reqs[r], j))
      elif item[0] == "o":
        out.label("stats:other-message-in-stream")
        c.feed(_other_bytes(c, item[1]))
      else:
        raise HarnessError("unknown stream item %r" % (item,))
    c.step = len(stream)
    for x, rs in by_xid.items():
      spans = sorted((part_steps[r][0], part_steps[r][-1]) for r in rs if part_steps[r])
      for a, b in zip(spans, spans[1:]):
        if b[0] <= a[1]:
          raise HarnessError("requests that share an xid must not overlap in the stream")
      if len(rs) > 1 and any(sent[r] not in (0, len(reqs[r]["parts"])) for r in rs):
        raise HarnessError("a request whose xid is reused must be complete (on the wire its successor would be its continuation)")

    once = c.once
    # ---- classify the requests
    info = []
    for r, req in enumerate(reqs):
      n = len(req["parts"])
      complete = sent[r] == n
      pos = [k for k, (rr, j) in enumerate(part_seq) if rr == r]
      contiguous = bool(pos) and pos == list(range(pos[0], pos[0] + len(pos)))
      info.append({"complete": complete, "contiguous": contiguous, "started": bool(pos),
                   "final_step": part_steps[r][-1] if complete else None,
                   "tags": [g for part in req["parts"] for g in part]})
    first_exc = min([s for s, e in c.excs], default=None)

    # a listener on the nexus that halts an event keeps it from being raised on the connection (that is
    # the documented effect, and the only one); what the connection level may then omit:
    raw_halted_on_nexus = set(step for lv, kind, step, _, _, halt in c.log if lv == "nexus" and kind == "RawStatsReply" and halt)
    agg_halted_on_nexus = set()
    for level in ("nexus", "con"):
      # ---- RawStatsReply: once per part, nothing else
      raws = {}
      for lv, kind, step, xid, _, _ in c.log:
        if lv == level and kind == "RawStatsReply":
          raws.setdefault(step, []).append(xid)
      for step in sorted(set(raws) | set(raw_expected)):
        got = raws.get(step, [])
        want = [raw_expected[step]] if step in raw_expected else []
        if level == "con" and step in raw_halted_on_nexus and got == []:
          continue
        if got != want:
          once.fail("raw-stats-reply", "stream item %d: RawStatsReply events on the %s for xids %r, expected %r" % (step, level, got, want), level=level)
      # ---- aggregated events
      fired = {}      # request -> list of (step, kind, tags)
      for lv, kind, step, xids, tags, halt in c.log:
        if lv != level or kind == "RawStatsReply":
          continue
        if len(set(xids)) != 1 or xids[0] not in by_xid:
          once.fail("merged", "%s on the %s is built from parts with xids %r" % (kind, level, xids), level=level, what="parts")
          continue
        # requests that reuse an xid are sequential: the owner is the one being received at that moment
        cands = [r for r in by_xid[xids[0]] if part_steps[r] and part_steps[r][0] <= step]
        if not cands:
          once.fail("merged", "%s on the %s for xid %#x before any part with that xid arrived" % (kind, level, xids[0]), level=level, what="time")
          continue
        r = max(cands, key=lambda q: part_steps[q][0])
        fired.setdefault(r, []).append((step, kind, tags))
        if level == "nexus" and halt:
          agg_halted_on_nexus.add(r)
      for r, req in enumerate(reqs):
        t = req["t"]
        inf = info[r]
        evs = fired.get(r, [])
        if t in LIST_TYPES:
          all_tags = inf["tags"]
        elif t == "desc":
          all_tags = ["mfr%d" % req["parts"][0][0]]
        else:
          g = req["parts"][0][0]
          all_tags = [(g * 2, g * 3, g)]
        ident = "request %d (%s, xid %#x, parts %r)" % (r, t, req["xid"], [len(p) for p in req["parts"]])
        after_exc = first_exc is not None and inf["started"] and part_steps[r][-1] >= first_exc
        for step, kind, tags in evs:
          if kind != EVENT_OF[t]:
            once.fail("wrong-event-type", "%s: raised %s on the %s" % (ident, kind, level), level=level, type=t)
          foreign = [g for g in tags if g not in all_tags]
          if foreign:
            once.fail("merged", "%s: the event on the %s contains entries %r that belong to another request" % (ident, level, foreign), level=level, what="entries")
          elif len(set(map(repr, tags))) != len(tags) or [g for g in all_tags if g in tags] != tags:
            once.fail("entries-order", "%s: the event on the %s has entries %r, sent order is %r" % (ident, level, tags, all_tags), level=level, type=t)
          if not inf["complete"]:
            once.fail("fired-without-final-part", "%s: aggregated event on the %s although the final part never arrived" % (ident, level), level=level)
          elif step != inf["final_step"]:
            once.fail("fired-at-wrong-time", "%s: aggregated event on the %s while handling stream item %d, the final part is item %d" % (
                ident, level, step, inf["final_step"]), level=level, when="early" if step < inf["final_step"] else "late")
        if len(evs) > 1:
          once.fail("fired-more-than-once", "%s: %d aggregated events on the %s" % (ident, len(evs), level), level=level, type=t)
        if level == "con" and r in agg_halted_on_nexus and not evs:
          continue        # halted on the nexus: need not be raised on the connection
        if inf["complete"] and inf["contiguous"]:
          if after_exc and (not evs or evs[0][2] != all_tags):
            e = [x for s, x in c.excs if s == first_exc][0]
            k = exc_key(e, clause="aggregate-lost-by-handler-exception")
            if ("exc",) + tuple(sorted(k.items())) not in once.seen:
              once.seen.add(("exc",) + tuple(sorted(k.items())))
              out.violations.append({"key": k, "msg": "%s arrived contiguously but its aggregated event is %s on the %s: the stats handler raised %r at stream item %d (read() swallows it)" % (
                  ident, "missing" if not evs else "incomplete %r" % (evs[0][2],), level, e, first_exc)})
          elif not evs:
            once.fail("aggregate-missing", "%s arrived contiguously and completely but no aggregated event on the %s" % (ident, level), level=level, type=t)
          elif evs[0][2] != all_tags:
            once.fail("aggregate-incomplete", "%s: the event on the %s has entries %r, all parts together have %r" % (ident, level, evs[0][2], all_tags), level=level, type=t)
    # ---- labels
    nt = False
    for r, req in enumerate(reqs):
      inf = info[r]
      n = len(req["parts"])
      out.label("stats:type:" + req["t"])
      out.label("stats:parts:%s" % (n if n < 6 else "6+"))
      if n >= 3:
        nt = True
      if not inf["complete"]:
        out.label("stats:final-part-never-arrives")
      elif inf["contiguous"]:
        out.label("stats:contiguous")
      else:
        out.label("stats:interleaved-with-another-reply")
      if any(len(p) == 0 for p in req["parts"]):
        out.label("stats:empty-part")
    if len(reqs) > 1:
      out.label("stats:several-requests")
    if any(len(rs) > 1 for rs in by_xid.values()):
      out.label("stats:xid-reused-by-a-later-request")
    if c.excs:
      out.label("stats:handler-exception")
    if raw_halted_on_nexus:
      out.label("stats:raw-event-halted-on-nexus")
      if any(info[r]["complete"] and part_steps[r][-1] in raw_halted_on_nexus for r in range(len(reqs))):
        out.label("stats:raw-event-of-final-part-halted-on-nexus")
    if agg_halted_on_nexus:
      out.label("stats:aggregated-event-halted-on-nexus")
    if any(halt for lv, _, _, _, _, halt in c.log if lv == "con"):
      out.label("stats:event-halted-on-connection")
    out.nontrivial = nt
  finally:
    c.close()


# =========================================================================== dispatch

def run_case(case):
  out = Outcome()
  out.label("kind:" + case["k"])
  if case["k"] == "ports":
    case_ports(case, out)
  elif case["k"] == "stats":
    case_stats(case, out)
  else:
    raise HarnessError("unknown case kind %r" % (case["k"],))
  return out


# =========================================================================== enumerations

def _rec(no, name=None, hw=None, **kw):
  r = {"no": no, "hw": hw if hw is not None else HWS[PORT_NOS.index(no)], "name": name if name is not None else ("eth%d" % no if no < 0xff00 else "br0")}
  r.update(kw)
  return r


def _alphabet(ports):
  a = []
  for n in ports:
    a.append(["ps", pv.OFPPR_ADD, _rec(n)])
    a.append(["ps", pv.OFPPR_ADD, _rec(n, name="new%d" % n)])
    a.append(["ps", pv.OFPPR_MODIFY, _rec(n, config=1)])
    a.append(["ps", pv.OFPPR_MODIFY, _rec(n, name="new%d" % n)])
    a.append(["ps", pv.OFPPR_MODIFY, _rec(n, hw=HWS[5 + PORT_NOS.index(n)])])
    a.append(["ps", pv.OFPPR_DELETE, _rec(n)])
  return a


def enum_ports(tier):
  alpha = _alphabet([1, 2])
  subsets = [[], [1], [2], [1, 2]]
  maxlen = 3 if tier == "quick" else 4
  for init in subsets:
    feat = [_rec(n) for n in init]
    for L in range(maxlen + 1):
      for seq in itertools.product(alpha, repeat=L):
        yield {"k": "ports", "feat": feat, "early": 0, "ops": [list(s) for s in seq]}
  if tier != "quick":
    feat = [_rec(1), _rec(2)]
    for seq in itertools.product(alpha, repeat=5):
      yield {"k": "ports", "feat": feat, "early": 0, "ops": [list(s) for s in seq]}
  # notifications buffered during the handshake, for both ways a handshake can finish (barrier reply, or the
  # BAD_REQUEST/BAD_TYPE error of a switch without barriers): all sequences of <= 2, and of 3 on one port
  # (includes add-then-delete and delete-then-re-add of the same port), all early; and one more afterwards
  alpha1 = _alphabet([1])
  for init in subsets:
    feat = [_rec(n) for n in init]
    for finish in ("barrier", "error"):
      seqs = [()] + [(a,) for a in alpha] + list(itertools.product(alpha, repeat=2)) + list(itertools.product(alpha1, repeat=3))
      for seq in seqs:
        yield {"k": "ports", "feat": feat, "early": len(seq), "finish": finish, "ops": [list(x) for x in seq]}
      for seq in itertools.product(alpha, repeat=2):
        yield {"k": "ports", "feat": feat, "early": 1, "finish": finish, "ops": [list(x) for x in seq]}
  # notifications that arrive BEFORE the features reply (they must not show: the reply supersedes them), and a second
  # features reply during the handshake with notifications on both sides of it
  for init in subsets:
    feat = [_rec(n) for n in init]
    for finish in ("barrier", "error"):
      for pre in [(a,) for a in alpha] + list(itertools.product(alpha1, repeat=2)):
        for seq in [()] + [(a,) for a in alpha1]:
          yield {"k": "ports", "feat": feat, "pre": [list(x) for x in pre], "early": len(seq), "finish": finish, "ops": [list(x) for x in seq]}
    for feat2 in subsets:
      for seq in itertools.product(alpha, repeat=2):
        for j in (0, 1, 2):
          yield {"k": "ports", "feat": feat, "early": 2, "again": [j, [_rec(n) for n in feat2]], "ops": [list(x) for x in seq]}
  # listeners halting PortStatus / FeaturesReceived on the nexus and/or the connection
  for init in subsets:
    feat = [_rec(n) for n in init]
    for seq in itertools.product(alpha, repeat=2):
      for halt in ({"nexus:ps": [1]}, {"con:ps": [1]}, {"nexus:ps": [1, 0], "style": 1}, {"nexus:ps": [0, 1], "nexus:feat": [1], "style": 2}):
        for early in (0, 1):
          yield {"k": "ports", "feat": feat, "early": early, "ops": [list(s) for s in seq], "halt": halt}
  # notifications that arrive during the handshake, and a second features reply at every position
  for init in subsets:
    feat = [_rec(n) for n in init]
    for seq in itertools.product(alpha, repeat=2):
      for early in (1, 2):
        yield {"k": "ports", "feat": feat, "early": early, "ops": [list(s) for s in seq]}
      for pos in range(3):
        for feat2 in subsets:
          ops = [list(s) for s in seq]
          ops.insert(pos, ["feat", [_rec(n) for n in feat2]])
          yield {"k": "ports", "feat": feat, "early": 0, "ops": ops}


def _weak_compositions(n, k):
  """all ways to write n as an ordered sum of k non-negative integers"""
  if k == 1:
    yield [n]
    return
  for first in range(n + 1):
    for rest in _weak_compositions(n - first, k - 1):
      yield [first] + rest


def _parts_from_sizes(sizes, first_tag):
  parts = []
  g = first_tag
  for s in sizes:
    parts.append(list(range(g, g + s)))
    g += s
  return parts


def enum_stats(tier):
  # (a) every weak composition of 6 entries into 1..6 parts, each multipart type
  for t in ("flow", "table", "port", "queue"):
    for k in range(1, 7):
      for sizes in _weak_compositions(6, k):
        req = {"t": t, "xid": 0x21, "parts": _parts_from_sizes(sizes, 1)}
        yield {"k": "stats", "reqs": [req], "stream": [["p", 0]] * k}
  # (b) a second request's reply before / between / after the parts; other messages in the gaps
  seconds = lambda t: [("same", t, [[41, 42]]), ("other", "port" if t != "port" else "queue", [[41]]), ("desc", "desc", [[41]]), ("agg", "agg", [[41]])]
  for t in ("flow", "table", "port", "queue"):
    for k in range(1, 7):
      for sizes in _weak_compositions(6 - k, k):
        sizes = [s + 1 for s in sizes]           # strict composition
        req = {"t": t, "xid": 0x21, "parts": _parts_from_sizes(sizes, 1)}
        for _, t2, parts2 in seconds(t):
          req2 = {"t": t2, "xid": 0x22, "parts": parts2}
          for gap in range(k + 1):
            for others in (False, True):
              stream = []
              for j in range(k + 1):
                if others:
                  stream.append(["o", j])
                if j == gap:
                  stream.append(["p", 1])
                  if others:
                    stream.append(["o", j + 2])
                if j < k:
                  stream.append(["p", 0])
              yield {"k": "stats", "reqs": [req, req2], "stream": stream}
  # (a0) edge xids: 0 (a request sent with xid 0), 1, 2^31, 2^32-1 -- every strict composition of 4 entries
  for t in ("flow", "table", "port", "queue"):
    for xid in (0, 1, 0x80000000, 0xffffffff):
      for k in range(1, 5):
        for sizes in _weak_compositions(4 - k, k):
          req = {"t": t, "xid": xid, "parts": _parts_from_sizes([x + 1 for x in sizes], 1)}
          yield {"k": "stats", "reqs": [req], "stream": [["p", 0]] * k}
          req2 = {"t": "port" if t != "port" else "queue", "xid": 0 if xid else 7, "parts": [[41], [42]]}
          yield {"k": "stats", "reqs": [req, req2], "stream": [["p", 0]] * k + [["p", 1]] * 2}
  # (a') listeners that halt: every subset of the raw events of a 4-part reply halted on the nexus / on the
  #      connection, the aggregated event halted on the nexus / connection, each way of halting
  for t in ("flow", "table", "port", "queue"):
    for sizes in ([1, 2, 1, 2], [2, 0, 1, 0]):
      req = {"t": t, "xid": 0x21, "parts": _parts_from_sizes(sizes, 1)}
      for mask in range(16):
        pat = [(mask >> i) & 1 for i in range(4)]
        for lvl in ("nexus", "con"):
          for agg in ({}, {"nexus:agg": [1]}, {"con:agg": [1]}):
            for style in (0, 1, 2):
              if style and mask not in (1, 8, 15):
                continue
              halt = {lvl + ":raw": pat, "style": style}
              halt.update(agg)
              yield {"k": "stats", "reqs": [req], "stream": [["p", 0]] * 4, "halt": halt}
  for t, parts in (("desc", [[7]]), ("agg", [[7]])):
    for halt in ({"nexus:raw": [1]}, {"nexus:agg": [1]}, {"con:raw": [1], "con:agg": [1]}, {"nexus:raw": [1], "nexus:agg": [1], "style": 1}):
      yield {"k": "stats", "reqs": [{"t": t, "xid": 0x21, "parts": parts}], "stream": [["p", 0]], "halt": halt}
  # (b') a later request reuses the xid (and type) of a finished one
  for t in ("flow", "table", "port", "queue"):
    for sizes in ([2], [1, 1], [0, 2, 0], [1, 2, 3]):
      for sizes2 in ([1], [1, 1], [0]):
        a = {"t": t, "xid": 0x21, "parts": _parts_from_sizes(sizes, 1)}
        b = {"t": t, "xid": 0x21, "parts": _parts_from_sizes(sizes2, 41)}
        for gap_other in (False, True):
          stream = [["p", 0]] * len(sizes) + ([["o", 0]] if gap_other else []) + [["p", 1]] * len(sizes2)
          yield {"k": "stats", "reqs": [a, b], "stream": stream}
  # (c) two multipart replies, every merge of 3 + 2 parts, and a reply whose final part never arrives
  for t, t2 in (("flow", "flow"), ("flow", "port"), ("table", "queue")):
    a = {"t": t, "xid": 0x31, "parts": [[1, 2], [3], [4, 5]]}
    b = {"t": t2, "xid": 0x32, "parts": [[41], [42, 43]]}
    for pos in itertools.combinations(range(5), 2):
      stream = [["p", 1] if i in pos else ["p", 0] for i in range(5)]
      yield {"k": "stats", "reqs": [a, b], "stream": stream}
      yield {"k": "stats", "reqs": [a, b], "stream": stream[:-1]}


# =========================================================================== Hypothesis

@st.composite
def _s_halt(draw, classes):
  """listener behaviour: mostly none; otherwise halting patterns per (level, event class)"""
  if draw(st.integers(0, 2)) == 0:
    return {}
  h = {"style": draw(st.integers(0, 2))}
  for lvl in ("nexus", "con"):
    for cls in classes:
      g = draw(st.integers(0, 3 if lvl == "nexus" else 7))
      if g == 0:
        h["%s:%s" % (lvl, cls)] = [1]
      elif g == 1:
        h["%s:%s" % (lvl, cls)] = draw(st.lists(st.integers(0, 1), min_size=1, max_size=6))
  return h


@st.composite
def _s_rec(draw, nos=PORT_NOS):
  no = draw(st.sampled_from(nos))
  i = PORT_NOS.index(no)
  name = draw(st.one_of(st.just("eth%d" % no if no < 0xff00 else "br0"), st.sampled_from(NAMES)))
  hw = draw(st.one_of(st.just(HWS[i]), st.sampled_from(HWS)))
  r = {"no": no, "hw": hw, "name": name}
  if draw(st.booleans()):
    r["config"] = draw(st.sampled_from([0, 1, 0x40]))
    r["state"] = draw(st.sampled_from([0, 1, 0x200]))
  return r


@st.composite
def _s_ports(draw, tier):
  nos = draw(st.lists(st.sampled_from(PORT_NOS), unique=True, max_size=4))
  feat = [draw(_s_rec([n])) for n in nos]
  ops = []
  for _ in range(draw(st.integers(0, 12))):
    g = draw(st.integers(0, 19))
    if g == 0:
      nos2 = draw(st.lists(st.sampled_from(PORT_NOS), unique=True, max_size=4))
      ops.append(["feat", [draw(_s_rec([n])) for n in nos2]])
    else:
      ops.append(["ps", draw(st.sampled_from([0, 1, 2, 2])), draw(_s_rec())])
  early = draw(st.sampled_from([0, 0, 0, 1, 2, 3]))
  case = {"k": "ports", "feat": feat, "early": early, "finish": draw(st.sampled_from(["barrier", "error"])),
          "ops": ops, "halt": draw(_s_halt(["ps", "feat"]))}
  if draw(st.integers(0, 3)) == 0:
    case["pre"] = [["ps", draw(st.sampled_from([0, 1, 2])), draw(_s_rec())] for _ in range(draw(st.integers(1, 3)))]
  if draw(st.integers(0, 5)) == 0:
    nos2 = draw(st.lists(st.sampled_from(PORT_NOS), unique=True, max_size=4))
    case["again"] = [draw(st.integers(0, 3)), [draw(_s_rec([n])) for n in nos2]]
  return case


@st.composite
def _s_stats(draw, tier):
  n = draw(st.sampled_from([1, 1, 2, 2, 3]))
  reqs = []
  tag = 1
  for r in range(n):
    t = draw(st.sampled_from(["flow", "flow", "table", "port", "queue", "desc", "agg"]))
    if t in LIST_TYPES:
      k = draw(st.integers(1, 6))
      sizes = [draw(st.sampled_from([0, 1, 1, 2, 3])) for _ in range(k)]
      while sum(sizes) > 12:
        sizes[sizes.index(max(sizes))] -= 1
      parts = _parts_from_sizes(sizes, tag)
      tag += sum(sizes)
    else:
      parts = [[tag]]
      tag += 1
    reqs.append({"t": t, "xid": 0x40 + r, "parts": parts})
  if draw(st.integers(0, 3)) == 0:
    # edge xids (distinct per request)
    edge = draw(st.permutations([0, 1, 0x7fffffff, 0x80000000, 0xffffffff]))
    for r, req in enumerate(reqs):
      req["xid"] = edge[r]
  mode = draw(st.integers(0, 3))
  reuse = False
  if n > 1 and reqs[0]["t"] in LIST_TYPES and draw(st.integers(0, 5)) == 0:
    # a later request reuses xid and type of an earlier one (never while that one is outstanding)
    for req in reqs[1:]:
      if req["t"] in LIST_TYPES:
        req["t"] = reqs[0]["t"]
        req["xid"] = reqs[0]["xid"]
    mode = 0
    reuse = True
  seqs = [[["p", r]] * len(req["parts"]) for r, req in enumerate(reqs)]
  stream = []
  if mode <= 1 or n == 1:
    order = draw(st.permutations(list(range(n))))
    for r in order:
      stream.extend(seqs[r])
  else:
    left = [len(s) for s in seqs]
    picks = draw(st.lists(st.integers(0, n - 1), min_size=sum(left), max_size=sum(left)))
    for p in picks:
      for d in range(n):
        r = (p + d) % n
        if left[r]:
          left[r] -= 1
          stream.append(["p", r])
          break
  if not reuse and draw(st.integers(0, 7)) == 0 and stream:
    # the final part of some request never arrives: drop the last part item of one request
    r = draw(st.integers(0, n - 1))
    idx = [i for i, it in enumerate(stream) if it[1] == r]
    if idx:
      del stream[idx[-1]]
  n_other = draw(st.integers(0, 4))
  for _ in range(n_other):
    stream.insert(draw(st.integers(0, len(stream))), ["o", draw(st.integers(0, 4))])
  return {"k": "stats", "reqs": reqs, "stream": stream, "halt": draw(_s_halt(["raw", "agg"]))}


def plan(tier):
  if tier == "quick":
    return [
      Enum("port-status-sequences", lambda: enum_ports(tier), shards=16),
      Enum("stats-partitions", lambda: enum_stats(tier), shards=8),
      Hyp("port-histories", lambda: _s_ports(tier), examples=1500, shards=8),
      Hyp("stats-streams", lambda: _s_stats(tier), examples=2500, shards=8),
    ]
  return [
    Enum("port-status-sequences", lambda: enum_ports(tier), shards=16),
    Enum("stats-partitions", lambda: enum_stats(tier), shards=16),
    Hyp("port-histories", lambda: _s_ports(tier), examples=150000, shards=16),
    Hyp("stats-streams", lambda: _s_stats(tier), examples=250000, shards=16),
  ]
