"""C14 -- packet headers survive build -> bytes -> parse with valid lengths and checksums.

A case is a *spec* (JSON-able list of layer records, see pvf/ref/pktdissect.py).  run_case assembles the
stack with POX's own classes (POX as the builder), packs it, parses the bytes back with ethernet(), and
compares class chain, `parsed` flags, header fields, innermost payload and q.pack() == b.  When that holds, the
parsed packet is also edited (one field or one option/TLV value at a time), packed and parsed again: the new value must read
back, nothing else may change, and the new bytes must again carry valid lengths and checksums.  Independently the
reference dissector walks the emitted bytes: every length field must delimit exactly what follows it, every
Internet checksum must equal the RFC 1071 reference (pvf/ref/rfc1071.py), and the innermost payload must sit
where the headers say.  Every spec with a free payload is executed for both parities of the payload length.

Headers the library assembles in a format its parser documents it does not decode (ARP other than Ethernet / IPv4, IGMP message
types it has no layout for) are a class of their own: the parse must stop at that header (an object of the header's class with
parsed == False, or the header's wire bytes kept as the enclosing header's payload), and serialising the parsed result -- as
it is, after an edit of an enclosing header, and under a new IP header -- must carry that header's bytes through unchanged.
"""
import re
import traceback

from hypothesis import strategies as st

from ..runner import Outcome, Enum, Hyp, HarnessError, exc_key, innermost_frames, REPO_ROOT
from ..ref import pktdissect as P

ID = "C14"
LEVEL = "exploration"
TECHNIQUE = ("property-based testing: POX-built header stacks, round trip (build -> bytes -> parse -> bytes) plus differential check of every "
             "emitted length and checksum against an independent dissector and RFC 1071 implementation; one Enum instance per protocol x parity, "
             "Hypothesis per stack shape")
LEVEL_TEXT = ("Exploration by generated-input search: every stack shape the library can assemble is generated with field values over their wire "
              "ranges and payload lengths 0..1500, each spec run with an even and an odd payload; judged by round trip and by an independent "
              "dissector + RFC 1071 reference. Dense sampling, no proof of absence.")
LEVEL_NOTE = "trusts the reference dissector/builder in pvf/ref (self-checked: build() of every generated spec dissects cleanly)"
RULE = ("a case is a header-stack spec (layer records with field values) assembled with POX's classes; it is run with its payload length and with "
        "the neighbouring length of the other parity; non-trivial when it has at least 3 protocol layers and the innermost layer carries content "
        "(non-empty payload or a structured body such as options/TLVs/records); distinct by SHA-1 of the canonical JSON of the spec")
ASSUMPTIONS = [
  "demultiplexing keys (ethertype, IP protocol / next header, UDP ports, GRE protocol, MPLS bottom-of-stack, 802.3 length) are set consistently "
  "with the attached payload, and avoided for raw payloads: the precondition any caller must meet",
  "fields the library leaves to the caller are set to consistent values (ipv4.hl for raw_options, llc.length for the control width, eapol.bodylen, eap.length)",
  "DHCP sname/file are compared modulo trailing zero padding; DNS rr.rdlen of a built record is not compared (the builder computes it)",
  "only emitted lengths and checksums are judged against the independent reference; other field encodings are judged by the round trip only",
  "edit-after-parse clause (a metamorphic reading of 'serialising the parsed result'): on a fresh parse one public header field, or one option/"
  "TLV/record value in place, is set to another valid value; excluded are demultiplexing keys, fields hdr() derives (lengths, checksums, "
  "tcp.off, ipv4.hl/raw_options), DHCP options (the option dictionary tracks shallow changes only, by design) and absent optional values; "
  "a parsed numeric gre.csum is set to True before re-packing, which is the documented way to have it recomputed",
  "re-parenting clause (NAT / proxy pattern): the payload of a parsed and of a freshly assembled packet is attached under a newly built IP header "
  "with other addresses (same IP version, keeping options / extension headers; the other IP version for TCP / UDP directly under Ethernet / VLAN, "
  "with the ethertype updated by the caller); quoted datagrams inside ICMP errors are not re-addressed; the 802.3 length is the caller's",
  "undecoded-header class: an ARP header with hardware type != 1, protocol type != 0x0800 or hardware address length != 6 (addresses then given "
  "as bytes of that length; protocol address length stays 4, the only width arp.hdr() can emit) and an IGMP header of a type other than 0x11 / "
  "0x12 / 0x16 / 0x17 / 0x22 are outside what the arp / igmp classes say they decode: 'equal header fields' is then not demanded of the "
  "format-dependent part (for ARP the five leading fields are still compared when the body has the class's minimum 28 octets), parsed == False "
  "or raw bytes in the header's place are both accepted, and the byte-level clauses (repack, edit of an enclosing header, re-parenting) apply in full",
]
EXHAUSTIVE_SCOPE = {
  "quick": "the catalog of one minimal instance per protocol / message kind (pvf.ref.pktdissect.catalog), each with payload lengths 0, 1, 6, 7; "
           "UDP/TCP/ICMP/ICMPv6 over IPv4/IPv6 with payloads constructed so that the checksum computes to 0x0000 and so that the "
           "end-around carry must be folded twice; every variable-length element (LLDP TLVs, IPv4/TCP option areas, DHCP option values incl. the "
           ">255 split, DNS labels/names, IPv6 extension headers, ND options, IGMPv3 source/aux lists and record counts, RIP entries, GRE "
           "source route entries, MPLS depth) at min, max, max-1 and a boundary in between; the undecoded-header grid: ARP hardware type in "
           "{0, 2, 6, 15, 32, 256, 65535}, protocol type in {0, 8, 0x0801, 0x0805, 0x86dd, 0xffff}, hardware address length in {0, 1, 5, 7, 8, 20, 254, "
           "255}, two combinations, x Ethernet / VLAN x opcode {1, 2, 3 (RARP ethertype), 65535} x trailing bytes {0, 17, 18}; 14 undecoded "
           "IGMP types x body lengths {0, 1, 12} x Ethernet / VLAN",
  "thorough": "as quick plus payload lengths 2..64, 1499, 1500 for every catalog entry with a free payload; undecoded-header grid with trailing bytes "
              "{0, 2, 3, 17, 18, 46, 47} and IGMP body lengths up to 1400",
}

_L = None


def setup():
  global _L
  if _L is None:
    import logging
    logging.disable(logging.CRITICAL)
    import sys
    import pox.lib.packet as pkt
    # the package re-exports classes named like their modules (tcp, ipv6, ...): fetch the modules themselves
    mod = lambda n: sys.modules["pox.lib.packet." + n]
    i6, ip6m, dh, ll, ig, rp, tc = mod("icmpv6"), mod("ipv6"), mod("dhcp"), mod("lldp"), mod("igmp"), mod("rip"), mod("tcp")
    from pox.lib.packet.packet_base import packet_base
    from pox.lib.addresses import EthAddr, IPAddr, IPAddr6
    _L = dict(pkt=pkt, i6=i6, ip6m=ip6m, dh=dh, ll=ll, ig=ig, rp=rp, tc=tc, packet_base=packet_base,
              EthAddr=EthAddr, IPAddr=IPAddr, IPAddr6=IPAddr6)
  return _L


# --------------------------------------------------------------------------- assembling with POX's classes

def sys_mod(n):
  import sys
  return sys.modules['pox.lib.packet.' + n]


_DHCP_CLASS = {1: "DHCPSubnetMaskOption", 3: "DHCPRoutersOption", 4: "DHCPTimeServersOption", 6: "DHCPDNSServersOption",
               12: "DHCPHostNameOption", 15: "DHCPDomainNameOption", 28: "DHCPBroadcastAddressOption", 43: "DHCPVendorOption",
               50: "DHCPRequestIPOption", 51: "DHCPIPAddressLeaseTimeOption", 52: "DHCPOptionOverloadOption", 53: "DHCPMsgTypeOption",
               54: "DHCPServerIdentifierOption", 55: "DHCPParameterRequestOption", 56: "DHCPErrorMessageOption",
               58: "DHCPRenewalTimeOption", 59: "DHCPRebindingTimeOption"}


def _tcp_opts(L, opts):
  tc = L["tc"]
  out = []
  for o in opts:
    k = o["k"]
    if k == "nop":
      out.append(tc.tcp_opt(tc.tcp_opt.NOP, None))
    elif k == "mss":
      out.append(tc.tcp_opt(tc.tcp_opt.MSS, o["v"]))
    elif k == "ws":
      out.append(tc.tcp_opt(tc.tcp_opt.WSOPT, o["v"]))
    elif k == "sackperm":
      out.append(tc.tcp_opt(tc.tcp_opt.SACKPERM, None))
    elif k == "sack":
      out.append(tc.tcp_opt(tc.tcp_opt.SACK, [(l, r) for l, r in o["v"]]))
    elif k == "ts":
      out.append(tc.tcp_opt(tc.tcp_opt.TSOPT, (o["v"][0], o["v"][1])))
    elif k == "unk":
      out.append(tc.tcp_opt(o["type"], bytes(o["data"])))
    elif k == "mpcap":
      x = tc.mp_capable_opt()
      x.version, x.flags, x.skey, x.rkey = o.get("ver", 0), o.get("flags", 0), bytes(o["skey"]), (bytes(o["rkey"]) if o.get("rkey") else None)
      out.append(x)
    elif k == "mpjoin":
      x = tc.mp_join_opt()
      x.flags, x.address_id, x.phase = o.get("flags", 0), o.get("addr_id", 0), o["phase"]
      if o["phase"] == 1:
        x.rtoken, x.srand = bytes(o["rtoken"]), bytes(o["srand"])
      elif o["phase"] == 2:
        x.shmac, x.srand = bytes(o["shmac"])[:8], bytes(o["srand"])
      else:
        x.shmac = bytes(o["shmac"])
      out.append(x)
    elif k == "mpdss":
      x = tc.mp_dss_opt()
      x.flags = o["flags"]
      if o["flags"] & 1:
        x.ack = o["ack"] if o["flags"] & 2 else o["ack"] & 0xffffffff
      if o["flags"] & 4:
        x.dsn = o["dsn"] if o["flags"] & 8 else o["dsn"] & 0xffffffff
        x.seq, x.length, x.csum = o["seq"], o["length"], o["csum"]
      out.append(x)
    else:
      raise HarnessError("tcp option kind %r" % k)
  return out


def _nd_opts(L, opts):
  i6 = L["i6"]
  out = []
  for o in opts:
    k = o["k"]
    if k == "sll":
      out.append(i6.NDOptSourceLinkLayerAddress(address=L["EthAddr"](bytes(o["addr"]))))
    elif k == "tll":
      out.append(i6.NDOptTargetLinkLayerAddress(address=L["EthAddr"](bytes(o["addr"]))))
    elif k == "mtu":
      out.append(i6.NDOptMTU(mtu=o["mtu"]))
    elif k == "prefix":
      out.append(i6.NDOptPrefixInformation(prefix_length=o["plen"], on_link=bool(o.get("on_link")), is_autonomous=bool(o.get("auto")),
                                           valid_lifetime=o["valid"], preferred_lifetime=o["pref"],
                                           prefix=L["IPAddr6"](bytes(o["prefix"]), raw=True)))
    elif k == "gen":
      out.append(i6.NDOptionGeneric(TYPE=o["type"], raw=bytes(o["data"])))
    else:
      raise HarnessError("nd option kind %r" % k)
  return out


def _lldp_tlvs(L, tlvs):
  ll = L["ll"]
  out = []
  for t in tlvs:
    k = t["k"]
    if k == "chassis":
      out.append(ll.chassis_id(subtype=t["sub"], id=bytes(t["id"])))
    elif k == "port":
      out.append(ll.port_id(subtype=t["sub"], id=bytes(t["id"])))
    elif k == "ttl":
      out.append(ll.ttl(ttl=t["v"]))
    elif k == "portdesc":
      out.append(ll.port_description(payload=bytes(t["v"])))
    elif k == "sysname":
      out.append(ll.system_name(payload=bytes(t["v"])))
    elif k == "sysdesc":
      out.append(ll.system_description(payload=bytes(t["v"])))
    elif k == "syscap":
      out.append(ll.system_capabilities(caps=[bool(t["cap"] & (1 << i)) for i in range(16)],
                                        enabled_caps=[bool(t["en"] & (1 << i)) for i in range(16)]))
    elif k == "mgmt":
      out.append(ll.management_address(address_subtype=t["asub"], address=bytes(t["addr"]), interface_numbering_subtype=t["isub"],
                                       interface_number=t["ifnum"], object_identifier=bytes(t.get("oid", b""))))
    elif k == "org":
      out.append(ll.organizationally_specific(oui=bytes(t["oui"]), subtype=t["sub"], payload=bytes(t["data"])))
    elif k == "unk":
      out.append(ll.unknown_tlv(tlv_type=t["type"], payload=bytes(t["data"])))
    elif k == "end":
      out.append(ll.end_tlv())
    else:
      raise HarnessError("lldp tlv kind %r" % k)
  return out


def _dhcp_option(L, o):
  dh = L["dh"]
  IPAddr = L["IPAddr"]
  cls = getattr(dh, _DHCP_CLASS[o["code"]]) if o["code"] in _DHCP_CLASS else dh.DHCPRawOption
  k = o["k"]
  if k == "ip":
    return cls(IPAddr(bytes(o["v"])))
  if k == "ips":
    return cls([IPAddr(bytes(a)) for a in o["v"]])
  if k == "secs":
    return cls(o["v"])
  if k in ("msgtype", "overload"):
    return cls(o["v"])
  if k == "params":
    return cls(list(bytes(o["v"])))
  if k == "raw":
    return cls(bytes(o["v"]))
  raise HarnessError("dhcp option kind %r" % k)


def assemble(spec, i=0):
  """POX object (or bytes / None) for spec[i:]"""
  L = setup()
  pkt, EthAddr, IPAddr, IPAddr6 = L["pkt"], L["EthAddr"], L["IPAddr"], L["IPAddr6"]
  if i >= len(spec):
    return None
  rec = spec[i]
  t = rec["t"]
  nxt = spec[i + 1] if i + 1 < len(spec) else None
  if t == "raw":
    return P.payload_bytes(rec)
  inner = assemble(spec, i + 1)

  def inner_len():
    """length of the inner bytes as the library emits them (the caller's len(payload))"""
    if isinstance(inner, bytes):
      return len(inner)
    try:
      return len(inner.pack())
    except Exception:
      return len(P.build(spec[i + 1:]))     # the failure itself is reported by the pack phase

  def ethertype():
    ty = rec.get("type")
    if ty is None:
      ty = P._ethertype_for(nxt, inner_len() if nxt["t"] == "llc" else 0)
    return ty

  def attach(o):
    if inner is not None and not (isinstance(inner, bytes) and len(inner) == 0):
      o.payload = inner
    return o

  if t == "eth":
    return attach(pkt.ethernet(dst=EthAddr(bytes(rec["dst"])), src=EthAddr(bytes(rec["src"])), type=ethertype()))
  if t == "vlan":
    return attach(pkt.vlan(pcp=rec.get("pcp", 0), cfi=rec.get("cfi", 0), id=rec.get("id", 0), eth_type=ethertype()))
  if t == "llc":
    ctrl = rec.get("ctrl", 3)
    ln = 3 if (ctrl & 3) == 3 else 4
    kw = dict(dsap=rec["dsap"], ssap=rec["ssap"], control=ctrl)
    snap = rec.get("snap")
    if snap is not None:
      ty = snap.get("type")
      if ty is None:
        ty = P._ethertype_for(nxt, 0)
      kw.update(oui=bytes(snap["oui"]), eth_type=ty)
      ln += 5
    return attach(pkt.llc(length=ln, **kw))
  if t == "arp":
    if "hwlen" in rec:            # other hardware address widths: the class takes the addresses as bytes and the length as a field
      return attach(pkt.arp(hwtype=rec.get("hwtype", 1), prototype=rec.get("prototype", 0x0800), opcode=rec["op"], hwlen=rec["hwlen"],
                            hwsrc=bytes(rec["sha"]), hwdst=bytes(rec["tha"]),
                            protosrc=IPAddr(bytes(rec["spa"])), protodst=IPAddr(bytes(rec["tpa"]))))
    return attach(pkt.arp(hwtype=rec.get("hwtype", 1), prototype=rec.get("prototype", 0x0800), opcode=rec["op"],
                          hwsrc=EthAddr(bytes(rec["sha"])), hwdst=EthAddr(bytes(rec["tha"])),
                          protosrc=IPAddr(bytes(rec["spa"])), protodst=IPAddr(bytes(rec["tpa"]))))
  if t == "ipv4":
    proto = rec.get("proto")
    if proto is None:
      proto = P._ipproto_for(nxt)
    opts = bytes(rec.get("opts", b""))
    return attach(pkt.ipv4(tos=rec.get("tos", 0), id=rec.get("id", 0), flags=rec.get("flags", 0), frag=rec.get("frag", 0),
                           ttl=rec.get("ttl", 64), protocol=proto, srcip=IPAddr(bytes(rec["src"])), dstip=IPAddr(bytes(rec["dst"])),
                           raw_options=opts, hl=5 + len(opts) // 4))
  if t == "ipv6":
    ip6m = L["ip6m"]
    ext = rec.get("ext", [])
    upper = rec.get("nh")
    if upper is None:
      upper = 59 if nxt is None else P._ipproto_for(nxt)
    chain = [e["k"] for e in ext] + [upper]
    ehs = []
    for j, e in enumerate(ext):
      cls = {0: ip6m.HopByHopOptions, 43: ip6m.Routing, 44: ip6m.Fragment, 60: ip6m.DestinationOptions}[e["k"]]
      if e["k"] == 44:
        ehs.append(cls(raw_body=bytes(e["body"]), next_header_type=chain[j + 1]))
      else:
        ehs.append(cls(raw_body=bytes(e["body"]), payload_length=len(e["body"]), next_header_type=chain[j + 1]))
    return attach(pkt.ipv6(tc=rec.get("tc", 0), flow=rec.get("flow", 0), hop_limit=rec.get("hlim", 64),
                           srcip=IPAddr6(bytes(rec["src"]), raw=True), dstip=IPAddr6(bytes(rec["dst"]), raw=True),
                           next_header_type=chain[0], extension_headers=ehs))
  if t == "udp":
    sp, dp = P.udp_ports(rec, nxt)
    return attach(pkt.udp(srcport=sp, dstport=dp))
  if t == "tcp":
    return attach(pkt.tcp(srcport=rec.get("sport", 0xc005), dstport=rec.get("dport", 0xc006), seq=rec.get("seq", 0), ack=rec.get("ack", 0),
                          res=rec.get("res", 0), flags=rec.get("flags", 2), win=rec.get("win", 0), urg=rec.get("urg", 0),
                          options=_tcp_opts(L, rec.get("opts", []))))
  if t == "icmp":
    return attach(pkt.icmp(type=rec["type"], code=rec.get("code", 0)))
  if t == "echo":
    return attach(sys_mod('icmp').echo(id=rec.get("id", 0), seq=rec.get("seq", 0)))
  if t == "unreach":
    return attach(sys_mod('icmp').unreach(unused=rec.get("unused", 0), next_mtu=rec.get("mtu", 0)))
  if t == "timex":
    return attach(sys_mod('icmp').time_exceeded(unused=rec.get("unused", 0)))
  i6 = L["i6"]
  if t == "icmp6":
    return attach(pkt.icmpv6(type=rec["type"], code=rec.get("code", 0)))
  if t == "echo6":
    return attach(i6.echo(id=rec.get("id", 0), seq=rec.get("seq", 0)))
  if t == "toobig":
    return attach(i6.PacketTooBig(mtu=rec.get("mtu", 0)))
  if t == "timex6":
    return attach(i6.TimeExceeded())
  if t == "unreach6":
    return attach(i6.unreach(unused=rec.get("unused", 0)))
  if t == "nd_rs":
    return i6.NDRouterSolicitation(options=_nd_opts(L, rec.get("opts", [])))
  if t == "nd_ra":
    return i6.NDRouterAdvertisement(hop_limit=rec.get("hlim", 0), is_managed=bool(rec.get("managed")), is_other=bool(rec.get("other")),
                                    lifetime=rec.get("lifetime", 0), reachable=rec.get("reachable", 0), retrans_timer=rec.get("retrans", 0),
                                    options=_nd_opts(L, rec.get("opts", [])))
  if t == "nd_ns":
    return i6.NDNeighborSolicitation(target=IPAddr6(bytes(rec["target"]), raw=True), options=_nd_opts(L, rec.get("opts", [])))
  if t == "nd_na":
    return i6.NDNeighborAdvertisement(target=IPAddr6(bytes(rec["target"]), raw=True), is_router=bool(rec.get("r")),
                                      is_solicited=bool(rec.get("s")), is_override=bool(rec.get("o")), options=_nd_opts(L, rec.get("opts", [])))
  if t == "dhcp":
    d = pkt.dhcp(op=rec.get("op", 1), htype=rec.get("htype", 1), hlen=rec.get("hlen", 6), hops=rec.get("hops", 0), xid=rec.get("xid", 0),
                 secs=rec.get("secs", 0), flags=rec.get("flags", 0), ciaddr=IPAddr(bytes(rec.get("ci", b"\0" * 4))),
                 yiaddr=IPAddr(bytes(rec.get("yi", b"\0" * 4))), siaddr=IPAddr(bytes(rec.get("si", b"\0" * 4))),
                 giaddr=IPAddr(bytes(rec.get("gi", b"\0" * 4))),
                 chaddr=(EthAddr(bytes(rec.get("chaddr", b"\0" * 6))[:6]) if rec.get("hlen", 6) == 6
                         else (bytes(rec.get("chaddr", b"")) + b"\0" * 16)[:16]),
                 sname=bytes(rec.get("sname", b"")), file=bytes(rec.get("file", b"")))
    for o in rec.get("opts", []):
      d.add_option(_dhcp_option(L, o), o["code"])
    return d
  if t == "dns":
    d = pkt.dns(id=rec.get("id", 0), qr=bool(rec.get("qr")), opcode=rec.get("opcode", 0), aa=bool(rec.get("aa")), tc=bool(rec.get("tc")),
                rd=bool(rec.get("rd")), ra=bool(rec.get("ra")), z=bool(rec.get("z")), ad=bool(rec.get("ad")), cd=bool(rec.get("cd")),
                rcode=rec.get("rcode", 0))
    for q in rec.get("q", []):
      d.questions.append(pkt.dns.question(q["name"], q["qtype"], q["qclass"]))
    for sec, lst in (("an", d.answers), ("ns", d.authorities), ("ar", d.additional)):
      for r in rec.get(sec, []):
        rd = r["rd"]
        if "a" in rd:
          v = IPAddr(bytes(rd["a"]))
        elif "aaaa" in rd:
          v = IPAddr6(bytes(rd["aaaa"]), raw=True)
        elif "name" in rd:
          v = rd["name"]
        else:
          v = bytes(rd["raw"])
        lst.append(pkt.dns.rr(r["name"], r["qtype"], r["qclass"], r["ttl"], 0, v))
    return d
  if t == "lldp":
    l = pkt.lldp()
    for tlv in _lldp_tlvs(L, rec["tlvs"]):
      l.add_tlv(tlv)
    return l
  if t == "rip":
    rp = L["rp"]
    es = []
    for e in rec.get("entries", []):
      x = rp.RIPEntry(address_family=e.get("af", 2), route_tag=e.get("tag", 0), ip=IPAddr(bytes(e["ip"])),
                      next_hop=IPAddr(bytes(e["nh"])), metric=e["metric"])
      x.netmask = IPAddr(bytes(e["mask"]))
      es.append(x)
    return pkt.rip(command=rec.get("cmd", 2), version=rec.get("ver", 2), entries=es)
  if t == "mpls":
    s = rec.get("s")
    if s is None:
      s = 0 if (nxt is not None and nxt["t"] == "mpls") else 1
    return attach(pkt.mpls(label=rec.get("label", 0), tc=rec.get("tc", 0), s=s, ttl=rec.get("ttl", 0)))
  if t == "gre":
    ty = rec.get("type")
    if ty is None:
      ty = {"ipv4": 0x0800, "eth": 0x6558}[nxt["t"]]
    routing = rec.get("routing")
    if routing is not None:
      import struct
      routing = [struct.pack("!HBB", af, off, len(data)) + bytes(data) for af, off, data in routing] + [b"\0\0\0\0"]
    return attach(pkt.gre(type=ty, key=rec.get("key"), seq=rec.get("seq"), csum=True if rec.get("csum") else None,
                          strict_source_route=bool(rec.get("ssr")), recursion=rec.get("rec", 0), route_offset=rec.get("route_offset", 0),
                          routing=routing))
  if t == "vxlan":
    return attach(pkt.vxlan(vni=rec.get("vni")))
  if t == "igmp":
    return L['ig'].igmp(ver_and_type=rec["vt"], max_response_time=rec.get("mrt", 0), address=IPAddr(bytes(rec["addr"])),
                         extra=bytes(rec.get("extra", b"")))
  if t == "igmp3":
    ig = L["ig"]
    recs = [ig.GroupRecord(type=g["type"], aux=bytes(g.get("aux", b"")), source_addresses=[IPAddr(bytes(s)) for s in g["srcs"]],
                           address=IPAddr(bytes(g["addr"]))) for g in rec["records"]]
    return ig.igmp(ver_and_type=0x22, group_records=recs, extra=bytes(rec.get("extra", b"")))
  if t == "eapol":
    return attach(pkt.eapol(version=rec.get("ver", 1), type=rec.get("type", 0), bodylen=inner_len() if inner is not None else 0))
  if t == "eap":
    # the class has no type field for building: the type octet is the first payload octet
    body = (bytes([rec["type"]]) if rec.get("type") is not None else b"") + (inner if isinstance(inner, bytes) else b"")
    e = pkt.eap(code=rec["code"], id=rec.get("id", 0), length=4 + len(body))
    if body:
      e.payload = body
    return e
  raise HarnessError("unknown layer type %r" % t)


# --------------------------------------------------------------------------- comparison

_FIELDS = {
  "ethernet": ["dst", "src", "type"],
  "vlan": ["pcp", "cfi", "id", "eth_type"],
  "llc": ["dsap", "ssap", "control", "oui", "eth_type"],
  "arp": ["hwtype", "prototype", "hwlen", "protolen", "opcode", "hwsrc", "hwdst", "protosrc", "protodst"],
  "ipv4": ["v", "hl", "tos", "iplen", "id", "flags", "frag", "ttl", "protocol", "csum", "srcip", "dstip", "raw_options"],
  "ipv6": ["v", "tc", "flow", "payload_length", "next_header_type", "hop_limit", "srcip", "dstip", "extension_headers"],
  "icmp": ["type", "code", "csum"],
  "echo": ["id", "seq"],
  "unreach": ["unused", "next_mtu"],
  "time_exceeded": ["unused"],
  "icmpv6": ["type", "code", "csum"],
  "PacketTooBig": ["mtu"],
  "TimeExceeded": [],
  "NDRouterSolicitation": ["options"],
  "NDRouterAdvertisement": ["hop_limit", "is_managed", "is_other", "lifetime", "reachable", "retrans_timer", "options"],
  "NDNeighborSolicitation": ["target", "options"],
  "NDNeighborAdvertisement": ["target", "is_router", "is_solicited", "is_override", "options"],
  "tcp": ["srcport", "dstport", "seq", "ack", "off", "res", "flags", "win", "csum", "urg", "options"],
  "udp": ["srcport", "dstport", "len", "csum"],
  "dhcp": ["op", "htype", "hlen", "hops", "xid", "secs", "flags", "ciaddr", "yiaddr", "siaddr", "giaddr", "chaddr", "sname", "file",
           "magic", "options"],
  "dns": ["id", "qr", "opcode", "aa", "tc", "rd", "ra", "z", "ad", "cd", "rcode", "questions", "answers", "authorities", "additional"],
  "lldp": ["tlvs"],
  "mpls": ["label", "tc", "s", "ttl"],
  "gre": ["type", "ver", "strict_source_route", "recursion", "route_offset", "key", "seq", "csum", "routing"],
  "vxlan": ["vni"],
  "igmp": ["ver_and_type", "max_response_time", "csum", "address", "group_records", "extra"],
  "rip": ["command", "version", "entries"],
  "eapol": ["version", "type", "bodylen"],
  "eap": ["code", "id", "length"],
}
_DROP = {"prev", "next", "parsed", "CODE", "rdlen"}
_MISSING = "<missing>"


def _norm(v, L, depth=0):
  if depth > 6:
    return repr(v)
  if isinstance(v, (L["EthAddr"], L["IPAddr"], L["IPAddr6"])):
    return v.raw
  if isinstance(v, bool) or v is None or isinstance(v, (int, str, bytes)):
    return v
  if isinstance(v, (list, tuple)):
    return [_norm(x, L, depth + 1) for x in v]
  if isinstance(v, dict):
    return {k: _norm(x, L, depth + 1) for k, x in v.items()}
  if hasattr(v, "__dict__"):
    d = {k: _norm(x, L, depth + 1) for k, x in vars(v).items() if k not in _DROP and not k.startswith("_")}
    for k, x in vars(v).items():
      if k == "_netmask":
        d["netmask"] = _norm(x, L, depth + 1)
    d["__class__"] = type(v).__name__
    for ca in ("tlv_type", "TYPE", "subtype"):
      if ca not in d and hasattr(v, ca):
        try:
          x = getattr(v, ca)
        except Exception:
          continue
        if isinstance(x, int):
          d[ca] = x
    return d
  return repr(v)


def _field_norm(cls, f, v, L):
  v = _norm(v, L)
  if cls == "dhcp" and f in ("sname", "file") and isinstance(v, bytes):
    return v.rstrip(b"\0")
  if cls == "gre" and f == "routing" and isinstance(v, list):
    import struct
    out = b""
    for ro in v:
      if isinstance(ro, bytes):
        out += ro
      elif isinstance(ro, list) and len(ro) == 4:
        out += struct.pack("!HBB", ro[0], ro[1], ro[2]) + ro[3]
      else:
        return v
    return out
  return v


def _lib_where(e):
  import os
  pk = os.path.join(REPO_ROOT, "pox", "lib") + os.sep
  lp = os.path.join(REPO_ROOT, "pox", "lib", "packet") + os.sep
  best = None
  for fn, func, _ in reversed(innermost_frames(e)):
    if fn.startswith(lp):
      return "%s:%s" % (os.path.relpath(fn, REPO_ROOT), func)
    if best is None and fn.startswith(pk):
      best = "%s:%s" % (os.path.relpath(fn, REPO_ROOT), func)
  return best


def _exc(out, e, clause, **extra):
  k = exc_key(e, clause=clause, **extra)
  w = _lib_where(e)
  if w:
    k["where"] = w
  out.violations.append({"key": k, "msg": "%s raised %r\n%s" % (clause, e, "".join(traceback.format_exception(e))[-1400:])})


def _chain(p, packet_base):
  out = []
  x = p
  while isinstance(x, packet_base) and len(out) < 1024:
    out.append(x)
    x = x.next
  return out, x


def _short(v):
  s = repr(v)
  return s if len(s) <= 120 else s[:117] + "..."


def _err_class(msg):
  return re.sub(r"[0-9]+", "N", msg or "")[:60]


def _carrier(d, off):
  """which network layer carries the transport header at off: ipv4, ipv6, ipv6+ext"""
  cur = "none"
  for l in d.layers:
    if l["off"] > off:
      break
    p = l["p"]
    if p in ("ipv4", "ipv6"):
      cur = p
    elif p.startswith("ipv6."):
      cur = "ipv6+ext"
    elif p in ("gre", "vxlan"):
      cur = "none"
  return cur


# --------------------------------------------------------------------------- headers the parser leaves undecoded
#
# The library can assemble some headers in formats its own parser documents it does not decode: pox.lib.packet.arp decodes the
# Ethernet / IPv4 format only (RFC 826 ar$hrd = 1, ar$hln = 6, ar$pro = 0x0800, ar$pln = 4), pox.lib.packet.igmp decodes
# IGMPv1 / v2 query, report, leave and the v3 report.  For those the property is judged as far as it can hold: the parse must
# stop AT that header (same class, the fields in front of the format-dependent part equal, nothing invented below it), and
# serialising the parsed result -- as it is, and after an edit of an enclosing header -- must carry the header's bytes
# through unchanged.  The predicate is written from the protocol documents and the classes' stated scope, not from parse().

def _undecoded_reason(rec):
  """why the library's parser is not expected to decode this (library-assembled) header, or None"""
  t = rec["t"]
  if t == "arp":
    why = [k for k, std in (("hwtype", 1), ("prototype", 0x0800), ("hwlen", 6)) if rec.get(k, std) != std]
    return "arp-" + "+".join(why) if why else None
  if t == "igmp" and rec["vt"] not in (0x11, 0x12, 0x16, 0x17, 0x22):
    return "igmp-type"
  return None


# POX class name -> the reference dissector's name of the layer
_UNDECODED_PROTO = {"arp": "arp", "igmp": "igmp"}
# the fields in front of the format-dependent part: readable whatever the format (an unparsed object must not misreport them) ...
_UNDECODED_FIELDS = {"arp": ["hwtype", "prototype", "hwlen", "protolen", "opcode"], "igmp": []}
# ... when there are at least as many octets as the class states it needs to look at all (arp.MIN_LEN: an Ethernet / IPv4 body;
# an ARP with hardware addresses of fewer than 6 octets and no padding is shorter)
_UNDECODED_MINLEN = {"arp": 28, "igmp": 8}


def _fields_for(cn, undecoded):
  return _UNDECODED_FIELDS.get(cn, []) if undecoded else _FIELDS.get(cn, [])


def _ui(und):
  return und[0] if und is not None else None


def _carried(d, frame, proto):
  """the bytes of the frame from the start of the last `proto` layer the reference dissector sees"""
  offs = [l["off"] for l in d.layers if l["p"] == proto]
  return frame[offs[-1]:] if offs else None


def judge(spec, out, edits=None):
  """assemble, pack, parse, compare, dissect.  Appends violations to out; returns labels info.
  edits: None (no edit-after-parse clause), "all", or an int selecting which editable targets are exercised."""
  L = setup()
  packet_base = L["packet_base"]
  pkt = L["pkt"]
  shape = "/".join(r["t"] for r in spec if r["t"] != "raw")

  try:
    p = assemble(spec)
  except HarnessError:
    raise
  except Exception as e:
    if _lib_where(e) is None:
      raise
    _exc(out, e, "build")
    return None
  try:
    b = p.pack()
  except Exception as e:
    _exc(out, e, "pack")
    return None
  if not isinstance(b, bytes):
    out.fail("pack-type", "pack() returned a %s for %s" % (type(b).__name__, shape), got=type(b).__name__)
    return None

  # ---- the reference must agree with itself on this spec before it may judge POX (harness self-check)
  rb = P.build(spec)
  rd = P.dissect(rb)
  if rd.error is not None or rd.bad_checks() or rd.protos() != P.expected_protos(spec):
    raise HarnessError("reference builder and dissector disagree on %s: %s %s %s" % (shape, rd.error, rd.bad_checks(), rd.protos()))
  out.label("same-bytes-as-reference" if rb == b else "differs-from-reference(not judged)")

  # ---- independent view of the emitted bytes
  d = P.dissect(b)
  exp = P.expected_protos(spec)
  got = d.protos()
  if d.error is not None or got != exp:
    # name the layer whose header mis-announces what follows it: the last layer both views agree on
    n = 0
    while n < len(exp) and n < len(got) and exp[n] == got[n]:
      n += 1
    after = (exp[n - 1] if n > 0 else "<frame>").split(".")[0]
    out.fail("wire-structure", "the emitted %s frame is not what its headers announce: reference dissector %s; it sees %s, the spec says %s\n%s"
             % (shape, ("stops with '%s'" % d.error) if d.error else "finds other layers", got, exp, b.hex()[:600]), after=after)
    return b          # the bytes are structurally wrong: a round trip of them proves nothing
  for c in d.bad_checks():
    extra = {}
    if c["name"] in ("udp.csum", "tcp.csum"):
      extra["over"] = _carrier(d, c["off"])
    out.fail("wire", "%s at offset %d of the emitted %s frame is %r, the reference says %r\n%s"
             % (c["name"], c["off"], shape, c["got"], c["want"], b.hex()[:600]), check=c["name"], **extra)
  if spec[-1]["t"] == "raw":
    want = P.payload_bytes(spec[-1])
    gotp = b[d.payload[0]:d.payload[1]] if d.payload else b""
    if gotp != want:
      out.fail("wire-payload", "payload located by the reference dissector in the emitted %s frame is %d bytes %s..., expected %d bytes %s...\n%s"
               % (shape, len(gotp), gotp[:12].hex(), len(want), want[:12].hex(), b.hex()[:600]), inner=(exp[-1] if exp else "?").split(".")[0])
      return b

  # ---- parse back
  try:
    q = pkt.ethernet(b)
  except Exception as e:
    _exc(out, e, "parse")
    return b
  pl, pend = _chain(p, packet_base)
  ql, qend = _chain(q, packet_base)
  recs = [r for r in spec if r["t"] != "raw"]
  und = None                    # (index, dissector name) of the layer the parser, as documented, left undecoded
  ok = True
  for i, x in enumerate(pl):
    cn = type(x).__name__
    why = _undecoded_reason(recs[i]) if len(recs) == len(pl) and i == len(pl) - 1 and cn in _UNDECODED_PROTO else None
    if i >= len(ql):
      if why is not None and isinstance(qend, bytes):
        # one of the two ways of leaving a header undecoded: the enclosing header keeps its bytes as the payload
        und = (i, _UNDECODED_PROTO[cn])
        out.label("undecoded:" + why)
        out.label("undecoded-as:bytes")
        if qend != _carried(d, b, und[1]):
          out.fail("undecoded-bytes", "layer %d (%s) of %s is left undecoded, but the bytes kept in its place are %s, on the wire it is %s"
                   % (i, cn, shape, _short(qend), _short(_carried(d, b, und[1]))), layer=cn)
          ok = False
        break
      got = "bytes" if isinstance(qend, bytes) else type(qend).__name__
      out.fail("chain", "layer %d of %s: built a %s, parsing the emitted bytes gives %s (%s)" % (i, shape, cn, got, _short(qend)),
               layer=cn, got=got)
      ok = False
      break
    y = ql[i]
    if type(y).__name__ != cn:
      out.fail("chain", "layer %d of %s: built a %s, parsed a %s" % (i, shape, cn, type(y).__name__), layer=cn, got=type(y).__name__)
      ok = False
      break
    fields = _FIELDS.get(cn, [])
    if y.parsed is not True:
      if why is None:
        out.fail("unparsed", "layer %d (%s) of %s: parsed flag is %r after parsing the library's own bytes" % (i, cn, shape, y.parsed), layer=cn)
        ok = False
        break
      # the other way: an object of the header's class that says of itself that it is not decoded
      und = (i, _UNDECODED_PROTO[cn])
      out.label("undecoded:" + why)
      out.label("undecoded-as:unparsed-object")
      fields = _UNDECODED_FIELDS[cn] if len(_carried(d, b, und[1])) >= _UNDECODED_MINLEN[cn] else []
    elif why is not None:
      out.label("decoded-although:" + why)
    for f in fields:
      a = _field_norm(cn, f, getattr(x, f, _MISSING), L)
      c = _field_norm(cn, f, getattr(y, f, _MISSING), L)
      if a != c:
        out.fail("field", "%s.%s of %s: built %s, parsed back %s" % (cn, f, shape, _short(a), _short(c)), layer=cn, field=f)
        ok = False
  if ok and len(ql) > len(pl):
    out.fail("chain", "%s: parsing found an extra %s below the innermost built layer" % (shape, type(ql[len(pl)]).__name__),
             layer="<end>", got=type(ql[len(pl)]).__name__)
    ok = False
  if ok and und is None:         # below an undecoded header nothing is separated: its bytes are judged by the repack clauses
    a = pend if pend is not None else b""
    c = qend if qend is not None else b""
    if a != c:
      out.fail("payload", "%s: innermost payload built %d bytes %s, parsed back %s" % (shape, len(a), _short(a[:16]), _short(c if not isinstance(c, bytes) else c[:16])),
               layer=type(pl[-1]).__name__)
      ok = False
  if ok:
    try:
      b2 = q.pack()
    except Exception as e:
      _exc(out, e, "repack")
    else:
      if b2 != b:
        n = next((i for i in range(min(len(b), len(b2))) if b[i] != b2[i]), min(len(b), len(b2)))
        at = "?"
        for l in d.layers:
          if l["off"] <= n < l["end"]:
            at = l["p"]
        out.fail("repack", "%s: re-serialising the parsed packet differs from the first serialisation at offset %d (%s): %s != %s"
                 % (shape, n, at, b2[n:n + 8].hex(), b[n:n + 8].hex()), at=at)
      elif edits is not None:
        _edit_clause(b, d, shape, out, edits, und)
        _reparent_clause(b, d, spec, shape, out, und)
  return b


# --------------------------------------------------------------------------- edit after parse

# public header fields a packet-rewriting application may set on a parsed packet: (bit width | "eth" | "ip4" | "ip6" | "bool").
# Kept out on purpose: demultiplexing keys (ethernet.type, vlan.eth_type, ipv4.protocol / frag, ipv6.next_header_type, icmp.type,
# icmpv6.type, eapol.type, eap.code, gre.type, mpls.s, llc SAPs / control, UDP ports when an application parser follows), fields
# the library derives in hdr() (lengths, checksums, tcp.off, ipv4.hl / raw_options), DHCP options (the option dictionary tracks
# shallow changes only, by design), and values that are absent (gre.key / seq / vxlan.vni == None).
_EDITABLE = {
  "ethernet": {"dst": "eth", "src": "eth"},
  "vlan": {"pcp": 3, "cfi": 1, "id": 12},
  "arp": {"opcode": 16, "hwsrc": "eth", "hwdst": "eth", "protosrc": "ip4", "protodst": "ip4"},
  "ipv4": {"tos": 8, "id": 16, "flags": 3, "ttl": 8, "srcip": "ip4", "dstip": "ip4"},
  "ipv6": {"tc": 8, "flow": 20, "hop_limit": 8, "srcip": "ip6", "dstip": "ip6"},
  "icmp": {"code": 8}, "echo": {"id": 16, "seq": 16}, "unreach": {"unused": 16, "next_mtu": 16}, "time_exceeded": {"unused": 32},
  "icmpv6": {"code": 8}, "PacketTooBig": {"mtu": 32},
  "NDRouterAdvertisement": {"hop_limit": 8, "is_managed": "bool", "is_other": "bool", "lifetime": 16, "reachable": 32, "retrans_timer": 32},
  "NDNeighborSolicitation": {"target": "ip6"},
  "NDNeighborAdvertisement": {"target": "ip6", "is_router": "bool", "is_solicited": "bool", "is_override": "bool"},
  "tcp": {"srcport": 16, "dstport": 16, "seq": 32, "ack": 32, "res": 4, "flags": 8, "win": 16, "urg": 16},
  "udp": {"srcport": 16, "dstport": 16},
  "dhcp": {"op": 8, "hops": 8, "xid": 32, "secs": 16, "flags": 16, "ciaddr": "ip4", "yiaddr": "ip4", "siaddr": "ip4", "giaddr": "ip4"},
  "dns": {"id": 16, "qr": "bool", "aa": "bool", "tc": "bool", "rd": "bool", "ra": "bool", "z": "bool", "ad": "bool", "cd": "bool", "rcode": 4},
  "mpls": {"label": 20, "tc": 3, "ttl": 8},
  "gre": {"key": 32, "seq": 32, "route_offset": 16, "strict_source_route": "bool", "recursion": 3},
  "vxlan": {"vni": 24},
  "igmp": {"max_response_time": 8, "address": "ip4"},
  "rip": {"command": 8, "version": 8},
  "eapol": {"version": 8}, "eap": {"id": 8},
}
# fields hdr() recomputes: not required to stay what they were when something else is edited
_DERIVED = {("ipv4", "csum"), ("ipv4", "iplen"), ("ipv6", "payload_length"), ("udp", "csum"), ("udp", "len"), ("tcp", "csum"), ("tcp", "off"),
            ("icmp", "csum"), ("icmpv6", "csum"), ("igmp", "csum"), ("gre", "csum")}


def _other_value(kind, v, L):
  if kind == "bool":
    return not v
  if kind == "eth":
    r = v.raw
    return L["EthAddr"](r[:5] + bytes([r[5] ^ 1]))
  if kind == "ip4":
    r = v.raw
    return L["IPAddr"](r[:3] + bytes([r[3] ^ 1]))
  if kind == "ip6":
    r = v.raw
    return L["IPAddr6"](r[:15] + bytes([r[15] ^ 1]), raw=True)
  return v ^ 1            # an int of the given width: flipping the low bit stays in range


def _edit_targets(layers, L, und=None):
  """[(label, layer index, apply(obj_layers))]: every edit applicable to this parsed chain (und: index of an undecoded layer,
  whose attributes do not reflect the bytes and are not edited)"""
  out = []
  for i, x in enumerate(layers):
    cn = type(x).__name__
    if i == _ui(und):
      continue
    for f, kind in sorted(_EDITABLE.get(cn, {}).items()):
      v = getattr(x, f, None)
      if v is None:
        continue
      if cn == "udp" and not isinstance(x.next, bytes):
        continue                      # the ports select the application parser
      if cn == "udp" and (v ^ 1) in P.UDP_APP_PORTS:
        continue
      if cn == "igmp" and f == "max_response_time" and x.ver_and_type == 0x22:
        continue                      # not a field of a v3 report
      if cn == "gre" and f == "route_offset" and x.csum is None and x.routing is None:
        continue                      # no checksum/offset word on the wire
      if kind in ("eth", "ip4", "ip6") and not hasattr(v, "raw"):
        continue

      def ap(ls, i=i, f=f, kind=kind):
        setattr(ls[i], f, _other_value(kind, getattr(ls[i], f), L))
      out.append(("%s.%s" % (cn, f), i, ap))
    # values of options / TLVs / records, changed in place
    if cn == "tcp":
      for k, o in enumerate(x.options):
        if type(o).__name__ == "tcp_opt" and o.type in (2, 3) and isinstance(o.val, int):
          def ap(ls, i=i, k=k):
            ls[i].options[k].val ^= 1
          out.append(("tcp.options[].val", i, ap))
        elif type(o).__name__ == "tcp_opt" and o.type == 8 and o.val is not None:
          def ap(ls, i=i, k=k):
            v = ls[i].options[k].val
            ls[i].options[k].val = (v[0] ^ 1, v[1])
          out.append(("tcp.options[].val", i, ap))
    elif cn == "lldp":
      for k, t in enumerate(x.tlvs):
        tn = type(t).__name__
        if tn == "ttl":
          def ap(ls, i=i, k=k):
            ls[i].tlvs[k].ttl ^= 1
          out.append(("lldp.tlvs[].ttl", i, ap))
        elif tn in ("system_name", "system_description", "port_description") and isinstance(t.payload, bytes):
          def ap(ls, i=i, k=k):
            pl = ls[i].tlvs[k].payload
            ls[i].tlvs[k].payload = (pl + b"!") if len(pl) < 511 else pl[:-1]
          out.append(("lldp.tlvs[].payload", i, ap))
    elif cn == "dns":
      for sec in ("answers", "authorities", "additional"):
        for k, r in enumerate(getattr(x, sec)):
          def ap(ls, i=i, k=k, sec=sec):
            getattr(ls[i], sec)[k].ttl ^= 1
          out.append(("dns.%s[].ttl" % sec, i, ap))
          break
      if x.questions:
        def ap(ls, i=i):
          ls[i].questions[0].qclass ^= 1
        out.append(("dns.questions[].qclass", i, ap))
    elif cn == "rip":
      for k, e in enumerate(x.entries[:2]):
        def ap(ls, i=i, k=k):
          ls[i].entries[k].route_tag ^= 1
        out.append(("rip.entries[].route_tag", i, ap))
    elif cn == "igmp":
      for k, g in enumerate(x.group_records[:2]):
        def ap(ls, i=i, k=k):
          ls[i].group_records[k].type ^= 1
        out.append(("igmp.group_records[].type", i, ap))
    elif cn in ("NDRouterSolicitation", "NDRouterAdvertisement", "NDNeighborSolicitation", "NDNeighborAdvertisement"):
      for k, o in enumerate(x.options):
        if type(o).__name__ == "NDOptMTU":
          def ap(ls, i=i, k=k):
            ls[i].options[k].mtu ^= 1
          out.append(("nd.options[].mtu", i, ap))
        elif type(o).__name__ in ("NDOptSourceLinkLayerAddress", "NDOptTargetLinkLayerAddress"):
          def ap(ls, i=i, k=k):
            ls[i].options[k].address = _other_value("eth", ls[i].options[k].address, L)
          out.append(("nd.options[].address", i, ap))
  return out


def _snapshot(layers, L, und=None):
  return [(type(x).__name__, {f: _field_norm(type(x).__name__, f, getattr(x, f, _MISSING), L) for f in _fields_for(type(x).__name__, j == _ui(und))})
          for j, x in enumerate(layers)]


def _edit_clause(b, d0, shape, out, edits, und=None):
  """metamorphic strengthening of "serialising the parsed result": q = ethernet(b); one field (or one option / TLV value, in place)
  of one layer is set to another valid value; b2 = q.pack(); r = ethernet(b2).  The edited value must read back, every other judged
  field and the payload must be unchanged, b2's lengths and checksums must be valid per the reference, and r.pack() == b2."""
  L = setup()
  pkt, packet_base = L["pkt"], L["packet_base"]
  q0 = pkt.ethernet(b)
  targets = _edit_targets(_chain(q0, packet_base)[0], L, und)
  if not targets:
    return
  if edits == "all":
    chosen = list(range(len(targets)))
  else:
    chosen = sorted({(edits + j * 7) % len(targets) for j in range(3)})
  pay0 = b[d0.payload[0]:d0.payload[1]] if d0.payload else None
  for ti in chosen:
    label = targets[ti][0]
    q = pkt.ethernet(b)                      # a fresh parse for every edit
    ql, qend = _chain(q, packet_base)
    before = _snapshot(ql, L, und)
    i = targets[ti][1]
    try:
      _edit_targets(ql, L, und)[ti][2](ql)
      for x in ql:                           # documented: a numeric gre.csum is emitted as is; True asks for recomputation
        if type(x).__name__ == "gre" and x.csum is not None:
          x.csum = True
      b2 = q.pack()
    except Exception as e:
      _exc(out, e, "edit", edited=label, what="pack")
      continue
    out.label("edited:" + label.split(".")[0] + ("(above-undecoded)" if und is not None else ""))
    after = _snapshot(ql, L, und)
    # the edit must not disturb any other judged field of the object
    ecls, efield = label.split(".", 1)
    efield = efield.split("[")[0]
    for li, ((cn, fa), (_, fb)) in enumerate(zip(before, after)):
      for f in fa:
        if (li == i and f == efield) or (cn, f) in _DERIVED:
          continue
        if fa[f] != fb[f]:
          out.fail("edit", "%s: setting %s also changed %s.%s from %s to %s" % (shape, label, cn, f, _short(fa[f]), _short(fb[f])),
                   edited=label, what="disturbs:%s.%s" % (cn, f))
    if after[i][1].get(efield) == before[i][1].get(efield):
      raise HarnessError("edit %s of %s did not change the object" % (label, shape))
    d2 = P.dissect(b2)
    if d2.error is not None or d2.protos() != d0.protos():
      out.fail("edit", "%s: after setting %s the re-serialised frame no longer dissects as before: %s %s (was %s)\n%s"
               % (shape, label, d2.error, d2.protos(), d0.protos(), b2.hex()[:600]), edited=label, what="wire-structure")
      continue
    for c in d2.bad_checks():
      if c["name"] == "802.3.length":
        continue      # kept by the caller, not by the library: an edit that changes an inner length (DNS re-compression) leaves it stale
      out.fail("edit", "%s: after setting %s, %s at offset %d of the re-serialised frame is %r, the reference says %r\n%s"
               % (shape, label, c["name"], c["off"], c["got"], c["want"], b2.hex()[:600]), edited=label, what="wire:" + c["name"])
    if pay0 is not None and (b2[d2.payload[0]:d2.payload[1]] if d2.payload else None) != pay0:
      out.fail("edit", "%s: after setting %s the payload in the re-serialised frame changed" % (shape, label), edited=label, what="payload")
    if und is not None:
      pn = und[1]
      if _carried(d2, b2, pn) != _carried(d0, b, pn):
        out.fail("edit", "%s: after setting %s the bytes of the undecoded %s header were not carried through: %s, were %s"
                 % (shape, label, pn, _short(_carried(d2, b2, pn)), _short(_carried(d0, b, pn))), edited=label, what="undecoded-bytes")
    try:
      r = pkt.ethernet(b2)
    except Exception as e:
      _exc(out, e, "edit", edited=label, what="parse")
      continue
    rl, rend = _chain(r, packet_base)
    got = _snapshot(rl, L, und)
    if [c for c, _ in got] != [c for c, _ in after] or any(x.parsed is not True for j, x in enumerate(rl) if j != _ui(und)):
      out.fail("edit", "%s: after setting %s the re-serialised frame parses as %s" % (shape, label, [c for c, _ in got]), edited=label, what="chain")
      continue
    bad = False
    for (cn, fa), (_, fr) in zip(after, got):
      for f in fa:
        if fa[f] != fr[f]:
          bad = True
          out.fail("edit", "%s: after setting %s and re-serialising, %s.%s reads %s, the edited object says %s"
                   % (shape, label, cn, f, _short(fr[f]), _short(fa[f])), edited=label, what="field:%s.%s" % (cn, f))
    a = qend if qend is not None else b""
    c = rend if rend is not None else b""
    if not bad and a != c:
      out.fail("edit", "%s: after setting %s the innermost payload changed" % (shape, label), edited=label, what="payload")
      bad = True
    if not bad:
      try:
        b3 = r.pack()
      except Exception as e:
        _exc(out, e, "edit", edited=label, what="repack")
        continue
      if b3 != b2:
        out.fail("edit", "%s: after setting %s, re-serialising the re-parsed packet gives other bytes" % (shape, label), edited=label, what="repack")


# --------------------------------------------------------------------------- re-parenting (the NAT / proxy pattern)

def _new_ip(x, L, cross):
  """a freshly built IP header with other addresses carrying what x carries; cross=True: of the other IP version"""
  pkt, IPAddr, IPAddr6 = L["pkt"], L["IPAddr"], L["IPAddr6"]
  v4 = type(x).__name__ == "ipv4"
  s, d = x.srcip.raw, x.dstip.raw
  if v4 != cross:               # result is IPv4
    if v4:
      src, dst = IPAddr(s[:3] + bytes([s[3] ^ 0x55])), IPAddr(d[:3] + bytes([d[3] ^ 0x2a]))
      return pkt.ipv4(srcip=src, dstip=dst, tos=x.tos, id=x.id ^ 1, flags=x.flags, frag=x.frag, ttl=x.ttl ^ 1, protocol=x.protocol,
                      raw_options=x.raw_options, hl=x.hl)
    return pkt.ipv4(srcip=IPAddr(s[12:]), dstip=IPAddr(d[12:]), ttl=x.hop_limit, protocol=x.payload_type, id=1)
  if not v4:
    src, dst = IPAddr6(s[:15] + bytes([s[15] ^ 0x55]), raw=True), IPAddr6(d[:15] + bytes([d[15] ^ 0x2a]), raw=True)
    return pkt.ipv6(srcip=src, dstip=dst, tc=x.tc, flow=x.flow ^ 1, hop_limit=x.hop_limit ^ 1, next_header_type=x.next_header_type,
                    extension_headers=list(x.extension_headers))
  return pkt.ipv6(srcip=IPAddr6(b"\x20\x01\x0d\xb8" + b"\0" * 8 + s, raw=True), dstip=IPAddr6(b"\x20\x01\x0d\xb8" + b"\0" * 8 + d, raw=True),
                  hop_limit=x.ttl, next_header_type=x.protocol)


def _reparent_targets(layers):
  """[(layer index, cross)]: IP layers that can be replaced by a fresh header"""
  out = []
  for i, x in enumerate(layers):
    cn = type(x).__name__
    if cn not in ("ipv4", "ipv6") or i == 0:
      continue
    par = type(layers[i - 1]).__name__
    if par not in ("ethernet", "vlan", "llc", "gre"):
      continue                  # quoted datagrams inside ICMP errors are not re-addressed
    if par == "llc" and not layers[i - 1].has_snap:
      continue
    out.append((i, False))
    nxt = type(x.next).__name__
    if nxt in ("tcp", "udp") and par in ("ethernet", "vlan") and not (cn == "ipv4" and x.frag):
      out.append((i, True))     # the other IP version is meaningful for TCP / UDP
  return out


def _reparent_clause(b, d0, spec, shape, out, und=None):
  """parse (or assemble) -> build a NEW outer IP header with other addresses -> new.payload = old.payload -> parent.payload = new ->
  pack.  The transport checksums must cover the new addresses, lengths must be right, and the result must survive the round trip."""
  L = setup()
  pkt, packet_base = L["pkt"], L["packet_base"]
  n_targets = len(_reparent_targets(_chain(pkt.ethernet(b), packet_base)[0]))
  pay0 = b[d0.payload[0]:d0.payload[1]] if d0.payload else None
  for source in ("parsed", "assembled"):
    for ti in range(n_targets):
      top = pkt.ethernet(b) if source == "parsed" else assemble(spec)
      ls = _chain(top, packet_base)[0]
      tg = _reparent_targets(ls)
      if ti >= len(tg):
        continue
      i, cross = tg[ti]
      old = ls[i]
      v4 = type(old).__name__ == "ipv4"
      label = "%s->%s" % (type(old).__name__, ("ipv6" if v4 else "ipv4") if cross else type(old).__name__)
      try:
        new = _new_ip(old, L, cross)
        if old.next is not None:
          new.payload = old.next
        par = ls[i - 1]
        par.payload = new
        if cross:
          et = 0x86dd if v4 else 0x0800
          if type(par).__name__ == "ethernet":
            par.type = et
          else:
            par.eth_type = et
        for x in ls:
          if type(x).__name__ == "gre" and x.csum is not None:
            x.csum = True
        b2 = top.pack()
      except Exception as e:
        _exc(out, e, "reparent", under=label, source=source, what="pack")
        continue
      out.label("reparented:" + label)
      exp = list(d0.protos())
      if cross:
        ips = [j for j, pn in enumerate(exp) if pn in ("ipv4", "ipv6")]
        j = ips[sum(1 for x in ls[:i] if type(x).__name__ in ("ipv4", "ipv6"))]
        rest = exp[j + 1:]
        while rest and rest[0].startswith("ipv6."):
          rest = rest[1:]                       # the replaced IPv6 header's extension headers are gone
        exp = exp[:j] + ["ipv6" if v4 else "ipv4"] + rest
      d2 = P.dissect(b2)
      if d2.error is not None or d2.protos() != exp:
        out.fail("reparent", "%s: after putting the %s payload of the %s packet under a new %s header the frame dissects as %s (%s), expected %s\n%s"
                 % (shape, type(old).__name__, source, label.split(">")[1], d2.protos(), d2.error, exp, b2.hex()[:600]),
                 under=label, source=source, what="wire-structure")
        continue
      for c in d2.bad_checks():
        if c["name"] == "802.3.length":
          continue              # kept by the caller
        out.fail("reparent", "%s: %s payload of the %s packet under a new %s header: %s at offset %d is %r, the reference says %r\n%s"
                 % (shape, type(old).__name__, source, label.split(">")[1], c["name"], c["off"], c["got"], c["want"], b2.hex()[:600]),
                 under=label, source=source, what="wire:" + c["name"])
      if pay0 is not None and (b2[d2.payload[0]:d2.payload[1]] if d2.payload else None) != pay0:
        out.fail("reparent", "%s: payload changed under the new %s header" % (shape, label), under=label, source=source, what="payload")
      if und is not None:
        pn = und[1]
        if _carried(d2, b2, pn) != _carried(d0, b, pn):
          out.fail("reparent", "%s: the bytes of the undecoded %s header of the %s packet were not carried under the new %s header"
                   % (shape, pn, source, label), under=label, source=source, what="undecoded-bytes")
      try:
        r = pkt.ethernet(b2)
      except Exception as e:
        _exc(out, e, "reparent", under=label, source=source, what="parse")
        continue
      want = _snapshot(_chain(top, packet_base)[0], L, und)
      got = _snapshot(_chain(r, packet_base)[0], L, und)
      if und is not None and len(got) == und[0] and len(want) == und[0] + 1:
        want = want[:und[0]]      # the undecoded header is kept as bytes by the enclosing header: no object to compare
      if [c for c, _ in got] != [c for c, _ in want]:
        out.fail("reparent", "%s: under the new %s header the frame parses as %s, built %s" % (shape, label, [c for c, _ in got], [c for c, _ in want]),
                 under=label, source=source, what="chain")
        continue
      bad = False
      for (cn, fa), (_, fr) in zip(want, got):
        for f in fa:
          if fa[f] != fr[f]:
            bad = True
            out.fail("reparent", "%s: under the new %s header %s.%s reads %s, the object says %s" % (shape, label, cn, f, _short(fr[f]), _short(fa[f])),
                     under=label, source=source, what="field:%s.%s" % (cn, f))
      if not bad:
        try:
          b3 = r.pack()
        except Exception as e:
          _exc(out, e, "reparent", under=label, source=source, what="repack")
          continue
        if b3 != b2:
          out.fail("reparent", "%s: re-serialising the re-parsed frame under the new %s header gives other bytes" % (shape, label),
                   under=label, source=source, what="repack")


def _variants(spec):
  """the spec itself and, when its payload length is free, the neighbouring length of the other parity"""
  last = spec[-1]
  if last["t"] == "raw" and "len" in last and not last.get("fixed"):
    n = last["len"]
    m = n + 1 if n % 2 == 0 else n - 1
    return [spec, spec[:-1] + [dict(last, len=m)]]
  return [spec]


def _fit_8023(spec):
  """an 802.3 length field can announce at most 1500 bytes: shorten the free payload to fit, else skip"""
  for i, r in enumerate(spec):
    if r["t"] == "llc":
      excess = len(P.build(spec[i:])) + 2 - 1500        # + 2: room for the twin and for odd padding
      if excess <= 0:
        return spec
      last = spec[-1]
      if last["t"] == "raw" and "len" in last and not last.get("fixed") and last["len"] >= excess:
        return spec[:-1] + [dict(last, len=last["len"] - excess)]
      return None
  return spec


def _limit_labels(spec):
  """which variable-length elements of the spec sit at or next to their length limit (for the evidence distribution)"""
  out = set()
  for r in spec:
    t = r["t"]
    if t == "ipv4" and len(r.get("opts", b"")) == 40:
      out.add("limit:ipv4-options-40")
    elif t == "tcp" and r.get("opts") and len(P._tcp_options(r["opts"])) == 40:
      out.add("limit:tcp-options-40")
    elif t == "ipv6":
      for e in r.get("ext", []):
        if len(e["body"]) >= 6 + 8 * 254:
          out.add("limit:ipv6-ext-len>=254")
    elif t == "lldp":
      for x in r["tlvs"]:
        n = len(P._lldp({"tlvs": [x]})) - 2
        if n >= 510:
          out.add("limit:lldp-tlv-510..511")
        elif n >= 256:
          out.add("limit:lldp-tlv>=256")
        elif n == 255:
          out.add("limit:lldp-tlv-255")
    elif t == "dhcp":
      for o in r.get("opts", []):
        n = len(P.dhcp_option_bytes(o))
        if n > 255:
          out.add("limit:dhcp-option>255(split)")
        elif n >= 254:
          out.add("limit:dhcp-option-254..255")
      if len(r.get("sname", b"")) == 64 or len(r.get("file", b"")) == 128:
        out.add("limit:dhcp-sname/file-full")
    elif t == "dns":
      for x in r.get("q", []) + r.get("an", []) + r.get("ns", []) + r.get("ar", []):
        names = [x["name"]] + ([x["rd"]["name"]] if "rd" in x and "name" in x["rd"] else [])
        for nm in names:
          if any(len(l) == 63 for l in nm.split(".")):
            out.add("limit:dns-label-63")
          if len(P.dns_name(nm)) >= 254:
            out.add("limit:dns-name-254..255")
    elif t == "igmp3":
      for g in r["records"]:
        if len(g["srcs"]) >= 255:
          out.add("limit:igmp3-sources>=255")
        if len(g.get("aux", b"")) >= 4 * 254:
          out.add("limit:igmp3-aux>=254w")
    elif t == "rip" and len(r.get("entries", [])) >= 24:
      out.add("limit:rip-entries-24..25")
    elif t in ("nd_rs", "nd_ra", "nd_ns", "nd_na"):
      for o in r.get("opts", []):
        if o["k"] == "gen" and len(o["data"]) >= 8 * 254 - 2:
          out.add("limit:nd-option-len>=254")
    elif t == "gre":
      for sre in r.get("routing") or []:
        if len(sre[2]) >= 254:
          out.add("limit:gre-sre-254..255")
  return out


def run_case(case):
  setup()
  spec = case["spec"]
  out = Outcome()
  protos = [r["t"] for r in spec if r["t"] != "raw"]
  out.label("shape:" + case.get("shape", "/".join(protos)))
  for t in sorted(set(protos)):
    out.label("p:" + t)
  spec = _fit_8023(spec)
  if spec is None:
    out.label("skipped:llc-pdu-over-1500")
    return out
  variants = _variants(spec) if case.get("twin", True) else [spec]
  structured = spec[-1]["t"] != "raw"
  nonempty = structured or any(v[-1].get("len", len(v[-1].get("data", b""))) > 0 for v in variants)
  out.nontrivial = len(protos) >= 3 and nonempty
  for lab in sorted(_limit_labels(spec)):
    out.label(lab)
  for r in spec:
    if r["t"] == "ipv4" and r.get("opts"):
      out.label("ipv4-options")
    if r["t"] == "ipv4" and r.get("frag"):
      out.label("ipv4-fragment")
    if r["t"] == "ipv6" and r.get("ext"):
      out.label("ipv6-ext-headers")
    if r["t"] == "tcp" and r.get("opts"):
      out.label("tcp-options")
  for vi, v in enumerate(variants):
    b = judge(v, out, edits=case.get("edit") if vi == 0 or case.get("edit") == "all" else None)
    if v[-1]["t"] == "raw":
      n = v[-1].get("len", len(v[-1].get("data", b"")))
      out.label("payload-odd" if n % 2 else "payload-even")
      out.label("payload-0" if n == 0 else "payload-1..63" if n < 64 else "payload-64..1500")
    if b is not None:
      out.label("frame-odd" if len(b) % 2 else "frame-even")
      out.label("packed")
  if out.violations:
    out.label("violating")
  return out


# --------------------------------------------------------------------------- drivers

def enum_catalog(tier):
  lens = [0, 6] if tier == "quick" else [0] + list(range(2, 66, 2)) + [1498, 1500]
  cats = {n: P.catalog(n) for n in set(lens) | {6}}
  for idx, (name, spec) in enumerate(cats[6]):
    if P.has_free_payload(spec):
      for n in lens:
        if n > 1400 and any(r["t"] in ("llc", "gre", "vxlan") for r in spec):
          continue
        yield {"spec": cats[n][idx][1], "shape": "catalog:" + name, "edit": "all"}
    else:
      yield {"spec": spec, "shape": "catalog:" + name, "edit": "all"}


def _unfolded(data):
  data = bytes(data)
  if len(data) % 2:
    data += b"\0"
  return sum((data[i] << 8) | data[i + 1] for i in range(0, len(data), 2))


def _directed_payload(prefix_layers, n, target):
  """payload of n pattern bytes + 2 filler bytes chosen (with the reference arithmetic) so that the L4 checksum
  of the frame hits a corner: 'zero' -> the computed checksum is 0x0000 (UDP must send 0xffff);
  'carry' -> folding the 32-bit sum once overflows again (the end-around carry must be applied twice)."""
  from ..ref import rfc1071 as R
  body = P.pattern(n, 1 if target == "carry" else 5)
  frame = P.build(prefix_layers + [{"t": "raw", "data": body + b"\0\0"}])
  d = P.dissect(frame)
  ip = None
  seg = None
  for l in d.layers:
    if l["p"] in ("ipv4", "ipv6"):
      ip = l
    if l["p"] in ("udp", "tcp", "icmp", "icmp6"):
      seg = l
  end = len(frame)
  segb = bytearray(frame[seg["off"]:end])
  co = {"udp": 6, "tcp": 16, "icmp": 2, "icmp6": 2}[seg["p"]]
  segb[co:co + 2] = b"\0\0"
  proto = {"udp": 17, "tcp": 6, "icmp6": 58}.get(seg["p"])
  if seg["p"] == "icmp":
    ph = b""
  elif ip["p"] == "ipv4":
    ph = R.pseudo4(frame[ip["off"] + 12:ip["off"] + 16], frame[ip["off"] + 16:ip["off"] + 20], proto, len(segb))
  else:
    ph = R.pseudo6(frame[ip["off"] + 8:ip["off"] + 24], frame[ip["off"] + 24:ip["off"] + 40], proto, len(segb))
  S = _unfolded(ph + bytes(segb))
  if target == "zero":
    f = 0xffff - R.ones_sum(ph + bytes(segb))
  else:
    f = (0xffff - (S & 0xffff)) & 0xffff
  return body + f.to_bytes(2, "big")


def enum_directed(tier):
  """checksum corner cases that random payloads meet with probability ~2^-16 / ~n*2^-17"""
  e = P._eth()
  stacks = [
    ("udp4", [e, P._ip4(), {"t": "udp", "sport": 1000, "dport": 2000}]),
    ("udp6", [e, P._ip6(), {"t": "udp", "sport": 1000, "dport": 2000}]),
    ("tcp4", [e, P._ip4(), {"t": "tcp"}]),
    ("tcp6", [e, P._ip6(), {"t": "tcp", "opts": [{"k": "mss", "v": 1440}]}]),
    ("icmp4", [e, P._ip4(), {"t": "icmp", "type": 8}, {"t": "echo", "id": 1, "seq": 2}]),
    ("icmp6", [e, P._ip6(), {"t": "icmp6", "type": 128}, {"t": "echo6", "id": 1, "seq": 2}]),
  ]
  sizes = [4, 32, 258] if tier == "quick" else [0, 2, 4, 6, 32, 64, 130, 258, 514, 1000, 1398]
  for name, prefix in stacks:
    for n in sizes:
      for target in ("zero", "carry"):
        if target == "carry" and n < 4:
          continue
        data = _directed_payload(prefix, n, target)
        yield {"spec": prefix + [{"t": "raw", "data": data}], "shape": "directed:%s-%s" % (name, target), "twin": False}


def enum_limits(tier):
  """every variable-length element at its length limits: min, max, max-1 and a boundary in between"""
  e, ip4, ip6, u = P._eth(), P._ip4(), P._ip6(), {"t": "udp"}
  le = P._eth(dst=bytes.fromhex("0180c200000e"))
  pay = P._raw(6)
  B = lambda n, k=3: P.pattern(n, k)
  mand = [{"k": "chassis", "sub": 4, "id": P.M1}, {"k": "port", "sub": 2, "id": b"1"}, {"k": "ttl", "v": 120}]
  end = [{"k": "end"}]

  def lldp(name, tlvs):
    return ("lldp-" + name, [le, {"t": "lldp", "tlvs": tlvs}])

  out = []
  # LLDP: the TLV length is 9 bits (0..511)
  for n in (0, 1, 255, 256, 257, 511):
    for k in ("portdesc", "sysname", "sysdesc"):
      out.append(lldp("%s-%d" % (k, n), mand + [{"k": k, "v": B(n)}] + end))
    out.append(lldp("unk-%d" % n, mand + [{"k": "unk", "type": 9, "data": B(n)}] + end))
  for n in (0, 1, 251, 252, 253, 507):
    out.append(lldp("org-%d" % n, mand + [{"k": "org", "oui": b"\x00\x26\xe1", "sub": 1, "data": B(n)}] + end))
  for n in (1, 2, 254, 255, 256, 510):
    out.append(lldp("chassis-%d" % n, [{"k": "chassis", "sub": 7, "id": B(n)}] + mand[1:] + end))
    out.append(lldp("port-%d" % n, [mand[0], {"k": "port", "sub": 7, "id": B(n)}, mand[2]] + end))
  for al, ol in ((1, 0), (4, 0), (16, 2), (31, 128), (254, 0), (31, 255)):
    out.append(lldp("mgmt-%d-%d" % (al, ol), mand + [{"k": "mgmt", "asub": 1, "addr": B(al), "isub": 2, "ifnum": 1, "oid": B(ol)}] + end))
  out.append(lldp("many", mand + [{"k": "sysname", "v": B(511 - i)} for i in range(4)] + end))
  # IPv4 options: 0..40 bytes
  for n in (4, 8, 36, 40):
    out.append(("ipv4-opts-%d" % n, [e, dict(ip4, opts=B(n)), u, pay]))
    out.append(("ipv4-opts-%d-tcp" % n, [e, dict(ip4, opts=B(n)), {"t": "tcp"}, pay]))
  # TCP options: the option area is at most 40 bytes
  tcps = {
    "unk-0": [{"k": "unk", "type": 254, "data": b""}], "unk-1": [{"k": "unk", "type": 254, "data": B(1)}],
    "unk-37": [{"k": "unk", "type": 254, "data": B(37)}], "unk-38": [{"k": "unk", "type": 254, "data": B(38)}],
    "nop-40": [{"k": "nop"}] * 40, "nop-39": [{"k": "nop"}] * 39, "nop-1": [{"k": "nop"}],
    "sack-1": [{"k": "sack", "v": [[1, 2]]}], "sack-3": [{"k": "sack", "v": [[1, 2], [3, 4], [5, 0xffffffff]]}],
    "sack-4": [{"k": "sack", "v": [[1, 2], [3, 4], [5, 6], [7, 8]]}],
    "sack-4-mss-nopnop": [{"k": "sack", "v": [[1, 2], [3, 4], [5, 6], [7, 8]]}, {"k": "nop"}, {"k": "nop"}, {"k": "mss", "v": 0xffff}],
    "ts-x4": [{"k": "ts", "v": [0xffffffff, 0]}] * 4, "mss-x10": [{"k": "mss", "v": 536}] * 10,
    "mpcap-20x2": [{"k": "mpcap", "flags": 0xff, "skey": B(8), "rkey": B(8, 4), "ver": 15}] * 2,
    "mpjoin-24-16": [{"k": "mpjoin", "phase": 3, "flags": 1, "addr_id": 255, "rtoken": B(4), "srand": B(4), "shmac": B(20)},
                     {"k": "mpjoin", "phase": 2, "flags": 0, "addr_id": 0, "rtoken": B(4), "srand": B(4), "shmac": B(20)}],
    "mpdss-max": [{"k": "mpdss", "flags": 0x1f, "ack": 2 ** 64 - 1, "dsn": 2 ** 64 - 1, "seq": 2 ** 32 - 1, "length": 0xffff, "csum": 0xffff}],
    "mpdss-min": [{"k": "mpdss", "flags": 0, "ack": 0, "dsn": 0, "seq": 0, "length": 0, "csum": 0}],
  }
  for name, opts in tcps.items():
    out.append(("tcp4-" + name, [e, ip4, {"t": "tcp", "opts": opts}, pay]))
    out.append(("tcp6-" + name, [e, ip6, {"t": "tcp", "opts": opts}, pay]))
  # DHCP: option values 1..255 and the RFC 3396 split above 255; sname / file filled completely
  for n in (1, 2, 254, 255, 256, 300, 510, 511, 765):
    out.append(("dhcp-raw43-%d" % n, [e, ip4, u, {"t": "dhcp", "chaddr": P.M1, "opts": [{"code": 53, "k": "msgtype", "v": 1}, {"code": 43, "k": "raw", "v": B(n)}]}]))
    out.append(("dhcp-raw200-%d" % n, [e, ip4, u, {"t": "dhcp", "chaddr": P.M1, "opts": [{"code": 200, "k": "raw", "v": B(n)}]}]))
  for n in (1, 2, 63):
    out.append(("dhcp-ips-%d" % n, [e, ip4, u, {"t": "dhcp", "chaddr": P.M1, "opts": [{"code": 6, "k": "ips", "v": [bytes([10, 0, i // 256, i % 256]) for i in range(n)]}]}]))
  for n in (0, 1, 254, 255):
    out.append(("dhcp-params-%d" % n, [e, ip4, u, {"t": "dhcp", "chaddr": P.M1, "opts": [{"code": 55, "k": "params", "v": bytes(range(1, n + 1))}]}]))
  for sn, fn in ((1, 1), (63, 127), (64, 128), (64, 0), (0, 128)):
    out.append(("dhcp-sname%d-file%d" % (sn, fn), [e, ip4, u, {"t": "dhcp", "chaddr": P.M1, "sname": b"s" * sn, "file": b"f" * fn,
                                                              "opts": [{"code": 53, "k": "msgtype", "v": 2}]}]))
  out.append(("dhcp-many", [e, ip4, u, {"t": "dhcp", "chaddr": P.M1, "opts": [{"code": c, "k": "raw", "v": B(20, c)} for c in range(60, 120)]}]))
  # DNS: labels up to 63 octets, names up to 255 octets on the wire
  L = lambda n, c="a": c * n
  names = {"label-1": "a", "label-62": L(62), "label-63": L(63), "name-255": ".".join([L(63), L(63, "b"), L(63, "c"), L(61, "d")]),
           "name-254": ".".join([L(63), L(63, "b"), L(63, "c"), L(60, "d")]), "labels-127": ".".join(["x"] * 127)}
  for k, nm in names.items():
    out.append(("dns-q-" + k, [e, ip4, u, {"t": "dns", "id": 1, "q": [{"name": nm, "qtype": 1, "qclass": 1}]}]))
    out.append(("dns-rr-" + k, [e, ip4, {"t": "udp", "sport": 53, "dport": 0xc001}, {"t": "dns", "id": 1, "qr": True, "an": [
        {"name": nm, "qtype": 5, "qclass": 1, "ttl": 1, "rd": {"name": nm}}, {"name": nm, "qtype": 1, "qclass": 1, "ttl": 1, "rd": {"a": P.A1}}]}]))
  for n in (0, 1, 255, 256, 1000):
    out.append(("dns-txt-%d" % n, [e, ip4, {"t": "udp", "sport": 53, "dport": 0xc001}, {"t": "dns", "id": 1, "qr": True, "an": [
        {"name": "t.example.com", "qtype": 16, "qclass": 1, "ttl": 1, "rd": {"raw": B(n)}}]}]))
  for n in (900, 1100, 4000):            # a repeated name first written beyond offset n: its compression pointer needs more than 10 bits
    out.append(("dns-pointer-beyond-%d" % n, [e, ip4, {"t": "udp", "sport": 53, "dport": 0xc001}, {"t": "dns", "id": 1, "qr": True, "an": [
        {"name": "t.example.com", "qtype": 16, "qclass": 1, "ttl": 1, "rd": {"raw": B(n, 1)}},
        {"name": "late.example.org", "qtype": 1, "qclass": 1, "ttl": 1, "rd": {"a": P.A1}},
        {"name": "late.example.org", "qtype": 28, "qclass": 1, "ttl": 1, "rd": {"aaaa": P.S1}},
        {"name": "x.late.example.org", "qtype": 5, "qclass": 1, "ttl": 1, "rd": {"name": "late.example.org"}}]}]))
  for n in (1, 2, 30):
    out.append(("dns-questions-%d" % n, [e, ip4, u, {"t": "dns", "id": 1, "q": [{"name": "h%d.example.com" % i, "qtype": 1, "qclass": 1} for i in range(n)]}]))
  # IPv6 extension headers: Hdr Ext Len 0..255 (8..2048 octets), chains
  for n in (0, 1, 2, 127, 254, 255):
    for k in (0, 43, 60):
      out.append(("ipv6-ext%d-len%d" % (k, n), [e, dict(ip6, ext=[{"k": k, "body": B(6 + 8 * n)}]), u, pay]))
  for n in (0, 1, 255):
    for k in (0, 43, 60):
      out.append(("ipv6-ext%d-len%d-nonext" % (k, n), [e, dict(ip6, nh=59, ext=[{"k": k, "body": B(6 + 8 * n)}]), P.NOPAY]))
      out.append(("ipv6-ext%d-len%d-raw0" % (k, n), [e, dict(ip6, nh=253, ext=[{"k": k, "body": B(6 + 8 * n)}]), P._raw(0)]))
  out.append(("ipv6-ext-chain8-nonext", [e, dict(ip6, nh=59, ext=[{"k": k, "body": B(6 + 8 * i)} for i, k in enumerate([0, 60, 43, 60, 0, 43, 60, 60])]), P.NOPAY]))
  out.append(("ipv6-ext-chain8", [e, dict(ip6, ext=[{"k": k, "body": B(6 + 8 * i)} for i, k in enumerate([0, 60, 43, 60, 0, 43, 60, 60])]), {"t": "tcp"}, pay]))
  # ND options: length octet 1..255 (8..2040 octets)
  for n in (1, 2, 254, 255):
    out.append(("nd-gen-%d" % n, [e, ip6, {"t": "icmp6", "type": 135}, {"t": "nd_ns", "target": P.S2, "opts": [{"k": "gen", "type": 14, "data": B(8 * n - 2)}]}]))
  out.append(("nd-opts-12", [e, ip6, {"t": "icmp6", "type": 134}, {"t": "nd_ra", "hlim": 255, "lifetime": 0xffff, "reachable": 2 ** 32 - 1, "retrans": 2 ** 32 - 1,
                                       "opts": [{"k": "mtu", "mtu": 2 ** 32 - 1}, {"k": "sll", "addr": P.M1}] * 6}]))
  # IGMPv3: source lists (16-bit count), auxiliary data (8-bit count of words), record counts
  g = bytes([224, 1, 2, 3])
  for n in (0, 1, 2, 255, 256, 300):
    out.append(("igmp3-srcs-%d" % n, [e, dict(ip4, ttl=1), {"t": "igmp3", "records": [{"type": 1, "srcs": [bytes([10, 1, i // 256, i % 256]) for i in range(n)], "addr": g}]}]))
  for n in (0, 1, 254, 255):
    out.append(("igmp3-aux-%d" % n, [e, dict(ip4, ttl=1), {"t": "igmp3", "records": [{"type": 2, "srcs": [P.A1], "aux": B(4 * n), "addr": g}]}]))
  for n in (0, 1, 2, 100):
    out.append(("igmp3-records-%d" % n, [e, dict(ip4, ttl=1), {"t": "igmp3", "records": [{"type": 1 + i % 6, "srcs": [P.A1] * (i % 3), "addr": g} for i in range(n)]}]))
  # RIP: 1..25 entries per message
  for n in (1, 2, 24, 25):
    out.append(("rip-entries-%d" % n, [e, ip4, u, {"t": "rip", "cmd": 2, "ver": 2, "entries": [
        {"af": 2, "tag": i, "ip": bytes([10, i, 0, 0]), "mask": bytes([255, 255, 0, 0]), "nh": P.A1, "metric": 1 + i % 16} for i in range(n)]}]))
  # GRE source route entries: SRE length 1..255; MPLS / VLAN depth
  for n in (1, 4, 254, 255):
    out.append(("gre-sre-%d" % n, [e, ip4, {"t": "gre", "type": 0x88b5, "routing": [[0x0800, 0, B(n)]]}, pay]))
  out.append(("gre-sre-x3", [e, ip4, {"t": "gre", "type": 0x88b5, "csum": "auto", "key": 1, "seq": 2, "routing": [[0x0800, 4, B(8)], [0xffff, 255, B(255)], [1, 0, B(1)]]}, pay]))
  for n in (1, 2, 16, 64):
    out.append(("mpls-depth-%d" % n, [e] + [{"t": "mpls", "label": i, "ttl": 64} for i in range(n)] + [pay]))
  # EAP / EAPOL body lengths
  for n in (0, 1, 255, 1400):
    out.append(("eapol-key-%d" % n, [P._eth(dst=bytes.fromhex("0180c2000003")), {"t": "eapol", "ver": 1, "type": 3}, P._raw(n)]))
  for name, spec in out:
    yield {"spec": spec, "shape": "limits:" + name, "edit": "all"}


def enum_undecoded(tier):
  """headers the library assembles but its parser leaves undecoded (see _undecoded_reason): every format field at its
  boundaries and at registered values, each alone and all together, under Ethernet and under a VLAN tag, with and without
  trailing bytes (minimum-frame padding), for the ARP and RARP ethertypes"""
  e, v = P._eth(), {"t": "vlan", "pcp": 3, "cfi": 0, "id": 100}
  fmts = [("hwtype-%d" % hw, {"hwtype": hw}, 6) for hw in (0, 2, 6, 15, 32, 0x0100, 0xffff)]       # 6 IEEE 802, 15 frame relay, 32 InfiniBand
  fmts += [("prototype-%04x" % pr, {"prototype": pr}, 6) for pr in (0, 0x0008, 0x0805, 0x0801, 0x86dd, 0xffff)]
  fmts += [("hwlen-%d" % hl, {"hwlen": hl}, hl) for hl in (0, 1, 5, 7, 8, 20, 254, 255)]
  fmts += [("hwtype-32-hwlen-20", {"hwtype": 32, "hwlen": 20}, 20), ("all-three", {"hwtype": 24, "prototype": 0x86dd, "hwlen": 8}, 8)]
  pads = (0, 18) if tier == "quick" else (0, 2, 18, 46)
  for name, kw, hl in fmts:
    for l2n, l2 in (("eth", [e]), ("vlan", [e, v])):
      for op, rarp in ((1, False), (2, False), (3, True), (0xffff, False)):
        for pad in pads:
          rec = dict({"t": "arp", "op": op, "sha": P.pattern(hl, 1), "spa": P.A1, "tha": P.pattern(hl, 4), "tpa": P.A2}, **kw)
          if rarp:
            rec["rarp"] = True
          yield {"spec": l2 + [rec, P.NOPAY if pad == 0 else P._raw(pad)], "shape": "undecoded:arp-" + name, "edit": "all"}
  g = bytes([224, 0, 0, 4])
  for vt in (0, 0x10, 0x13, 0x14, 0x15, 0x18, 0x1e, 0x1f, 0x21, 0x23, 0x30, 0x31, 0x32, 0xff):
    for n in (0, 1, 12) if tier == "quick" else (0, 1, 2, 12, 13, 255, 1400):
      for l2n, l2 in (("eth", [e]), ("vlan", [e, v])):
        yield {"spec": l2 + [P._ip4(ttl=1), {"t": "igmp", "vt": vt, "mrt": n & 0xff, "addr": g, "extra": P.pattern(n, 3)}],
               "shape": "undecoded:igmp-type-0x%02x" % vt, "edit": "all"}


def plan(tier):
  from ..gen import pktspec
  per = 300 if tier == "quick" else 20000
  shapes = pktspec.shapes(1500)
  drivers = [Enum("catalog", lambda: enum_catalog(tier), shards=4),
             Enum("directed-checksum-corners", lambda: enum_directed(tier), shards=2),
             Enum("length-limits", lambda: enum_limits(tier), shards=4),
             Enum("undecoded-formats", lambda: enum_undecoded(tier), shards=2)]
  shapes.update(pktspec.undecoded_shapes())
  for name in sorted(shapes):
    def mk(name=name):
      return st.tuples(shapes[name], st.integers(0, 999)).map(lambda t, name=name: {"spec": t[0], "shape": name, "edit": t[1]})
    drivers.append(Hyp("shape:" + name, mk, examples=per, shards=1 if tier == "quick" else 4, max_shrink_s=20))
  return drivers
