"""C06 -- the cooperative scheduler runs every task step exactly once, in isolation.

A case is a *program set*: 1..5 task programs over recoco's yield vocabulary, timers, fake
descriptors / scripted sockets, and the schedule freedom (the `_random` hook, registration
order, instants at which descriptors become ready, which select implementation the hub uses,
whether Scheduler.schedule() takes its same-thread path).  run_case() builds real recoco Tasks
whose generators interpret the programs, runs the real `Scheduler.run()` loop under a virtual
clock and a virtual select (pvf/sim/vsched.py), and hands the event log to the oracle
(pvf/ref/schedmodel.py).  A task that raises is additionally compared against the run of the
same program set where it simply ends there.

case = {"mode": "inline"|"threaded", "sched": {"base": 0|1, "gaps": [[gap, v]...] | "devs": [[k, v]...]} (threaded only),
        "hub": "select"|"epoll", "sched_thread": bool, "rand": [k/8...],
        "horizon": seconds, "locks": n, "order": [["task"|"timer", i]...],
        "tasks":  [{"prio": p|None, "form": "sub"|"target", "fast": bool, "prog": [op...]}],
        "timers": [{"t", "recurring", "abs", "self_stop", "rets": [...], "create": "init"|"task", "busy", "started": bool}],
        ("order" may also hold ["start", i] -- start() of a started=False timer -- and ["advance", seconds])
        "fds":    [{"r_at": s|None, "w_at": s|None, "hup_at": s|None, "hup_kind": "hup"|"err"}],   (hup_at: the other end goes away)
        "socks":  [{"arrivals": [[s, nbytes]...], "w_at": s|None, "sends": ["all"|k|0|"eagain"...]}]}
op   = {"op": "y0"|"yn"|"sleep"|"select"|"recv"|"send"|"rfop"|"badop"|"imm"|"block"|"call"|"acquire"|"release"|"quit"|"raise"|"exit"
              |"busy"|"wake"|"cancel"|"mktimer"|"starttimer", ...}   (the last five are in-step actions, they do not yield)
"wake" calls Scheduler.schedule(target) when the target is blocked and not yet woken, and also when the target is already
scheduled (it yielded 0, or was woken and has not run yet) -- see ASSUMPTIONS; "imm" is a blocking operation that completes at
once (execute() returns True, or re-queues the task); "send" may have len 0; acquire / release / imm also occur in sub-tasks.
"""
import itertools
import os
import sys

from hypothesis import strategies as st

from ..runner import Outcome, Enum, Hyp, HarnessError

ID = "C06"
LEVEL = "exploration"
TECHNIQUE = ("model-based property testing of the real recoco Scheduler.run() loop under a virtual clock and a virtual "
             "select/epoll: exhaustive small program sets + Hypothesis program sets, trace invariants and a raise-vs-end twin run")
LEVEL_TEXT = ("Exploration by generated program sets: every pair of programs of length <= 2 over a 10-op vocabulary, grids of timer "
              "configurations, of descriptor-readiness / hang-up instants, of schedule() calls on already scheduled tasks and of operations "
              "that complete at once (in tasks and sub-tasks) are enumerated exhaustively, larger sets (<= 5 tasks, sub-task calls, "
              "sockets, locks, timers, priorities) are drawn by Hypothesis. Each run is the real scheduler loop with virtual time, so "
              "never-early / exactly-once / not-late-by-polling are exact statements judged by an oracle that shares no code with recoco. "
              "Both select-hub modes: inline (scheduler loop on the calling thread) and threaded (scheduler loop and select hub on their own "
              "threads under the deterministic thread scheduler: default schedule, every single deviation from it for small scenarios, "
              "Hypothesis-drawn deviation lists). No claim beyond the explored bounds.")
LEVEL_NOTE = ("trusts the harness's virtual select (it returns exactly the ready descriptors it was given) and, in the threaded hub mode, "
              "pvf.sim.detsched's re-implementation of Thread/Event/Lock/select/pinger semantics; thread interleavings are those expressible "
              "at line boundaries of the traced recoco functions and at blocking primitives")
RULE = ("a case is a program set (tasks x timers x descriptors x schedule choices x hub mode [x thread schedule]) enumerated from small grids or drawn by Hypothesis; "
        "non-trivial = at least 2 tasks, at least one timed wait (yield n / Sleep / Select or Recv with timeout) that was resumed, and at "
        "least one step of a different task executed between that request and its wake; distinct by SHA-1 of the canonical JSON of the case")
ASSUMPTIONS = [
  "mode inline (startInThread=False, threaded_selecthub=False): Scheduler.run() is driven on the calling thread; time passes only inside the "
  "virtual select and in explicit 'busy' actions",
  "mode threaded (runThreaded + threaded_selecthub=True under pvf.sim.detsched): one thread runs at a time, switch points are the lines of "
  "the traced recoco functions and blocking primitives, the next thread is chosen by case['sched']; virtual time passes only when every "
  "thread is blocked; a 'busy' action blocks the scheduler's thread for its duration (time passing then is not judged); tasks and "
  "init-time timers are registered from a third (main) thread while the scheduler already runs",
  "lateness is judged only as 'virtual time passed although something requested was due / ready / runnable' (i.e. it needed the "
  "CYCLE_MAXIMUM poll or another thread's timeout to be noticed) or 'never resumed'; who runs first at one instant is never judged",
  "a blocking operation whose execute() raises: in a top-level task the task is de-scheduled (must never be resumed); in a task_function "
  "sub-task the failure must come back to the sub-task as an exception at its yield (and travel on to the caller if not caught there), "
  "by analogy with every other failure of a sub-task -- on the tree before the fix the AgainTask is de-scheduled and the caller stays blocked "
  "for ever (finding C06-subtask-failing-op-strands-caller)",
  "two tasks that Recv on one socket: the loser of the race may get None (EAGAIN) without a timeout",
  "the raise-vs-end twin comparison is skipped for deviating thread schedules (decision indices of the two runs need not line up)",
  "the virtual select returns exactly the descriptors among those passed that are ready; select.epoll is replaced by a fake below the real EpollSelect",
  "schedule() is only called on a task that is blocked by `yield False` / Sleep(None) and has not been woken yet, or on a task the "
  "harness knows to be scheduled already (its outstanding request is `yield 0`, or it was woken and has not run since): there the call "
  "must have no effect ('this method will not schedule a task to run multiple times'). On the same-thread path of schedule() the check "
  "is immediate; on the other path a ScheduleTask checks one cycle later, after one more step of the target, so that path is only used "
  "when that step is known to end in another `yield 0`. schedule() of a task that sleeps or waits for I/O is never generated "
  "(it would legitimately cut the wait short)",
  "a descriptor whose other end goes away (hup_at): select() reports it readable from then on (kind err: readable and writable); the fake "
  "epoll reports EPOLLHUP (kind err: EPOLLERR|EPOLLHUP) without being asked, plus EPOLLIN / EPOLLOUT as far as registered and ready; a bare "
  "hang-up is only reported to a registration that includes reading; Select never lists descriptors as exceptional",
  "Send of an empty buffer must complete with 0 once the socket is writable or the timeout has passed (when is not judged beyond that)",
  "an operation that completes at once (Lock.acquire of a lock that is free by the log's count of acquires and releases, "
  "acquire(blocking=False), Lock.release by the holder, the harness's `imm` operation) must be continued; whether the continuation comes "
  "in the same slice is not judged. A lock taken inside a sub-task belongs to the task that called it (it, or a later sub-task of it, releases it)",
  "locks are only released by their holder; lock exclusion itself is C07's subject, here only the step discipline around locks is judged "
  "(blocking acquire returns True; a release while somebody waits must resume some waiter)",
  "recurring timers: both 'previous due + interval' and 'previous firing + interval' are accepted as the next due time",
  "a Select that returns nothing is accepted whenever its timeout has passed, even if a descriptor became ready meanwhile",
  "bounded liveness is judged for priority >= 1 only; priorities < 1 only get safety checks (the _random hook is made fair by appending 0.0)",
]
EXHAUSTIVE_SCOPE = {
  "quick": "all ordered pairs of programs of length 1..2 over {yield 0, yield .25, Sleep(.5), Sleep(absolute), Select([],[],[],.25), yield False, wake, "
           "sub-task call, busy .5, raise}; timer grid (t, one-shot/recurring/absolute, self-stop, return scripts, cancel instants, companion work); "
           "descriptor grid (2 fds x ready instants x timeouts x two selecting tasks x select/epoll); "
           "hub-window grid (threaded hub, 2 scenarios: every pair of deviations 'scheduler thread pre-empted inside a registration in favour of "
           "the hub thread' x 'hub thread pre-empted at a line of SelectHub._select in favour of the scheduler thread'); failing-operation grid "
           "(a blocking operation whose execute() raises -- harness op and Lock.release() of a free lock -- after 9 slice prefixes incl. "
           "acquire / try-acquire / acquire+release in the same slice, both hub modes); "
           "return-function grid (a scripted BlockingOperation: 0-2 ABORTs / installs of a different ReturnFunction then value / falsy values / task.re + EXCEPTION, immediate or via the hub, "
           "in a task and in a sub-task, both hub modes); raise grid (Exception vs non-Exception BaseException raised by a task, a sub-task "
           "(caught / uncaught / nested / Task(target=)), a one-shot and a recurring timer callback x 10 companion programs, both hub modes); poll grid (Select with/without fds, Recv, Send with timeout exactly 0 / 0.0 x fd and socket readiness x other work x select/epoll x "
           "inline/threaded); deferred-timer grid (Timer(started=False) one-shot/recurring/absolute, start() after .125/.375/.75 s from a task "
           "step or during start-up, cancelled before start, never started; both hub modes); lock grid (two tasks, programs of length <= 2 resp. acquire + 2 over {acquire, try-acquire, release, yield 0, yield .25} on one lock); "
           "queued-wakes grid (schedule() of a task that is already scheduled: after 1..3 `yield 0`, after a real wake, after a timed wait "
           "x 9 following waits x 5 waker programs x both schedule() paths x both hub modes); immediate-ops grid (Lock acquire / try-acquire / "
           "release sequences and a harness operation that reclaims the running state or re-queues the task x {task, Task(target=), sub-task, "
           "nested sub-task, sub-task of a Task(target=) whose caller releases} x before/after a Sleep x 3 companions x both hub modes); "
           "hangups grid (descriptor hang-up / error at 3 instants x data readiness x read / write / both / two descriptors x timeout x "
           "select/epoll x both hub modes); empty-sends grid (Send of 0 or 1 byte x writability x timeout x socket script x task / sub-task "
           "x both hub modes); "
           "threaded hub: 100 pairs of one-op programs x 3 thread schedules + timer/descriptor grid x 2 schedules, and EVERY single deviation "
           "from the default thread schedule (each decision point x each alternative thread) of 4 small scenarios",
  "thorough": "as quick, plus all triples of programs of length 1 and pairs with one program of length 3, both schedule() paths; threaded hub: "
              "pairs with one program of length <= 2 x 4 schedules, and for 2 scenarios every pair of deviations whose second lies in the "
              "hub/scheduler hand-off code or at a blocking primitive",
}

_SM = None
_VS = None


def setup():
  global _SM, _VS
  if _SM is None:
    import logging
    logging.disable(logging.CRITICAL)
    import warnings
    warnings.simplefilter("ignore", DeprecationWarning)
    from ..ref import schedmodel
    from ..sim import vsched
    import pox.lib.recoco.recoco   # noqa: F401  (import errors surface here, as harness errors)
    _SM, _VS = schedmodel, vsched


def _run_inline(case):
  return _VS.run_inline(case)


# hub mode -> function case -> event log in the format of pvf/sim/vsched.py
def _run_threaded(case):
  return _VS.run_threaded(case)


MODES = {"inline": _run_inline, "threaded": _run_threaded}


_STRUCTURAL = ("task-killed", "no-quiescence", "empty-send-never-completes", "scheduler-died", "raising-task-kills-scheduler", "subtask-exception-not-delivered")


def run_case(case):
  setup()
  out = Outcome()
  mode = case.get("mode", "inline")
  runner = MODES.get(mode)
  if runner is None:
    out.label("mode-unavailable:%s" % mode)
    return out
  log = runner(case)
  if os.environ.get("C06_TRACE"):
    for i, e in enumerate(log):
      sys.stderr.write("%4d %r\n" % (i, e))
  fails = list(_SM.check(case, log))
  rs = _SM.raisers(log)
  if rs:
    out.label("raise-vs-end-twin-run")
    tcase = _SM.twin(case, rs)
    tlog = runner(tcase)
    tf = _SM.check(tcase, tlog)
    # with a deviating thread schedule the decision indices of the two runs need not line up
    sc = case.get("sched") or {}
    deviating = mode == "threaded" and bool(sc.get("gaps") or sc.get("list") or sc.get("devs"))
    if not deviating and not any(f[0] in _STRUCTURAL for f in fails + tf):
      fails += _SM.compare(case, log, tlog)
  for clause, msg, disc in fails:
    out.fail(clause, msg, **disc)
  out.nontrivial = _SM.nontrivial(case, log)
  out.label(*_SM.labels(case, log))
  return out


# ---------------------------------------------------------------------------------------------- enumeration

def _sub(prog, ret="token"):
  return {"kind": "gen", "prog": prog, "ret": {"v": ret} if ret not in ("end", "raise") else ("end" if ret == "end" else {"raise": 1})}


def _vocab(other):
  return [
    {"op": "y0"},
    {"op": "yn", "n": 0.25},
    {"op": "sleep", "n": 0.5},
    {"op": "sleep", "n": 0.25, "abs": True},
    {"op": "select", "t": 0.25},
    {"op": "block"},
    {"op": "wake", "task": other},
    {"op": "call", "sub": _sub([{"op": "sleep", "n": 0.25}])},
    {"op": "busy", "d": 0.5},
    {"op": "raise"},
  ]


def _programs(other, maxlen):
  v = _vocab(other)
  for n in range(1, maxlen + 1):
    for p in itertools.product(v, repeat=n):
      yield list(p)


def _enum_pairs(tier):
  paths = [False, True] if tier == "thorough" else [False]
  for direct in paths:
    for p0 in _programs(1, 2):
      for p1 in _programs(0, 2):
        yield {"mode": "inline", "sched_thread": direct, "horizon": 8,
               "tasks": [{"prog": p0}, {"prog": p1}]}
  # the other schedule() path on a thinner grid in the quick tier
  if tier == "quick":
    for p0 in _programs(1, 2):
      for p1 in _programs(0, 1):
        yield {"mode": "inline", "sched_thread": True, "horizon": 8, "tasks": [{"prog": p0}, {"prog": p1, "fast": True}]}
  if tier == "thorough":
    v0 = list(_programs(1, 1))
    for p0 in v0:
      for p1 in _programs(2, 1):
        for p2 in _programs(0, 1):
          yield {"mode": "inline", "horizon": 8, "tasks": [{"prog": p0}, {"prog": p1}, {"prog": p2}]}
    for p0 in _programs(1, 3):
      if len(p0) < 3:
        continue
      for p1 in _programs(0, 1):
        yield {"mode": "inline", "horizon": 10, "tasks": [{"prog": p0}, {"prog": p1}]}


def _enum_timers(tier):
  companions = [
    [],
    [{"op": "busy", "d": 1.0}, {"op": "y0"}],
    [{"op": "sleep", "n": 0.375}, {"op": "cancel", "timer": 0}],
    [{"op": "sleep", "n": 0.5}, {"op": "cancel", "timer": 0}],
    [{"op": "sleep", "n": 0.875}, {"op": "cancel", "timer": 0}, {"op": "yn", "n": 1.0}],
    [{"op": "yn", "n": 0.25}, {"op": "busy", "d": 0.5}, {"op": "yn", "n": 0.25}],
    [{"op": "yn", "n": 0.125}, {"op": "mktimer", "timer": 1}, {"op": "yn", "n": 0.5}, {"op": "cancel", "timer": 1}, {"op": "y0"}],
  ]
  retss = [[], [None, False], [False], [True, 0, False, None], [None, "cancel"], [0, 0]]
  for t in (0.25, 0.5):
    for kind in ("one-shot", "recurring", "absolute"):
      for self_stop in (True, False):
        for rets in retss:
          for comp in companions:
            for busy in (None, 0.125):
              tm = {"t": t, "recurring": kind == "recurring", "abs": kind == "absolute", "self_stop": self_stop,
                    "rets": rets, "busy": busy}
              tm2 = {"t": 0.25, "recurring": True, "create": "task", "rets": [None, None, None, False]}
              for order in ([["task", 0], ["task", 1], ["timer", 0]], [["timer", 0], ["task", 1], ["task", 0]]):
                yield {"mode": "inline", "horizon": 3, "timers": [tm, tm2], "order": order,
                       "tasks": [{"prog": comp}, {"prog": [{"op": "sleep", "n": 0.5}, {"op": "sleep", "n": 0.5}]}]}


def _enum_polls(tier):
  """Timed waits whose timeout is exactly 0 (a poll), int and float, in both hub modes."""
  others = [[{"op": "y0"}], [{"op": "busy", "d": 0.25}], [{"op": "yn", "n": 0.25}], [{"op": "select", "r": [0], "t": 0.5}]]
  for z in (0, 0.0):
    polls = [{"op": "select", "t": z}, {"op": "select", "t": z, "style": 1, "kw": True}, {"op": "select", "r": [0], "t": z},
             {"op": "select", "r": [0], "w": [0], "t": z, "kw": True}, {"op": "recv", "sock": 0, "t": z}, {"op": "send", "sock": 0, "len": 2, "t": z}]
    for poll in polls:
      for other in others:
        for r_at in (None, 0, 0.25):
          for arr in ([], [[0, 2]], [[0.25, 2]]):
            for w_at in (0, 0.5):
              for hub in ("select", "epoll"):
                for mode in ("inline", "threaded"):
                  if mode == "threaded" and (hub == "epoll" or isinstance(z, int)) and tier == "quick":
                    continue
                  yield {"mode": mode, "hub": hub, "horizon": 4, "fds": [{"r_at": r_at, "w_at": r_at}],
                         "socks": [{"arrivals": arr, "w_at": w_at, "sends": []}],
                         "tasks": [{"prog": [poll, {"op": "y0"}, poll]}, {"prog": other}]}


def _enum_deferred(tier):
  """Timer(started=False) whose start() comes later: from a task step, or during start-up after time has passed."""
  for mode in ("inline", "threaded"):
    for t in (0.25, 0.5):
      for kind in ("one-shot", "recurring", "absolute"):
        tm = {"t": t, "recurring": kind == "recurring", "abs": kind == "absolute", "started": False, "rets": [None, None, False]}
        for gap in (0.125, 0.375, 0.75):
          for extra in ([], [{"op": "busy", "d": 0.25}], [{"op": "cancel", "timer": 0}]):
            # started by a task after `gap`
            yield {"mode": mode, "horizon": 4, "timers": [tm],
                   "tasks": [{"prog": [{"op": "sleep", "n": gap}] + extra + [{"op": "starttimer", "timer": 0}, {"op": "yn", "n": 0.25}]},
                             {"prog": [{"op": "yn", "n": 0.5}, {"op": "y0"}]}]}
          # started during start-up after `gap` has passed
          for order in ([["timer", 0], ["advance", gap], ["start", 0], ["task", 0]],
                        [["task", 0], ["timer", 0], ["advance", gap], ["start", 0]]):
            yield {"mode": mode, "horizon": 4, "timers": [tm], "order": order,
                   "tasks": [{"prog": [{"op": "yn", "n": 0.5}, {"op": "y0"}]}]}
        # created by a task with started=False, started by another task later; and never started at all
        tm2 = dict(tm, create="task")
        yield {"mode": mode, "horizon": 4, "timers": [tm2],
               "tasks": [{"prog": [{"op": "mktimer", "timer": 0}, {"op": "yn", "n": 0.375}, {"op": "y0"}]},
                         {"prog": [{"op": "sleep", "n": 0.625}, {"op": "starttimer", "timer": 0}, {"op": "yn", "n": 1.0}]}]}
        yield {"mode": mode, "horizon": 4, "timers": [tm],
               "tasks": [{"prog": [{"op": "yn", "n": 1.0}]}, {"prog": [{"op": "y0"}]}]}


def _enum_rf(tier):
  """recoco's ReturnFunction protocol (task.rf / ABORT / task.re + EXCEPTION) through a scripted blocking operation."""
  others = [[{"op": "y0"}, {"op": "y0"}], [{"op": "yn", "n": 0.25}], [{"op": "busy", "d": 0.5}]]
  for mode in ("inline", "threaded"):
    for pre in ([], ["abort"], ["abort", "abort"], ["chain"], ["chain", "abort"], ["abort", "chain"], ["chain", "chain"]):
      for fin in ({"v": "token"}, {"v": 0}, {"v": None}, {"v": False}, "exc"):
        for delay in (0, 0.25):
          for catch in ((True, False) if fin == "exc" else (True,)):
            op = {"op": "rfop", "script": pre + [fin], "delay": delay, "catch": catch}
            for other in others:
              yield {"mode": mode, "horizon": 4, "tasks": [{"prog": [op, {"op": "y0"}, op]}, {"prog": other}]}
              yield {"mode": mode, "horizon": 4, "tasks": [{"prog": [{"op": "call", "sub": _sub([op, {"op": "sleep", "n": 0.125}])}, {"op": "y0"}]},
                                                           {"prog": other}]}


def _enum_failing_ops(tier):
  """A blocking operation whose execute() raises de-schedules the task, wherever in a slice it comes."""
  acq, tryacq, rel = {"op": "acquire", "lock": 0}, {"op": "acquire", "lock": 0, "blocking": False}, {"op": "release", "lock": 0}
  pre = [[], [{"op": "y0"}], [acq], [tryacq], [acq, rel], [acq, {"op": "y0"}], [acq, tryacq], [{"op": "yn", "n": 0.125}, acq, rel],
         [{"op": "acquire", "lock": 1}, acq]]
  for mode in ("inline", "threaded"):
    for how in ("raise", "release-unheld"):
      bad = {"op": "badop", "how": how, "lock": 1 if how == "release-unheld" else 0}
      for p in pre:
        if how == "release-unheld" and any(o.get("lock") == 1 for o in p):
          continue
        for other in ([{"op": "y0"}, {"op": "y0"}], [{"op": "yn", "n": 0.25}, acq, rel], [tryacq, {"op": "sleep", "n": 0.25}]):
          yield {"mode": mode, "horizon": 4, "locks": 2,
                 "tasks": [{"prog": p + [bad, {"op": "y0"}, {"op": "yn", "n": 0.25}]}, {"prog": other}]}
      # the same operation inside a task_function sub-task: the failure has to reach the sub-task / its caller
      for sp in ([], [{"op": "sleep", "n": 0.125}], [{"op": "select", "t": 0}]):
        for catch in (True, False):
          for ccatch in (True, False):
            for nested in (False, True):
              sub = {"kind": "gen", "prog": sp + [dict(bad, catch=catch), {"op": "sleep", "n": 0.125}], "ret": {"v": "token"}}
              if nested:
                sub = {"kind": "gen", "prog": [{"op": "call", "sub": sub, "catch": catch}], "ret": {"v": "token"}}
              yield {"mode": mode, "horizon": 4, "locks": 2,
                     "tasks": [{"prog": [{"op": "call", "sub": sub, "catch": ccatch}, {"op": "y0"}]},
                               {"prog": [{"op": "yn", "n": 0.25}, {"op": "y0"}]}]}


def _enum_raises(tier):
  """Who dies and who does not when the exception is a BaseException that is not an Exception (sys.exit() in a task)."""
  def sub(prog, base, nested=False):
    s = {"kind": "gen", "prog": prog, "ret": {"raise": 1, "base": base is True, "falsy": base == "falsy"}}
    if nested:
      s = {"kind": "gen", "prog": [{"op": "call", "sub": s, "catch": False}], "ret": {"v": "token"}}
    return s
  for mode in ("inline", "threaded"):
    for base in (True, False, "falsy"):     # "falsy": an Exception whose truth value is False, raised by sub-tasks
      sites = [
        {"tasks": [{"prog": [{"op": "yn", "n": 0.125}, {"op": "raise", "base": base is True}]}]},
        {"tasks": [{"prog": [{"op": "call", "sub": sub([], base), "catch": True}, {"op": "y0"}]}]},
        {"tasks": [{"prog": [{"op": "call", "sub": sub([{"op": "sleep", "n": 0.125}], base), "catch": True}, {"op": "y0"}]}]},
        {"tasks": [{"prog": [{"op": "call", "sub": sub([{"op": "sleep", "n": 0.125}], base), "catch": False}, {"op": "y0"}]}]},
        {"tasks": [{"prog": [{"op": "call", "sub": sub([], base, True), "catch": True}, {"op": "y0"}]}]},
        {"tasks": [{"form": "target", "prog": [{"op": "call", "sub": sub([], base), "catch": True}, {"op": "y0"}]}]},
        {"tasks": [{"prog": [{"op": "y0"}]}], "timers": [{"t": 0.125, "rets": ["raise-base" if base is True else "raise"]}]},
        {"tasks": [{"prog": [{"op": "y0"}]}], "timers": [{"t": 0.125, "recurring": True, "rets": [None, "raise-base" if base is True else "raise"]}]},
      ]
      for site in sites:
        for p1 in _programs(0, 1):
          c = {"mode": mode, "horizon": 4, "timers": site.get("timers", []),
               "tasks": site["tasks"] + [{"prog": p1 + [{"op": "sleep", "n": 0.25}, {"op": "y0"}]}]}
          yield c


def _enum_io(tier):
  ats = [None, 0, 0.25, 0.5, 2.5]
  tmo = [None, 0, 0.25, 0.5]
  for hub in ("select", "epoll"):
    for a0 in ats:
      for a1 in ats:
        for t0 in tmo:
          for t1 in tmo:
            for r1 in ([0], [1], [0, 1]):
              for extra in ([], [{"op": "busy", "d": 0.375}], [{"op": "select", "r": [0, 1], "t": 0.125}]):
                yield {"mode": "inline", "hub": hub, "horizon": 6,
                       "fds": [{"r_at": a0}, {"r_at": a1, "w_at": a0}],
                       "tasks": [{"prog": [{"op": "select", "r": [0, 1], "t": t0}, {"op": "select", "r": [1], "w": [1], "t": t0}]},
                                 {"prog": extra + [{"op": "select", "r": r1, "t": t1}, {"op": "yn", "n": 0.25}]}]}


_SCHEDS = [{}, {"base": 1}, {"gaps": [[3, 1], [5, 1], [7, 2], [11, 1], [13, 1], [17, 2], [19, 1], [23, 1]]},
           {"base": 1, "gaps": [[g, 1] for g in (2, 4, 6, 8, 10, 12, 14, 16, 18, 20)]}]


def _enum_threaded(tier):
  """A thin slice of the pairs grid with the select hub and the scheduler on their own threads."""
  maxlen = 2 if tier == "thorough" else 1
  for sc in (_SCHEDS if tier == "thorough" else _SCHEDS[:3]):
    for p0 in _programs(1, maxlen):
      for p1 in _programs(0, 1):
        yield {"mode": "threaded", "sched": sc, "horizon": 8, "tasks": [{"prog": p0}, {"prog": p1}]}
  # timers and descriptors
  for sc in _SCHEDS[:2] if tier == "quick" else _SCHEDS:
    for rec in (False, True):
      for comp in ([], [{"op": "sleep", "n": 0.375}, {"op": "cancel", "timer": 0}], [{"op": "busy", "d": 1.0}, {"op": "y0"}]):
        for a0 in (None, 0, 0.25, 2.5):
          yield {"mode": "threaded", "sched": sc, "horizon": 4, "fds": [{"r_at": a0}, {"r_at": 0.5, "w_at": a0}],
                 "timers": [{"t": 0.25, "recurring": rec, "rets": [None, None, False]}],
                 "tasks": [{"prog": comp}, {"prog": [{"op": "select", "r": [0, 1], "t": 0.75}, {"op": "select", "r": [0], "w": [1], "t": None}]}]}


_PSCN = [
  {"horizon": 4, "fds": [{"r_at": 0.25}], "timers": [{"t": 0.25}],
   "tasks": [{"prog": [{"op": "yn", "n": 0.25}, {"op": "y0"}]}, {"prog": [{"op": "select", "r": [0], "t": None}, {"op": "y0"}]}]},
  {"horizon": 4, "socks": [{"arrivals": [[0.5, 2]], "sends": []}],
   "tasks": [{"prog": [{"op": "block"}, {"op": "y0"}]},
             {"prog": [{"op": "sleep", "n": 0.25}, {"op": "wake", "task": 0}, {"op": "recv", "sock": 0, "t": None}]}]},
  {"horizon": 4, "socks": [{"arrivals": [], "sends": [1, 0, "all"]}],
   "tasks": [{"prog": [{"op": "call", "sub": _sub([{"op": "sleep", "n": 0.25}])}, {"op": "y0"}]},
             {"prog": [{"op": "send", "sock": 0, "len": 2}, {"op": "yn", "n": 0.25}]}]},
  {"horizon": 4, "timers": [{"t": 0.25, "recurring": True, "rets": [None, False]}],
   "tasks": [{"prog": [{"op": "acquire", "lock": 0}, {"op": "yn", "n": 0.25}, {"op": "release", "lock": 0}]},
             {"prog": [{"op": "acquire", "lock": 0}, {"op": "select", "t": 0.25}, {"op": "raise"}]}]},
]
_HUB_SITES = ("SelectHub._return", "Scheduler.fast_schedule", "SelectHub.idle", "SelectHub.break_idle", "SelectHub.registerSelect",
              "SelectHub._cycle", "Scheduler.run")


def _enum_preempt(tier):
  """Systematic schedules: every single deviation from the default thread schedule of a few small scenarios
  (thorough: also every pair of deviations whose second one lies in the hand-off code between hub and scheduler)."""
  setup()
  from ..sim import detsched as D
  for n, scn in enumerate(_PSCN):
    base = dict(scn, mode="threaded")
    yield dict(base, sched={})
    decs = _VS.probe_decisions(dict(base, sched={}))
    if len(decs) > 4000:
      continue        # the default schedule does not even quiesce (the case just yielded reports that): nothing to enumerate
    for d in decs:
      for v in range(1, d["n"]):
        yield dict(base, sched={"devs": [[d["k"], v]]})
    if tier == "thorough" and n < 2:
      def probe(devs, base=base):
        return _VS.probe_decisions(dict(base, sched={"devs": [[k, v] for k, v in sorted(devs.items())]}))[:4000]
      for devs in D.enumerate_deviations(probe, 2, want=lambda d: d["kind"] != "line" or d["site"].startswith(_HUB_SITES)):
        if len(devs) == 2:
          yield dict(base, sched={"devs": [[k, v] for k, v in sorted(devs.items())]})


_WSCN = [
  {"horizon": 4, "tasks": [{"prog": [{"op": "yn", "n": 0.25}, {"op": "y0"}]}, {"prog": [{"op": "yn", "n": 0.5}, {"op": "y0"}]}]},
  {"horizon": 4, "fds": [{"r_at": 0.25}],
   "tasks": [{"prog": [{"op": "sleep", "n": 0.25}]}, {"prog": [{"op": "select", "r": [0], "t": None}, {"op": "y0"}]}]},
]
_REG_SITES = ("SelectHub.registerSelect", "SelectHub.registerTimer", "SelectHub._cycle", "Sleep.execute", "Select.execute")


def _enum_hub_window(tier):
  """Registrations that overlap a wake-up of the hub thread: first the scheduler's thread is pre-empted in favour of the hub
  thread somewhere in / after a registration (deviation A), then the hub thread is pre-empted at one of the lines of
  SelectHub._select in favour of the scheduler's thread, which goes on registering the next wait (deviation B).
  All such pairs (A, B) of two small scenarios."""
  setup()
  for scn in _WSCN:
    base = dict(scn, mode="threaded")
    d0 = _VS.probe_decisions(dict(base, sched={}))
    if len(d0) > 4000:
      continue
    for a in d0:
      if a["kind"] != "line" or not a["thread"].endswith("(run)") or not a["site"].startswith(_REG_SITES):
        continue
      for va in range(1, a["n"]):
        d1 = _VS.probe_decisions(dict(base, sched={"devs": [[a["k"], va]]}))
        if len(d1) > 4000 or len(d1) <= a["k"] or not d1[a["k"]]["to"].endswith("(_threadProc)"):
          continue
        for b in d1[a["k"] + 1:a["k"] + 120]:
          if b["kind"] == "line" and b["thread"].endswith("(_threadProc)") and b["site"].startswith("SelectHub._select"):
            for vb in range(1, b["n"]):
              yield dict(base, sched={"devs": [[a["k"], va], [b["k"], vb]]})


def _enum_locks(tier):
  v = [{"op": "acquire", "lock": 0}, {"op": "acquire", "lock": 0, "blocking": False}, {"op": "release", "lock": 0},
       {"op": "y0"}, {"op": "yn", "n": 0.25}]
  short = [list(p) for n in (1, 2) for p in itertools.product(v, repeat=n)]
  held = [[v[0]] + list(p) for p in itertools.product(v, repeat=2)]
  for p0 in short + held:
    for p1 in short:
      yield {"mode": "inline", "horizon": 4, "locks": 1, "tasks": [{"prog": p0}, {"prog": p1}]}
  if tier == "thorough":
    for p0 in held:
      for p1 in held:
        for p2 in short[:5] + [[v[0], v[2]]]:
          yield {"mode": "inline", "horizon": 4, "locks": 1, "tasks": [{"prog": p0}, {"prog": p1}, {"prog": p2}]}


def _enum_rewakes(tier):
  """Scheduler.schedule() of a task that is ALREADY scheduled -- it sits in the ready queue because it yielded 0 (1..3 times),
  or because it was woken a moment ago and has not run yet -- is documented as harmless.  Whatever the task waits for next must
  still last as long as requested.  Both paths of schedule() (same thread: checked at once; other thread: checked by a
  ScheduleTask a cycle later), both hub modes."""
  follows = [
    [{"op": "sleep", "n": 0.5}], [{"op": "yn", "n": 0.25}], [{"op": "select", "t": 0.25}], [{"op": "select", "r": [0], "t": None}],
    [{"op": "recv", "sock": 0, "t": None}], [{"op": "block"}], [{"op": "acquire", "lock": 0}],
    [{"op": "call", "sub": _sub([{"op": "sleep", "n": 0.25}])}], [{"op": "send", "sock": 0, "len": 2}],
  ]
  y0 = {"op": "y0"}
  wake = {"op": "wake", "task": 0}
  wakers = [[wake], [y0, wake], [wake, y0, wake], [wake, wake, {"op": "yn", "n": 0.125}, wake], [y0, wake, wake]]
  holder = [{"op": "acquire", "lock": 0}, {"op": "yn", "n": 0.5}, {"op": "release", "lock": 0}]
  for mode in ("inline", "threaded"):
    for direct in (True, False):
      if mode == "threaded" and not direct:
        continue                       # in the threaded mode a task's step always runs on the scheduler's thread
      for fo in follows:
        for wk in wakers:
          targets = [[y0] * k + fo + [y0] for k in (1, 2, 3)]
          targets.append([{"op": "block"}, y0] + fo + [y0])          # woken once for real, then again before it has run
          targets.append([{"op": "yn", "n": 0.125}, y0, y0] + fo)     # the same after a timed wait (queued by the hub first)
          for tg in targets:
            for order in (0, 1):
              tasks = [{"prog": tg, "fast": True}, {"prog": wk, "fast": bool(order)}, {"prog": holder}]
              yield {"mode": mode, "sched_thread": direct, "horizon": 4, "locks": 1,
                     "fds": [{"r_at": 0.5}], "socks": [{"arrivals": [[0.5, 2]], "w_at": 0.5, "sends": []}],
                     "order": [["task", 2], ["task", 0], ["task", 1]] if order == 0 else [["task", 2], ["task", 1], ["task", 0]],
                     "tasks": tasks}


def _enum_immediate(tier):
  """Blocking operations that complete at once -- execute() returns True ('reclaim running state': Lock.acquire of a free lock,
  acquire(blocking=False), Lock.release, a harness operation doing the same) or re-queues the task itself (DummyOp style) --
  from a task, a Task(target=), a sub-task and a nested sub-task: the generator must be continued with the operation's value."""
  acq, tryacq, rel = {"op": "acquire", "lock": 0}, {"op": "acquire", "lock": 0, "blocking": False}, {"op": "release", "lock": 0}
  opss = [[acq], [tryacq], [acq, rel], [tryacq, tryacq, rel], [acq, {"op": "sleep", "n": 0.125}, rel], [{"op": "acquire", "lock": 1}, acq, rel]]
  for v in ("token", 0, False, None):
    opss.append([{"op": "imm", "how": "reclaim", "v": v}])
  opss.append([{"op": "imm", "how": "requeue", "v": "token"}])
  opss.append([{"op": "imm", "how": "requeue", "v": 0}, {"op": "imm", "how": "reclaim", "v": "token"}])
  others = [[{"op": "y0"}, {"op": "y0"}], [{"op": "yn", "n": 0.25}, {"op": "y0"}],
            [acq, {"op": "yn", "n": 0.25}, rel, {"op": "y0"}, tryacq]]
  for mode in ("inline", "threaded"):
    for ops in opss:
      for pre in ([], [{"op": "sleep", "n": 0.125}]):
        for post in ([], [{"op": "sleep", "n": 0.125}]):
          body = pre + ops + post
          sub1 = {"kind": "gen", "prog": body, "ret": {"v": "token"}}
          sub2 = {"kind": "gen", "prog": [{"op": "call", "sub": sub1}], "ret": {"v": "token"}}
          sites = [{"prog": body + [{"op": "y0"}]},
                   {"form": "target", "prog": body + [{"op": "y0"}]},
                   {"prog": [{"op": "call", "sub": sub1}, {"op": "y0"}]},
                   {"prog": [{"op": "call", "sub": sub2}, {"op": "y0"}]},
                   {"form": "target", "prog": [{"op": "call", "sub": dict(sub1, direct=True)}, rel, {"op": "y0"}]}]
          for site in sites:
            for other in others:
              yield {"mode": mode, "horizon": 4, "locks": 2, "tasks": [site, {"prog": other}]}


def _enum_hangups(tier):
  """Descriptors whose other end goes away while (or before) a task waits for them in a Select that does not list them as
  exceptional: select() reports a hang-up as 'readable' (an error as readable and writable); epoll reports EPOLLHUP / EPOLLERR
  without being asked.  Either way the waiting task has to get the descriptor, and nobody else is affected."""
  for mode in ("inline", "threaded"):
    for hub in ("select", "epoll"):
      for kind in ("hup", "err"):
        for hup_at in (0, 0.25, 0.75):
          for r_at in (None, 0.125, 1.0):
            for sel in ({"r": [0]}, {"r": [0], "w": [0]}, {"w": [0]}, {"r": [0, 1]}):
              if sel == {"w": [0]} and kind == "hup":
                continue
              for t in (None, 0.5):
                for other in ([{"op": "yn", "n": 0.25}, {"op": "y0"}], [{"op": "select", "r": [1], "t": 1.5}],
                              [{"op": "busy", "d": 0.5}, {"op": "select", "r": [0], "t": 0.125}]):
                  if tier == "quick" and mode == "threaded" and (t is None or r_at == 1.0):
                    continue
                  yield {"mode": mode, "hub": hub, "horizon": 4,
                         "fds": [{"r_at": r_at, "w_at": None, "hup_at": hup_at, "hup_kind": kind}, {"r_at": 1.25}],
                         "tasks": [{"prog": [dict(sel, op="select", t=t), {"op": "y0"}, dict(sel, op="select", t=0.25)]},
                                   {"prog": other}]}


def _enum_empty_sends(tier):
  """Send of an empty buffer (and of 1 byte, for comparison) x writability x timeout x socket behaviour, in a task and in a sub-task."""
  for mode in ("inline", "threaded"):
    for n in (0, 1):
      for w_at in (0, 0.5, None):
        for t in (None, 0, 0.5):
          for sends in ([], ["eagain"], [0, "all"]):
            for insub in (False, True):
              for other in ([{"op": "y0"}], [{"op": "yn", "n": 0.25}, {"op": "send", "sock": 0, "len": 2}]):
                if w_at is None and t is None and n:
                  continue              # a non-empty Send on a socket that never becomes writable, without timeout, just waits
                snd = {"op": "send", "sock": 0, "len": n, "t": t}
                prog = [{"op": "call", "sub": _sub([snd])}, {"op": "y0"}] if insub else [snd, {"op": "y0"}, snd]
                yield {"mode": mode, "horizon": 4, "socks": [{"arrivals": [], "w_at": w_at, "sends": sends}],
                       "tasks": [{"prog": prog}, {"prog": other}]}


# ---------------------------------------------------------------------------------------------- Hypothesis

_DUR = [0.125, 0.25, 0.375, 0.5, 0.75, 1.0, 1.5, 2.5]
_AT = [0, 0.125, 0.25, 0.5, 0.75, 1.0, 1.5, 2.5, 4.5]


def _strategy(tier, mode="inline"):
  big = tier == "thorough"
  modes = st.just(mode)
  dur = st.sampled_from(_DUR)
  at = st.sampled_from(_AT)
  idx = st.integers(0, 4)
  zero = st.sampled_from([0, 0.0])                     # a poll: timeout exactly 0, int and float
  opt_dur = st.one_of(st.none(), dur, dur, zero)

  sel_fd = st.fixed_dictionaries({"op": st.just("select"), "r": st.lists(st.integers(0, 2), max_size=2, unique=True),
                                  "w": st.lists(st.integers(0, 2), max_size=1), "t": opt_dur,
                                  "style": st.sampled_from([0, 0, 1, 2]), "kw": st.booleans()})
  sel_t = st.fixed_dictionaries({"op": st.just("select"), "t": st.one_of(dur, dur, dur, zero), "style": st.sampled_from([0, 1, 2]), "kw": st.booleans()})
  sleep_rel = st.fixed_dictionaries({"op": st.just("sleep"), "n": st.sampled_from([0] + _DUR)})
  sleep_abs = st.fixed_dictionaries({"op": st.just("sleep"), "n": st.sampled_from([-0.5, 0, 0.25, 0.5, 1.0]), "abs": st.just(True)})
  recv = st.fixed_dictionaries({"op": st.just("recv"), "sock": st.integers(0, 1), "t": opt_dur, "buf": st.sampled_from([None, None, 1, 2])})
  send = st.fixed_dictionaries({"op": st.just("send"), "sock": st.integers(0, 1), "len": st.sampled_from([0, 1, 1, 2, 2, 3, 4]),
                                "bs": st.sampled_from([None, None, 1, 2]), "t": st.sampled_from([None, None, None, 0.5, 0, 0.0])})
  busy = st.fixed_dictionaries({"op": st.just("busy"), "d": dur})
  ret = st.sampled_from(["end", {"v": "token"}, {"v": "token"}, {"v": 0}, {"v": False}, {"v": None}, {"v": ""}, {"raise": 1}, {"raise": 1},
                         {"raise": 1, "base": True}, {"raise": 1, "falsy": True}])
  rf_final = st.sampled_from([{"v": "token"}, {"v": "token"}, {"v": 0}, {"v": None}, {"v": False}, {"v": ""}, "exc", "exc"])
  rfop = st.builds(lambda ab, fin, delay, catch: {"op": "rfop", "script": list(ab) + [fin], "delay": delay, "catch": catch},
                   st.sampled_from([[], [], ["abort"], ["chain"], ["abort", "abort"], ["chain", "abort"], ["abort", "chain"], ["chain", "chain"]]),
                   rf_final, st.sampled_from([0, 0, 0.125, 0.25]), st.sampled_from([True, True, True, False]))

  badop = st.fixed_dictionaries({"op": st.just("badop"), "how": st.sampled_from(["raise", "release-unheld"]), "lock": st.integers(0, 1),
                                 "catch": st.sampled_from([True, True, False])})

  acquire = st.fixed_dictionaries({"op": st.just("acquire"), "lock": st.integers(0, 1), "blocking": st.booleans()})
  release = st.fixed_dictionaries({"op": st.just("release"), "lock": st.integers(0, 1)})
  imm = st.fixed_dictionaries({"op": st.just("imm"), "how": st.sampled_from(["reclaim", "reclaim", "requeue"]),
                               "v": st.sampled_from(["token", "token", 0, False, None, ""])})

  def subs(depth):
    inner = [sleep_rel, sel_t, busy, recv, send, sel_fd, rfop, badop, acquire, release, imm]
    if depth > 0:
      inner.append(call(depth - 1))
    return st.fixed_dictionaries({"kind": st.sampled_from(["gen", "gen", "gen", "plain"]),
                                  "prog": st.lists(st.one_of(*inner), max_size=3), "ret": ret, "direct": st.booleans()})

  def call(depth):
    return st.fixed_dictionaries({"op": st.just("call"), "sub": subs(depth), "catch": st.sampled_from([True, True, True, False])})

  plain = st.one_of(
    st.just({"op": "y0"}), st.just({"op": "y0", "f": True}),
    st.fixed_dictionaries({"op": st.just("yn"), "n": dur, "int": st.booleans()}),
    sleep_rel, sleep_abs, sel_t, sel_fd, recv, send,
    st.fixed_dictionaries({"op": st.just("block"), "how": st.sampled_from(["false", "sleepnone"])}),
    st.fixed_dictionaries({"op": st.just("wake"), "task": idx}),
    st.fixed_dictionaries({"op": st.just("wake"), "task": idx}),
    call(1), call(1), rfop, badop, acquire, release, imm,
    busy,
    st.fixed_dictionaries({"op": st.just("cancel"), "timer": idx}),
    st.fixed_dictionaries({"op": st.just("mktimer"), "timer": idx}),
    st.fixed_dictionaries({"op": st.just("starttimer"), "timer": idx}),
  )
  rare = st.sampled_from([{"op": "raise"}, {"op": "raise"}, {"op": "raise", "base": True}, {"op": "exit"}, {"op": "quit"}])
  op = st.one_of(plain, plain, plain, plain, plain, plain, plain, plain, plain, plain, plain, rare)
  prog = st.lists(op, min_size=1, max_size=12 if big else 7)
  task = st.fixed_dictionaries({"prio": st.sampled_from([None, None, 1, 1, 2, 0.5, 0.25, 0.75]),
                                "form": st.sampled_from(["sub", "sub", "sub", "target"]),
                                "fast": st.booleans(), "prog": prog})
  timer = st.one_of(
    st.fixed_dictionaries({"t": st.sampled_from([0] + _DUR), "recurring": st.just(False), "abs": st.booleans(),
                           "self_stop": st.booleans(), "rets": st.lists(st.sampled_from([None, None, False, True, 0, "raise", "raise-base"]), max_size=1),
                           "create": st.sampled_from(["init", "init", "task"]), "busy": st.sampled_from([None, None, 0.25]),
                           "explicit_sched": st.booleans(), "started": st.sampled_from([True, True, False])}),
    st.fixed_dictionaries({"t": st.sampled_from(_DUR[1:]), "recurring": st.just(True), "self_stop": st.booleans(),
                           "rets": st.lists(st.sampled_from([None, None, None, False, True, 0, "cancel", "raise", "raise-base"]), max_size=5),
                           "create": st.sampled_from(["init", "init", "task"]), "busy": st.sampled_from([None, None, 0.125]),
                           "explicit_sched": st.booleans(), "started": st.sampled_from([True, True, False])}),
  )
  fd = st.fixed_dictionaries({"r_at": st.one_of(st.none(), at), "w_at": st.one_of(st.none(), at),
                              "hup_at": st.one_of(st.none(), st.none(), st.none(), at), "hup_kind": st.sampled_from(["hup", "err"])})
  sock = st.fixed_dictionaries({"arrivals": st.lists(st.tuples(at, st.integers(1, 4)).map(list), max_size=4),
                                "w_at": st.sampled_from([0, 0, 0, 0.5, 2.5]),
                                "sends": st.lists(st.sampled_from(["all", "all", 1, 1, 2, 3, 0, "eagain"]), max_size=6)})

  @st.composite
  def cases(draw):
    ntasks = draw(st.sampled_from([1, 2, 2, 2, 3, 3, 4, 5]))
    tasks = draw(st.lists(task, min_size=ntasks, max_size=ntasks))
    timers = draw(st.lists(timer, max_size=3))
    items = [["task", i] for i in range(len(tasks))] + [["timer", i] for i in range(len(timers))]
    for i, tm in enumerate(timers):
      if not tm.get("started", True) and draw(st.booleans()):
        items.append(["start", i])                 # started during start-up (a no-op if it comes before the construction)
        if draw(st.booleans()):
          items.append(["advance", draw(st.sampled_from([0.125, 0.25, 0.5, 1.0]))])
    order = draw(st.permutations(items)) if len(items) > 1 else items
    mode = draw(modes)
    sched = {}
    if mode == "threaded":
      sched = {"base": draw(st.integers(0, 1)),
               "gaps": draw(st.lists(st.tuples(st.integers(0, 120), st.integers(1, 3)).map(list), max_size=10))}
    return {
      "mode": mode, "sched": sched,
      "hub": draw(st.sampled_from(["select", "select", "epoll"])),
      "sched_thread": draw(st.booleans()),
      "rand": draw(st.lists(st.sampled_from([0.0, 0.125, 0.375, 0.5, 0.625, 0.875]), max_size=6)),
      "horizon": draw(st.sampled_from([6, 8, 12])),
      "locks": 2,
      "order": [list(x) for x in order],
      "tasks": tasks, "timers": timers,
      "fds": draw(st.lists(fd, min_size=1, max_size=3)),
      "socks": draw(st.lists(sock, min_size=1, max_size=2)),
    }
  return cases()


def plan(tier):
  # C06_HYP_SCALE scales the Hypothesis budgets of the thorough tier (for a reduced run on a loaded machine); default: full budgets
  scale = float(os.environ.get("C06_HYP_SCALE", "1"))
  if tier == "quick":
    return [
      Enum("pairs", lambda: _enum_pairs("quick"), shards=16),
      Enum("timers", lambda: _enum_timers("quick"), shards=8),
      Enum("io", lambda: _enum_io("quick"), shards=8),
      Enum("locks", lambda: _enum_locks("quick"), shards=4),
      Enum("polls", lambda: _enum_polls("quick"), shards=8),
      Enum("return-functions", lambda: _enum_rf("quick"), shards=4),
      Enum("raises", lambda: _enum_raises("quick"), shards=4),
      Enum("failing-ops", lambda: _enum_failing_ops("quick"), shards=2),
      Enum("timers-deferred", lambda: _enum_deferred("quick"), shards=4),
      Enum("queued-wakes", lambda: _enum_rewakes("quick"), shards=4),
      Enum("immediate-ops", lambda: _enum_immediate("quick"), shards=4),
      Enum("hangups", lambda: _enum_hangups("quick"), shards=4),
      Enum("empty-sends", lambda: _enum_empty_sends("quick"), shards=4),
      Hyp("programs", lambda: _strategy("quick"), examples=3200, shards=16),
      Enum("threaded-grid", lambda: _enum_threaded("quick"), shards=8),
      Enum("threaded-preempt", lambda: _enum_preempt("quick"), shards=8),
      Enum("threaded-hub-window", lambda: _enum_hub_window("quick"), shards=8),
      Hyp("threaded-programs", lambda: _strategy("quick", "threaded"), examples=800, shards=8),
    ]
  return [
    Enum("pairs", lambda: _enum_pairs("thorough"), shards=16),
    Enum("timers", lambda: _enum_timers("thorough"), shards=16),
    Enum("io", lambda: _enum_io("thorough"), shards=16),
    Enum("locks", lambda: _enum_locks("thorough"), shards=16),
    Enum("polls", lambda: _enum_polls("thorough"), shards=16),
    Enum("return-functions", lambda: _enum_rf("thorough"), shards=8),
    Enum("raises", lambda: _enum_raises("thorough"), shards=8),
    Enum("failing-ops", lambda: _enum_failing_ops("thorough"), shards=4),
    Enum("timers-deferred", lambda: _enum_deferred("thorough"), shards=8),
    Enum("queued-wakes", lambda: _enum_rewakes("thorough"), shards=8),
    Enum("immediate-ops", lambda: _enum_immediate("thorough"), shards=8),
    Enum("hangups", lambda: _enum_hangups("thorough"), shards=8),
    Enum("empty-sends", lambda: _enum_empty_sends("thorough"), shards=8),
    Hyp("programs", lambda: _strategy("thorough"), examples=max(16, int(300000 * scale)), shards=16),
    Enum("threaded-grid", lambda: _enum_threaded("thorough"), shards=16),
    Enum("threaded-preempt", lambda: _enum_preempt("thorough"), shards=16),
    Enum("threaded-hub-window", lambda: _enum_hub_window("thorough"), shards=16),
    Hyp("threaded-programs", lambda: _strategy("thorough", "threaded"), examples=max(16, int(40000 * scale)), shards=16),
  ]
