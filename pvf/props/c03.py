"""C03 -- flow match and lookup semantics agree with OpenFlow 1.0.

Two paths, one oracle (pvf/ref/of10_match, written from the specification):

direct   40 wire bytes of an ofp_match are decoded the way the switch decodes a flow_mod
         (ofp_match.unpack(flow_mod=True)), the frame is turned into a packet match with
         ofp_match.from_packet(spec_frags=True) and compared with matches_with_wildcards(
         consider_other_wildcards=False) -- exactly what FlowTable.entry_for_packet does.
table    flow_mod bytes (built with our own struct code) go through SwitchEnd.rx_bytes ->
         OFConnection.read -> _rx_flow_mod -> FlowTable; frames enter by rx_frame; the outcome is
         which entry's distinct output port fired, or a packet-in for a miss.

The match is derived from a base frame (fields copied), the probe frames are the base frame
and frames that differ from it in one OpenFlow field, so hits and near misses dominate.
The wildcard word is built in full: ten single-bit wildcards, two six-bit counters and the ten
reserved bits 22..31, which mean nothing and must change neither matching nor exactness
(exact-rank-grid: exact entry with a small priority field vs every kind of wildcarded partner
with a large one).
"""
import json
import struct

from hypothesis import strategies as st

from ..runner import Outcome, Enum, Hyp, HarnessError, exc_key
from ..ref import of10_match as M
from ..ref import of10_tablemsgs as W
from ..ref import frames as F
from ..gen import framespec as FS
from ..sim.tableswitch import TableSwitch

ID = "C03"
LEVEL = "exploration"
TECHNIQUE = ("differential testing against an independent OpenFlow 1.0 matcher: exhaustive wildcard-bit x prefix x "
             "frame-kind grid with single-field perturbations, plus Hypothesis-generated matches and flow tables driven "
             "through the switch's byte-level connection")
LEVEL_TEXT = ("Exploration by generated-input search. All 1024 combinations of the ten single-bit wildcards are enumerated "
              "against every frame kind and a set of prefix lengths, each with the full set of one-field perturbations of "
              "the frame (so every field is seen equal, different-and-compared, and different-and-ignored); Hypothesis adds "
              "random values, wildcard counters 0..63, reserved wildcard bits and tables with mixed exact/wildcard entries and arbitrary "
              "priorities; a second grid puts an exact-match entry with a small priority field against every kind of wildcarded partner "
              "with a large one, for every frame kind, reserved-bit pattern and installation order. "
              "The product of all matches and all packets is infinite, so this is dense structured sampling judged by an "
              "independent reference, not a proof.")
LEVEL_NOTE = ("trusts pvf/ref/of10_match as the reading of OpenFlow 1.0 (sections 3.4, 5.2.3 and the 1.0.1 prerequisite rule); "
              "zones the specification leaves open are counted, not judged")
RULE = ("a case is a base frame spec, an in_port and either one match (wildcard bits, two prefix counters, ten reserved high bits "
        "of the wildcard word, how wildcarded fields are filled) or a table of such matches with priorities; the match values are copied from the base frame and "
        "the probes are the base frame plus one-field perturbations. Non-trivial: at least one judged probe is a hit or a "
        "near miss (the reference finds exactly one compared field different); for tables additionally counted: probes with "
        ">= 2 matching entries of different priority, and probes where an exact-match entry has to beat a matching wildcarded "
        "entry with a larger priority field (label probe-exact-beats-higher-priority-wildcard, and ...-with-reserved-bits-... when "
        "the exact entry's wire word carries reserved bits). Distinct by SHA-1 of the canonical JSON of the case")
ASSUMPTIONS = [
  "pvf/ref/of10_match reads the specification correctly: VLAN id 0xffff / PCP 0 for untagged frames, type after the first tag, "
  "802.2+SNAP(OUI 0) -> SNAP type, every other 802.3 frame (no SNAP, or SNAP with another OUI) -> 0x05ff and no nw/tp fields, "
  "the same after an 802.1Q tag as without one (Table 3: VLAN fields from the tag; section 3.4 flow chart: continue with the type that "
  "follows the tag; a length field is never an Ethernet type), ARP opcode low byte / SPA / TPA, ICMP type/code in tp_src/tp_dst, "
  "transport fields zero for every IP fragment (offset != 0 or MF)",
  "protocol specific fields take part only when the match itself specifies the protocol with a non-wildcarded field "
  "(dl_type 0x0800/0x0806 for nw_src/nw_dst/nw_proto, 0x0800 for nw_tos, additionally nw_proto in {1,6,17} for tp_src/tp_dst); "
  "a wildcarded field's value is never looked at",
  "an entry is an exact match iff its wire wildcard word has no OFPFW_ALL bit set; bits 22..31 of the word are reserved, mean "
  "nothing and may hold anything a controller sends (neither matching nor exactness depends on them); an entry whose only wildcard bits sit on "
  "fields made inapplicable by the prerequisite rule may rank either as exact or by its priority (either accepted)",
  "not judged (counted as ambiguous): nw_tos when the frame has ECN bits or the match has the low two bits set; dl_vlan_pcp "
  "against untagged frames where the two readings differ; ARP opcode > 255; transport ports "
  "matched with an IP protocol other than ICMP/TCP/UDP",
  "with two matching entries of equal effective priority either may win",
  "in an ambiguous zone the verdict is open but the operation is still judged: the comparison / lookup completes without an "
  "exception, exactly one of {one entry's output, one packet-in} is observed, and the winner matches or may match and is not "
  "outranked by an entry that matches under every reading",
  "frames are well formed (correct lengths and checksums, CFI 0); malformed frames belong to C15",
]
_RANK_SCOPE = ("; table path (exact-rank-grid): every frame kind x 13 wildcarded partners (each single wildcard bit, nw_src/24, "
               "nw_dst/0, everything wildcarded) with a larger priority field than an exact-match entry for the same frame x 5 "
               "reserved-bit patterns in the wildcard word (none, bit 22, bit 31, all ten, mixed) x both installation orders, "
               "probed with the frame and eight one-field perturbations")
EXHAUSTIVE_SCOPE = {
  "quick": "direct path: all 1024 single-bit wildcard combinations x prefix pairs {(32,32),(24,8),(0,31)} x 20 frame kinds x "
           "{wildcarded fields zeroed, wildcarded fields holding adversarial garbage} x (base frame + every applicable one-field perturbation)" + _RANK_SCOPE,
  "thorough": "as quick with prefix lengths {0,1,8,24,31,32}^2 for all 1024 combinations, and all 33 x 33 prefix pairs for the "
              "nw-only matches (dl_type specified, rest wildcarded) on IP and ARP frames" + _RANK_SCOPE,
}

_BITS = [b for _, b in M.BIT_FIELDS]
_POX = None


def setup():
  global _POX
  if _POX is None:
    from ..sim import world
    world.boot()
    import pox.openflow.libopenflow_01 as of
    import pox.lib.packet as pkt
    _POX = (of, pkt, world)


# --------------------------------------------------------------------------- building matches

_RESV_SHIFT = 22                          # bits 22..31 of the wildcard word are reserved in OpenFlow 1.0


def _wild_word(bits10, nws, nwd, resv=0):
  """resv: ten bits placed in the reserved part (22..31) of the word; they mean nothing (OFPFW_ALL is
  (1 << 22) - 1) and a controller may send anything there."""
  w = 0
  for i, b in enumerate(_BITS):
    if bits10 & (1 << i):
      w |= b
  w |= ((nws & 0x3f) << M.OFPFW_NW_SRC_SHIFT) | ((nwd & 0x3f) << M.OFPFW_NW_DST_SHIFT)
  return w | ((resv & 0x3ff) << _RESV_SHIFT)


def _garbage_value(f, v):
  if f in ("dl_src", "dl_dst"):
    return bytes([v[0] ^ 2]) + v[1:5] + bytes([v[5] ^ 0x55])
  if f == "dl_type":
    return F.ETH_IP if v != F.ETH_IP else F.ETH_ARP
  if f == "nw_proto":
    return 6 if v != 6 else 17
  if f == "dl_vlan":
    return 1 if v != 1 else 2
  if f == "dl_vlan_pcp":
    return (v ^ 5) & 7
  if f == "nw_tos":
    return (v ^ 0x44) & 0xfc
  if f == "in_port":
    return v % 3 + 1
  return (v ^ 0x0101) & 0xffff


def build_match(pktf, bits10, nws, nwd, garbage, resv=0):
  """Match whose compared fields equal the frame's.  garbage: 0 = wildcarded fields (and address bits
  beyond the prefix) are zero, 1 = they hold the frame's values, 2 = they hold values that differ from
  the frame's and that would change the outcome if they were looked at."""
  w = _wild_word(bits10, nws, nwd, resv)
  m = {"wildcards": w}
  for f, bit in M.BIT_FIELDS:
    v = pktf[f]
    if w & bit:
      if garbage == 0:
        v = M._ZERO[f]
      elif garbage == 2:
        v = _garbage_value(f, v)
    m[f] = v
  for f, cnt in (("nw_src", nws), ("nw_dst", nwd)):
    v = pktf[f]
    pl = 0 if cnt >= 32 else 32 - cnt
    host = 0xffffffff >> pl if pl < 32 else 0
    if garbage == 0:
      v &= ~host & 0xffffffff
    elif garbage == 2:
      v ^= host
    m[f] = v
  return m


def _prereq_garbage(m, field=None):
  """The match holds a protocol value in a wildcarded dl_type / nw_proto field (on which `field` depends)."""
  w = m["wildcards"]
  dl = bool((w & M.OFPFW_DL_TYPE) and m["dl_type"] in (F.ETH_IP, F.ETH_ARP))
  nw = bool((w & M.OFPFW_NW_PROTO) and m["nw_proto"] in (1, 6, 17))
  if field is None:
    return dl or nw
  if field in ("nw_tos", "nw_proto", "nw_src", "nw_dst"):
    return dl
  if field in ("tp_src", "tp_dst"):
    return dl or nw
  return False


# --------------------------------------------------------------------------- POX side

def pox_decode(raw40):
  of = _POX[0]
  m = of.ofp_match()
  m.unpack(raw40, 0, flow_mod=True)
  return m


def pox_packet_match(frame, in_port):
  of, pkt, _ = _POX
  return of.ofp_match.from_packet(pkt.ethernet(frame), in_port, spec_frags=True)


def pox_matches(pm, frame, in_port, pkm=None):
  if pkm is None:
    pkm = pox_packet_match(frame, in_port)
  return bool(pm.matches_with_wildcards(pkm, consider_other_wildcards=False))


def _zone(pktf):
  notes = pktf.get("notes", ())
  for n in ("snap-oui", "snap", "llc", "fragment"):
    if n in notes:
      return ("vlan+" + n) if "vlan+llc" in notes else n
  return "plain"


def _tagged_8023(pktf):
  """802.1Q tag followed by an 802.3 length field (then LLC or LLC+SNAP)"""
  return "vlan+llc" in pktf.get("notes", ())


def _blame_refused(m, pkm):
  """POX refuses a frame the reference accepts: the fields on which POX's own field-by-field comparison
  fails, in ofp_match order.  Diagnostic only (it selects the violation key); it mirrors the comparisons of
  matches_with_wildcards on the decoded objects."""
  of = _POX[0]
  pm = pox_decode(M.pack_match(m))
  bad = []
  for f in M.MATCH_FIELDS:
    try:
      if f in ("nw_src", "nw_dst"):
        mine = getattr(pm, "get_" + f)()
        if mine[0] is None:
          continue
        other = getattr(pkm, "get_" + f)()
        if mine[1] > other[1] or other[0] is None or not of.IPAddr(other[0]).inNetwork((mine[0], mine[1])):
          bad.append(f)
      else:
        mine = getattr(pm, f)
        if mine is not None and mine != getattr(pkm, f):
          bad.append(f)
    except Exception:
      bad.append(f)
  return bad


def _mismatch_key(m, frame, in_port, pktf, ref, clause="match"):
  """Root-cause key of a disagreement on (match, frame): which field is to blame, in which kind of frame,
  whether that field is an address with non-zero bits beyond its prefix, and whether the match carries a
  protocol value in a wildcarded prerequisite field."""
  blame = None
  if ref:
    b = _blame_refused(m, pox_packet_match(frame, in_port))
    blame = b[0] if b else None
  else:
    e = M.effective(m)
    for f in M.MATCH_FIELDS:
      v = e[f]
      if v is None:
        continue
      if f in ("nw_src", "nw_dst"):
        if (pktf[f] & M._mask(v[1])) != v[0]:
          blame = f
          break
      elif pktf[f] != v:
        blame = f
        break
  host_bits = False
  if blame in ("nw_src", "nw_dst"):
    pl = M.prefix_len(m["wildcards"], M.OFPFW_NW_SRC_SHIFT if blame == "nw_src" else M.OFPFW_NW_DST_SHIFT)
    host_bits = pl > 0 and (m[blame] & ~M._mask(pl) & 0xffffffff) != 0
  return {"clause": clause, "ref": bool(ref), "blame": blame, "zone": _zone(pktf), "host_bits": host_bits,
          "prereq_garbage": _prereq_garbage(m, blame), "tagged_8023": _tagged_8023(pktf)}


def _differing(m, pktf, e=None):
  if e is None:
    e = M.effective(m)
  n = 0
  for f in M.MATCH_FIELDS:
    v = e[f]
    if v is None:
      continue
    if f in ("nw_src", "nw_dst"):
      if (pktf[f] & M._mask(v[1])) != v[0]:
        n += 1
    elif pktf[f] != v:
      n += 1
  return n


_PROBE_CACHE = {}


def _probes(spec, in_port, whats, ps, pd):
  """[(what, frame, in_port, extracted fields, POX packet match)]: the base frame and its one-field
  perturbations.  Memoised: the grid re-uses the same few probe sets for thousands of matches (the
  values are pure functions of the arguments and of the code under test)."""
  key = (json.dumps(spec, sort_keys=True), in_port, tuple(whats), ps, pd)
  r = _PROBE_CACHE.get(key)
  if r is None:
    todo = [("base", spec, in_port)]
    for what in whats:
      x = FS.perturb(spec, in_port, what, ps, pd)
      if x is not None:
        todo.append((what, x[0], x[1]))
    r = []
    for what, sp, port in todo:
      frame = FS.mkframe(sp)
      r.append((what, frame, port, M.extract(frame, port), pox_packet_match(frame, port)))
    if len(_PROBE_CACHE) > 4096:
      _PROBE_CACHE.clear()
    _PROBE_CACHE[key] = r
  return r


def _plen(cnt):
  return 0 if cnt >= 32 else 32 - cnt


# --------------------------------------------------------------------------- direct path

def case_direct(c, out):
  spec, in_port = c["frame"], c["in_port"]
  nws, nwd = c["nws"], c["nwd"]
  base = FS.mkframe(spec)
  basef = M.extract(base, in_port)
  m = build_match(basef, c["bits"], nws, nwd, c.get("garbage", 0), c.get("resv", 0))
  raw = M.pack_match(m)
  pm = pox_decode(raw)
  out.label("garbage=%d" % c.get("garbage", 0), "zone=" + _zone(basef))
  if m["wildcards"] & ~M.OFPFW_ALL:
    out.label("reserved-wildcard-bits")
  if M.is_exact(m):
    out.label("exact-match")
  if _prereq_garbage(m):
    out.label("prereq-garbage")
  e = M.effective(m)
  for what, frame, port, pf, pkm in _probes(spec, in_port, c.get("probes", FS.PERTURBATIONS), _plen(nws), _plen(nwd)):
    amb = M.ambiguous(m, pf, e)
    if amb:
      # the specification does not settle the verdict here, but the comparison must still complete
      for z in amb:
        out.label("ambiguous:" + z)
      out.label("probe-unjudged")
      try:
        pox_matches(pm, frame, port, pkm)
      except Exception as x:
        out.violations.append({"key": exc_key(x, clause="match-raises", zone=amb[0]),
                               "msg": "match %s vs probe %r (in_port %d, frame %s) in the ambiguous zone %r: the comparison raised %r" % (
                                   raw.hex(), what, port, frame.hex(), amb, x)})
      continue
    ref = M.matches(m, pf, e)
    nd = _differing(m, pf, e)
    out.label("probe-hit" if nd == 0 else ("probe-near-miss" if nd == 1 else "probe-far"))
    if _tagged_8023(pf):
      out.label("probe-tagged-802.3:" + _zone(pf))
    if nd <= 1:
      out.nontrivial = True
    if what != "base" and ref:
      out.label("probe-differs-in-ignored-field")
    got = pox_matches(pm, frame, port, pkm)
    if got != ref:
      k = _mismatch_key(m, frame, port, pf, ref)
      out.violations.append({"key": k, "msg": "match %s (wildcards %#x) vs probe %r (in_port %d, frame %s): reference says %s, POX says %s; "
                             "extracted %r" % (raw.hex(), m["wildcards"], what, port, frame.hex(), ref, got,
                                               {f: pf[f] for f in M.MATCH_FIELDS})})


# --------------------------------------------------------------------------- table path

_TAG0 = 10
_MAX_ENTRIES = 16


def _entry_kind(m):
  if not M.is_exact(m):
    return "wild"
  if m["dl_type"] == F.ETH_IP:
    return "exact-ip-l4" if m["nw_proto"] in (1, 6, 17) else "exact-ip-other"
  if m["dl_type"] == F.ETH_ARP:
    return "exact-arp"
  return "exact-other"


def _ambiguous_lookup(out, sw, live, unsettled, what, frame, port, pf):
  """A probe for which the specification does not settle whether some entries match.  Which entry wins is
  then open, but the lookup must still complete: exactly one of {one installed entry's output, one
  packet-in}, no exception, and the winner admissible under some reading -- it matches or may match, and
  no entry that matches under every reading outranks it."""
  out.label("probe-unjudged", "probe-ambiguous-lookup")
  hi = lambda e: 0x10001 if M.is_exact_semantic(e["m"]) else e["prio"]
  lo = lambda e: 0x10001 if M.is_exact(e["m"]) else e["prio"]
  definite = [e for e in live if e not in unsettled and M.matches(e["m"], pf)]
  floor = max([lo(e) for e in definite]) if definite else None
  admissible = [e for e in live if (e in unsettled or e in definite) and (floor is None or hi(e) >= floor)]
  desc = "probe %r in_port %d frame %s (ambiguous for entries %r); table %s" % (
      what, port, frame.hex(), [e["idx"] for e in unsettled], [(e["idx"], e["raw"].hex(), e["prio"]) for e in live])
  try:
    emitted = sw.frame(frame, port)
  except Exception as x:
    out.violations.append({"key": exc_key(x, clause="lookup-raises"), "msg": "the lookup raised %r; %s" % (x, desc)})
    return
  msgs = sw.replies()
  pins = [x for x in msgs if x.get("kind") == "packet_in"]
  others = [x for x in msgs if x.get("kind") != "packet_in"]
  if others:
    out.fail("lookup-unexpected-message", "frame caused %r; %s" % (others, desc), kind=others[0].get("kind"))
  ports = [p for p, _ in emitted]
  if len(ports) + len(pins) != 1:
    out.fail("lookup-output", "outputs on ports %r and %d packet-ins for one frame; %s" % (ports, len(pins), desc))
    return
  def refused():
    # is it the matcher (an entry that matches under every reading is refused by POX's comparison) or the lookup?
    for e in sorted(definite, key=lambda e: -lo(e)):
      if not pox_matches(pox_decode(e["raw"]), frame, port):
        return _mismatch_key(e["m"], frame, port, pf, True)
    return None
  if pins:
    if definite:
      k = refused() or {"clause": "lookup-miss", "winner": _entry_kind(definite[0]["m"])}
      out.violations.append({"key": k, "msg": "table miss although entries %r match under every reading; %s" % (
          [e["idx"] for e in definite], desc)})
    return
  got = [e for e in live if e["port"] == ports[0]]
  if not got:
    out.fail("lookup-output", "output on port %d which belongs to no live entry; %s" % (ports[0], desc))
  elif got[0] not in admissible:
    k = (refused() if got[0] in definite else None) or {"clause": "lookup-inadmissible", "matches": bool(got[0] in definite)}
    out.violations.append({"key": k, "msg": "entry %d fired; admissible under some reading are %r; %s" % (
        got[0]["idx"], [e["idx"] for e in admissible], desc)})


def case_table(c, out):
  spec, in_port = c["frame"], c["in_port"]
  base = FS.mkframe(spec)
  entries = []
  for i, e in enumerate(c["entries"][:_MAX_ENTRIES]):
    s2, p2 = spec, in_port
    if e.get("pert"):
      r = FS.perturb(spec, in_port, e["pert"], _plen(e["nws"]), _plen(e["nwd"]))
      if r is not None:
        s2, p2 = r
    pf = M.extract(FS.mkframe(s2), p2)
    m = build_match(pf, e["bits"], e["nws"], e["nwd"], e.get("garbage", 0), e.get("resv", 0))
    if m["wildcards"] & ~M.OFPFW_ALL:
      out.label("entry-reserved-wildcard-bits")
      if M.is_exact(m):
        out.label("entry-exact-with-reserved-wildcard-bits")
    entries.append({"m": m, "raw": M.pack_match(m), "prio": e["prio"], "port": _TAG0 + i, "idx": i})
  sw = TableSwitch(ports=_TAG0 + _MAX_ENTRIES)
  try:
    for e in entries:
      sw.send(W.flow_mod(e["raw"], W.OFPFC_ADD, priority=e["prio"], cookie=e["idx"] + 1,
                         actions=W.action_output(e["port"]), xid=100 + e["idx"]))
    for x in sw.swallowed:
      out.violations.append({"key": exc_key(x, clause="flow-mod-handler-exception"),
                             "msg": "exception while handling a flow_mod: %r" % (x,)})
    msgs = sw.replies()
    if msgs:
      out.fail("flow-mod-reply", "switch answered plain ADDs with %r" % (msgs,), kind=msgs[0].get("kind"))
      return
    # an ADD whose match and priority are identical on the wire replaced the earlier entry
    live = []
    for e in entries:
      live = [o for o in live if not (o["raw"] == e["raw"] and o["prio"] == e["prio"])]
      live.append(e)
    table = sw.table.entries
    pr = [t.effective_priority for t in table]
    if any(pr[i] < pr[i + 1] for i in range(len(pr) - 1)):
      out.fail("table-order", "entries are not sorted by non-increasing effective priority: %r" % (pr,))
    for what, frame, port, pf, _pkm in _probes(spec, in_port, c.get("probes", FS.PERTURBATIONS), 32, 32):
      unsettled = [e for e in live if M.ambiguous(e["m"], pf)]
      if unsettled:
        _ambiguous_lookup(out, sw, live, unsettled, what, frame, port, pf)
        continue
      matching = [e for e in live if M.matches(e["m"], pf)]
      eff = lambda e: 0x10001 if M.is_exact(e["m"]) else e["prio"]
      top = max([eff(e) for e in matching]) if matching else None
      winners = [e for e in matching if eff(e) == top]
      # entries whose only wildcards sit on inapplicable fields may or may not rank as exact
      eff2 = lambda e: 0x10001 if M.is_exact_semantic(e["m"]) else e["prio"]
      top2 = max([eff2(e) for e in matching]) if matching else None
      also = [e for e in matching if eff2(e) == top2 and e not in winners]
      if also:
        out.label("probe-exactness-ambiguous")
      out.label("probe-matching=%d" % min(len(matching), 4))
      if matching:
        out.nontrivial = True
      if len(set(eff(e) for e in matching)) >= 2:
        out.label("probe-several-priorities")
        if any(M.is_exact(e["m"]) for e in matching):
          out.label("probe-exact-vs-wildcard")
          # the exactness rule decides: some wildcarded matching entry has the larger priority field
          if any(e["prio"] > w["prio"] for w in winners for e in matching if not M.is_exact_semantic(e["m"])):
            out.label("probe-exact-beats-higher-priority-wildcard")
            if any(w["m"]["wildcards"] & ~M.OFPFW_ALL for w in winners):
              out.label("probe-exact-with-reserved-bits-beats-higher-priority-wildcard")
      if _tagged_8023(pf):
        out.label("probe-tagged-802.3:" + _zone(pf))
      if len(winners) >= 2:
        out.label("probe-tie")
      emitted = sw.frame(frame, port)
      msgs = sw.replies()
      pins = [x for x in msgs if x.get("kind") == "packet_in"]
      others = [x for x in msgs if x.get("kind") != "packet_in"]
      if others:
        out.fail("lookup-unexpected-message", "frame caused %r" % (others,), kind=others[0].get("kind"))
      ports = [p for p, _ in emitted]
      desc = "probe %r in_port %d frame %s; table %s; reference winners %r" % (
          what, port, frame.hex(), [(e["idx"], e["raw"].hex(), e["prio"]) for e in live], [e["idx"] for e in winners])
      if not matching:
        out.label("probe-miss")
        if ports:
          hit = [e for e in live if e["port"] in ports]
          if hit:
            k = _mismatch_key(hit[0]["m"], frame, port, pf, False)
            out.violations.append({"key": k, "msg": "entry %d fired although the reference says no entry matches; %s" % (hit[0]["idx"], desc)})
          else:
            out.fail("lookup-output", "output on ports %r not belonging to any entry; %s" % (ports, desc))
        elif len(pins) != 1:
          out.fail("lookup-miss-packet-in", "%d packet-ins for a table miss; %s" % (len(pins), desc))
        continue
      if len(ports) != 1 or pins:
        if not ports:
          # a miss although something matches: is it the matcher or the lookup?
          k = None
          for e in winners:
            if not pox_matches(pox_decode(e["raw"]), frame, port):
              k = _mismatch_key(e["m"], frame, port, pf, True)
              break
          if k is None:
            k = {"clause": "lookup-miss", "winner": _entry_kind(winners[0]["m"])}
          out.violations.append({"key": k, "msg": "table miss (%d packet-ins) although entries match; %s" % (len(pins), desc)})
        else:
          out.fail("lookup-output", "outputs on ports %r and %d packet-ins for one frame; %s" % (ports, len(pins), desc))
        continue
      got = [e for e in live if e["port"] == ports[0]]
      if not got:
        replaced = [e for e in entries if e["port"] == ports[0]]
        out.fail("lookup-replaced-entry-fired" if replaced else "lookup-output",
                 "output on port %d which belongs to no live entry; %s" % (ports[0], desc))
        continue
      g = got[0]
      if g in winners or g in also:
        continue
      if g not in matching:
        k = _mismatch_key(g["m"], frame, port, pf, False)
        out.violations.append({"key": k, "msg": "entry %d fired although the reference says it does not match; %s" % (g["idx"], desc)})
        continue
      # a matching entry of lower effective priority won: matcher disagreement on the winner, or ordering?
      k = None
      for e in winners:
        if not pox_matches(pox_decode(e["raw"]), frame, port):
          k = _mismatch_key(e["m"], frame, port, pf, True)
          break
      if k is None:
        wk = _entry_kind(winners[0]["m"])
        k = {"clause": "lookup-priority", "winner": wk, "got": _entry_kind(g["m"]),
             "implied_wildcards": wk in ("exact-arp", "exact-other", "exact-ip-other"),
             "reserved_wildcard_bits": bool(winners[0]["m"]["wildcards"] & ~M.OFPFW_ALL)}
      out.violations.append({"key": k, "msg": "entry %d (priority %d, %s) fired but entry %d (priority %d, %s) outranks it; %s" % (
          g["idx"], g["prio"], _entry_kind(g["m"]), winners[0]["idx"], winners[0]["prio"], _entry_kind(winners[0]["m"]), desc)})
  finally:
    sw.close()


_CASES = {"direct": case_direct, "table": case_table}


def run_case(case):
  setup()
  out = Outcome()
  kind = case["kind"]
  out.label("kind=" + kind)
  _CASES[kind](case, out)
  return out


# --------------------------------------------------------------------------- enumeration

_QUICK_PREFIXES = [(0, 0), (8, 24), (32, 1)]          # wildcard counters (nws, nwd): /32,/32  /24,/8  /0,/31
_THOROUGH_COUNTS = [0, 1, 8, 24, 31, 32]


def enum_direct(tier):
  pairs = _QUICK_PREFIXES if tier == "quick" else [(a, b) for a in _THOROUGH_COUNTS for b in _THOROUGH_COUNTS]
  for name, spec in FS.CATALOG:
    for bits in range(1024):
      for (nws, nwd) in pairs:
        for g in (0, 2):
          yield {"kind": "direct", "frame": spec, "in_port": 1 + (bits % 3), "bits": bits, "nws": nws, "nwd": nwd, "garbage": g}
  if tier == "thorough":
    nw_only = 1023 & ~(1 << 4)            # everything wildcarded but dl_type
    for name in ("tcp", "arp-req", "udp-vlan"):
      spec = FS.CATALOG_BY_NAME[name]
      for nws in range(33):
        for nwd in range(33):
          yield {"kind": "direct", "frame": spec, "in_port": 2, "bits": nw_only, "nws": nws, "nwd": nwd, "garbage": 2,
                 "probes": ["nw_src_in", "nw_src_out", "nw_dst_in", "nw_dst_out", "nw_src_hi", "nw_dst_hi"]}


# reserved-bit patterns (ten bits, placed at 22..31): none, lowest, highest (bit 31), all, mixed
_RESV_PATTERNS = [0, 0x001, 0x200, 0x3ff, 0x169]
# the wildcarded partner of the exact entry: (bits, nws, nwd)
_PARTNERS = [(1 << i, 0, 0) for i in range(10)] + [(0, 8, 0), (0, 0, 32), (1023, 32, 32)]
_RANK_PROBES = ["in_port", "dl_src", "dl_vlan", "dl_type", "nw_tos", "nw_src_in", "nw_dst_hi", "tp_dst"]


def enum_exact_rank():
  """Table path: an exact-match entry (no bit of OFPFW_ALL set on the wire) with a small priority field next to
  a wildcarded entry with a large one, both built from the same frame, in both installation orders, with every
  reserved-bit pattern in the exact entry's wildcard word (and, in half of the cases, in the partner's).  The
  probes are the frame itself (both match: the exact entry must take it) and one-field perturbations (only the
  partner can match, and only when the changed field is the one it wildcards)."""
  for name, spec in FS.CATALOG:
    for pi, (bits, nws, nwd) in enumerate(_PARTNERS):
      for ri, resv in enumerate(_RESV_PATTERNS):
        for order in (0, 1):
          exact = {"bits": 0, "nws": 0, "nwd": 0, "prio": 10 if order else 0, "garbage": 0, "pert": None, "resv": resv}
          wild = {"bits": bits, "nws": nws, "nwd": nwd, "prio": 60000 if order else 0xffff, "garbage": (pi + ri) % 3,
                  "pert": None, "resv": resv if (pi + ri + order) % 2 else 0}
          yield {"kind": "table", "frame": spec, "in_port": 1 + (pi % 3), "entries": [wild, exact] if order else [exact, wild],
                 "probes": _RANK_PROBES}


# --------------------------------------------------------------------------- Hypothesis

_u8 = st.integers(0, 255)
_u16 = st.one_of(st.sampled_from([0, 1, 80, 0xffff, 0x8000]), st.integers(0, 0xffff))
_u32 = st.one_of(st.sampled_from([0, 1, 0xffffffff, 0x80000000, 0x0a000001, 0x7fffffff]), st.integers(0, 0xffffffff))
_mac = st.one_of(st.sampled_from([0x020000000001, 0xffffffffffff, 0x01005e000001, 0x0000000000ff]),
                 st.integers(0, (1 << 48) - 1)).filter(lambda x: x != 0x0180c2000000)
_cnt = st.one_of(st.sampled_from([0, 1, 8, 16, 24, 31, 32, 33, 63]), st.integers(0, 63))
_bits = st.one_of(st.sampled_from([0, 1023, 1023 & ~16, 1023 & ~(16 | 32), 0x3]), st.integers(0, 1023))
_resv = st.one_of(st.sampled_from([0, 0, 0, 0, 0, 0x001, 0x200, 0x3ff]), st.integers(0, 0x3ff))
_prio = st.one_of(st.sampled_from([0, 1, 2, 0x8000, 0xffff]), st.integers(0, 0xffff))


@st.composite
def _spec(draw):
  l3 = draw(st.sampled_from(["ip", "ip", "ip", "arp", "raw"]))
  s = {"l3": l3, "src": draw(_mac), "dst": draw(_mac), "pay": draw(st.integers(0, 40))}
  l2 = draw(st.sampled_from(["eth", "eth", "eth", "eth", "snap", "llc"]))
  if l2 == "llc":
    s["l3"] = l3 = "raw"
  s["l2"] = l2
  if draw(st.booleans()):
    s["vlan"] = [draw(st.integers(0, 7)), draw(st.sampled_from([0, 1, 100, 4094, 4095]))]
    if draw(st.integers(0, 7)) == 0:
      s["vlan2"] = [draw(st.integers(0, 7)), draw(st.sampled_from([0, 5, 4095]))]
  if l2 == "snap" and draw(st.integers(0, 7)) == 0:
    s["oui"] = draw(st.sampled_from([0x00000c, 0x080007, 1]))
  if l3 == "ip":
    l4 = draw(st.sampled_from(["tcp", "udp", "icmp", "raw"]))
    s.update({"l4": l4, "ip_src": draw(_u32), "ip_dst": draw(_u32), "tos": draw(st.sampled_from([0, 0x20, 0xb8, 0xfc, 0x04])),
              "nopts": draw(st.sampled_from([0, 0, 1, 10])), "ttl": draw(st.sampled_from([1, 64, 255]))})
    if l4 == "raw":
      s["proto"] = draw(st.sampled_from([0, 89, 50, 132, 253, 255]))
    if l4 == "icmp":
      s["sport"], s["dport"] = draw(_u8), draw(_u8)
    else:
      s["sport"], s["dport"] = draw(_u16), draw(_u16)
    fr = draw(st.sampled_from([0, 0, 0, 1, 2, 3]))
    if fr in (1, 3):
      s["mf"] = True
    if fr in (2, 3):
      s["frag"] = draw(st.sampled_from([1, 185, 0x1fff]))
  elif l3 == "arp":
    s.update({"op": draw(st.sampled_from([1, 2, 3, 4, 255, 256, 0x0101])), "spa": draw(_u32), "tpa": draw(_u32)})
  else:
    s["etype"] = draw(st.sampled_from([0x88b5, 0x86dd, 0x88b6, 0x0600, 0xffff, 0x22f0, 0x9000]))
  return s


@st.composite
def _direct(draw):
  return {"kind": "direct", "frame": draw(_spec()), "in_port": draw(st.integers(1, 3)), "bits": draw(_bits),
          "nws": draw(_cnt), "nwd": draw(_cnt), "garbage": draw(st.sampled_from([0, 1, 2])), "resv": draw(_resv)}


@st.composite
def _table(draw, max_entries):
  n = draw(st.integers(1, max_entries))
  prios = draw(st.lists(_prio, min_size=1, max_size=3))
  entries = []
  for _ in range(n):
    exact = draw(st.integers(0, 5)) == 0
    e = {"bits": 0 if exact else draw(_bits), "nws": 0 if exact else draw(_cnt), "nwd": 0 if exact else draw(_cnt),
         "prio": draw(st.one_of(st.sampled_from(prios), _prio)), "garbage": draw(st.sampled_from([0, 0, 1, 2])),
         "pert": draw(st.sampled_from([None, None, None] + FS.PERTURBATIONS[:17])), "resv": draw(_resv)}
    entries.append(e)
  return {"kind": "table", "frame": draw(_spec()), "in_port": draw(st.integers(1, 3)), "entries": entries}


def plan(tier):
  if tier == "quick":
    return [
      Enum("direct-grid", lambda: enum_direct("quick"), shards=16),
      Enum("exact-rank-grid", enum_exact_rank, shards=16),
      Hyp("direct-generated", _direct, examples=4000, shards=8),
      Hyp("tables", lambda: _table(8), examples=500, shards=8),
    ]
  return [
    Enum("direct-grid", lambda: enum_direct("thorough"), shards=16),
    Enum("exact-rank-grid", enum_exact_rank, shards=16),
    Hyp("direct-generated", _direct, examples=600000, shards=16),
    Hyp("tables", lambda: _table(16), examples=60000, shards=16),
  ]
