"""C11 -- the learning-switch control loop forwards like an ideal learning bridge.

World: pox.forwarding.l2_learning on the real nexus, 1-3 SoftwareSwitch(+ExpireMixin) joined to it through the
real OpenFlow codec over byte pipes, a loop-free cabling between them (pvf.sim.net), hosts on edge ports,
virtual clock.  A case is a configuration plus a history of small ops (frame, burst, move, advance) that is
interpreted against the real code and against pvf.ref.bridge (one ideal bridge per switch + an upper bound on
what the flow cache may still hold) in lock-step.  Every frame that enters a switch is one judged hop.

How the network comes into being is part of the case: without a "bringup" field the switches connect one after the
other; with it, a schedule of small steps (connect switch i, move the bytes waiting in one direction of its control
connection, one select round over all connections, drop connection i) orders and interleaves their OpenFlow
handshakes, switches marked late are powered only at a "join" op in the middle of the history, and whatever the
schedule leaves unfinished is completed.  The oracle does not look at the handshake: once the control channels are
quiet every powered switch is part of "the network of switches controlled by the component" and its frames are judged.
"""
import itertools
import struct

from hypothesis import strategies as st

from ..runner import Outcome, Enum, Hyp, HarnessError
from ..ref import bridge as B

ID = "C11"
LEVEL = "exploration"
TECHNIQUE = ("model-based testing of histories: the real controller component, codec and software switches under a virtual "
             "clock, judged hop by hop against an independent learning-bridge model; exhaustive short histories + Hypothesis")
LEVEL_TEXT = ("Exploration by generated histories: every history of at most 3 (quick) / 4 (thorough) operations over 3 hosts on "
              "one switch is enumerated under four configurations, and Hypothesis draws longer histories (to 60 / 200 operations) "
              "over 2-5 hosts on 1-3 switches with host moves, back-to-back bursts, timeout gaps, buffer pools 0/1/100 and "
              "several miss_send_len values; the order in which the switches' OpenFlow handshakes run (one after the other, "
              "interleaved half-turn by half-turn, connections dropped in mid-handshake or after it and made again, switches "
              "joining after traffic) is enumerated for two and three switches and drawn as part of the random histories. The composition has unbounded state (address tables, cached flows, outstanding "
              "buffers), so bounded enumeration plus random search with shrinking is the strongest level this technique gives; "
              "no absence claim beyond the enumerated bound.")
LEVEL_NOTE = ("trusts the reference bridge (pvf/ref/bridge.py) and the harness-side observation 'the switch wrote to its control "
              "channel while receiving the frame' as the definition of a flow-cache miss; frames are ones POX's packet library "
              "re-serialises byte-identically (that identity is C14's subject)")
RULE = ("a case is a configuration (tree of 1-3 switches, 2-5 hosts, transparent flag, buffer pool, miss_send_len) and a history "
        "of ops: frame(host, destination class, header template, size), burst(several frames before the control channel runs), "
        "resend(k-th last frame, optionally reversed), move(host, free edge port), advance(k/8 s), join(late switches come up); "
        "optionally a bring-up schedule of steps att(i, switch says HELLO first?), step(i) (next half-turn of connection i), "
        "c2s(i)/s2c(i), turn (one select round), drop(i). Non-trivial: the history contains a move of a host that had already sent, "
        "or an advance of at least 10 s after a unicast flow was installed, followed by a frame addressed to the moved host / to a "
        "known host; or a frame is judged at a switch whose bring-up was contested (a second handshake began while the controller "
        "had not yet read the BARRIER_REPLY of another one -- observed by the harness on the wire -- or a connection of that "
        "phase was dropped in mid-handshake); distinct by SHA-1 of the canonical JSON of the case")
ASSUMPTIONS = [
  "hold-down (_flood_delay) is 0 and the topology is loop-free, as the property's quantifier says",
  "all switch ports are up; 'every other port' therefore means every port of the switch except the ingress port",
  "a flow installed at time t can be present until min(t+hard, last use+idle) plus the 2 s expiry sweep period of ExpireMixin; "
  "within that window delivery to the older port is accepted (the property's 'older cached flow' clause)",
  "a frame that the switch forwards from its cache is not seen by the controller; when the controller later forwards by an "
  "address table that is stale for that reason and no flow is installed any more, that is judged a violation of 'exactly the "
  "most recent port' (own root-cause key: clause not-most-recent-port / learning-masked-by-cached-flow)",
  "every switch of the network eventually has an open control connection on which nothing is lost: a bring-up schedule may "
  "drop connections, but the runner reconnects every switch and lets all connections run to quiescence before frames are sent; "
  "a switch that is not powered yet (late joiner) neither receives nor emits frames",
  "a control connection is only dropped before the switch has carried traffic (a reconnect with cached flows but an empty "
  "controller address table is outside what the statement's 'already seen' can be held against)",
  "miss_send_len >= 14 (the controller needs the Ethernet header); transparent=True forwards LLDP and 01:80:c2:00:00:0x as "
  "ordinary frames, which is what the option documents",
]
EXHAUSTIVE_SCOPE = {
  "quick": "all histories of length <= 3 over the 20-op alphabet (3 hosts on one 4-port switch: 12 unicast/broadcast/unknown "
           "frames (host 0 sends IPv4/UDP with ECN bits set, host 1 first fragments of IPv4/TCP with a DSCP, host 2 ARP with opcode 256; one frame whose source is the broadcast address), LLDP-type and 01:80:c2:00:00:00 frame, 3 moves, advance 12 s / 32 s) x 4 configurations "
           "(transparent, pool, miss_send_len) in {(F,100,128),(T,100,128),(F,0,128),(F,1,14)}; bursts of 16/25/40 back-to-back "
           "broadcast frames and alternating known-unicast frames with payload sizes 96..132 under three buffer configurations; "
           "bring-up schedules, each followed by broadcast / reply / answer between a host on the first and one on the last switch of a chain: "
           "all 3432 interleavings of the 7+7 half-turns of two switches' handshakes; for one and two switches every (a, b, drop none/0/1/both, c) "
           "with a, b in 0..7 half-turns done before the drop and c in 0..3 after it, switch-HELLO-first and controller-HELLO-first; for three "
           "switches every sequence of at most 3 of {connect 0, connect 1 (HELLO first), connect 2, select round, drop 0, drop 1, drop 2}; "
           "two of three switches joining after a first broadcast with all 20 interleavings of their first 3+3 half-turns",
  "thorough": "as quick with length <= 4, burst payload sizes 60..199, the two-switch interleavings also with the switches saying HELLO first "
              "(924 more), three-switch sequences of at most 4",
}

_S = {}


def setup():
  if _S:
    return
  from ..sim import world as W
  W.boot()
  import pox.forwarding.l2_learning as L
  import pox.lib.packet as pkt
  _S["L"] = L
  _S["pkt"] = pkt


# --------------------------------------------------------------------------- frames (bytes, written from the RFCs)

def _csum(b):
  if len(b) % 2:
    b += b"\0"
  s = sum(struct.unpack("!%dH" % (len(b) // 2), b))
  while s >> 16:
    s = (s & 0xffff) + (s >> 16)
  return (~s) & 0xffff


def host_mac(i):
  return bytes([2, 0, 0, 0, 0, 1 + i])


def _ip(i):
  return bytes([10, 0, 0, 1 + (i % 250)])


def dst_mac(d):
  k = d[0]
  if k == "h":
    return host_mac(d[1])
  if k == "u":
    return bytes([2, 0, 0, 0, 0xee, d[1] & 0xff])
  if k == "b":
    return b"\xff" * 6
  if k == "m":
    return [b"\x01\x00\x5e\x00\x00\x01", b"\x33\x33\x00\x00\x00\x01", b"\x03\x00\x00\x00\x00\x07",
            b"\x01\x80\xc2\x00\x00\x10"][d[1] % 4]
  if k == "bf":
    return b"\x01\x80\xc2\x00\x00" + bytes([d[1] & 0x0f])
  raise HarnessError("bad destination %r" % (d,))


def _ipv4(sip, dip, proto, payload, seq, tos=0, frag=0):
  """IPv4 header + payload.  frag: 0 whole datagram, 1 first fragment (MF set), 2 later fragment (offset 64)."""
  fl = {0: 0, 1: 0x2000, 2: 0x0008}[frag]
  h = struct.pack("!BBHHHBBH", 0x45, tos & 0xff, 20 + len(payload), 0x1000 + (seq & 0xfff), fl, 64, proto, 0) + sip + dip
  return h[:10] + struct.pack("!H", _csum(h)) + h[12:] + payload


def _l4(kind, sip, dip, v, tag, x):
  """(protocol number, bytes) of a UDP / TCP / ICMP message carrying the tag; x overrides header fields."""
  if kind == "udp":
    ulen = 8 + len(tag)
    sp, dp = x.get("sp", 1000) & 0xffff, x.get("dp", 2000 + (v & 1)) & 0xffff
    u = struct.pack("!HHHH", sp, dp, ulen, 0) + tag
    c = _csum(sip + dip + struct.pack("!BBH", 0, 17, ulen) + u) or 0xffff
    return 17, struct.pack("!HHHH", sp, dp, ulen, c) + tag
  if kind == "tcp":
    sp, dp = x.get("sp", 3000) & 0xffff, x.get("dp", 4000 + (v & 1)) & 0xffff
    t_ = struct.pack("!HHLLBBHHH", sp, dp, 1, 0, 5 << 4, 0x18, 1024, 0, 0) + tag
    c = _csum(sip + dip + struct.pack("!BBH", 0, 6, len(t_)) + t_)
    return 6, t_[:16] + struct.pack("!H", c) + t_[18:]
  if kind == "icmp":
    i_ = struct.pack("!BBHHH", x.get("sp", 8) & 0xff, x.get("dp", v & 1) & 0xff, 0, 7, 1) + tag
    return 1, i_[:2] + struct.pack("!H", _csum(i_)) + i_[4:]
  if kind == "raw":                           # any protocol number, opaque body
    return x.get("proto", 253) & 0xff, tag
  raise HarnessError("bad l4 %r" % (kind,))


GROUP_SRC = [b"\xff" * 6, b"\x01\x00\x5e\x00\x00\x01", b"\x33\x33\x00\x00\x00\x01", b"\x01\x80\xc2\x00\x00\x10"]


def build_frame(src_i, dmac, dst_ip_i, t, v, n, seq, x=None):
  """One Ethernet frame.  t: 0 opaque ethertype, 1 IPv4/UDP, 2 ARP, 3 LLDP ethertype, 4 802.1Q + opaque, 5 802.3/LLC,
  6 IPv4/TCP, 7 IPv4/ICMP, 8 802.1Q + IPv4/UDP, 9 RARP, 10 IPv4 with any protocol number.  v: header variant, n: extra
  payload bytes, seq: unique id carried in the payload.  x: header fields that feed an OpenFlow match --
  tos, frag (0 whole, 1 first fragment, 2 later fragment), sp/dp (ports or ICMP type/code), proto, vid, pcp,
  op (ARP opcode), aip (ARP addresses index), gs (1..4: the source address is a group address)."""
  x = x or {}
  src = host_mac(src_i)
  if x.get("gs"):
    src = GROUP_SRC[(x["gs"] - 1) % len(GROUP_SRC)]
  tag = struct.pack("!I", seq) + bytes((seq + k) & 0xff for k in range(n))
  vtag = struct.pack("!H", ((x.get("pcp", 5) & 7) << 13) | (x.get("vid", 7 + (v & 1)) & 0xfff))
  if t == 0:
    return dmac + src + struct.pack("!H", 0x88b5 + (v & 1)) + tag
  if t in (1, 6, 7, 8, 10):
    sip, dip = _ip(src_i), _ip(dst_ip_i)
    proto, l4 = _l4({1: "udp", 6: "tcp", 7: "icmp", 8: "udp", 10: "raw"}[t], sip, dip, v, tag, x)
    frag = x.get("frag", 0) % 3
    if frag == 2:
      l4 = tag + bytes(8)                   # a later fragment carries no transport header
    ip = _ipv4(sip, dip, proto, l4, seq, x.get("tos", 0), frag)
    if t == 8:
      return dmac + src + b"\x81\x00" + vtag + b"\x08\x00" + ip
    return dmac + src + b"\x08\x00" + ip
  if t in (2, 9):
    op = x["op"] & 0xffff if "op" in x else (1 + (v & 1) if t == 2 else 3 + (v & 1))
    k = x.get("aip", 0)
    spa = _ip(src_i) if not k else [b"\0\0\0\0", b"\xff\xff\xff\xff", b"\xe0\0\0\x01"][(k - 1) % 3]
    tpa = _ip(dst_ip_i) if k < 2 else [b"\xff\xff\xff\xff", b"\0\0\0\0", b"\x7f\0\0\x01"][(k - 1) % 3]
    body = struct.pack("!HHBBH", 1, 0x0800, 6, 4, op) + host_mac(src_i) + spa + b"\0" * 6 + tpa
    return dmac + src + (b"\x08\x06" if t == 2 else b"\x80\x35") + body + tag
  if t == 3:
    # LLDP ethertype; chassis-id, port-id, ttl, end TLVs, then the tag as trailing bytes of an org-specific TLV
    tl = lambda ty, val: struct.pack("!H", (ty << 9) | len(val)) + val
    body = tl(1, b"\x04" + host_mac(src_i)) + tl(2, b"\x02" + bytes([0x30 + (v & 1)])) + tl(3, b"\x00\x78")
    body += tl(127, (b"\x00\x26\xe1\x00" + tag)[:500]) + tl(0, b"")
    return dmac + src + b"\x88\xcc" + body
  if t == 4:
    if "vid" not in x and "pcp" not in x:
      vtag = struct.pack("!H", (2 << 13) | (5 + (v & 1)))
    return dmac + src + b"\x81\x00" + vtag + struct.pack("!H", 0x88b5) + tag
  if t == 5:
    pl = bytes([0x42 + 2 * (v & 1), 0x42, 0x03]) + tag
    return dmac + src + struct.pack("!H", len(pl)) + pl
  raise HarnessError("bad template %r" % (t,))


NT = 11         # number of header templates
TOS = [0, 0x01, 0x02, 0x03, 0xb8, 0xb9, 0x28, 0xff]
XKEYS = ("tos", "frag", "sp", "dp", "proto", "vid", "pcp", "op", "aip", "gs")


def fields_of(fop):
  """The header-field overrides of a frame op (old cases carry tos/frag at top level)."""
  x = dict(fop.get("x") or {})
  for k in ("tos", "frag"):
    if k in fop and k not in x:
      x[k] = fop[k]
  return {k: int(x[k]) for k in XKEYS if k in x and x[k] is not None}


def frame_class(fop):
  t = fop.get("t", 0) % NT
  x = fields_of(fop)
  if x.get("gs"):
    return "group-source"
  if t in (1, 6, 7, 8, 10):
    if x.get("frag", 0) % 3:
      return "ipv4-fragment"
    if x.get("tos", 0) & 3:
      return "ipv4-ecn"
    if x.get("tos", 0):
      return "ipv4-dscp"
    return {1: "ipv4-udp", 6: "ipv4-tcp", 7: "ipv4-icmp", 8: "vlan-ipv4", 10: "ipv4-other-proto"}[t]
  if t in (2, 9) and x.get("op", 1) > 255:
    return "arp-opcode-16bit"
  return {0: "opaque", 2: "arp", 3: "lldp-type", 4: "vlan", 5: "llc", 9: "rarp"}[t]


SETTLE_ROUNDS = 120     # a frame needs a handful of control round trips per hop; 3 hops at most
ADV = [1, 8, 16, 40, 72, 79, 80, 81, 88, 96, 97, 104, 160, 232, 240, 248, 256, 257, 272, 400]
MSL = [14, 20, 48, 128, 2048]
POOLS = [0, 1, 100]


# --------------------------------------------------------------------------- executor

def _topology(case):
  n = 1 + len(case["parents"])
  P = case["nports"]
  nxt = {d: P for d in range(1, n + 1)}
  cables = []
  for i, par in enumerate(case["parents"]):
    child = i + 2
    par = 1 + (par % (child - 1))
    cables.append((par, nxt[par], child, nxt[child]))
    nxt[par] -= 1
    nxt[child] -= 1
  edge = [(d, p) for d in range(1, n + 1) for p in range(1, nxt[d] + 1)]
  return n, P, cables, edge


def run_case(case):
  setup()
  from ..sim.net import NetWorld
  L, pkt = _S["L"], _S["pkt"]
  out = Outcome()
  n, P, cables, edge = _topology(case)
  nh = len(case["hosts"])
  if len(edge) < nh:
    raise HarnessError("not enough edge ports for %d hosts" % nh)
  transparent = bool(case["transparent"])
  pool, msl = case["pool"], case["msl"]

  w = NetWorld()
  try:
    L._flood_delay = 0
    w.nexus.miss_send_len = msl
    w.core.registerNew(L.l2_learning, transparent)
    net = w.net
    bu = case.get("bringup")
    bst = {"overlap": False, "aborted": False, "dropped_up": False, "eager": False, "late": False, "phases": 0,
           "contested": set()}
    down = set()                 # switches that are not powered yet (late joiners)

    def bring_up(ds, sched):
      """Take the switches ds into service.  sched is a list of small steps that decide in which order the control
      connections are made and their bytes move (what the controller's select loop and the network happen to do);
      whatever is left when the list ends is completed: every switch gets a connection and all of them run to
      quiescence.  Afterwards the data plane of these switches is live, whatever the controller made of it."""
      import pox.datapaths.switch as SW
      from ..sim import world as W
      ds = sorted(ds)
      links = {d: None for d in ds}
      done = {}                                   # link -> the controller has read the switch's BARRIER_REPLY

      def in_progress():
        return [d for d in ds if links[d] is not None and not done[links[d]]]

      def attach(d, eager):
        se = w.switches[d]
        se.sock = W.FakeSock("sw%x" % d)
        se.worker = W._make_worker(se.sock)
        se.conn = SW.OFConnection(se.worker)
        se.sw.set_connection(se.conn)
        lk = w.attach(se)                         # of_01.Connection on a fresh socket: sends its HELLO
        w.links.remove(lk)                        # (bytes move only when the schedule says so)
        se.link = links[d] = lk
        done[lk] = False
        if eager:
          se.sw.send_hello(force=True)            # a switch that says HELLO first, as the specification asks
          bst["eager"] = True
        if len(in_progress()) > 1:
          bst["overlap"] = True
          bst["contested"].update(in_progress())

      def c2s(d):
        lk = links[d]
        data = lk.csock.take_sent()
        if data:
          lk.bytes_to_switch += len(data)
          w.switches[d].rx_bytes(data)
        return bool(data)

      def s2c(d):
        lk = links[d]
        data = w.switches[d].take_sent()
        if not data:
          return False
        lk.bytes_to_controller += len(data)
        off = 0
        while off + 4 <= len(data):               # OpenFlow 1.0 header: version, type, length
          if data[off + 1] == 19:
            done[lk] = True
          ln_ = (data[off + 2] << 8) | data[off + 3]
          off += max(8, ln_)
        lk.csock.feed(data)
        for _ in range(10000):
          if not lk.csock.inbox:
            break
          if lk.con.read() is False:              # what of_01's loop does with a connection it cannot read
            lk.alive = False
            lk.con.close()
            break
        return True

      def drop(d):
        """The switch's end of the TCP connection goes away; the controller's loop reads EOF and closes."""
        lk = links[d]
        if not done[lk]:
          bst["aborted"] = True
          bst["contested"].update(ds)
        else:
          bst["dropped_up"] = True
        lk.csock.eof = True
        if lk.con.read() is not False:
          raise HarnessError("controller read something from a closed connection")
        lk.con.close()
        lk.alive = False
        w.switches[d].link = links[d] = None

      for s_ in (sched or []):
        k = s_[0]
        d = ds[s_[1] % len(ds)] if len(s_) > 1 else None
        if k == "att":
          if links[d] is None:
            attach(d, bool(s_[2]) if len(s_) > 2 else False)
        elif k == "step":                         # the next half-turn of this switch's conversation
          if links[d] is None:
            attach(d, False)
          elif not c2s(d):
            s2c(d)
        elif k == "c2s":
          if links[d] is not None:
            c2s(d)
        elif k == "s2c":
          if links[d] is not None:
            s2c(d)
        elif k == "drop":
          if links[d] is not None:
            drop(d)
        elif k == "turn":                         # one round of the select loop over every open connection
          for d_ in ds:
            if links[d_] is not None:
              c2s(d_)
              s2c(d_)
        else:
          raise HarnessError("bad bring-up step %r" % (s_,))
      for d in ds:
        if links[d] is None:
          attach(d, False)
      for d in ds:
        w.links.append(links[d])
        net.dead.discard(d)
        down.discard(d)
      w.settle()
      bst["phases"] += 1
      for d in ds:
        lk = links[d]
        sw = w.switches[d].sw
        # (harness sanity only where the controller says the handshake is over; a switch that was not taken into
        # service is judged by what happens to its frames)
        if lk.con.connect_time is not None and sw.miss_send_len != msl:
          raise HarnessError("switch %d has miss_send_len %r, wanted %r" % (d, sw.miss_send_len, msl))

    for d in range(1, n + 1):
      net.add_switch(d, ports=P, expire=True, max_buffers=pool, connect=False)
    for (a, ap, b, bp) in cables:
      net.cable(a, ap, b, bp)
    if bu is None:
      for d in range(1, n + 1):             # one after the other, each handshake complete before the next connection
        bring_up([d], [["att", 0, 1]])
    else:
      late = [bool(x) for x in (bu.get("late") or [])][:n]
      late += [False] * (n - len(late))
      if all(late):
        late[0] = False                           # somebody is there from the start
      down.update(d for d in range(1, n + 1) if late[d - 1])
      if down:
        bst["late"] = True
      bring_up([d for d in range(1, n + 1) if d not in down], bu.get("sched"))
    models = {d: B.Bridge(range(1, P + 1), transparent) for d in range(1, n + 1)}

    # host placement: indices into the free edge list, constructive
    free = list(edge)
    where = []
    for k in case["hosts"]:
      where.append(free.pop(k % len(free)))
    sent = [False] * nh          # host has sent at least one frame
    frames = {}                  # canonical bytes -> meta
    seq = [0]
    st_ = {"moved_sent": set(), "flow": False, "gap_after_flow": False, "nontrivial": False,
           "leak_reported": False, "frames": 0, "hops": 0, "noncanon": 0, "exhausted": 0,
           "kinds": set(), "multi_hop": False, "classes": set()}

    def make(fop):
      h = fop["h"] % nh
      d = list(fop["d"])
      if d[0] == "h":
        d[1] = d[1] % nh
      dmac = dst_mac(d)
      seq[0] += 1
      t_ = fop.get("t", 0) % NT
      x_ = fields_of(fop)
      raw = build_frame(h, dmac, d[1] if d[0] == "h" else 200, t_, fop.get("v", 0), fop.get("n", 0), seq[0], x_)
      st_["classes"].add(frame_class(fop))
      canon = pkt.ethernet(raw).pack()
      if canon != raw:
        # POX's packet library does not re-serialise this frame byte-identically (e.g. a UDP port with a payload
        # parser).  That is C14's subject: here the host sends the re-serialised form if that is stable, else the
        # same addresses with an opaque ethertype.
        st_["noncanon"] += 1
        if pkt.ethernet(canon).pack() == canon:
          raw = canon
        else:
          t_, x_ = 0, ({"gs": x_["gs"]} if x_.get("gs") else {})
          raw = build_frame(h, dmac, 200, 0, fop.get("v", 0), fop.get("n", 0), seq[0], x_)
          canon = pkt.ethernet(raw).pack()
      meta = {"seq": seq[0], "h": h, "d": d,
              "tmpl": (t_, fop.get("v", 0) & 1) + tuple(sorted(x_.items())),
              "origin": where[h], "raw": raw, "canon": canon, "cls": frame_class(fop)}
      frames[canon] = meta
      frames[raw] = meta          # (identity of POX's parse -> pack on these frames is C14's subject, not judged here)
      # non-trivial rule
      if d[0] == "h":
        if d[1] in st_["moved_sent"]:
          st_["nontrivial"] = True
        if st_["gap_after_flow"] and sent[d[1]]:
          st_["nontrivial"] = True
      if not x_.get("gs") and where[h][0] not in down:
        sent[h] = True
      st_["frames"] += 1
      return raw, meta

    def judge(wave):
      hops, host_rx, stray = net.take()
      if net.overflow:
        out.fail("forwarding-does-not-terminate", "more than %d switch hops for one operation" % net.budget)
      per_sw_pi = {}
      for hp in hops:
        st_["hops"] += 1
        data = hp["data"]
        meta = frames.get(data)
        if meta is None:
          out.fail("frame-altered", "switch %d received a frame that no host sent: %s" % (hp["sw"], data[:40].hex()))
          continue
        if hp["sw"] != meta["origin"][0]:
          st_["multi_hop"] = True
        if hp["sw"] in bst["contested"]:
          st_["contested_hop"] = True
        bad = [(p, x) for (p, x) in hp["outs"] if x != data and x != meta["canon"]]
        if bad:
          out.fail("frame-altered", "switch %d emitted altered bytes for frame %d on ports %r" % (
              hp["sw"], meta["seq"], [p for p, _ in bad]))
        if hp["packet_in"]:
          per_sw_pi[hp["sw"]] = per_sw_pi.get(hp["sw"], 0) + 1
        m = models[hp["sw"]]
        ethertype = struct.unpack("!H", data[12:14])[0]
        before = (m.stats["stale_hit"], m.stats["masked"], m.stats["hold_down"], m.stats["hit"])
        vs = m.judge(hp["t"], hp["in_port"], data[6:12], data[0:6], ethertype, meta["tmpl"],
                     hp["packet_in"], [p for p, _ in hp["outs"]], epoch=(hp["sw"], hp["wave"]))
        if len(hp["outs"]) == 1 and hp["packet_in"] and not B.is_multicast(data[0:6]):
          st_["flow"] = True
        for clause, msg, extra in vs:
          out.fail(clause, "t=%.3f switch %d frame %d (host %d -> %r): %s" % (
              hp["t"], hp["sw"], meta["seq"], meta["h"], meta["d"], msg), **extra)
      for sw_, k in per_sw_pi.items():
        if k > pool:
          st_["exhausted"] += 1
      for (d, p, data) in stray:
        out.fail("stray-emission", "switch %d emitted on port %d a frame it had not received: %s" % (d, p, data[:40].hex()))
      # end to end: no host sees a frame twice, the sender never gets it back
      seen = {}
      for (d, p, data) in host_rx:
        meta = frames.get(data)
        if meta is None:
          continue
        k = (meta["seq"], d, p)
        seen[k] = seen.get(k, 0) + 1
        if (d, p) == tuple(meta["origin"]):
          out.fail("returned-to-sender", "frame %d came back to its origin port %d.%d" % (meta["seq"], d, p))
      for k, c in seen.items():
        if c > 1:
          out.fail("delivered-twice", "frame %d reached edge port %d.%d %d times" % (k[0], k[1], k[2], c))
      # the control channel must survive whatever the hosts send
      for d in range(1, n + 1):
        if d in down:
          continue
        lk = w.switches[d].link
        if (lk is None or not lk.alive or lk.con.disconnected) and not st_.get("lost"):
          st_["lost"] = True
          out.fail("control-connection-lost", "the controller gave up the connection to switch %d (after %d bytes from the "
                   "switch); frames of this operation: %r" % (
                       d, lk.bytes_to_controller if lk else -1, sorted(set(frames[h_["data"]]["cls"] for h_ in hops if h_["data"] in frames))),
                   wave=bool(wave))
      # quiescence: no buffer may stay occupied
      if not st_["leak_reported"]:
        for d in range(1, n + 1):
          buf = w.switches[d].sw._packet_buffer
          held = [i + 1 for i, x in enumerate(buf) if x is not None]
          if held:
            st_["leak_reported"] = True
            pk = buf[held[0] - 1][0]
            try:
              dm = pk.dst.toRaw()
              kind = ("filtered" if (not transparent and (pk.type == 0x88cc or B.is_bridge_filtered(dm))) else
                      "multicast" if B.is_multicast(dm) else "unicast")
            except Exception:
              kind = "?"
            out.fail("buffer-leak", "switch %d still holds buffer ids %r at quiescence (pool %d, miss_send_len %d)" % (
                d, held, pool, msl), dst=kind)
            break

    def settle():
      """Run control and data plane to quiescence.  False (and a violation) when they never get there."""
      try:
        w.settle(max_rounds=SETTLE_ROUNDS)
        return True
      except HarnessError as e:
        if "does not settle" not in str(e):
          raise
      cur = [frames.get(h_["data"]) for h_ in net._current]
      cls = sorted(set(m["cls"] for m in cur if m), key=lambda c_: (c_ != "ipv4-fragment", c_ != "ipv4-ecn", c_))
      kinds_ = []
      for h_ in net._current:
        dm = h_["data"][0:6]
        kinds_.append("multicast" if B.is_multicast(dm) else "known" if dm in models[h_["sw"]].seen else "unknown")
      out.fail("control-loop-does-not-quiesce",
               "switch and controller still exchange messages after %d rounds for frame(s) %r entering switch(es) %r "
               "(pool %d, miss_send_len %d): the frame is never delivered" % (
                   SETTLE_ROUNDS, [(m["seq"], m["cls"], m["d"]) for m in cur if m], [h_["sw"] for h_ in net._current], pool, msl),
               frame=cls[0] if cls else "?", dst=sorted(set(kinds_))[0] if kinds_ else "?")
      return False

    history = []                 # frame ops so far, for "r" (resend the k-th last one, possibly reversed)

    def resolve(fop):
      if fop["o"] != "r":
        history.append(fop)
        return fop
      if not history:
        f = {"o": "f", "h": 0, "d": ["h", 1], "t": 0, "v": 0, "n": 40}
      else:
        f = dict(history[-1 - (fop["back"] % min(len(history), 8))])
        if fop.get("rev") and f["d"][0] == "h":
          f["h"], f["d"] = f["d"][1] % nh, ["h", f["h"] % nh]
      history.append(f)
      return f

    for op in case["ops"]:
      o = op["o"]
      net.reset_budget(1000)
      if o in ("f", "r"):
        op = resolve(op)
        raw, meta = make(op)
        net.mode = "seq"
        net.inject(meta["origin"][0], meta["origin"][1], raw)
        if not settle():
          break
        judge(False)
      elif o == "burst":
        net.mode = "wave"
        for fop in op["fs"]:
          raw, meta = make(resolve(fop))
          net.inject(meta["origin"][0], meta["origin"][1], raw)
        if not settle():
          break
        net.mode = "seq"
        judge(True)
        st_["burst"] = True
      elif o == "bb":
        # many back-to-back frames from one template with varied sizes: the packet-ins queue up in the switch's
        # send buffer and reach the controller through 2048-byte reads
        net.mode = "wave"
        base = resolve(dict(op["f"]))
        ns = op.get("ns") or [base.get("n", 0)]
        for i in range(max(1, op["k"])):
          fop = dict(base)
          fop["n"] = ns[i % len(ns)]
          if op.get("alt") and i % 2 and fop["d"][0] == "h":
            fop["h"], fop["d"] = fop["d"][1] % nh, ["h", fop["h"] % nh]
          raw, meta = make(fop)
          net.inject(meta["origin"][0], meta["origin"][1], raw)
        if not settle():
          break
        net.mode = "seq"
        judge(True)
        st_["burst"] = True
        st_["bigburst"] = True
      elif o == "mv":
        h = op["h"] % nh
        if free:
          k = op["to"] % len(free)
          new = free.pop(k)
          free.append(where[h])
          free.sort()
          where[h] = new
          if sent[h]:
            st_["moved_sent"].add(h)
      elif o == "adv":
        dt = op["dt"] / 8.0
        w.advance(dt)
        if st_["flow"] and dt >= 10:
          st_["gap_after_flow"] = True
        hops, host_rx, stray = net.take()
        if hops or stray:
          out.fail("stray-emission", "frames moved while only time passed: %r" % ([(h["sw"], h["in_port"]) for h in hops] + stray[:3],))
      elif o == "join":
        # the switches that were not powered so far come up now, their handshakes ordered by the op's schedule
        if down:
          bring_up(sorted(down), op.get("sched"))
          hops, host_rx, stray = net.take()
          if hops or stray:
            out.fail("stray-emission", "frames moved while switches connected: %r" % ([(h["sw"], h["in_port"]) for h in hops] + stray[:3],))
      else:
        raise HarnessError("bad op %r" % (op,))
      if len(out.violations) > 12 or st_.get("lost"):
        break

    if w.deferred.calls:
      raise HarnessError("deferred sender was used")
    out.nontrivial = st_["nontrivial"] or bool(st_.get("contested_hop"))
    tot = {"hit": 0, "miss": 0, "stale_hit": 0, "masked": 0, "hold_down": 0}
    for m in models.values():
      for k in tot:
        tot[k] += m.stats[k]
    out.label("switches:%d" % n, "pool:%d" % pool, "msl:%d" % msl, "transparent:%s" % transparent)
    for k in ("hit", "stale_hit", "masked", "hold_down"):
      if tot[k]:
        out.label("has:" + k.replace("_", "-"))
    if bu is None:
      out.label("bringup:one-after-the-other")
    else:
      out.label("bringup:scheduled")
      for k_, lab in (("overlap", "overlapping-handshakes"), ("aborted", "aborted-handshake"), ("dropped_up", "drop-after-up"),
                      ("eager", "switch-hello-first"), ("late", "late-join")):
        if bst[k_]:
          out.label("bringup:" + lab)
      if st_.get("contested_hop"):
        out.label("has:frame-through-switch-of-contested-bring-up")
    if st_["moved_sent"]:
      out.label("has:move")
    if st_["gap_after_flow"]:
      out.label("has:gap-after-flow")
    if st_["exhausted"] and pool > 0:
      out.label("has:pool-exhausted")
    if st_.get("burst"):
      out.label("has:burst")
    if st_.get("bigburst"):
      out.label("has:burst>=16")
    if st_["multi_hop"]:
      out.label("has:multi-hop")
    if st_["noncanon"]:
      out.label("has:non-canonical-frame")
    for c_ in sorted(st_["classes"]):
      out.label("frame:" + c_)
    out.info = {"frames": st_["frames"], "hops": st_["hops"], "stats": tot}
    return out
  finally:
    w.close()


# --------------------------------------------------------------------------- exhaustive small histories

def _alphabet():
  ops = []
  for h in range(3):
    for j in range(3):
      if j != h:
        ops.append(dict({"o": "f", "h": h, "d": ["h", j], "v": 0, "n": 40},
                        **[{"t": 1, "x": {"tos": 0x03}}, {"t": 6, "x": {"tos": 0xb8, "frag": 1}}, {"t": 2, "x": {"op": 256}}][h]))
    ops.append({"o": "f", "h": h, "d": ["b"], "t": 2, "v": 0, "n": 18})
    ops.append({"o": "f", "h": h, "d": ["u", 1], "t": 1, "v": 0, "n": 40, "x": {"frag": h}})
  ops.append({"o": "f", "h": 0, "d": ["h", 1], "t": 3, "v": 0, "n": 10})
  ops.append({"o": "f", "h": 0, "d": ["bf", 0], "t": 0, "v": 0, "n": 40})
  ops.append({"o": "f", "h": 0, "d": ["h", 1], "t": 0, "v": 0, "n": 40, "x": {"gs": 1}})     # broadcast address as SOURCE
  for h in range(3):
    ops.append({"o": "mv", "h": h, "to": 0})
  ops.append({"o": "adv", "dt": 96})
  ops.append({"o": "adv", "dt": 256})
  return ops


_ENUM_CFG = [(False, 100, 128), (True, 100, 128), (False, 0, 128), (False, 1, 14)]


def enum_short(tier):
  ops = _alphabet()
  maxlen = 3 if tier == "quick" else 4
  for L_ in range(1, maxlen + 1):
    for seq in itertools.product(range(len(ops)), repeat=L_):
      # a history that does not end in a frame judges nothing its prefix did not
      if ops[seq[-1]]["o"] != "f":
        continue
      for (tr, pool, msl) in _ENUM_CFG:
        yield {"k": "hist", "transparent": tr, "pool": pool, "msl": msl, "parents": [], "nports": 4,
               "hosts": [0, 0, 0], "ops": [ops[i] for i in seq]}


def enum_bursts(tier):
  """Back-to-back table misses whose packet-ins fill more than one 2048-byte read of the controller."""
  sizes = list(range(96, 134, 2)) if tier == "quick" else list(range(60, 200))
  for n_ in sizes:
    for k in (16, 25, 40):
      for (pool, msl) in ((100, 128), (0, 128), (100, 2048)):
        yield {"k": "hist", "transparent": False, "pool": pool, "msl": msl, "parents": [], "nports": 4, "hosts": [0, 0, 0],
               "ops": [{"o": "bb", "k": k, "ns": [n_], "alt": False, "f": {"o": "f", "h": 0, "d": ["b"], "t": 0, "v": 0, "n": n_}},
                       {"o": "bb", "k": k, "ns": [n_, 40, n_ + 1], "alt": True,
                        "f": {"o": "f", "h": 1, "d": ["h", 0], "t": 1, "v": 0, "n": n_}}]}


# --------------------------------------------------------------------------- exhaustive bring-up schedules

def _probe_case(n, sched, late=None, tail=None):
  """A chain of n switches, one host on the first and one on the last switch, a short conversation that crosses
  every switch: broadcast, reply to the learned address, answer to the reply."""
  nports = 4
  edge = n * nports - 2 * (n - 1)
  ops = [{"o": "f", "h": 0, "d": ["b"], "t": 2, "v": 0, "n": 18},
         {"o": "f", "h": 1, "d": ["h", 0], "t": 1, "v": 0, "n": 40},
         {"o": "f", "h": 0, "d": ["h", 1], "t": 1, "v": 0, "n": 40}]
  return {"k": "hist", "transparent": False, "pool": 100, "msl": 128, "parents": list(range(n - 1)), "nports": nports,
          "hosts": [0, edge - 2], "bringup": {"sched": sched, "late": late or []}, "ops": (tail or []) + ops}


def _interleavings(a, b):
  """All orders of a steps of connection 0 and b steps of connection 1."""
  for pos in itertools.combinations(range(a + b), a):
    pos = set(pos)
    yield [["step", 0 if i in pos else 1] for i in range(a + b)]


HS_STEPS = 7     # attach + three round trips (HELLO, FEATURES, SET_CONFIG+BARRIER), counted in half-turns


def enum_bringup(tier):
  """(a) two switches: every interleaving of the half-turns of their two handshakes;
  (b) one or two switches: one handshake advanced a half-turns, the other b, then none / either / both connections
      drop, c more half-turns, the rest completed by the runner; the switch says HELLO first or waits for the controller's;
  (c) three switches: every sequence of at most 3 (4) of {connect i, one select round over all, drop i};
  (d) two of three switches join late, after traffic, with interleaved handshakes."""
  eagers = [0] if tier == "quick" else [0, 1]
  for e in eagers:
    head = [["att", 0, e], ["att", 1, e]] if e else []
    for sch in _interleavings(HS_STEPS - (1 if e else 0), HS_STEPS - (1 if e else 0)):
      yield _probe_case(2, head + sch)
  for e in (0, 1):
    for a in range(0, HS_STEPS + 1):
      for c in range(0, 4):
        yield _probe_case(1, ([["att", 0, e]] + [["step", 0]] * (a - 1) if a else []) + [["drop", 0]] + [["step", 0]] * c)
      for b in range(0, HS_STEPS + 1):
        pre = ([["att", 0, e]] + [["step", 0]] * (a - 1) if a else []) + ([["att", 1, e]] + [["step", 1]] * (b - 1) if b else [])
        for ev in ([], [["drop", 0]], [["drop", 1]], [["drop", 0], ["drop", 1]]):
          for c in range(0, 4):
            yield _probe_case(2, pre + ev + [["step", 0]] * c)
  alpha = [["att", 0, 0], ["att", 1, 1], ["att", 2, 0], ["turn"], ["drop", 0], ["drop", 1], ["drop", 2]]
  for L_ in range(1, (3 if tier == "quick" else 4) + 1):
    for seq in itertools.product(alpha, repeat=L_):
      yield _probe_case(3, [list(x) for x in seq])
  first = [{"o": "f", "h": 0, "d": ["b"], "t": 2, "v": 0, "n": 18}]
  for late in ([0, 1, 1], [1, 0, 1], [1, 1, 0]):
    for sch in _interleavings(3, 3):
      yield dict(_probe_case(3, [], late=late, tail=first + [{"o": "join", "sched": sch}]))


# --------------------------------------------------------------------------- Hypothesis histories

def _dest(nh, focused):
  h = st.tuples(st.just("h"), st.integers(0, nh - 1)).map(list)
  rest = [st.tuples(st.just("u"), st.integers(0, 2)).map(list),
          st.just(["b"]),
          st.tuples(st.just("m"), st.integers(0, 3)).map(list),
          st.tuples(st.just("bf"), st.sampled_from([0, 1, 2, 3, 0x0e, 0x0f])).map(list)]
  return st.one_of(*([h] * (8 if focused else 3) + rest))


def _b(vals, hi):
  return st.one_of(st.sampled_from(vals), st.integers(0, hi))


def _x(focused):
  """Header fields that feed ofp_match.from_packet, from their wire ranges with boundaries."""
  port = _b([0, 1, 67, 255, 256, 1023, 1024, 0x7fff, 0x8000, 0xfffe, 0xffff], 0xffff)
  full = st.fixed_dictionaries({}, optional={
      "tos": _b(TOS, 255), "frag": st.sampled_from([0, 0, 1, 2]), "sp": port, "dp": port,
      "proto": _b([0, 1, 2, 6, 17, 47, 50, 89, 132, 253, 254, 255], 255),
      "vid": _b([0, 1, 2, 0xffe, 0xfff], 0xfff), "pcp": st.integers(0, 7),
      "op": _b([0, 1, 2, 3, 4, 255, 256, 257, 0x7fff, 0x8000, 0xffff], 0xffff), "aip": st.integers(0, 3),
      "gs": st.sampled_from([0, 0, 0, 1, 2, 3, 4])})
  few = st.sampled_from([{"tos": 0x02}, {"tos": 0xb9}, {"frag": 1}, {"frag": 2}, {"gs": 1}, {"gs": 2}, {"op": 256}, {"op": 0xffff}])
  if focused:
    return st.one_of(*([st.just({})] * 6 + [few, few, full]))
  return st.one_of(*([st.just({})] * 3 + [few, full, full]))


def _frame(nh, focused):
  if focused:
    # conversations: few header templates so that cached flows are hit again
    return st.fixed_dictionaries({
        "o": st.just("f"), "h": st.integers(0, nh - 1), "d": _dest(nh, True),
        "t": st.sampled_from([0, 0, 0, 0, 1, 1, 6, 3, 2]), "v": st.sampled_from([0, 0, 0, 1]),
        "n": st.sampled_from([40, 40, 40, 300]), "x": _x(True)})
  return st.fixed_dictionaries({
      "o": st.just("f"), "h": st.integers(0, nh - 1), "d": _dest(nh, False),
      "t": st.sampled_from([0, 0, 1, 1, 6, 7, 8, 2, 2, 9, 10, 3, 4, 5]), "v": st.integers(0, 1),
      "n": st.sampled_from([0, 10, 40, 40, 120, 300]), "x": _x(False)})


@st.composite
def _history(draw, maxops):
  focused = draw(st.sampled_from([True, True, False]))
  n = draw(st.sampled_from([1, 1, 2, 3] if focused else [1, 2, 3, 3]))
  parents = [draw(st.integers(0, i)) for i in range(n - 1)]
  nports = draw(st.integers(4, 6))
  nh = draw(st.integers(2, 3) if focused else st.integers(2, 5))
  avail = n * nports - 2 * (n - 1)          # edge ports; always >= 4
  nh = min(nh, avail - 1)                   # keep one edge port free so that hosts can move
  hosts = [draw(st.integers(0, 15)) for _ in range(nh)]
  fr = _frame(nh, focused)
  adv = st.fixed_dictionaries({"o": st.just("adv"),
                               "dt": st.sampled_from([1, 8, 16, 40, 40, 72, 88, 104] if focused else ADV)})
  rep = st.fixed_dictionaries({"o": st.just("r"), "back": st.integers(0, 7), "rev": st.booleans()})
  op = st.one_of(
      fr, fr, fr, rep, rep, rep,
      st.fixed_dictionaries({"o": st.just("mv"), "h": st.integers(0, nh - 1), "to": st.integers(0, 7)}),
      adv,
      st.fixed_dictionaries({"o": st.just("adv"), "dt": st.sampled_from(ADV)}),
      st.fixed_dictionaries({"o": st.just("burst"), "fs": st.lists(st.one_of(fr, fr, rep), min_size=2, max_size=5)}),
      st.fixed_dictionaries({"o": st.just("bb"), "k": st.integers(16, 40), "alt": st.booleans(), "f": fr,
                             "ns": st.lists(st.sampled_from([0, 10, 40, 100, 106, 110, 111, 120, 128, 300]), min_size=1, max_size=4)}),
  )
  # Hypothesis' lists are short on average; ask for the length first so that long histories are common
  ln = draw(st.sampled_from([6, 12, 25, 50, 100, 200]).filter(lambda x: x <= maxops) if maxops >= 6 else st.just(maxops))
  ops = draw(st.lists(op, min_size=max(1, ln // 2), max_size=ln))
  case = {"k": "hist",
          "transparent": draw(st.booleans()),
          "pool": draw(st.sampled_from(POOLS)),
          "msl": draw(st.sampled_from(MSL)),
          "parents": parents, "nports": nports, "hosts": hosts,
          "ops": ops}
  # how the switches come into service: one after the other (the field is absent), or by a schedule of connection
  # attempts, byte movements and drops that interleaves their handshakes; some switches may join after traffic
  if draw(st.sampled_from([True, True, False] if n > 1 else [True, False, False, False])):
    late = draw(st.lists(st.sampled_from([0, 0, 0, 1]), min_size=n, max_size=n)) if n > 1 else [0]
    case["bringup"] = {"sched": draw(_sched(n)), "late": late}
    if any(late):
      k = draw(st.integers(0, min(len(ops), 12)))
      case["ops"] = ops[:k] + [{"o": "join", "sched": draw(_sched(n))}] + ops[k:]
  return case


def _sched(n):
  i = st.integers(0, n - 1)
  step = st.tuples(st.just("step"), i).map(list)
  s_ = st.one_of(step, step, step, step, step, step,
                 st.tuples(st.just("att"), i, st.integers(0, 1)).map(list),
                 st.tuples(st.just("att"), i, st.integers(0, 1)).map(list),
                 st.just(["turn"]),
                 st.tuples(st.just("drop"), i).map(list),
                 st.tuples(st.sampled_from(["c2s", "s2c"]), i).map(list))
  return st.lists(s_, max_size=24)


def plan(tier):
  if tier == "quick":
    return [Enum("short-histories", lambda: enum_short("quick"), shards=16),
            Enum("big-bursts", lambda: enum_bursts("quick"), shards=16),
            Enum("bringup-schedules", lambda: enum_bringup("quick"), shards=16),
            Hyp("histories", lambda: _history(60), examples=2400, shards=16)]
  return [Enum("short-histories", lambda: enum_short("thorough"), shards=16),
          Enum("big-bursts", lambda: enum_bursts("thorough"), shards=16),
          Enum("bringup-schedules", lambda: enum_bringup("thorough"), shards=16),
          Hyp("histories", lambda: _history(200), examples=40000, shards=16)]
