"""C18 -- packet buffers are unique, released exactly once, and bounded.

One SoftwareSwitch (no controller object) is driven byte-level: controller messages are encoded by
pvf.ref.ctlbytes (struct, from the OF 1.0 spec) and pushed into the switch's OFConnection; what the
switch writes is cut into messages and decoded by the same independent codec; frames enter with
rx_packet and leave as DpPacketOut events.  A history of small op records is interpreted against the
real switch and the BufferPool model (id -> stored frame, in_port) in lock-step.  The switch's port set may change
in the middle of a history (delete_port / add_port): that uses no buffer, so every id from a surviving port must
keep identifying its packet.
"""
import itertools

from hypothesis import strategies as st

from ..runner import Outcome, Enum, Hyp, HarnessError, exc_key
from ..ref import ctlbytes as cb
from ..ref.swshadow import BufferPool, expected_outputs, encode_actions

ID = "C18"
LEVEL = "exploration"
TECHNIQUE = "model-based stateful testing: Hypothesis-drawn and exhaustively enumerated op histories against a buffer-pool model, byte-level"
LEVEL_TEXT = ("Exploration of operation histories: every history of up to 4 (quick) / 5 (thorough) operations over a 13-letter alphabet is "
              "enumerated for pool sizes 0..2 (quick) / 0..4 (thorough), every history of up to 5 (quick) / 6 (thorough) operations over a second "
              "8-letter alphabet in which a port is removed and re-added while buffers are outstanding is enumerated for pool sizes 2..3 / 2..4, "
              "and Hypothesis draws histories of up to 60 operations for pool sizes 0..4; each is run against the real switch through its byte-level connection and judged step by step against an "
              "independent buffer-pool model. The property is about operation histories of a small state machine, so bounded exhaustive "
              "enumeration plus random long histories is the fitting level; nothing is claimed beyond the explored bounds.")
LEVEL_NOTE = ("the reference codec pvf/ref/ctlbytes.py and the model pvf/ref/swshadow.py are trusted; actions are restricted to plain outputs; "
              "a packet-out that uses a buffer carries the stored in_port so that the choice between stored and given in_port is not judged")
RULE = ("a case is (max_buffers 0..4, initial miss_send_len, list of ops); ops are frame arrival to one of 4 destinations (a miss unless a "
        "flow for that destination was installed earlier in the history), flow_mod with or without a buffer id, flow delete, port_mod setting or clearing OFPPC_NO_PACKET_IN, packet_out with a "
        "buffer id chosen relative to the model state (outstanding / already used / zero / never issued / out of range), set_config and "
        "features request, and removal / re-addition of a switch port (SoftwareSwitch.delete_port / add_port, the calls PCapSwitch makes when an "
        "interface goes or comes) chosen among the ports that exist / are absent at that point; a case is non-trivial when a released id is "
        "issued again, or a packet-in had to go out unbuffered because the pool was full (size > 0), or an already-used id is used again, or "
        "a buffer that was outstanding while a port other than its ingress port was removed is used afterwards; distinct by SHA-1 of the "
        "canonical JSON of the case")
ASSUMPTIONS = [
  "frames are Ethernet II with the experimental ethertype 0x88b5, untagged or with one 802.1Q tag, so that POX's parse/re-pack is the identity and no packet-library behaviour is judged here",
  "actions are outputs (physical port, IN_PORT, FLOOD, ALL, CONTROLLER), the byte-wise simple rewrites set_dl_dst / set_vlan_vid / set_vlan_pcp, and unknown or vendor actions; a packet is not sent back out of its ingress port unless IN_PORT is named (OF 1.0 sec. 3.3)",
  "a table miss on a port with OFPPC_NO_PACKET_IN produces no packet-in and occupies no buffer; whether an output to the controller by an action still produces packet-ins for a packet from such a port is left open (all or none)",
  "a packet-out naming an outstanding buffer carries the stored in_port and no data, a flow-mod naming a buffer is an ADD/MODIFY (buffer ids are not meaningful for DELETE)",
  "after a flow-mod with an unknown buffer id the flow is deleted again, so whether a switch installs such a flow is not judged",
  "error messages in answer to unknown buffer ids or ports are allowed here (their presence is C13's concern)",
  "while the actions of a buffer use are running, the id being used may or may not count as occupied (both orders of free/process are accepted)",
  "a barrier request follows every state-changing controller message, so no ordering freedom of the switch is judged",
  "some packet-outs / flow-mods that use a buffer are built with POX's own controller-side classes from the received packet-in "
  "(flow_mod.data = packet_in) and packed by them; that is stimulus only, every judgement still comes from the independent codec and model",
  "set_config is sent with fragment-handling flags 0, 1 or 2; its miss_send_len binds later packet-ins whatever the flags",
  "a change of the switch's port set (a port removed or added) is not a use of any buffer: every id whose packet came in on a port that "
  "still exists keeps identifying exactly that packet, and ids handed out afterwards do not collide with it; outputs go to the ports that "
  "exist when the buffer is used (a removed port receives nothing, IN_PORT of a removed ingress port reaches nothing)",
  "what becomes of a packet whose own ingress port is removed while it is buffered is left open: the id is either still good (then it "
  "releases exactly that packet) or has been discarded (then it emits nothing); the slot counts as possibly occupied",
  "frames arrive only on ports that exist at that moment, and port_mod names only existing ports",
]
EXHAUSTIVE_SCOPE = {
  "quick": "all histories of length 1..4 over the 13-op alphabet _ALPHABET, for max_buffers in {0,1,2}, miss_send_len 20; "
           "all histories over the 8-op alphabet _PORT_ALPHABET (misses on three ports, removal / re-addition of a port, "
           "buffer uses) of length 1..4 for max_buffers 2 and 1..5 for max_buffers 3, miss_send_len 20",
  "thorough": "all histories of length 1..5 over the 13-op alphabet _ALPHABET for max_buffers in 0..4, miss_send_len 20; "
              "all histories over _PORT_ALPHABET of length 1..6 for max_buffers 3 and 1..5 for max_buffers 2 and 4",
}

PORTS = [1, 2, 3, 4]
DPID = 0x18


def setup():
  from ..sim import world
  world.boot()


def _mac_dst(k):
  return bytes([0x02, 0, 0, 0, 0x01, k & 0xff])


def _frame(dst, port, length, fill, vlan=None):
  hdr = _mac_dst(dst) + bytes([0x02, 0, 0, 0, 0x02, port & 0xff])
  if vlan is not None:
    hdr += b"\x81\x00" + bytes([((vlan[1] & 7) << 5) | ((vlan[0] >> 8) & 0x0f), vlan[0] & 0xff])      # 802.1Q tag: pcp, vid
  hdr += b"\x88\xb5"
  n = max(0, length - len(hdr))
  return hdr + bytes(((fill + i) & 0xff) for i in range(n))


def _model_acts(acts):
  """op-record action lists -> the tuples pvf.ref.swshadow understands"""
  out = []
  for a in acts:
    if a[0] == "set_dl_dst":
      out.append(("set_dl_dst", bytes([0x02, 0, 0, 0, 0x0e, a[1] & 0xff])))
    else:
      out.append(tuple(a))
  return out


def _alias_risk(acts):
  """per output-to-controller action of the list: does anything that can rewrite the very same packet object
  run later (a rewrite further down the list), or does a second buffer id of the same list share the packet?"""
  idx = [i for i, a in enumerate(acts) if a[0] == "ctl"]
  return [len(idx) > 1 or any(a[0] in ("set_dl_dst", "set_vlan_vid", "set_vlan_pcp") for a in acts[i + 1:]) for i in idx]


def _split_bad(acts):
  """(actions before the first action the switch cannot execute, whether there is one)"""
  for i, a in enumerate(acts):
    if a[0] in ("bad", "vendor"):
      return acts[:i], True
  return acts, False


def _pox_idiom(message, packet_in_raw):
  """Decode `message` (a packet-out or flow-mod without buffer id, from the independent codec) and the switch's
  packet-in with POX's own classes, attach the packet-in as the message's data the way POX controllers do, and
  let POX pack it.  This is stimulus, not oracle: it is what the controller side of POX puts on the wire."""
  import pox.openflow.libopenflow_01 as of
  pi = of.ofp_packet_in()
  pi.unpack(packet_in_raw)
  cls = of.ofp_packet_out if message[1] == cb.OFPT_PACKET_OUT else of.ofp_flow_mod
  msg = cls()
  msg.unpack(message)
  msg.data = pi
  return msg.pack()


def _match_dst(k):
  wc = cb.OFPFW_ALL & ~cb.OFPFW_DL_DST
  return cb.match(wildcards=wc, dl_dst=_mac_dst(k))


class _Run(object):
  def __init__(self, case, out, world):
    self.case, self.out, self.w = case, out, world
    self.maxb = case["max_buffers"]
    self.msl = case["miss_send_len"]
    self.sw = world.add_switch(DPID, ports=len(PORTS), max_buffers=self.maxb, miss_send_len=self.msl)
    self.pool = BufferPool(self.maxb)
    self.pin_raw = {}         # buffer id -> the packet-in message that announced it, as sent by the switch
    self.nopin = set()        # ports with OFPPC_NO_PACKET_IN
    self.live = list(PORTS)   # ports the switch has at the moment, ascending
    self.survivors = set()    # ids that were outstanding while a port other than their ingress port was removed
    self.hw = {}
    self.risk = {}            # buffer id -> its packet object may have been rewritten after it was buffered
    self.flows = {}           # slot -> action list
    self.xid = 100
    self.excs = []
    self.seen = set()
    self.opno = -1
    conn = self.sw.conn
    orig = conn._error_handler

    def handler(reason, info):
      if reason == conn.ERR_EXCEPTION:
        self.excs.append(info[0])
      return orig(reason, info)
    conn._error_handler = handler
    self.rest = b""

  # ---- plumbing
  def fail(self, clause, msg, **kw):
    k = (clause, tuple(sorted(kw.items())))
    if k in self.seen:
      return
    self.seen.add(k)
    self.out.fail(clause, "op %d: %s" % (self.opno, msg), **kw)

  def nxid(self):
    self.xid += 1
    return self.xid

  def send(self, data, barrier=False):
    self.sw.rx_bytes(data)
    if barrier:
      self.sw.rx_bytes(cb.barrier_request(self.nxid()))
    if self.sw.worker.shutdown_calls:
      self.fail("connection-closed", "the switch closed its controller connection")

  def recv(self, where):
    """decoded messages written by the switch since the last call; barrier replies dropped"""
    data = self.rest + self.sw.take_sent()
    try:
      msgs, self.rest = cb.decode_stream(data)
    except cb.DecodeError as e:
      self.rest = b""
      self.fail("undecodable-message", "%s: %s" % (where, e), where=where)
      return []
    if self.rest:
      self.fail("partial-message", "%s: the switch left %d bytes of an incomplete message" % (where, len(self.rest)), where=where)
      self.rest = b""
    for e in self.excs:
      self.out.violations.append({"key": exc_key(e, clause="handler-exception", where_op=where),
                                  "msg": "op %d (%s): exception inside the switch's message handler: %r" % (self.opno, where, e)})
    del self.excs[:]
    return [m for m in msgs if m["type"] != cb.OFPT_BARRIER_REPLY]

  def split_msgs(self, msgs, where, allowed=()):
    pins = []
    for m in msgs:
      if m["type"] == cb.OFPT_PACKET_IN:
        pins.append(m)
      elif m["type"] == cb.OFPT_ERROR:
        self.out.label("error-message-seen")
      elif m["type"] in allowed:
        pass
      else:
        self.fail("unexpected-message", "%s: the switch sent a %s" % (where, m["name"]), where=where, mtype=m["name"])
    return pins

  # ---- the packet-in contract
  def judge_packet_in(self, m, frame, in_port, cfg_len, kind, using=None, risk=False):
    """Returns True when the id that is being used was handed out again by this packet-in."""
    pool = self.pool
    bid = m["buffer_id"]
    data = m["data"]
    reused_using = False
    if m["total_len"] != len(frame):
      self.fail("packet-in-total-len", "%s: packet-in for a %d-byte frame says total_len %d (data %d bytes, configured length %d, buffer %s)" % (
          kind, len(frame), m["total_len"], len(data), cfg_len, "none" if bid == cb.NO_BUFFER else bid))
    if bid == cb.NO_BUFFER:
      occupied = len(pool.out) + len(pool.limbo)      # packets a refused message may have left in their slots count as possibly there
      if occupied < self.maxb:
        self.fail("unbuffered-while-slot-free", "%s: packet-in without buffer id although only %d of %d buffers are in use" % (
            kind, occupied, self.maxb), kind=kind)
      if data != frame:
        self.fail("unbuffered-not-whole-frame", "%s: packet-in without buffer id carries %d of %d frame bytes (configured length %d)" % (
            kind, len(data), len(frame), cfg_len), kind=kind)
      self.out.label("pin-unbuffered-pool0" if self.maxb == 0 else "pin-unbuffered-pool-full")
      if self.maxb > 0:
        self.fallback = True
    else:
      if bid in pool.out and bid != using:
        self.fail("buffer-id-not-unique", "%s: packet-in carries buffer id %d which is still outstanding (outstanding: %s)" % (
            kind, bid, pool.outstanding()), kind=kind)
      if frame[:len(data)] != data:
        self.fail("packet-in-data-not-prefix", "%s: packet-in data is not a prefix of the frame" % kind, kind=kind)
      if len(data) > cfg_len:
        self.fail("packet-in-data-exceeds-configured-length", "%s: buffered packet-in carries %d bytes, configured length is %d" % (
            kind, len(data), cfg_len), kind=kind)
      if len(data) < len(frame):
        self.out.label("pin-truncated")
      if bid in pool.released and bid not in pool.out:
        self.reissue = True
      if bid == using:
        reused_using = True
        self.out.label("pin-reuses-id-being-used")
      pool.store(bid, frame, in_port)
      self.pin_raw[bid] = m["raw"]
      self.risk[bid] = risk
      occupied = len(pool.out) - (1 if (using is not None and using in pool.out and not reused_using) else 0)
      if occupied > self.maxb:
        self.fail("pool-bound", "%s: %d packets are stored, the switch advertises %d buffers" % (kind, occupied, self.maxb))
      self.out.label("pin-buffered")
    return reused_using

  # ---- ops
  def resolve(self, sel):
    pool = self.pool
    k, i = sel["k"], sel.get("i", 0)
    if k == "live":
      live = pool.outstanding()
      if live:
        return live[i % len(live)], "live"
      k = "limbo"
    if k == "limbo":
      lim = sorted(pool.limbo)
      if lim:
        return lim[i % len(lim)], "limbo"
      k = "used"
    if k == "used":
      stale = [b for b in pool.stale() if b not in pool.limbo]
      if stale:
        return stale[i % len(stale)], "used"
      k = "never"
    if k == "zero":
      return 0, "zero"
    if k == "never":
      cand = [b for b in range(1, self.maxb + 1) if b not in pool.out and b not in pool.ever and b not in pool.limbo]
      if cand:
        return cand[i % len(cand)], "never"
      k = "oor"
    cand = [b for b in (self.maxb + 1, self.maxb + 2, 0x7fffffff, 0xfffffffe, 100, 0x10000, 0x80000000)
            if b not in pool.out and b not in pool.ever]
    return cand[i % len(cand)], "oor"

  def pick_port(self, i, among):
    """the i-th of the four ports when it is among the candidates, else the i-th candidate (modulo): never rejects"""
    p = PORTS[i % len(PORTS)]
    return p if p in among else among[i % len(among)]

  def op_frame(self, op):
    if not self.live:
      self.out.label("frame-skipped-no-port-left")
      return
    port = self.pick_port(op["port"], self.live)
    frame = _frame(op["dst"], port, op["len"], op.get("fill", 0), op.get("vlan"))
    if op.get("vlan") is not None:
      self.out.label("frame-vlan-tagged")
    self.sw.rx_frame(frame, port)
    self.sw.take_emitted()
    acts = self.flows.get(op["dst"])
    if port in self.nopin:
      # OFPPC_NO_PACKET_IN: a miss on this port is dropped silently and must not occupy a buffer; whether a flow's
      # output to the controller still produces a packet-in is left open (all of them, or none)
      self.out.label("frame-on-no-packet-in-port-%s" % ("miss" if acts is None else "hit"))
      if acts is None:
        pins = self.split_msgs(self.recv("nopin"), "nopin")
        if pins:
          self.fail("packet-in-on-no-packet-in-port", "a table miss on port %d, which has OFPPC_NO_PACKET_IN set, produced a packet-in" % port)
          for m in pins:
            if m["buffer_id"] != cb.NO_BUFFER:
              self.pool.store(m["buffer_id"], frame, port)
        return
    if acts is None:
      kind = "miss"
      want = None
    else:
      kind = "hit"
      want = expected_outputs(_model_acts(acts), frame, port, self.live)[1]
      if want:
        self.out.label("hit-with-controller-action")
        if any(f != frame for _, f in want):
          self.out.label("hit-rewrite-before-controller-action")
    if acts is None:
      want = [(self.msl, frame)]
    pins = self.split_msgs(self.recv(kind), kind)
    if port in self.nopin and not pins:
      return
    if len(pins) != len(want):
      self.fail("packet-in-count", "%s: %d packet-ins for a frame that calls for %d" % (kind, len(pins), len(want)), kind=kind)
    risks = _alias_risk(acts) if acts is not None else [False]
    for m, (cfg, fr), risk in zip(pins, want, risks):
      self.judge_packet_in(m, fr, port, cfg, kind, risk=risk)

  def use_buffer(self, op, via):
    pool = self.pool
    bid, how = self.resolve(op["buf"])
    acts = [list(a) for a in op["acts"]]
    prefix, has_bad = _split_bad(acts)
    self.out.label("use-%s-%s%s" % (via, how, "-badaction" if has_bad else ""))
    if how == "used":
      self.double = True
    stored = pool.out.get(bid)
    limbo = pool.limbo.get(bid) if stored is None else None
    known = stored or limbo
    raw_acts = encode_actions(_model_acts(acts))
    # "idiom": the message is built the way POX controllers do it -- with POX's own message classes, handing the
    # received packet-in over as `data` (ofp_flow_mod(data=packet_in) / ofp_packet_out(data=packet_in)) -- and packed
    # by them; it must reference the buffer exactly like a message that names the id directly
    idiom = bool(op.get("idiom")) and known is not None and bid in self.pin_raw
    if idiom:
      self.out.label("use-%s-via-pox-idiom" % via)
    if via == "pout":
      in_port = known[1] if known else PORTS[op.get("port", 0) % len(PORTS)]
      if idiom:
        wire = _pox_idiom(cb.packet_out(self.nxid(), buffer_id=cb.NO_BUFFER, in_port=cb.OFPP_NONE, actions=raw_acts), self.pin_raw[bid])
      else:
        wire = cb.packet_out(self.nxid(), buffer_id=bid, in_port=in_port, actions=raw_acts)
      self.send(wire, barrier=True)
    else:
      slot = op["slot"]
      cmd = {"add": cb.OFPFC_ADD, "modify": cb.OFPFC_MODIFY, "modify_strict": cb.OFPFC_MODIFY_STRICT}[op.get("cmd", "add")]
      if idiom:
        wire = _pox_idiom(cb.flow_mod(self.nxid(), _match_dst(slot), command=cmd, buffer_id=cb.NO_BUFFER, actions=raw_acts), self.pin_raw[bid])
      else:
        wire = cb.flow_mod(self.nxid(), _match_dst(slot), command=cmd, buffer_id=bid, actions=raw_acts)
      self.send(wire, barrier=True)
      self.flows[slot] = acts
    where = "%s-%s" % (via, how)
    msgs = self.recv(where)
    pins = self.split_msgs(msgs, where)
    emitted = sorted(self.sw.take_emitted())
    if via == "flow" and (known is None or has_bad):
      # do not judge whether a flow-mod with an unknown buffer or an unknown action installs the flow
      self.send(cb.flow_mod(self.nxid(), _match_dst(op["slot"]), command=cb.OFPFC_DELETE), barrier=True)
      self.flows.pop(op["slot"], None)
      self.split_msgs(self.recv("flow-del"), "flow-del")
    if known is None:
      if emitted:
        self.fail("bogus-id-emits", "%s with buffer id %d (%s, not outstanding) emitted %d frames" % (via, bid, how, len(emitted)), via=via, how=how)
      if pins:
        self.fail("bogus-id-packet-in", "%s with buffer id %d (%s, not outstanding) produced a packet-in" % (via, bid, how), via=via, how=how)
      return
    frame, in_port = known
    was_risky = bool(self.risk.get(bid))
    aliased = "yes" if was_risky else "no"
    want_emits, want_ctl = expected_outputs(_model_acts(prefix), frame, in_port, self.live)
    if bid in self.survivors:
      self.survivors.discard(bid)
      self.survived_use = True
      self.out.label("use-of-buffer-that-outlived-a-port-removal")
    if in_port not in self.live:
      self.out.label("use-of-buffer-whose-ingress-port-is-gone")
    if any(a[0] in ("set_dl_dst", "set_vlan_vid", "set_vlan_pcp") for a in prefix):
      self.out.label("use-with-rewrite")
    if in_port in self.nopin and not pins:
      want_ctl = []               # (left open, see op_frame)
    nothing = not emitted and not pins
    as_expected = emitted == want_emits and len(pins) == len(want_ctl)
    # what the specification lets happen:
    #   plain use of an outstanding id        -> the actions run, the id is freed
    #   a message the switch refuses (unknown action): either nothing at all happens (the id may then still be
    #     valid: limbo) or the actions before the offending one have run -- then the packet was used, the id is gone
    #   use of a limbo id                     -> it either was consumed (nothing happens) or is used now
    if has_bad or limbo is not None:
      if nothing and (has_bad or limbo is not None):
        if has_bad:
          if stored is not None:
            pool.suspend(bid)
            self.out.label("refused-use-leaves-id-in-limbo")
        else:
          pool.settle(bid)          # consumed before, or consumed now by actions that emit nothing
        return
      if not as_expected:
        self.fail("use-emission", "%s with buffer %d (%s; frame of %d bytes from port %d) through %r emitted %s and %d packet-ins; expected nothing, or %s and %d packet-ins" % (
            via, bid, how, len(frame), in_port, acts, _brief(emitted), len(pins), _brief(want_emits), len(want_ctl)), what=_what_differs(emitted, want_emits), aliased=aliased)
        pool.forget(bid)
        pool.limbo.pop(bid, None)
        return
      if has_bad:
        self.out.label("partial-use-before-bad-action")
    else:
      if emitted != want_emits:
        self.fail("use-emission", "%s with outstanding buffer %d (frame of %d bytes from port %d) through %r emitted %s, expected %s" % (
            via, bid, len(frame), in_port, acts, _brief(emitted), _brief(want_emits)), what=_what_differs(emitted, want_emits), aliased=aliased)
      if len(pins) != len(want_ctl):
        self.fail("packet-in-count", "%s: %d packet-ins for %d controller actions" % (where, len(pins), len(want_ctl)), kind="use")
    # the packet went through the actions: the id is consumed by this use
    if limbo is not None:
      pool.out[bid] = limbo          # it evidently was still stored
      pool.limbo.pop(bid, None)
    again = False
    for m, (cfg, fr), risk in zip(pins, want_ctl, _alias_risk(prefix)):
      self.out.label("use-with-controller-action")
      again |= self.judge_packet_in(m, fr, in_port, cfg, "use", using=bid, risk=risk or was_risky)
    if not again:
      pool.release(bid)

  def op_flow(self, op):
    if op.get("buf") is not None:
      return self.use_buffer(op, "flow")
    acts = [list(a) for a in op["acts"]]
    cmd = {"add": cb.OFPFC_ADD, "modify": cb.OFPFC_MODIFY, "modify_strict": cb.OFPFC_MODIFY_STRICT}[op.get("cmd", "add")]
    self.send(cb.flow_mod(self.nxid(), _match_dst(op["slot"]), command=cmd, actions=encode_actions(_model_acts(acts))), barrier=True)
    self.flows[op["slot"]] = acts
    self.split_msgs(self.recv("flow"), "flow")
    if _split_bad(acts)[1]:
      # whether a flow with an action the switch cannot execute is installed is not judged here
      self.op_flow_del({"slot": op["slot"]})

  def op_flow_del(self, op):
    self.send(cb.flow_mod(self.nxid(), _match_dst(op["slot"]), command=cb.OFPFC_DELETE), barrier=True)
    self.flows.pop(op["slot"], None)
    self.split_msgs(self.recv("flow-del"), "flow-del")

  def op_set_config(self, op):
    # flags: fragment handling (0 normal, 1 drop, 2 reassemble); the frames here are not IP, and whichever mode is asked
    # for, the miss_send_len of the message is what later packet-ins are bound by
    flags = op.get("flags", 0)
    self.send(cb.set_config(self.nxid(), flags, op["len"]), barrier=True)
    self.out.label("set-config-flags-%d" % flags)
    self.msl = op["len"]
    self.split_msgs(self.recv("set-config"), "set-config")

  def op_port_mod(self, op):
    if not self.live:
      return
    port = self.pick_port(op["port"], self.live)
    on = (port not in self.nopin) if op.get("toggle") else bool(op.get("on"))
    self.send(cb.port_mod(self.nxid(), port, self.hw[port], cb.OFPPC_NO_PACKET_IN if on else 0, cb.OFPPC_NO_PACKET_IN), barrier=True)
    if on:
      self.nopin.add(port)
    else:
      self.nopin.discard(port)
    self.split_msgs(self.recv("port-mod"), "port-mod", allowed=(cb.OFPT_PORT_STATUS,))

  def op_port_del(self, op):
    """The switch loses a port (what PCapSwitch.remove_interface does).  No buffer is used by that."""
    if not self.live:
      self.out.label("port-del-skipped-none-left")
      return
    port = self.pick_port(op["port"], self.live)
    self.sw.sw.delete_port(port)
    self.live.remove(port)
    self.nopin.discard(port)
    pool = self.pool
    orphans = [b for b in pool.outstanding() if pool.out[b][1] == port]
    others = [b for b in pool.outstanding() if pool.out[b][1] != port]
    for b in orphans:
      pool.suspend(b)           # left open: still good, or discarded with its port
    self.survivors.update(others)
    self.out.label("port-del")
    if orphans:
      self.out.label("port-del-with-own-packets-buffered")
    if others:
      self.out.label("port-del-with-other-ports-packets-buffered")
    if orphans and others and min(orphans) < max(others):
      self.out.label("port-del-own-packet-in-lower-slot-than-another")
    self.split_msgs(self.recv("port-del"), "port-del", allowed=(cb.OFPT_PORT_STATUS,))
    self.sw.take_emitted()

  def op_port_add(self, op):
    """A port the switch does not have at the moment (re)appears, with a fresh configuration."""
    absent = [p for p in PORTS if p not in self.live]
    if not absent:
      self.out.label("port-add-skipped-all-present")
      return
    port = self.pick_port(op["port"], absent)
    self.sw.sw.add_port(self.sw.sw.generate_port(port))
    self.live = sorted(self.live + [port])
    self.out.label("port-add")
    for m in self.recv("port-add"):
      if m["type"] == cb.OFPT_PORT_STATUS:
        self.hw[m["desc"]["port_no"]] = m["desc"]["hw_addr"]
      else:
        self.split_msgs([m], "port-add")
    self.sw.take_emitted()

  def op_features(self, op=None):
    x = self.nxid()
    self.send(cb.features_request(x))
    msgs = self.recv("features")
    fr = [m for m in msgs if m["type"] == cb.OFPT_FEATURES_REPLY]
    self.split_msgs(msgs, "features", allowed=(cb.OFPT_FEATURES_REPLY, cb.OFPT_HELLO))
    if len(fr) != 1:
      self.fail("features-reply-count", "%d features replies" % len(fr))
      return
    for p in fr[0]["ports"]:
      self.hw[p["port_no"]] = p["hw_addr"]
    if fr[0]["n_buffers"] != self.maxb:
      self.fail("n-buffers-advertised", "features reply advertises %d buffers, the switch was built with %d" % (fr[0]["n_buffers"], self.maxb))

  def run(self):
    self.fallback = self.reissue = self.double = self.survived_use = False
    self.send(cb.hello(1))
    self.op_features()
    for i, op in enumerate(self.case["ops"]):
      self.opno = i
      o = op["o"]
      if o == "frame":
        self.op_frame(op)
      elif o == "pout":
        self.use_buffer(op, "pout")
      elif o == "flow":
        self.op_flow(op)
      elif o == "flow_del":
        self.op_flow_del(op)
      elif o == "set_config":
        self.op_set_config(op)
      elif o == "features":
        self.op_features(op)
      elif o == "port_mod":
        self.op_port_mod(op)
      elif o == "port_del":
        self.op_port_del(op)
      elif o == "port_add":
        self.op_port_add(op)
      else:
        raise HarnessError("unknown op %r" % (o,))
      if len(self.pool.out) > self.maxb:
        self.fail("pool-bound", "%d packets are stored, the switch advertises %d buffers" % (len(self.pool.out), self.maxb))
    out = self.out
    out.nontrivial = bool(self.fallback or self.reissue or self.double or self.survived_use)
    if self.survived_use:
      out.label("nt-use-after-port-removal")
    if self.fallback:
      out.label("nt-full-pool-fallback")
    if self.reissue:
      out.label("nt-id-reissued-after-release")
    if self.double:
      out.label("nt-double-use")
    out.label("pool-size-%d" % self.maxb)


def _what_differs(emitted, want):
  """'frames' when the right ports got a packet but not the stored one, else 'ports'"""
  if [p for p, _ in emitted] == [p for p, _ in want]:
    return "frames"
  return "ports"


def _brief(emits):
  return [(p, len(f), f[:6].hex()) for p, f in emits]


def run_case(case):
  from ..sim.world import World
  out = Outcome()
  w = World()
  try:
    _Run(case, out, w).run()
  finally:
    w.close()
  return out


# --------------------------------------------------------------------------- enumeration

_ALPHABET = [
  {"o": "frame", "dst": 0, "port": 0, "len": 100, "fill": 1},
  {"o": "frame", "dst": 1, "port": 1, "len": 30, "fill": 7, "vlan": [9, 2]},
  {"o": "pout", "buf": {"k": "live", "i": 0}, "acts": [["port", 2]]},
  {"o": "pout", "buf": {"k": "live", "i": 1}, "acts": [["port", 3], ["in_port"]]},
  {"o": "pout", "buf": {"k": "used", "i": 0}, "acts": [["port", 2]]},
  {"o": "pout", "buf": {"k": "zero"}, "acts": [["flood"]]},
  {"o": "flow", "slot": 0, "buf": None, "acts": [["ctl", 16]], "cmd": "add"},
  {"o": "flow", "slot": 1, "buf": {"k": "live", "i": 0}, "acts": [["port", 3]], "cmd": "add", "idiom": True},
  {"o": "set_config", "len": 14, "flags": 2},
  {"o": "pout", "buf": {"k": "live", "i": 0}, "acts": [["ctl", 16]]},
  {"o": "pout", "buf": {"k": "live", "i": 0}, "acts": [["port", 2], ["vendor", 0x2320], ["port", 3]]},
  {"o": "flow", "slot": 1, "buf": None, "acts": [["set_vlan_vid", 5], ["ctl", 20], ["set_vlan_pcp", 3]], "cmd": "add"},
  {"o": "port_mod", "port": 0, "toggle": True},
]


def _enum(tier):
  if tier == "thorough":
    plans = [(0, 5), (1, 5), (2, 5), (3, 5), (4, 5)]
  else:
    plans = [(0, 4), (1, 4), (2, 4)]
  for mb, depth in plans:
    for n in range(1, depth + 1):
      for combo in itertools.product(range(len(_ALPHABET)), repeat=n):
        yield {"max_buffers": mb, "miss_send_len": 20, "ops": [_ALPHABET[i] for i in combo]}


# the port set changes under outstanding buffers: misses on three ports, a port goes / comes back, ids are used
_PORT_ALPHABET = [
  {"o": "frame", "dst": 0, "port": 0, "len": 40, "fill": 1},
  {"o": "frame", "dst": 1, "port": 1, "len": 50, "fill": 3},
  {"o": "frame", "dst": 2, "port": 3, "len": 30, "fill": 5},
  {"o": "port_del", "port": 0},
  {"o": "port_add", "port": 0},
  {"o": "pout", "buf": {"k": "live", "i": 0}, "acts": [["flood"]]},
  {"o": "pout", "buf": {"k": "live", "i": 1}, "acts": [["port", 3], ["in_port"]]},
  {"o": "flow", "slot": 3, "buf": {"k": "limbo", "i": 0}, "acts": [["all"]], "cmd": "add"},
]


def _enum_ports(tier):
  if tier == "thorough":
    plans = [(2, 5), (3, 6), (4, 5)]
  else:
    plans = [(2, 4), (3, 5)]
  for mb, depth in plans:
    for n in range(1, depth + 1):
      for combo in itertools.product(range(len(_PORT_ALPHABET)), repeat=n):
        yield {"max_buffers": mb, "miss_send_len": 20, "ops": [_PORT_ALPHABET[i] for i in combo]}


# --------------------------------------------------------------------------- Hypothesis

_LENS = [14, 15, 20, 21, 60, 63, 64, 65, 114, 127, 128, 129, 200, 300, 1514]
_CFG = [0, 1, 14, 20, 64, 128, 129, 0xffff]


def _s_acts():
  one = st.one_of(
    st.integers(1, 5).map(lambda p: ["port", p]), st.integers(1, 4).map(lambda p: ["port", p]),
    st.just(["in_port"]), st.just(["flood"]), st.just(["all"]),
    st.sampled_from(_CFG).map(lambda n: ["ctl", n]), st.integers(0, 0xffff).map(lambda n: ["ctl", n]))
  plain = st.lists(one, min_size=0, max_size=3)
  rewrite = st.one_of(st.integers(0, 3).map(lambda i: ["set_dl_dst", i]), st.sampled_from([0, 1, 5, 0xfff]).map(lambda v: ["set_vlan_vid", v]),
                      st.sampled_from([0, 1, 7]).map(lambda v: ["set_vlan_pcp", v]))
  bad = st.sampled_from([["vendor", 0x2320], ["bad", 12], ["bad", 0x7777]])
  ctl = st.sampled_from(_CFG).map(lambda n: ["ctl", n])
  # rewrites ahead of an output to the controller; an action the switch cannot execute before / between / after outputs
  with_rewrite = st.tuples(st.lists(rewrite, min_size=1, max_size=2), st.lists(one, min_size=0, max_size=1), ctl, st.lists(one, min_size=0, max_size=1)).map(
      lambda t: t[0] + t[1] + [t[2]] + t[3])
  with_bad = st.tuples(st.lists(one, min_size=0, max_size=2), bad, st.lists(one, min_size=0, max_size=2)).map(lambda t: t[0] + [t[1]] + t[2])
  # rewrites after an output to the controller: the buffered packet must stay what the packet-in showed
  rewrite_after = st.tuples(st.lists(rewrite, min_size=0, max_size=1), ctl, st.lists(rewrite, min_size=1, max_size=2), st.lists(one, min_size=0, max_size=1)).map(
      lambda t: t[0] + [t[1]] + t[2] + t[3])
  return st.one_of(plain, plain, plain, plain, with_rewrite, with_bad, rewrite_after)


def _s_buf():
  i = st.integers(0, 7)
  live = i.map(lambda n: {"k": "live", "i": n})
  used = i.map(lambda n: {"k": "used", "i": n})
  return st.one_of(live, live, live, live, live, live, used, used, used, i.map(lambda n: {"k": "limbo", "i": n}),
                   st.just({"k": "zero"}), i.map(lambda n: {"k": "never", "i": n}), i.map(lambda n: {"k": "oor", "i": n}))


def _s_op():
  frame = st.fixed_dictionaries({"o": st.just("frame"), "dst": st.integers(0, 3), "port": st.integers(0, 3),
                                 "len": st.one_of(st.sampled_from(_LENS), st.integers(14, 400)), "fill": st.integers(0, 255),
                                 "vlan": st.one_of(st.none(), st.none(), st.tuples(st.sampled_from([0, 1, 9, 0xfff]), st.integers(0, 7)).map(list))})
  idiom = st.sampled_from([False, False, True])
  pout = st.fixed_dictionaries({"o": st.just("pout"), "buf": _s_buf(), "acts": _s_acts(), "port": st.integers(0, 3), "idiom": idiom})
  flow = st.fixed_dictionaries({"o": st.just("flow"), "slot": st.integers(0, 3), "buf": st.one_of(st.none(), _s_buf()),
                                "acts": _s_acts(), "cmd": st.sampled_from(["add", "add", "modify", "modify_strict"]), "idiom": idiom})
  flow_del = st.fixed_dictionaries({"o": st.just("flow_del"), "slot": st.integers(0, 3)})
  setc = st.fixed_dictionaries({"o": st.just("set_config"), "len": st.one_of(st.sampled_from(_CFG), st.integers(0, 0xffff)),
                                "flags": st.sampled_from([0, 0, 1, 2, 2])})
  feat = st.just({"o": "features"})
  pmod = st.fixed_dictionaries({"o": st.just("port_mod"), "port": st.integers(0, 3), "on": st.booleans()})
  pdel = st.fixed_dictionaries({"o": st.just("port_del"), "port": st.integers(0, 3)})
  padd = st.fixed_dictionaries({"o": st.just("port_add"), "port": st.integers(0, 3)})
  return st.one_of(frame, frame, frame, frame, frame, pout, pout, pout, flow, flow, flow_del, setc, feat, pmod, pdel, padd)


def _strategy(tier, max_len):
  return st.fixed_dictionaries({
    "max_buffers": st.integers(0, 4),
    "miss_send_len": st.sampled_from([0, 14, 64, 128, 0xffff]),
    "ops": st.one_of(st.lists(_s_op(), min_size=1, max_size=10), st.lists(_s_op(), min_size=10, max_size=max_len),
                     st.lists(_s_op(), min_size=25, max_size=max_len)),
  })


def plan(tier):
  if tier == "quick":
    return [
      Enum("histories-exhaustive", lambda: _enum("quick"), shards=16),
      Enum("port-changes-exhaustive", lambda: _enum_ports("quick"), shards=16),
      Hyp("histories-generated", lambda: _strategy(tier, 60), examples=4000, shards=16),
    ]
  return [
    Enum("histories-exhaustive", lambda: _enum("thorough"), shards=16),
    Enum("port-changes-exhaustive", lambda: _enum_ports("thorough"), shards=16),
    Hyp("histories-generated", lambda: _strategy(tier, 60), examples=144000, shards=16),
  ]
