"""C07 -- hand-off between threads and the scheduler is race-free; recoco locks exclude.

The real recoco Scheduler (threaded, as POXCore creates it), its SelectHub (threaded or inline),
CallLaterTask / ScheduleTask / SyncTask / Synchronizer / Lock and the core.call_later / raiseLater
wrappers run under pvf.sim.detsched: every thread they start is a managed thread, one runs at a time,
switch points are the line boundaries inside the hand-off functions plus every blocking primitive, time
is virtual.  A case = scenario parameters + a schedule (either a sparse set of deviations from the
default non-pre-emptive round-robin schedule, or a gap-encoded random choice list).

Scenarios
  a  k foreign threads x m call-later submissions (Scheduler.callLater, POXCore.call_later, raiseLater), also bursts
     of N in {1, 2, 1023, 1024, 1025, 2047, 2048, 2049} submissions that pile up before the scheduler drains them
  b  several threads (and a task on the scheduler thread) calling schedule(T) on one blocked task T
  c  `with scheduler.synchronized():` sections (nested too) on foreign threads while tasks run
  d  2-4 cooperative tasks running generated acquire / try-acquire / release programs on 1-2 recoco Locks

Scheduler configurations: threaded (startInThread=True, as POXCore does; default), "runner": "other" (created with
startInThread=False on the main thread X, run() called on another thread Y) and "creator" (X == Y); "cfg": "nondefault".
In scenario a the scheduler thread itself is also a submitter (a handed-over function / a cooperative task handing over
further functions through Scheduler.callLater, core.call_later and core.raiseLater); in a and b the creator thread is too.

Pinger configurations: "fake" (detsched's counter pinger; pongAll on an empty pinger blocks and is reported) and
"real" (pox.lib.util's own make_pinger / PipePinger code running over detsched's virtual pipes: util.os is shimmed).

Scenario a also has: every form of core.raiseLater (class / class + keywords / instance; listener in place, or registered by
the hand-over submitted just before), functions handed over with positional and keyword arguments (also keywords named self /
func through the core wrappers), threads that wait for their own hand-overs ("w"), and cooperative tasks waiting in Select()
on descriptors that foreign threads make readable (["io", k]), so that the hub's select() reports its wake-up pipe, task
descriptors and the call-later pinger in every combination.

Oracles are history invariants written from the property text (exactly once, on the scheduler thread,
per-thread order, noticed at the virtual instant of submission; queued at most once / never lost; no
task step inside a section; one holder / hand-over to exactly one waiter / no waiter on a free lock).
"""
import contextlib
import io
import itertools
import os
import sys
import threading as _rt
import types

from hypothesis import strategies as st

from ..runner import Outcome, Enum, Hyp, HarnessError, exc_key, exc_is_from_harness, innermost_frames, REPO_ROOT
from ..sim import detsched as D

ID = "C07"
LEVEL = "exploration"
TECHNIQUE = ("systematic concurrency testing of the real code: deterministic thread scheduler (one thread at a time, "
             "line-granular switch points via sys.monitoring, shimmed blocking primitives, virtual time), bounded-deviation "
             "schedule enumeration + Hypothesis-drawn schedules, history-invariant oracles")
LEVEL_TEXT = ("Exploration: the real Scheduler/SelectHub/CallLaterTask/ScheduleTask/SyncTask/Lock code is executed under a "
              "deterministic thread scheduler. For the smallest instance of each scenario every schedule that differs from the "
              "default non-pre-emptive round-robin schedule in at most p decisions taken at the hand-off lines (p=1 quick, 2-3 "
              "thorough) is run, for both hub modes and two base orders; beyond that, schedules and scenario sizes are drawn by "
              "Hypothesis. Bounded systematic testing of real code, not a proof: interleavings finer than a source line, or "
              "inside C code, are not reachable.")
LEVEL_NOTE = ("trusts the harness's re-implementation of Lock/Event/Thread/select/pinger semantics and CPython's atomicity of "
              "deque/Queue operations; a deviation bound replaces 'all interleavings'")
RULE = ("a case is a scenario (a: foreign threads x call-later ops, b: concurrent schedule() of one blocked task, c: synchronized "
        "sections vs counting tasks, d: lock programs) plus a schedule; scenarios a-c are non-trivial when the executed schedule "
        "contains at least one pre-emption (the running thread could have continued but another was chosen) at a WINDOW line: a "
        "line boundary of recoco.py that lies between a check and the act depending on it, or between the enqueue and the "
        "wake-up signal of one hand-off (static list WINDOW_PATTERNS in pvf/props/c07.py: fast_schedule's membership test / "
        "append / break_idle, Scheduler.run's empty test / idle, idle's wait / clear, callLater's create-or-reuse and append / "
        "ping, CallLaterTask.run's pongAll / popleft, ScheduleTask.run's test / fast_schedule, registerSelect's put / ping, "
        "_select's pong / drain, SyncTask / Synchronizer lock handshake, and the marked points inside a section / task step), or "
        "(scenario a) when one select() of the hub returned its own wake-up pipe together with a descriptor a task waits for, when "
        "an event was handed over while the hand-over that registers its only listener was still queued, or when a function was "
        "handed over with a keyword argument named like a parameter of the hand-off functions (self, func); "
        "scenario d is non-trivial when at least one release handed the lock to a waiting task; distinct by SHA-1 of the case")
ASSUMPTIONS = [
  "thread switches happen only at source-line boundaries of the traced recoco/core functions and at blocking primitives; "
  "everything else (deque/Queue/set operations, C code, untraced Python) is atomic",
  "the harness's Lock/Event/Thread.join/select/pinger re-implementations have the semantics of the real ones "
  "(pongAll on an empty pinger blocks like a read on the real pipe); in the real-pinger configuration util's PipePinger code "
  "runs unchanged over a virtual pipe (blocking read while empty, 64 KiB capacity, readable in select iff non-empty)",
  "schedule() is only called on a task that has yielded False (documented contract); a lock is only released by its holder; "
  "blocking acquires respect a lock order so that the generated programs cannot deadlock by themselves",
  "a wake-up 'relies on the polling timeout' exactly when virtual time has to advance (all threads blocked) before the work runs",
]
EXHAUSTIVE_SCOPE = {
  "quick": "scenarios a (2 threads x 2 callLater; 2 x 1 via core.call_later / raiseLater), b (2 foreign wakers + 1 in-thread waker), "
           "c (1 task x 3 steps, 2 threads x 1 section, one nested) : every schedule with <= 1 deviation from the default "
           "round-robin schedule at window lines / forced switches, both hub modes, both base orders; scenario d: every pair of "
           "lock programs of length 3 and every triple of length 2 over {acquire, try, release, yield} on one lock (inline hub), every "
           "(length-3, length-2) pair over {helper-acquire, helper-release, release-by-other, acquire, yield}, 25 x 25 x 3 triples of "
           "length 2 over {acquire, helper-acquire, try, release-by-other, yield} on a lock created locked, default schedule; b "
           "with a target that yields 0 once per resume and waits in Sleep(); a (1 thread + 2 follow-up hand-overs) with the real "
           "PipePinger: one non-default choice at a forced switch followed by one pre-emption inside PipePinger.ping/pong/pong_all; the same deviation enumeration (<= 1) with the scheduler under test not being recoco.defaultScheduler, and "
           "(threaded hub, base order 0) with util's real PipePinger over virtual pipes; call-later bursts of N in {1, 2, 1023, "
           "1024, 1025, 2047, 2048, 2049} from one thread x inside/outside synchronized() x with/without warm-up x both hubs x "
           "both base orders, and six two-thread splits, default schedule, real PipePinger; one burst of 65537 (one more than the wake-up "
           "pipe holds) submitted in one slice by a handed-over function, inline hub (thorough: 65535..65537, both hubs, also inside "
           "synchronized()); opcode-level switch points inside "
           "CallLaterTask.callLater / CallLaterTask.run / Scheduler.callLater only: <= 1 deviation for 2 threads x 1 callLater + 1 "
           "follow-up (with/without warm-up, both hubs); all 27 three-wrapper sequences submitted from a handed-over function and "
           "from a task, 3 scheduler configurations, default schedule; Scheduler(startInThread=False) run by another thread / by "
           "its creator: <= 1 deviation for a and b with the creator among the submitters, plus for b (creator != runner) one "
           "pre-emption of the creator in schedule/fast_schedule followed by one of the running thread in ScheduleTask.run / "
           "fast_schedule / cycle; all sequences of length <= 2 over {Scheduler.callLater, core.call_later, raiseLater with event as "
           "class / class + keyword / instance, on a source listened to before / since just now / only once the hand-over submitted "
           "just before has run} from a foreign thread (inside / outside synchronized()), from a handed-over function and from a "
           "task, both hubs, default schedule, and <= 1 deviation for listener + event from one thread; every wrapper x 0-2 "
           "positional x keyword-name set (ordinary names; self / func through the core wrappers) from the three kinds of submitter; "
           "all thread programs of length <= 3 over {callLater, wait-for-own, feed-descriptor} that feed at least once x five shapes "
           "of tasks waiting in Select() x both hubs x with/without warm-up, default schedule, and <= 1 deviation for the smallest",
  "thorough": "as quick with <= 2 deviations (<= 3 for a with 2 threads x 1 op, threaded hub, base order 0); d: every triple of "
              "length-3 programs on one lock and every pair of length-3 programs on two locks",
}

CYCLE_MAX = 2

_M = None


class _Mods(object):
  pass


# (class name | None for module-level class, function name) -> source-line prefixes that open a window
WINDOW_PATTERNS = [
  ("Scheduler.fast_schedule", ["if first:", "self._ready.appendleft(task)", "self._ready.append(task)", "self._selectHub.break_idle()"]),
  ("Scheduler.schedule", ["if task in self._ready:", "self.fast_schedule(task, first)", "st = ScheduleTask(self, task)", "st.start("]),
  ("Scheduler.run", ["if len(self._ready) == 0:", "self._selectHub.idle()", "if self._hasQuit: break", "r = self.cycle()"]),
  ("Scheduler.cycle", ["t = self._ready.popleft()", "rv = t.execute()", "self._ready.append(t)"]),
  # (a tuple lists alternative spellings of one line: the receiver / function parameters may be named self / func or _self / _func)
  ("Scheduler.callLater", [("with self._lock:", "with _self._lock:"),
                           ("if self._callLaterTask is None:", "if _self._callLaterTask is None:"),
                           ("self._callLaterTask = CallLaterTask()", "_self._callLaterTask = CallLaterTask()"),
                           ("self._callLaterTask.start(", "_self._callLaterTask.start("),
                           ("self._callLaterTask.callLater(func, *args, **kw)", "_self._callLaterTask.callLater(_func, *args, **kw)")]),
  ("CallLaterTask.callLater", [("self._calls.append((func,args,kw))", "_self._calls.append((_func,args,kw))"),
                               ("self._pinger.ping()", "_self._pinger.ping()")]),
  ("CallLaterTask.run", ["yield Select([self._pinger], None, None)", "self._pinger.pongAll()", "e = self._calls.popleft()"]),
  ("ScheduleTask.run", ["if self._task in self._scheduler._ready:", "self._scheduler.fast_schedule(self._task, True)", "yield False"]),
  ("SelectHub.idle", ["self._event.wait(CYCLE_MAXIMUM)", "self._event.clear()", "self._select(self._tasks, {})"]),
  ("SelectHub.break_idle", ["self._event.set()", "self._cycle()"]),
  ("SelectHub.registerSelect", ["self._incoming.put((task, rlist, wlist, xlist, timeout))", "self._cycle()"]),
  ("SelectHub._select", ["ro, wo, xo = self._select_func(", "self._pinger.pongAll()", "while not self._incoming.empty():",
                         "stuff = self._incoming.get(True)", "self._return(t, v)"]),
  ("SelectHub._return", ["self._scheduler.fast_schedule(sleepingTask)"]),
  ("SyncTask.run", ["self.inlock.release()", "self.outlock.acquire()"]),
  ("Synchronizer.__enter__", ["if self.enter == 1:", "self.syncer.start(self.scheduler)", "self.syncer.inlock.acquire()"]),
  ("Synchronizer.__exit__", ["if self.enter == 0:", "self.syncer.outlock.release()"]),
]
# functions traced at every line (switch points of the random schedules)
TRACE_FUNCS = [
  "Scheduler.__init__", "Scheduler.callLater", "Scheduler.schedule", "Scheduler.fast_schedule", "Scheduler.run", "Scheduler.cycle",
  "Scheduler.synchronized", "Scheduler.runThreaded", "Scheduler.quit", "BaseTask.start", "BaseTask.execute",
  "CallLaterTask.__init__", "CallLaterTask.callLater", "CallLaterTask.run", "ScheduleTask.__init__", "ScheduleTask.run",
  "SyncTask.__init__", "SyncTask.run", "Synchronizer.__init__", "Synchronizer.__enter__", "Synchronizer.__exit__",
  "SelectHub.__init__", "SelectHub.idle", "SelectHub.break_idle", "SelectHub._threadProc", "SelectHub._select",
  "SelectHub.registerSelect", "SelectHub.registerTimer", "SelectHub._cycle", "SelectHub._return",
  "Lock._do_acquire", "Lock._do_release", "Select.execute", "Sleep.execute",
]


# functions whose switch points are single bytecode instructions in schedules with "on": "op"
OPCODE_FUNCS = ["Scheduler.schedule", "Scheduler.fast_schedule", "Scheduler.run", "ScheduleTask.run", "SelectHub.idle",
                "SelectHub.break_idle", "CallLaterTask.callLater", "Scheduler.callLater"]


def _resolve(R, dotted):
  o = R
  for part in dotted.split("."):
    o = getattr(o, part)
  return o


def setup():
  global _M
  if _M is not None:
    return
  import logging
  logging.disable(logging.CRITICAL)
  import pox.lib.util as U
  import pox.lib.recoco as RP
  import pox.lib.recoco.recoco as R
  import pox.lib.revent as RE
  if "pox.core" not in sys.modules:
    # importing pox.core self-initialises a core (with real threads) when unittest is loaded: keep it inert
    orig = RP.Scheduler

    def factory(*a, **kw):
      kw["startInThread"] = False
      kw["threaded_selecthub"] = False
      return orig(*a, **kw)
    RP.Scheduler = factory
    try:
      with contextlib.redirect_stdout(io.StringIO()):
        import pox.core
    finally:
      RP.Scheduler = orig
  import pox.core as P
  m = _Mods()
  m.U, m.R, m.P, m.RE = U, R, P, RE
  m.real_make_pinger = U.make_pinger
  m.trace = {}
  for name in TRACE_FUNCS:
    m.trace[_resolve(R, name)] = None
  m.trace[P.POXCore.call_later] = None
  m.trace[P.POXCore.raiseLater] = None
  # pox.lib.util's PipePinger methods are nested in make_pinger(): their code objects are constants of its code
  def walk(co):
    for c in co.co_consts:
      if hasattr(c, "co_consts"):
        yield c
        for x in walk(c):
          yield x
  m.pinger_codes = [c for c in walk(U.make_pinger.__code__)
                    if "PipePinger" in c.co_qualname and c.co_name in ("ping", "pong", "pong_all", "pongAll")]
  if len(m.pinger_codes) < 3:
    raise HarnessError("C07: cannot find PipePinger.ping/pong/pong_all code objects in pox.lib.util.make_pinger")
  for c in m.pinger_codes:
    m.trace[c] = None
  m.opcode = [_resolve(R, n) for n in OPCODE_FUNCS]
  # "opwin" schedules: decisions only at the bytecode instructions of the call-later hand-off itself (and forced switches)
  m.opwin = [R.CallLaterTask.callLater, R.CallLaterTask.run, R.Scheduler.callLater]
  m.opwin_windows = {}
  for f in m.opwin:
    c = D.code_of(f)
    m.opwin_windows[f] = set(ln for _, _, ln in c.co_lines() if ln is not None and ln != c.co_firstlineno)
  m.windows = {}
  m.missing = []
  for name, pats in WINDOW_PATTERNS:
    f = _resolve(R, name)
    lines = set()
    for p in pats:
      found = set()
      for alt in ((p,) if isinstance(p, str) else p):
        try:
          found |= D.lines_matching(f, [alt])
        except HarnessError:
          pass
      if not found:
        m.missing.append("%s: %s" % (name, p))      # tolerated: the tree under test may have dropped the line
      lines |= found
    m.windows[f] = lines
  for c in m.pinger_codes:     # every line of ping / pong / pong_all is a window (flag or pipe access)
    m.windows[c] = set(ln for _, _, ln in c.co_lines() if ln is not None and ln != c.co_firstlineno)
  if len(m.missing) > 6:
    raise HarnessError("C07: most window patterns do not match the source any more: %r" % (m.missing,))

  class Ev(RE.Event):
    def __init__(self, tag):
      RE.Event.__init__(self)
      self.tag = tag

  class EvA(RE.Event):
    """an event whose constructor takes whatever positional / keyword arguments the submitter gives"""
    def __init__(self, tag, *a, **kw):
      RE.Event.__init__(self)
      self.tag, self.a, self.kw = tag, a, kw

  class Src(RE.EventMixin):
    _eventMixin_events = set([Ev, EvA])
  m.Ev, m.Src, m.EvA = Ev, Src, EvA

  class HTask(R.BaseTask):
    """Harness task: run() is given by a generator function; hash is a small int so that set order
    (Lock._waiting.pop) does not depend on object addresses."""
    def __init__(self, idx, genf):
      self._h = idx
      self._genf = genf
      R.BaseTask.__init__(self)

    def __hash__(self):
      return self._h

    def run(self):
      return self._genf(self)

    def __repr__(self):
      return "<HTask %d>" % self._h
  m.HTask = HTask
  _M = m


# --------------------------------------------------------------------------- observation state

class _Bail(Exception):
  """Raised on purpose by the body of a synchronized() section in scenario c."""


class _Deliberate(object):
  """Marks exceptions raised on purpose by handed-over functions in scenario a."""


class _HException(_Deliberate, Exception):
  pass


class _HSystemExit(_Deliberate, SystemExit):
  pass


class _HKeyboardInterrupt(_Deliberate, KeyboardInterrupt):
  pass


class _HGeneratorExit(_Deliberate, GeneratorExit):
  pass


_RAISES = {"E": _HException, "S": _HSystemExit, "K": _HKeyboardInterrupt, "G": _HGeneratorExit}


class _Obs(object):
  def __init__(self):
    self.s = None
    self.seq = 0
    self.viol = []            # (clause, msg, extra-key dict)
    self.task_excs = []       # exceptions reported by Scheduler.cycle for a task
    self.q_adv = None         # number of time advances at the quiescence observation
    self.q = None             # scenario snapshot at quiescence
    self.labels = []
    self.sched_thread = None  # the thread that runs Scheduler.run()
    self.creator = None       # optional: run by the main thread between starting and joining the foreign threads
    self.time_passes = False  # the scenario lets virtual time pass on purpose (no "needed the polling timeout" verdict)
    self.tail = None          # optional: run by the main thread after the foreign threads were joined
    self.patches = []         # optional: extra context managers for the run
    self.flags = {}           # scenario-specific facts for the evidence labels / the non-trivial rule
    self.excs = []            # (key, msg) of exceptions judged by the scenario itself

  def tick(self):
    self.seq += 1
    return self.seq

  def fail(self, clause, msg, **key):
    if not any(v[0] == clause and v[2] == key for v in self.viol):
      self.viol.append((clause, msg, key))


class _TracebackShim(object):
  """recoco prints the traceback of a task that raised and drops the task; record the exception instead."""
  def __init__(self, obs):
    self._obs = obs

  def print_exc(self, *a, **kw):
    e = sys.exc_info()[1]
    if e is not None and not isinstance(e, D.DetSchedAbort):
      self._obs.task_excs.append(e)

  def __getattr__(self, n):
    import traceback
    return getattr(traceback, n)


# --------------------------------------------------------------------------- scenario bodies
# each returns (before_threads(s), [thread bodies], snapshot(), judge(out, obs, final_snapshot))

_A_TWO = ("rq", "rQ")          # ops that hand over two functions (listener registration, then the event)
_A_NONE = ("w",)               # ops that hand over nothing


def _a_count(op):
  """number of functions the scenario-a op hands over"""
  if isinstance(op, list):
    return op[1] if op[0] == "b" else 0 if op[0] == "io" else 1
  op = op.split(":")[0]
  return 2 if op in _A_TWO else 0 if op in _A_NONE else 1


class _FakeFd(object):
  """A descriptor for detsched's virtual select: readable while fed and not yet taken."""
  def __init__(self, k):
    self.k = k
    self.count = 0
    self.fed = 0

  def feed(self):
    self.count += 1
    self.fed += 1

  def take(self):
    n, self.count = self.count, 0
    return n

  def fileno(self):
    return 200000 + self.k

  def v_readable(self):
    return self.count > 0

  def __repr__(self):
    return "<fake fd %d n=%d>" % (self.k, self.count)


def _scn_a(p, ds, obs, m):
  R, P = m.R, m.P
  progs = p["threads"]      # per thread: ops "cl" | "co" | "rl" | ["b", N] (N consecutive Scheduler.callLater) |
                            # ["n", [ops]]: hand over a function that, once it runs on the scheduler thread, submits ops itself
  hold = bool(p.get("hold"))  # each thread submits inside `with scheduler.synchronized():`
  warm = bool(p.get("warm"))  # one call-later round trip first, so that the CallLaterTask is waiting in its Select
  log = []
  ntail = int(p.get("tail", 0))  # submissions by the main thread: the first right after joining the foreign threads (it may
                                 # race with the scheduler still working on theirs), each further one after quiescence
  ncreator = int(p.get("creator", 0))  # submissions by the main thread (the scheduler's creator) while the foreign threads run
  task_ops = list(p.get("task") or [])  # submissions made by a cooperative task in one step
  # p["io"] = [[reads, timeout8], ...]: cooperative task k waits `reads` times in Select([fd_k], timeout=timeout8/8 s or
  # none) and ends; thread op ["io", k] makes fd_k readable (as a peer's data would), so the select hub has descriptors of
  # its own to report next to its wake-up pipe.  Thread op "w": the thread waits until everything it has handed over so far
  # has run (the usual "hand over and wait for the result" pattern), so that its next op falls behind the scheduler's work.
  io_spec = [list(x) for x in (p.get("io") or [])]
  fds = [_FakeFd(k) for k in range(len(io_spec))]
  iolog = []                     # (k, bytes taken, fd was in the returned read list, on scheduler thread, vtime)
  io_left = [x[0] for x in io_spec]
  feeds = []                     # (k, vtime)
  ran = {}
  MAIN = len(progs)
  nested = {}
  counts = {}
  for i, pr in enumerate(progs):
    counts[i] = 0
    for t, op in enumerate(pr):
      counts[i] += _a_count(op)
      if isinstance(op, list) and op[0] == "n":
        nested[(i, t)] = MAIN + 2 + len(nested)
        counts[nested[(i, t)]] = sum(_a_count(x) for x in op[1])
  counts[MAIN] = ncreator + ntail
  TASK = MAIN + 1
  counts[TASK] = sum(_a_count(x) for x in task_ops)
  expected = [(sid, j) for sid in sorted(counts) for j in range(counts[sid])]
  nextj = dict((sid, 0) for sid in counts)

  refused = set()

  def mk(i, j, t0, then=None, exc=None, expect=None):
    def f(*a, **kw):
      log.append((i, j, _rt.current_thread() is obs.sched_thread, t0, ds.vtime()))
      ran[i] = ran.get(i, 0) + 1
      if expect is not None and [list(a), kw] != expect:
        obs.fail("call-arguments", "scenario a: function %r was handed over with arguments %r but was called with %r"
                 % ((i, j), expect, [list(a), kw]), scn="a")
      if then is not None:
        then()
      if exc is not None:
        raise _RAISES[exc]("raised on purpose by handed-over function %r" % ((i, j),))
    return f

  def submit_one(sid, op, then=None):
    # op may carry a suffix ":E" / ":S" / ":K" / ":G": the function raises Exception / SystemExit / KeyboardInterrupt /
    # GeneratorExit after doing its work (the functions handed over behind it must run all the same)
    s = obs.s
    j = nextj[sid]
    nextj[sid] = j + 1
    exc = None
    if ":" in op:
      op, exc = op.split(":")
    if op in _A_TWO:
      # a source nobody listens to yet: first hand over the function that starts listening, then the event for it
      # (per-thread submission order puts the listener in place before the event is raised)
      nextj[sid] = j + 2
      src = m.Src()
      P.POXCore.call_later(obs.core, mk(sid, j, ds.vtime(), lambda: src.addListener(m.Ev, lambda ev: ev.tag())))
      f = mk(sid, j + 1, ds.vtime(), then, exc)
      if not any(e[0] == sid and e[1] == j for e in log):
        obs.flags["listener-still-queued"] = obs.flags.get("listener-still-queued", 0) + 1
      if op == "rq":
        P.POXCore.raiseLater(obs.core, src, m.Ev, f)       # event given as class + constructor arguments
      else:
        P.POXCore.raiseLater(obs.core, src, m.Ev(f))       # event given as an instance
      return
    f = mk(sid, j, ds.vtime(), then, exc)
    if op == "cl":
      s.callLater(f)
    elif op == "co":
      P.POXCore.call_later(obs.core, f)
    elif op == "rl":
      P.POXCore.raiseLater(obs.core, obs.src, m.Ev, f)
    elif op == "ri":
      P.POXCore.raiseLater(obs.core, obs.src, m.Ev(f))
    elif op == "rk":
      P.POXCore.raiseLater(obs.core, obs.src, m.Ev, tag=f)
    elif op == "rp":     # a fresh source the submitter has just started listening to itself
      src = m.Src()
      src.addListener(m.Ev, lambda ev: ev.tag())
      P.POXCore.raiseLater(obs.core, src, m.Ev, f)
    else:
      raise HarnessError("bad op %r" % (op,))

  def wait_own(sid):
    want = nextj[sid]
    if hold:       # inside synchronized() the scheduler stands still: waiting for it there would be the caller's deadlock
      return
    if _rt.current_thread() is obs.sched_thread:
      raise HarnessError("scenario a: op 'w' on the scheduler thread")
    if not ds.block(lambda: ran.get(sid, 0) >= want, 3 * CYCLE_MAX + 1, "F%d: wait for own hand-overs" % sid):
      obs.fail("call-lost", "scenario a: a thread waited %d s for the %d functions it had handed over, %d had run"
               % (3 * CYCLE_MAX + 1, want, ran.get(sid, 0)), scn="a")

  def submit_args(sid, wrapper, npos, names):
    """["k", wrapper, npos, [names]]: hand over a function together with npos positional and the named keyword arguments.
    The core wrappers take their own parameters as _self / _func / _obj "in case the user wants to specify self as a keyword
    argument", so any other keyword name is the caller's to use with them (names that collide with Scheduler.callLater's
    own documented signature are not generated for the direct call)."""
    s = obs.s
    j = nextj[sid]
    nextj[sid] = j + 1
    pos = [["p", x] for x in range(npos)]
    kw = dict((n, ["k", n]) for n in names)
    f = mk(sid, j, ds.vtime(), None, None, [pos, kw])
    if set(names) & set(["self", "func"]):
      obs.flags["keyword-named-like-parameter"] = 1
    try:
      if wrapper == "cl":
        s.callLater(f, *pos, **kw)
      elif wrapper == "co":
        P.POXCore.call_later(obs.core, f, *pos, **kw)
      elif wrapper == "rl":
        P.POXCore.raiseLater(obs.core, obs.src, m.EvA, f, *pos, **kw)
      else:
        raise HarnessError("bad wrapper %r" % (wrapper,))
    except TypeError as e:
      if exc_is_from_harness(e):
        raise
      refused.add((sid, j))
      ran[sid] = ran.get(sid, 0) + 1       # (a thread that waits for its hand-overs does not wait for this one)
      obs.excs.append((exc_key(e, clause="call-refused", scn="a"),
                       "scenario a: handing over a function through %s with %d positional and keyword arguments %r raised %r on the "
                       "submitting thread: the function is not run" % (
                           {"cl": "Scheduler.callLater", "co": "core.call_later", "rl": "core.raiseLater"}[wrapper], npos,
                           sorted(names), e)))

  def submit_ops(sid, ops, where=None):
    for t, op in enumerate(ops):
      if isinstance(op, list):
        if op[0] == "k":
          submit_args(sid, op[1], int(op[2]), list(op[3]))
        elif op[0] == "b":
          for _ in range(op[1]):
            submit_one(sid, "cl")
        elif op[0] == "n" and where is not None:
          nsid, nops = nested[(where, t)], op[1]
          submit_one(sid, "cl", lambda nsid=nsid, nops=nops: submit_ops(nsid, nops))
        elif op[0] == "io" and fds:
          fd = fds[op[1] % len(fds)]
          feeds.append((fd.k, ds.vtime()))
          fd.feed()
        elif op[0] == "io":
          pass
        else:
          raise HarnessError("bad op %r" % (op,))
      elif op == "w":
        wait_own(sid)
      else:
        submit_one(sid, op)

  def task_gen(task):
    submit_ops(TASK, task_ops)
    return
    yield 0

  def io_gen(task):
    k = task._h - 10
    to8 = io_spec[k][1]
    while io_left[k] > 0:
      rv = yield (R.Select([fds[k]], None, None, to8 / 8.0) if to8 else R.Select([fds[k]], None, None))
      io_left[k] -= 1
      inlist = bool(rv) and fds[k] in rv[0]
      iolog.append((k, fds[k].take(), inlist, _rt.current_thread() is obs.sched_thread, ds.vtime()))

  def before(s):
    obs.core = types.SimpleNamespace(scheduler=s)
    obs.src = m.Src()
    obs.src.addListener(m.Ev, lambda ev: ev.tag())
    obs.src.addListener(m.EvA, lambda ev: ev.tag(*ev.a, **ev.kw))
    for k in range(len(io_spec)):
      m.HTask(10 + k, io_gen).start(s)
    if io_spec:
      hubo = s._selectHub
      inner_select = hubo._select_func

      def counting_select(rl, wl, xl, timeout):
        ro, wo, xo = inner_select(rl, wl, xl, timeout)
        if hubo._pinger in ro and (len(ro) > 1 or wo or xo):
          obs.flags["hub-pinger-with-descriptor"] = obs.flags.get("hub-pinger-with-descriptor", 0) + 1
        elif len(ro) > 1:
          obs.flags["several-descriptors"] = obs.flags.get("several-descriptors", 0) + 1
        return ro, wo, xo
      hubo._select_func = counting_select
      ds.wait_quiescent("a: i/o tasks settle in their Select")
    if warm:
      done = []
      s.callLater(lambda: done.append(1))
      ds.wait_quiescent("a: warm-up")
      if not done:
        obs.fail("wakeup-needs-poll", "scenario a: the warm-up function had not run at quiescence", scn="a")
    if task_ops:
      m.HTask(1, task_gen).start(s)

  def creator(s):
    for _ in range(ncreator):
      submit_one(MAIN, "cl")
  if ncreator:
    obs.creator = creator

  def tail(s):
    for _ in range(ntail):
      j = nextj[MAIN]
      submit_one(MAIN, "cl")
      ds.wait_quiescent("a: after tail submission %d" % j)
      if not any(e[0] == MAIN and e[1] == j for e in log):
        obs.fail("call-not-noticed", "scenario a: follow-up function %d handed over by a further thread after the others had "
                 "finished had not run when every thread was blocked again" % j, scn="a")
  if ntail:
    obs.tail = tail

  def body(i):
    def run():
      if hold:
        with obs.s.synchronized():
          submit_ops(i, progs[i], i)
      else:
        submit_ops(i, progs[i], i)
    return run

  def snap():
    if fds:      # unread data on a descriptor whose task is (still) waiting for it
      pend = [k for k in range(len(fds)) if fds[k].count and io_left[k] > 0]
      if pend:
        obs.fail("io-not-noticed", "scenario a: descriptor(s) %r were made readable by a foreign thread but the task selecting on "
                 "them had not been resumed when every thread was blocked" % (pend,), scn="a")
    return list(log)

  def judge(out, final):
    for e in iolog:
      if not e[3]:
        out.fail("step-wrong-thread", "scenario a: the task selecting on descriptor %d was resumed off the scheduler thread" % e[0],
                 scn="a")
      elif not e[1] and not io_spec[e[0]][1]:
        out.fail("resumed-without-io", "scenario a: the task selecting (without timeout) on descriptor %d was resumed although "
                 "nothing had been fed to it (returned lists contained it: %r)" % (e[0], e[2]), scn="a")
      elif e[1] and not e[2]:
        out.fail("select-result", "scenario a: descriptor %d was readable but the Select returned without it" % e[0], scn="a")
    q = obs.q if obs.q is not None else []
    ran_q = set((i, j) for i, j, _, _, _ in q)
    missing = [ij for ij in expected if ij not in ran_q and ij not in refused]
    fin_by = {}
    for e in final:
      fin_by.setdefault((e[0], e[1]), e)
    late = [ij for ij in missing if ij in fin_by]
    lost = [ij for ij in missing if ij not in fin_by]
    if late:
      e = fin_by[late[0]]
      out.fail("wakeup-needs-poll", "scenario a: %d of %d functions (first: %r, submitted at t=%r) had not run when every thread "
               "was blocked; they ran only after virtual time advanced (first at t=%r: polling timeout)"
               % (len(late), len(expected), late[0], e[3], e[4]), scn="a")
    if lost:
      out.fail("call-lost", "scenario a: %d of %d functions (first: %r) had not run at quiescence and did not run during %d s "
               "of polling either" % (len(lost), len(expected), lost[0], 3 * CYCLE_MAX), scn="a")
    cnt = {}
    for e in final:
      cnt[(e[0], e[1])] = cnt.get((e[0], e[1]), 0) + 1
    for ij, c in sorted(cnt.items()):
      if c > 1:
        out.fail("call-ran-twice", "scenario a: function %r ran %d times" % (ij, c), scn="a")
        break
    for e in final:
      if not e[2]:
        out.fail("call-wrong-thread", "scenario a: function %r did not run on the scheduler thread" % ((e[0], e[1]),), scn="a")
        break
    for i in sorted(counts):
      js = [e[1] for e in final if e[0] == i]
      if js != sorted(js):
        bad = [k for k in range(1, len(js)) if js[k] < js[k - 1]][:3]
        whom = ("thread %d" % i if i < MAIN else "the main thread" if i == MAIN else "a cooperative task" if i == TASK
                else "a handed-over function (i.e. the scheduler thread itself)")
        out.fail("call-order", "scenario a: %s submitted 0..%d in order but they ran out of order, e.g. around positions %r: %r"
                 % (whom, len(js) - 1, bad, [js[max(0, k - 1):k + 1] for k in bad]), scn="a",
                 **({"submitter": "scheduler-thread"} if i > MAIN else {}))
    for e in q:
      if e[4] != e[3]:
        out.fail("wakeup-needs-poll", "scenario a: function %r submitted at t=%r ran at t=%r" % ((e[0], e[1]), e[3], e[4]), scn="a")
        break
  return before, [body(i) for i in range(len(progs))], snap, judge


def _scn_b(p, ds, obs, m):
  """schedule(T) from foreign threads / from a task, while T is blocked indefinitely (`yield False` or `yield Sleep()`)
  or is sitting in the ready queue after `yield 0`.  (schedule()'s docstring: "this method will not schedule a task to
  run multiple times" -- so calling it on a task that is already queued is within the contract.  A task in a *timed*
  sleep or a Select is not a legal target: the select hub keeps its entry and would resume the task a second time when
  the timer / fd fires -- recoco has no way to cancel that -- so such targets are not generated.)

  Reference model of T: queued / running / waiting.  A wake-up takes effect when its ScheduleTask executes (observed by
  wrapping ScheduleTask.run) or, for the in-thread path, when schedule() is called: waiting -> queued, otherwise no-op.
  Every step of T must start in state queued; at quiescence T must not be queued."""
  R = m.R
  wakers = p["wakers"]             # schedule() calls per foreign thread
  inthread = p.get("inthread", 0)  # schedule() calls made by a task on the scheduler thread
  z = int(p.get("z", 0))           # `yield 0` steps T makes after every resume before it waits again
  wait = p.get("wait", "F")        # "F": yield False, "S": yield Sleep()
  T = {}
  steps = []                       # seq at the start of each step of T
  resumes = [0]                    # steps that started out of an indefinite wait (or the start)
  wakes = []                       # seq at the start of each schedule(T) call
  flag = [False]
  wdone = [inthread == 0]
  ms = ["new"]                     # model state of T
  pending = [0]                    # schedule(T) calls made off the scheduler thread whose ScheduleTask has not run yet
  ncreator = int(p.get("creator", 0))  # schedule(T) calls by the main thread (the scheduler's creator) while the others run

  def call_schedule():
    wakes.append(obs.tick())
    if _rt.current_thread() is obs.sched_thread:
      wake_effect()
    else:
      pending[0] += 1
    obs.s.schedule(T["t"])

  def creator(s):
    for _ in range(ncreator):
      call_schedule()
  if ncreator:
    obs.creator = creator

  def wake_effect():
    if ms[0] == "waiting":
      ms[0] = "queued"

  def step_begin(after_wait):
    if flag[0]:
      obs.fail("step-overlap", "scenario b: a step of T started while another step of T was running", scn="b")
    flag[0] = True
    if _rt.current_thread() is not obs.sched_thread:
      obs.fail("step-wrong-thread", "scenario b: T ran on a thread other than the scheduler's", scn="b")
    if ms[0] == "waiting" and pending[0] > 0:
      pending[0] -= 1          # a wake-up that was called but whose ScheduleTask has not run took effect some other way
      ms[0] = "queued"
    if ms[0] != "queued":
      obs.fail("resumed-without-wake", "scenario b: a step of T started although T was %s (%s) and no wake-up had taken effect since"
               % (ms[0], "indefinite wait" if after_wait else "it had already used its slot after `yield 0`"), scn="b")
    ms[0] = "running"
    steps.append(obs.tick())
    if after_wait:
      resumes[0] += 1
    ds.switch_point("T.step", True)
    flag[0] = False

  def tgen(task):
    while True:
      step_begin(True)
      for _ in range(z):
        ms[0] = "queued"
        yield 0
        step_begin(False)
      ms[0] = "waiting"
      if wait == "S":
        yield R.Sleep()
      else:
        yield False

  def wgen(task):
    for _ in range(inthread):
      call_schedule()
      yield 0
    wdone[0] = True

  def observe(name, site):
    s = obs.s
    if s is not None and "t" in T:
      c = list(s._ready).count(T["t"])
      if c > 1:
        obs.fail("queued-twice", "scenario b: T occurs %d times in the ready queue (seen by %s at %s)" % (c, name, site), scn="b")

  orig_run = R.ScheduleTask.run

  def st_run(self):
    if "t" in T and self._task is T["t"]:
      if _rt.current_thread() is obs.sched_thread:
        if pending[0] > 0:
          pending[0] -= 1
        wake_effect()
    return (yield from orig_run(self))
  obs.patches.append(ds.patched(R.ScheduleTask, run=st_run))

  def before(s):
    T["t"] = m.HTask(1, tgen)
    ms[0] = "queued"
    T["t"].start(s)
    ds.wait_quiescent("b: wait for T to block")
    if resumes[0] != 1 or ms[0] != "waiting":
      obs.fail("start-lost", "scenario b: T was started from a foreign thread but at quiescence it had started %d times and was %s"
               % (resumes[0], ms[0]), scn="b")
    if inthread:
      m.HTask(2, wgen).start(s)

  def body(i):
    def run():
      for _ in range(wakers[i]):
        call_schedule()
    return run

  def snap():
    s = obs.s
    return {"steps": list(steps), "wakes": list(wakes), "inready": list(s._ready).count(T["t"]) if "t" in T else 0,
            "wdone": wdone[0], "resumes": resumes[0], "ms": ms[0]}

  def judge(out, final):
    q = obs.q
    if q is not None:
      nw = len(q["wakes"])
      if q["wakes"] and (not q["steps"] or q["steps"][-1] < max(q["wakes"])):
        late = final["steps"] and final["steps"][-1] > max(q["wakes"])
        out.fail("wakeup-needs-poll" if late else "wake-lost",
                 "scenario b: %d schedule(T) calls were made, the last one started at event %d, but at quiescence T's last step had "
                 "started at event %r (%s)" % (nw, max(q["wakes"]), q["steps"][-1:] or None,
                                               "T ran only after virtual time advanced" if late else "T never ran again"), scn="b")
      elif q["ms"] == "queued":
        out.fail("wake-lost", "scenario b: a wake-up took effect while T was waiting but T had not run at quiescence", scn="b")
      if not q["wdone"]:
        out.fail("wake-lost", "scenario b: the in-thread waker task had not finished at quiescence", scn="b", who="waker")
    if final["resumes"] > 1 + len(final["wakes"]):
      out.fail("queued-twice", "scenario b: T was resumed %d times out of a wait for 1 start + %d wakes"
               % (final["resumes"], len(final["wakes"])), scn="b")
    if final["inready"] > 1:
      out.fail("queued-twice", "scenario b: T occurs %d times in the ready queue at the end" % final["inready"], scn="b")
  return before, [body(i) for i in range(len(wakers))], snap, judge, observe


def _scn_c(p, ds, obs, m):
  tasks = p["tasks"]       # steps per task
  threads = p["threads"]   # per thread: list of nesting depths, one per section
  inside = [0]
  in_step = [None]
  done = [0] * len(tasks)
  stepcount = [0]
  sections = [0]
  raised = [0]
  # p["quit"] = {"task": i, "step": k, "dur8": n, "by": "main" | "task"}: step k of task i is a long slice (it blocks the
  # scheduler thread for n/8 virtual seconds, like a long computation); scheduler.quit() is called during that slice, by the
  # task itself or by the main thread, while the foreign threads are waiting to get into their (single) section.  quit() only
  # requests the end: the slice goes on, so nobody may get inside before it is over.  On the unchanged tree the waiting
  # threads then wait for ever (the scheduler never runs their SyncTask); the harness lets them go once the scheduler
  # thread has ended, as a caller would have to.
  quit_ = p.get("quit")
  syncs = []

  def tgen(task):
    i = task._h - 1
    for k in range(tasks[i]):
      if inside[0]:
        obs.fail("task-ran-inside-section", "scenario c: step %d of task %d started while %d foreign thread(s) were inside "
                 "scheduler.synchronized()" % (k, i, inside[0]), scn="c")
      if in_step[0] is not None:
        obs.fail("step-overlap", "scenario c: task steps overlap", scn="c")
      in_step[0] = i
      stepcount[0] += 1
      ds.switch_point("task.step", True)
      if quit_ and quit_["task"] % len(tasks) == i and quit_["step"] % tasks[i] == k:
        if quit_["by"] == "task":
          obs.s.quit()
        ds.time.sleep(quit_["dur8"] / 8.0)
        ds.switch_point("task.step-after-long-part", True)
      if inside[0]:
        obs.fail("task-ran-inside-section", "scenario c: a foreign thread got inside scheduler.synchronized() in the middle of "
                 "step %d of task %d" % (k, i), scn="c")
      in_step[0] = None
      yield 0
    done[i] = 1

  def quit_flow(s):
    ds.wait_quiescent("c: long slice in progress, foreign threads waiting")
    if in_step[0] is None:
      raise HarnessError("C07 scenario c/quit: the long slice is not in progress at quiescence")
    if quit_["by"] == "main":
      s.quit()
    ds.time.sleep(quit_["dur8"] / 8.0 + 1)
    obs.sched_thread.join()
    for sy in syncs:      # let the threads that still wait for the (now ended) scheduler go
      if sy.syncer is not None and sy.syncer.inlock.locked():
        sy.syncer.inlock.release()
  if quit_:
    obs.creator = quit_flow
    obs.time_passes = True

  def check_inside(where):
    if in_step[0] is not None:
      obs.fail("task-ran-inside-section", "scenario c: task %r is in the middle of a step while a foreign thread is inside "
               "scheduler.synchronized() (%s)" % (in_step[0], where), scn="c")

  def spec(sec):
    """a section is an int (nesting depth) or [depth, kind, catch]: the innermost body raises; kind "in": the exception
    is caught inside the still-open enclosing section number `catch` (0 = outermost) of the same thread, "out": caught
    outside all sections, "thread": it propagates out of the thread function (the thread ends)."""
    if isinstance(sec, int):
      return sec, None, None
    depth, kind, catch = int(sec[0]), sec[1], int(sec[2])
    if kind == "in":
      depth = max(depth, 2)
      catch = min(max(catch, 0), depth - 2)
    return depth, kind, catch

  def inner(s, k, depth, kind, catch):
    ds.switch_point("section.in", True)
    check_inside("level %d" % k)
    if k < depth - 1:
      try:
        with s.synchronized():
          inner(s, k + 1, depth, kind, catch)
      except _Bail:
        if not (kind == "in" and catch == k):
          raise
        raised[0] += 1
      ds.switch_point("section.after-inner-exit", True)
      check_inside("after inner exit at level %d" % k)
      ds.switch_point("section.after-inner-exit-2", True)
      check_inside("after inner exit at level %d" % k)
    elif kind:
      raise _Bail()

  def before(s):
    for i in range(len(tasks)):
      m.HTask(i + 1, tgen).start(s)

  def body(i):
    def run():
      s = obs.s
      for sec in threads[i]:
        depth, kind, catch = spec(sec)
        sy = s.synchronized()
        syncs.append(sy)
        try:
          with sy:
            inside[0] += 1
            try:
              check_inside("on entry")
              inner(s, 0, depth, kind, catch)
            finally:
              inside[0] -= 1
        except _Bail:
          if kind == "thread":
            sections[0] += 1
            raise
          raised[0] += 1
        sections[0] += 1
    return run

  def snap():
    return {"done": list(done), "steps": stepcount[0], "sections": sections[0], "raised": raised[0]}

  def judge(out, final):
    q = obs.q
    if q is not None and not all(q["done"]) and not quit_:
      late = all(final["done"])
      out.fail("wakeup-needs-poll" if late else "scheduler-not-resumed",
               "scenario c: all sections were left but at quiescence tasks done=%r (%s)" % (
                   q["done"], "they finished only after virtual time advanced" if late else "they never finished"), scn="c")
  return before, [body(i) for i in range(len(threads))], snap, judge


def _scn_d(p, ds, obs, m):
  """Lock programs.  ops: ["a",l] blocking acquire, ["t",l] non-blocking acquire, ["r",l] release (own lock),
  ["A",l] / ["R",l] the same acquire / release done inside a @task_function helper (a sub-task) on behalf of the task,
  ["x",l] release a lock that somebody else holds (recoco's Lock has "similar semantics to the Python Lock", which any
  thread may release), ["y"] yield 0, ["s",k] sleep k/8 s.  p["init"][l] true: the lock is created with Lock(locked=True)
  (held by nobody in particular; task 0 releases it at its end unless an "x" did before).
  The model's holder is the *logical* task, also when a helper sub-task made the call."""
  R = m.R
  nlocks = p["locks"]
  progs = p["tasks"]
  init = list(p.get("init") or []) + [False] * nlocks
  locks = [R.Lock(locked=True) if init[l] else R.Lock() for l in range(nlocks)]
  holder = [(-1 if init[l] else None) for l in range(nlocks)]     # task index, -1 (initially locked), None (free)
  handoff = [False] * nlocks
  waiters = [set() for _ in range(nlocks)]
  done = [False] * len(progs)
  stats = {"handover": 0, "try_true": 0, "try_false": 0, "waited": 0, "skipped": 0, "helper": 0, "foreign_release": 0,
           "init_locked": int(any(init[:nlocks]))}
  total_sleep = [0.0]
  for pr in progs:
    for op in pr:
      if op[0] == "s":
        total_sleep[0] += op[1] / 8.0

  def who(h):
    return "nobody (created locked)" if h == -1 else "task %r" % (h,)

  def request(i, l):
    free = holder[l] is None and not handoff[l]
    if not free:
      waiters[l].add(i)
      stats["waited"] += 1
    return free

  def got(i, l, how):
    if holder[l] is not None:
      obs.fail("two-holders", "scenario d: task %d acquired lock %d (%s) while %s holds it" % (i, l, how, who(holder[l])), scn="d")
    if handoff[l]:
      if i in waiters[l]:
        waiters[l].discard(i)
        handoff[l] = False
      else:
        obs.fail("barged", "scenario d: task %d acquired lock %d (%s) although it had just been handed to one of the waiters %r"
                 % (i, l, how, sorted(waiters[l])), scn="d")
    elif i in waiters[l]:
      obs.fail("woken-without-release", "scenario d: waiter %d of lock %d resumed without a release handing it over" % (i, l), scn="d")
      waiters[l].discard(i)
    holder[l] = i

  def release(i, l):
    holder[l] = None
    if waiters[l]:
      handoff[l] = True
      stats["handover"] += 1

  @R.task_function
  def h_acquire(i, l):
    free = request(i, l)
    rv = yield locks[l].acquire()
    if rv is not True:
      obs.fail("acquire-result", "scenario d: blocking acquire (in a sub-task) returned %r" % (rv,), scn="d")
    got(i, l, "blocking, inside a task_function helper, lock was %s at the request" % ("free" if free else "taken"))
    yield True

  @R.task_function
  def h_release(i, l):
    release(i, l)
    yield locks[l].release()
    yield True

  def tgen(task):
    i = task._h - 1

    def mine():
      return [l for l in range(nlocks) if holder[l] == i]
    for op in progs[i]:
      k = op[0]
      if k == "y":
        yield 0
      elif k == "s":
        yield op[1] / 8.0
      elif k in ("a", "A", "t"):
        l = op[1] % nlocks
        if holder[l] == i:
          stats["skipped"] += 1
          continue
        blocking = k in ("a", "A") and not any(h >= l for h in mine())
        if blocking and holder[l] == -1 and (i == 0 or mine()):
          blocking = False     # nobody who is waited for may wait for the initially locked lock
        if blocking and k == "A":
          stats["helper"] += 1
          yield h_acquire(i, l)
        elif blocking:
          free = request(i, l)
          rv = yield locks[l].acquire()
          if rv is not True:
            obs.fail("acquire-result", "scenario d: blocking acquire returned %r" % (rv,), scn="d")
          got(i, l, "blocking, lock was %s at the request" % ("free" if free else "taken"))
        else:
          free = holder[l] is None and not handoff[l]
          rv = yield locks[l].acquire(False)
          if bool(rv) != free or not isinstance(rv, bool):
            obs.fail("try-acquire-result", "scenario d: non-blocking acquire of lock %d by task %d returned %r while the lock was %s"
                     % (l, i, rv, "free" if free else ("held by %s" % who(holder[l]) if holder[l] is not None else "handed to a waiter")),
                     scn="d")
          if rv:
            stats["try_true"] += 1
            got(i, l, "non-blocking")
          else:
            stats["try_false"] += 1
      elif k in ("r", "R"):
        l = op[1] % nlocks
        if holder[l] != i:
          stats["skipped"] += 1
          continue
        if k == "R":
          stats["helper"] += 1
          yield h_release(i, l)
        else:
          release(i, l)
          yield locks[l].release()
      elif k == "x":
        l = op[1] % nlocks
        if holder[l] is None or holder[l] == i:
          stats["skipped"] += 1
          continue
        stats["foreign_release"] += 1
        release(i, l)
        yield locks[l].release()
      else:
        raise HarnessError("bad lock op %r" % (op,))
    for l in sorted(mine(), reverse=True):
      release(i, l)
      yield locks[l].release()
    if i == 0:
      for l in range(nlocks):
        if holder[l] == -1:
          release(i, l)
          yield locks[l].release()
    done[i] = True

  def before(s):
    for i in range(len(progs)):
      m.HTask(i + 1, tgen).start(s)

  def snap():
    return {"done": list(done), "holder": list(holder), "handoff": list(handoff), "waiters": [sorted(w) for w in waiters],
            "stats": dict(stats)}

  def judge(out, final):
    q = obs.q
    if q is None:
      return
    for l in range(nlocks):
      if q["handoff"][l]:
        out.fail("handover-lost", "scenario d: lock %d was released with waiters %r but none of them had resumed at quiescence"
                 % (l, q["waiters"][l]), scn="d")
      elif q["holder"][l] is None and q["waiters"][l]:
        out.fail("waiter-on-free-lock", "scenario d: lock %d is free but tasks %r are still blocked on it" % (l, q["waiters"][l]), scn="d")
    if not all(q["done"]) and not out.violations and not obs.viol:
      out.fail("program-stuck", "scenario d: tasks done=%r at quiescence, holder=%r waiters=%r" % (q["done"], q["holder"], q["waiters"]),
               scn="d")
  return before, [], snap, judge, None, total_sleep[0]


_SCN = {"a": _scn_a, "b": _scn_b, "c": _scn_c, "d": _scn_d}


# --------------------------------------------------------------------------- executor

def _execute(case):
  setup()
  m = _M
  R, U = m.R, m.U
  out = Outcome()
  scn = case["scn"]
  hub = bool(case.get("hub", True))
  sc = case.get("sched") or {}
  if "devs" in sc:
    chooser = D.SparseChooser({int(k): int(v) for k, v in sc["devs"]})
  else:
    chooser = D.GapChooser(sc.get("gaps", []))
  obs = _Obs()
  parts = {}

  def observer(name, site):
    f = parts.get("observe")
    if f is not None:
      f(name, site)

  def on_abort():
    for x in [obs.s] + others:
      if x is not None:
        x._hasQuit = True

  mode = sc.get("on")
  ds = D.DetSched(chooser=chooser, trace=m.trace, windows=m.opwin_windows if mode == "opwin" else m.windows,
                  base=int(sc.get("base", 0)),
                  decide_on="windows" if mode in ("win", "opwin") else "all", observer=observer, on_abort=on_abort,
                  opcode=m.opcode if mode == "op" else (m.opwin if mode == "opwin" else ()),
                  max_vtime_span=60.0, watchdog_s=60.0, max_switch_points=2000000)
  r = _SCN[scn](case["p"], ds, obs, m)
  before, bodies, snap, judge = r[0], r[1], r[2], r[3]
  if len(r) > 4 and r[4] is not None:
    parts["observe"] = r[4]
  pre_sleep = r[5] if len(r) > 5 else 0.0
  final = {}

  realp = case.get("pinger") == "real"

  def pinger_check(when):
    for name, site, dl in ds.blocked():
      if dl is None and site and (site.startswith("os.read") or ".pong(empty)" in site):
        obs.fail("wakeup-lost-in-pinger", "scenario %s: %s: thread %s is blocked for ever draining a pinger that is empty (%s); "
                 "nothing it should do next can happen until an unrelated ping arrives" % (scn, when, name, site), scn=scn)

  nondefault = case.get("cfg") == "nondefault"
  runner = case.get("runner")
  others = []

  def main():
    R.defaultScheduler = None
    R.nextTaskID = 0          # task ids (and the hashes derived from them) are the same in every run of a case
    if nondefault:
      # another running scheduler is the process default; the one under test is not
      others.append(R.Scheduler(isDefaultScheduler=True, startInThread=True, threaded_selecthub=hub))
    if runner == "other":      # created here (thread X = main) with startInThread=False, run() called on another thread Y
      s = R.Scheduler(isDefaultScheduler=True, startInThread=False, threaded_selecthub=hub)
      obs.s = s
      obs.sched_thread = ds.Thread(target=s.run, name="Y")
      obs.sched_thread.start()
    elif runner == "creator":  # created with startInThread=False on the thread that then calls run() itself
      made = ds.threading.Event()

      def c_body():
        obs.s = R.Scheduler(isDefaultScheduler=True, startInThread=False, threaded_selecthub=hub)
        obs.sched_thread = _rt.current_thread()
        made.set()
        obs.s.run()
      ds.Thread(target=c_body, name="C").start()
      made.wait()
      s = obs.s
    else:
      s = R.Scheduler(isDefaultScheduler=not nondefault, startInThread=True, threaded_selecthub=hub)
      obs.s = s
      obs.sched_thread = s._thread
    before(s)
    ths = [ds.Thread(target=b, name="F%d" % i) for i, b in enumerate(bodies)]
    for t in ths:
      t.start()
    if obs.creator is not None:
      obs.creator(s)
    for t in ths:
      t.join()
    if obs.tail is not None:
      obs.tail(s)
    if pre_sleep:
      ds.time.sleep(pre_sleep + 0.125)
    else:
      ds.wait_quiescent("main: quiescence")
    obs.q_adv = len(ds.res.time_advances)
    if pre_sleep:
      ds.wait_quiescent("main: quiescence")
    obs.q = snap()
    pinger_check("at quiescence")
    ds.freeze()
    ds.time.sleep(3 * CYCLE_MAX)
    final["v"] = snap()
    pinger_check("after %d s of polling" % (3 * CYCLE_MAX))
    for x in [s] + others:
      x.quit()
      x._selectHub.break_idle()
      x._selectHub._cycle()
      (obs.sched_thread if x is s else x._thread).join()
      if x._selectHub._thread is not None:
        x._selectHub._thread.join()

  buf = io.StringIO()
  old_default = R.defaultScheduler
  if realp:    # the real PipePinger code of pox.lib.util over detsched's virtual pipes
    upatch = ds.patched(U, os=ds.os, makePinger=m.real_make_pinger, make_pinger=m.real_make_pinger)
  else:
    upatch = ds.patched(U, makePinger=ds.make_pinger, make_pinger=ds.make_pinger)
  with contextlib.ExitStack() as stack:
    stack.enter_context(ds.patched(R, threading=ds.threading, Thread=ds.Thread, time=ds.time, select=ds.select,
                                   traceback=_TracebackShim(obs)))
    stack.enter_context(upatch)
    # Lock._waiting is a set: give sub-tasks an address-independent hash so that pop() order is reproducible
    stack.enter_context(ds.patched(R.AgainTask, __hash__=lambda self: 1000 + self.id))
    for cm in obs.patches:
      stack.enter_context(cm)
    stack.enter_context(contextlib.redirect_stdout(buf))
    main_exc = None
    try:
      res = ds.run(main)
    except HarnessError:
      raise
    except Exception as e:      # an exception of POX that escaped on the main thread (it acts as a foreign thread)
      main_exc = e
      res = ds.res
    finally:
      R.defaultScheduler = old_default
  if res.budget_exceeded:
    raise HarnessError("C07: switch-point budget exceeded (case %r)" % (case,))
  fin = final.get("v")
  if fin is None:
    fin = snap()

  def from_harness(e):
    # an error raised by a shimmed primitive (e.g. "release unlocked lock") on behalf of the POX code that called it is POX's
    if isinstance(e, HarnessError):
      return True
    frames = [f for f in innermost_frames(e) if not f[0].endswith(os.sep + "detsched.py")]
    if frames and frames[-1][0].startswith(REPO_ROOT + os.sep):
      return False
    return exc_is_from_harness(e)

  def triage(e, clause, who):
    if isinstance(e, _Deliberate):
      out.fail("handed-over-exception-escaped", "%s: the exception %r raised by a handed-over function was not contained by the "
               "call-later machinery" % (who, e), scn=scn)
      return
    if from_harness(e):
      raise HarnessError("C07: harness exception on %s: %r" % (who, e)) from e
    out.violations.append({"key": exc_key(e, clause=clause, scn=scn), "msg": "%s: %r" % (who, e)})
  wedged = any(v[0] == "wakeup-lost-in-pinger" for v in obs.viol)   # then the shutdown cannot complete either
  if wedged or main_exc is not None:       # (the main thread died: the rest cannot shut down in an orderly way either)
    res.deadlock = res.stalled = None
  if res.deadlock is not None:
    out.fail("deadlock", "scenario %s: no thread can run and none has a timeout: %r" % (scn, res.deadlock), scn=scn)
  if res.stalled is not None:
    out.fail("blocked-forever", "scenario %s: threads blocked for ever while only the pollers keep waking: %r" % (scn, res.stalled), scn=scn)
  for clause, msg, key in obs.viol:
    out.fail(clause, msg, **key)
  for key, msg in obs.excs:
    if not any(v["key"] == key for v in out.violations):
      out.violations.append({"key": key, "msg": msg})
  if scn != "d" and obs.q_adv and not obs.time_passes:
    out.fail("wakeup-needs-poll", "scenario %s: virtual time had to advance %r before the system became quiescent: every thread was "
             "blocked while work was pending" % (scn, res.time_advances[:obs.q_adv]), scn=scn)
  if res.deadlock is None and res.stalled is None:
    judge(out, fin)
  if main_exc is not None:
    triage(main_exc, "thread-exception", "thread main")
    res.deadlock = res.stalled = None      # consequences of the main thread having died
  for name, e in res.thread_errors:
    if isinstance(e, _Bail):
      continue
    triage(e, "thread-exception", "thread %s" % name)
  for e in obs.task_excs:
    triage(e, "task-exception", "a task was de-scheduled by Scheduler.cycle because it raised")
  if nondefault:
    for v in out.violations:
      v["key"]["cfg"] = "nondefault"
  # ---- evidence
  wp = [d for d in res.preemptions if d["window"]]
  if nondefault:
    out.label("cfg:nondefault")
  out.label("pinger:" + ("real" if realp else "fake"))
  if scn == "a" and (case["p"].get("task") or any(isinstance(op, list) and op[0] == "n" for pr in case["p"]["threads"] for op in pr)):
    out.label("a:scheduler-thread-submitter")
  if case.get("runner"):
    out.label("runner:" + case["runner"])
  if scn == "a" and any(isinstance(op, str) and ":" in op for pr in case["p"]["threads"] for op in
                        (pr + [x for o in pr if isinstance(o, list) and o[0] == "n" for x in o[1]])):
    out.label("a:function-raises")
  if scn == "c" and case["p"].get("quit"):
    out.label("c:quit-during-slice")
  if scn == "a":
    flat = [x for pr in case["p"]["threads"] for o in pr for x in ([o] + (o[1] if isinstance(o, list) and o[0] == "n" else []))]
    if any(isinstance(op, list) and op[0] == "b" for op in flat):
      tot = sum(_a_count(op) for op in flat)
      big = max(op[1] for op in flat if isinstance(op, list) and op[0] == "b")
      out.label("a:burst", "a:burst-total:%s" % (tot if tot in BURSTS else ("multiple-of-1024" if tot % 1024 == 0 else "other")))
      if big >= 65535:
        out.label("a:burst-at-pipe-capacity:%d" % big)
  out.label("scn:" + scn, "hub:" + ("threaded" if hub else "inline"), "sched:" + ("dev" if "devs" in sc else "random"))
  if sc.get("on") in ("op", "opwin"):
    out.label("sched:opcode-level")
  out.label("preemptions:%d" % min(len(res.preemptions), 4), "window-preemptions:%d" % min(len(wp), 4))
  for d in wp:
    out.label("pre@" + d["site"].split(":")[0])
  if m.missing:
    out.label("window-pattern-missing")
  if scn == "c" and isinstance(fin, dict) and fin.get("raised"):
    out.label("c:section-raised")
  if scn == "d":
    stt = fin["stats"] if isinstance(fin, dict) else {}
    out.nontrivial = stt.get("handover", 0) > 0
    for k in ("handover", "try_true", "try_false", "waited", "helper", "foreign_release", "init_locked"):
      if stt.get(k):
        out.label("d:" + k)
  else:
    out.nontrivial = (bool(wp) or bool(obs.flags.get("hub-pinger-with-descriptor")) or bool(obs.flags.get("listener-still-queued"))
                      or bool(obs.flags.get("keyword-named-like-parameter")))
  for k in sorted(obs.flags):
    out.label("a:" + k)
  if scn == "a":
    allops = [x for pr in case["p"]["threads"] for o in pr for x in ([o] + (o[1] if isinstance(o, list) and o[0] == "n" else []))]
    allops += list(case["p"].get("task") or [])
    kinds = set((o[0] if isinstance(o, list) else o.split(":")[0]) for o in allops)
    for k, lab in (("w", "a:waits-for-own"), ("io", "a:feeds-descriptor"), ("ri", "a:raise-instance"), ("rk", "a:raise-kwargs"),
                   ("rp", "a:raise-fresh-source"), ("rq", "a:listener-then-class-event"), ("rQ", "a:listener-then-instance-event")):
      if k in kinds:
        out.label(lab)
    if case["p"].get("io"):
      out.label("a:io-tasks")
    kops = [o for o in allops if isinstance(o, list) and o[0] == "k"]
    if kops:
      out.label("a:with-arguments")
      for o in kops:
        if set(o[3]) & set(["self", "func"]):
          out.label("a:keyword-named-self-or-func:" + o[1])
  if out.violations:
    out.info = {"decisions": len(res.decisions), "preemptions": [(d["k"], d["thread"], d["site"], d["to"]) for d in res.preemptions],
                "trace_tail": list(res.trace)[-60:]}
    tail = "; ".join("%s %s %s" % (t[0], t[1], t[2]) for t in list(res.trace)[-25:])
    out.violations[0]["msg"] += "\n  pre-emptions: %r\n  last events: %s" % (out.info["preemptions"], tail)
  return out, res


def run_case(case):
  return _execute(case)[0]


# --------------------------------------------------------------------------- enumeration

def _small_instances():
  return [
    ("a", {"threads": [["cl", "cl"], ["cl", "cl"]]}),
    ("a", {"threads": [["co"], ["rl"]]}),
    ("b", {"wakers": [1, 1], "inthread": 1}),
    ("b", {"wakers": [1, 1], "inthread": 0, "z": 1, "wait": "S"}),
    ("a", {"threads": [["cl"]], "tail": 2}),
    ("c", {"tasks": [3], "threads": [[1], [2]]}),
    ("c", {"tasks": [3], "threads": [[[2, "in", 0], 1]]}),
    ("c", {"tasks": [2], "threads": [[[2, "out", 0], 1], [[1, "thread", 0]]]}),
  ]


def _dev_cases(scn, p, hub, base, bound, cfg=None, pinger=None, on="win", runner=None):
  def mk(devs):
    c = {"scn": scn, "hub": hub, "p": p, "sched": {"on": on, "base": base, "devs": sorted([k, v] for k, v in devs.items())}}
    if pinger:
      c["pinger"] = pinger
    if runner:
      c["runner"] = runner
    if cfg:
      c["cfg"] = cfg
    return c

  cache = {}

  def probe(devs):
    key = tuple(sorted(devs.items()))
    if key not in cache:
      cache[key] = _execute(mk(devs))[1].decisions
    return cache[key]
  for devs in D.enumerate_deviations(probe, bound):
    yield mk(devs)


def _enum_sched(tier):
  def gen():
    for idx, (scn, p) in enumerate(_small_instances()):
      for hub in (True, False):
        for base in (0, 1):
          bound = 1 if tier == "quick" else 2
          if tier == "thorough" and idx == 1 and hub and base == 0:
            bound = 3
          for c in _dev_cases(scn, p, hub, base, bound):
            yield c
      # the same instance with pox.lib.util's real PipePinger over virtual pipes (threaded hub, base order 0)
      for base in ((0, 1) if p.get("tail") else (0,)):
        for c in _dev_cases(scn, p, True, base, 2 if (tier == "thorough" and p.get("tail")) else 1, pinger="real"):
          yield c
  return gen


def _enum_opcode_calllater(tier):
  """Opcode-level switch points confined to CallLaterTask.callLater / CallLaterTask.run / Scheduler.callLater: every
  schedule with <= 1 deviation (thorough: 2) for two foreign threads x one callLater + one follow-up hand-over."""
  def gen():
    for warm in (False, True):
      for hub in (True, False):
        for base in ((0,) if tier == "quick" else (0, 1)):
          p = {"threads": [["cl"], ["cl"]], "tail": 1, "warm": warm}
          for c in _dev_cases("a", p, hub, base, 1 if tier == "quick" else 2, on="opwin"):
            yield c
  return gen


def _enum_sched_thread_submitters(tier):
  """Hand-overs submitted from the scheduler thread itself (by a handed-over function and by a cooperative task): every
  sequence of three wrappers out of Scheduler.callLater / core.call_later / core.raiseLater, default schedule."""
  def gen():
    for ops in itertools.product(["cl", "co", "rl"], repeat=3):
      for hub in (True, False):
        for runner in (None, "other", "creator"):
          c = {"scn": "a", "hub": hub, "p": {"threads": [["cl", ["n", list(ops)]]], "task": list(ops)},
               "sched": {"on": "win", "base": 0, "devs": []}}
          if runner:
            c["runner"] = runner
          yield c
  return gen


def _enum_raising_functions(tier):
  """Batches in which a handed-over function raises (Exception, SystemExit, KeyboardInterrupt, GeneratorExit) with further
  functions queued behind it in the same batch (the thread submits before the scheduler drains), default schedule."""
  def gen():
    for exc in ("E", "S", "K", "G"):
      for w in ("cl", "co", "rl"):
        for progs in ([[w + ":" + exc, "cl"]], [["cl", w + ":" + exc, "co", "rl"]], [[w + ":" + exc], ["cl", "cl"]],
                      [["cl", ["n", [w + ":" + exc, "cl"]]]]):
          for hub in (True, False):
            for hold in (False, True):
              yield {"scn": "a", "hub": hub, "pinger": "real" if hold else "fake", "p": {"threads": progs, "hold": hold, "tail": 1},
                     "sched": {"on": "win", "base": 0, "devs": []}}
  return gen


def _enum_quit_during_slice(tier):
  """Scenario c with scheduler.quit() requested (by the main thread / by the task itself) in the middle of a long task
  slice while foreign threads wait to enter synchronized(); default schedule and <= 1 deviation for the smallest one."""
  def gen():
    for by in ("main", "task"):
      for dur8 in (17, 24, 40):
        for step in (0, 1):
          for threads in ([[1]], [[2], [1]]):
            for hub in (True, False):
              yield {"scn": "c", "hub": hub, "p": {"tasks": [2, 1], "threads": threads,
                                                     "quit": {"task": 0, "step": step, "dur8": dur8, "by": by}},
                     "sched": {"on": "win", "base": 0, "devs": []}}
    p = {"tasks": [2], "threads": [[1]], "quit": {"task": 0, "step": 0, "dur8": 24, "by": "main"}}
    for hub in (True, False):
      for c in _dev_cases("c", p, hub, 0, 1):
        yield c
  return gen


def _enum_creator_runner(tier):
  """Scheduler(startInThread=False) created on thread X, run() called on thread Y (X != Y: "other", X == Y: "creator"), with
  the creator among the submitters / wakers.  <= 1 deviation for a and b; for b with X != Y additionally every schedule made
  of one pre-emption of the creator inside Scheduler.schedule / fast_schedule followed by one pre-emption of the thread
  that runs the scheduler (the unsynchronised check-then-append window needs both)."""
  def gen():
    pa = {"threads": [["cl"]], "creator": 1, "tail": 1}
    pb = {"wakers": [1], "inthread": 0, "creator": 1}
    for runner in ("other", "creator"):
      for hub in (True, False):
        for base in ((0,) if tier == "quick" else (0, 1)):
          for scn, p in (("a", pa), ("b", pb)):
            for c in _dev_cases(scn, p, hub, base, 1, runner=runner):
              yield c
    for hub in (True, False):
      for base in (0, 1):
        def mk(devs):
          return {"scn": "b", "hub": hub, "runner": "other", "p": pb,
                  "sched": {"on": "win", "base": base, "devs": sorted([k, v] for k, v in devs.items())}}
        base_decs = _execute(mk({}))[1].decisions
        firsts = [{d["k"]: v} for d in base_decs if not d.get("frozen") and d["kind"] == "line" and d["thread"] == "main"
                  and d["site"].startswith(("Scheduler.schedule", "Scheduler.fast_schedule")) for v in range(1, d["n"])]
        for devs1 in firsts:
          last = max(devs1)
          for d in _execute(mk(devs1))[1].decisions:
            if d["k"] > last and not d.get("frozen") and d["kind"] == "line" and d["thread"] == "Y" and (
                tier != "quick" or d["site"].startswith(("ScheduleTask.run", "Scheduler.fast_schedule", "Scheduler.cycle"))):
              for v in range(1, d["n"]):
                nd = dict(devs1)
                nd[d["k"]] = v
                yield mk(nd)
  return gen


def _enum_pinger_windows(tier):
  """Real PipePinger: every schedule made of at most one non-default successor choice at a forced switch (a thread blocks
  or ends; thorough: any deviation) followed by one pre-emption between the statements of PipePinger.ping / pong /
  pong_all, then follow-up hand-overs after quiescence."""
  def gen():
    insts = [("a", {"threads": [["cl"]], "tail": 2}), ("a", {"threads": [["cl"], ["cl"]], "tail": 1})]
    for scn, p in insts:
      for hub in (True, False):
        for base in (0, 1):
          def mk(devs):
            return {"scn": scn, "hub": hub, "pinger": "real", "p": p,
                    "sched": {"on": "win", "base": base, "devs": sorted([k, v] for k, v in devs.items())}}

          def second(d):
            return d["kind"] == "line" and not d.get("frozen") and "PipePinger" in d["site"]

          def first(d):
            return not d.get("frozen") and (tier == "thorough" or d["kind"] != "line")
          base_decs = _execute(mk({}))[1].decisions
          firsts = [{}] + [{d["k"]: v} for d in base_decs if first(d) for v in range(1, d["n"])]
          for devs1 in firsts:
            decs = _execute(mk(devs1))[1].decisions if devs1 else base_decs
            last = max(devs1) if devs1 else -1
            for d in decs:
              if d["k"] > last and second(d):
                for v in range(1, d["n"]):
                  nd = dict(devs1)
                  nd[d["k"]] = v
                  yield mk(nd)
  return gen


_RL_FORMS = ["cl", "co", "rl", "ri", "rk", "rp", "rq", "rQ"]


def _enum_raise_later_forms(tier):
  """Every form of core.raiseLater (event as class + positional / keyword constructor arguments, event as an instance;
  listener registered long before, registered by the submitter just before, or registered by a function the same
  submitter handed over just before and that is still queued) next to the two call-later wrappers: all sequences of
  length <= 2 from a foreign thread (inside / outside synchronized()), from a handed-over function and from a task,
  default schedule; <= 1 deviation (thorough: 2) for one thread handing over listener + event."""
  def gen():
    seqs = [[a] for a in _RL_FORMS] + [[a, b] for a in _RL_FORMS for b in _RL_FORMS]
    for ops in seqs:
      for hub in (True, False):
        for hold in (False, True):
          yield {"scn": "a", "hub": hub, "p": {"threads": [list(ops)], "hold": hold, "tail": 1},
                 "sched": {"on": "win", "base": 0, "devs": []}}
        yield {"scn": "a", "hub": hub, "p": {"threads": [["cl", ["n", list(ops)]]], "task": list(ops)},
               "sched": {"on": "win", "base": 0, "devs": []}}
    for p in ({"threads": [["rq"]]}, {"threads": [["rQ"], ["rp"]]}):
      for hub in (True, False):
        for c in _dev_cases("a", p, hub, 0, 1 if tier == "quick" else 2):
          yield c
  return gen


_KW_PLAIN = [[], ["x"], ["args", "kw"], ["task", "x", "n"]]
_KW_PARAM = [["self"], ["func"], ["self", "func"], ["func", "x"]]     # names of the hand-off functions' own parameters


def _kw_sets(wrapper):
  """keyword-name sets a caller may use with the wrapper: Scheduler.callLater(self, func, ...) documents its parameter names,
  the core wrappers document that theirs are out of the way; raiseEvent is a bound method, so `self` cannot reach an event"""
  return _KW_PLAIN + ([] if wrapper == "cl" else [x for x in _KW_PARAM if wrapper == "co" or "self" not in x])


def _enum_arguments(tier):
  """Functions handed over together with 0-2 positional arguments and keyword arguments (ordinary names, and -- through the
  core wrappers -- names that the hand-off functions use for their own parameters), from a foreign thread, from a handed-over
  function and from a task; default schedule."""
  def gen():
    for w in ("cl", "co", "rl"):
      for npos in (0, 1, 2):
        for names in _kw_sets(w):
          for hub in (True, False):
            ops = [["k", w, npos, list(names)], "cl"]
            yield {"scn": "a", "hub": hub, "p": {"threads": [ops + ["w", "co"]], "tail": 1},
                   "sched": {"on": "win", "base": 0, "devs": []}}
            yield {"scn": "a", "hub": hub, "p": {"threads": [["cl", ["n", ops]]], "task": ops},
                   "sched": {"on": "win", "base": 0, "devs": []}}
  return gen


def _enum_hub_descriptors(tier):
  """Scenario a with cooperative tasks waiting in Select() on descriptors of their own while foreign threads hand over
  functions, wait for them and make the descriptors readable: the select hub's select() then reports its wake-up pipe, task
  descriptors and the call-later task's pinger in every combination.  All thread programs of length <= 3 over {callLater,
  wait-for-own, feed} that feed at least once x task shapes (1 or 2 Selects, with / without a long timeout, two tasks) x both
  hubs x with / without warm-up, each followed by one hand-over after quiescence; default schedule, plus <= 1 deviation
  (thorough: 2) for the smallest one."""
  def gen():
    def progs(alpha):
      for n in (1, 2, 3):
        for pr in itertools.product(alpha, repeat=n):
          pr = list(pr)
          if not any(isinstance(o, list) for o in pr):
            continue
          if pr[0] == "w" or any(pr[i] == "w" and pr[i - 1] == "w" for i in range(1, n)):
            continue
          yield pr
    one = list(progs(["cl", "w", ["io", 0]]))
    two = [pr for pr in progs(["cl", "w", ["io", 0], ["io", 1]]) if any(o == ["io", 1] for o in pr)]
    for io, prs in (([[1, 0]], one), ([[2, 0]], one), ([[1, 256]], one), ([[1, 0], [1, 0]], two), ([[2, 0], [1, 256]], two)):
      for pr in prs:
        for hub in (True, False):
          for warm in (False, True):
            yield {"scn": "a", "hub": hub, "p": {"threads": [pr], "io": io, "warm": warm, "tail": 1},
                   "sched": {"on": "win", "base": 0, "devs": []}}
    for io in ([[1, 0]], [[2, 0]]):
      for threads in ([["cl", "w", ["io", 0]]], [["cl"], [["io", 0]]]):
        for hub in (True, False):
          p = {"threads": threads, "io": io, "warm": True, "tail": 1}
          for c in _dev_cases("a", p, hub, 0, 1 if tier == "quick" else 2):
            yield c
  return gen


BURSTS = [1, 2, 1023, 1024, 1025, 2047, 2048, 2049]


def _enum_bursts(tier):
  """Scenario a with bursts of N call-later submissions that pile up on the CallLaterTask's pinger before the
  scheduler drains it (submitted inside synchronized(), or simply by a foreign thread that runs first)."""
  def gen():
    def case(threads, hold, warm, hub, base, pinger):
      return {"scn": "a", "hub": hub, "pinger": pinger, "p": {"threads": threads, "hold": hold, "warm": warm},
              "sched": {"on": "win", "base": base, "devs": []}}
    for n in BURSTS:
      for hold in (True, False):
        for warm in (True, False):
          for hub in (True, False):
            for base in (0, 1):
              yield case([[["b", n]]], hold, warm, hub, base, "real")
              if n <= 2:
                yield case([[["b", n]]], hold, warm, hub, base, "fake")
    for split in ([1023, 1], [512, 512], [1024, 1024], [2047, 1], [1000, 25], [1, 1024]):
      for hub in (True, False):
        for warm in (True, False):
          yield case([[["b", split[0]]], [["b", split[1]]]], False, warm, hub, 0, "real")
    yield case([[["b", 1024], "co", "rl"]], True, True, True, 0, "real")
    yield case([["cl", ["b", 1023]]], True, True, True, 0, "real")
    # bursts around the capacity of the wake-up pipe (64 KiB): more pings than the pipe holds while nobody drains it, because
    # the submitter is the scheduler thread itself (one slice of a handed-over function) or holds synchronized()
    for n in ((65537,) if tier == "quick" else (65535, 65536, 65537)):
      for hub in ((False,) if tier == "quick" else (True, False)):
        c = case([["cl", ["n", [["b", n]]]]], False, False, hub, 0, "real")
        c["p"]["tail"] = 1
        yield c
        if tier != "quick":
          c = case([[["b", n]]], True, True, hub, 0, "real")
          c["p"]["tail"] = 1
          yield c
  return gen


_D_OPS1 = [["a", 0], ["t", 0], ["r", 0], ["y"]]
_D_OPS2 = [["a", 0], ["a", 1], ["t", 0], ["t", 1], ["r", 0], ["r", 1], ["y"]]
_D_OPS3 = [["A", 0], ["R", 0], ["x", 0], ["a", 0], ["y"]]      # helper sub-task acquire / release, release by another task
_D_OPS4 = [["a", 0], ["A", 0], ["t", 0], ["x", 0], ["y"]]      # with Lock(locked=True)


def _enum_locks(tier):
  def gen():
    progs = [list(x) for x in itertools.product(_D_OPS1, repeat=3)]
    for hub in ((True, False) if tier == "thorough" else (False,)):
      for a in progs:
        for b in progs:
          yield {"scn": "d", "hub": hub, "p": {"locks": 1, "tasks": [a, b]}, "sched": {"on": "win", "base": 0, "devs": []}}
    progs3 = [list(x) for x in itertools.product(_D_OPS3, repeat=3)]
    progs3b = [list(x) for x in itertools.product(_D_OPS3, repeat=2)]
    for a in progs3:
      for b in (progs3 if tier == "thorough" else progs3b):
        yield {"scn": "d", "hub": False, "p": {"locks": 1, "tasks": [a, b]}, "sched": {"on": "win", "base": 0, "devs": []}}
    progs4 = [list(x) for x in itertools.product(_D_OPS4, repeat=2)]
    for a in progs4:
      for b in progs4:
        for c in progs4[::(2 if tier == "thorough" else 12)]:
          yield {"scn": "d", "hub": False, "p": {"locks": 1, "init": [True], "tasks": [a, b, c]},
                 "sched": {"on": "win", "base": 0, "devs": []}}
    progs2t = [list(x) for x in itertools.product(_D_OPS1, repeat=2)]
    for a in progs2t:
      for b in progs2t:
        for c in progs2t:
          yield {"scn": "d", "hub": False, "p": {"locks": 1, "tasks": [a, b, c]}, "sched": {"on": "win", "base": 0, "devs": []}}
    if tier == "thorough":
      for a in progs:
        for b in progs:
          for c in progs:
            yield {"scn": "d", "hub": False, "p": {"locks": 1, "tasks": [a, b, c]}, "sched": {"on": "win", "base": 0, "devs": []}}
      progs2 = [list(x) for x in itertools.product(_D_OPS2, repeat=3)]
      for a in progs2:
        for b in progs2:
          yield {"scn": "d", "hub": False, "p": {"locks": 2, "tasks": [a, b]}, "sched": {"on": "win", "base": 0, "devs": []}}
  return gen


# --------------------------------------------------------------------------- random cases

def _s_sched(maxgap, op=False):
  return st.fixed_dictionaries({
    "on": st.just("op") if op else st.sampled_from(["all", "all", "win"]),
    "base": st.integers(0, 1),
    "gaps": st.lists(st.tuples(st.integers(0, maxgap), st.integers(1, 3)).map(list), min_size=0, max_size=8),
  })


def _strategy(tier):
  big = tier == "thorough"

  def s():
    op = st.sampled_from(["cl", "cl", "cl", "co", "co", "rl", "rl", "cl:E", "cl:S", "co:K", "rl:S", "cl:G",
                          "ri", "rk", "rp", "rq", "rq", "rQ", "rq:E", "ri:S"])
    top = st.one_of(st.just("w"), st.tuples(st.just("io"), st.integers(0, 1)).map(list))     # foreign threads only
    kop = st.sampled_from(["cl", "co", "co", "rl"]).flatmap(lambda w: st.tuples(
        st.just("k"), st.just(w), st.integers(0, 2), st.sampled_from(_kw_sets(w))).map(list))
    op = st.one_of(op, op, op, op, kop)
    nop = st.one_of(op, op, op, top, st.tuples(st.just("n"), st.lists(op, min_size=1, max_size=4)).map(list))
    ios = st.lists(st.tuples(st.integers(1, 3), st.sampled_from([0, 0, 256])).map(list), min_size=1, max_size=2)
    pa = st.fixed_dictionaries({"threads": st.lists(st.lists(nop, min_size=1, max_size=4), min_size=1, max_size=3),
                                "tail": st.sampled_from([0, 0, 1, 2]), "creator": st.sampled_from([0, 0, 1, 2]),
                                "task": st.one_of(st.just([]), st.lists(op, min_size=1, max_size=4)),
                                "io": st.one_of(st.just([]), ios), "warm": st.booleans()})
    pb = st.fixed_dictionaries({"wakers": st.lists(st.integers(1, 3), min_size=1, max_size=3), "inthread": st.integers(0, 2),
                                "z": st.sampled_from([0, 1, 1, 2]), "wait": st.sampled_from(["F", "S"]),
                                "creator": st.sampled_from([0, 0, 1, 2])})
    sec = st.one_of(st.integers(1, 3), st.integers(1, 3),
                    st.tuples(st.integers(2, 3), st.just("in"), st.integers(0, 1)).map(list),
                    st.tuples(st.integers(1, 3), st.just("out"), st.just(0)).map(list))
    last = st.one_of(st.just([]), st.just([]), st.tuples(st.integers(1, 2), st.just("thread"), st.just(0)).map(lambda t: [list(t)]))
    secs = st.tuples(st.lists(sec, min_size=1, max_size=3), last).map(lambda t: t[0] + t[1])
    pc = st.fixed_dictionaries({"tasks": st.lists(st.integers(1, 5), min_size=1, max_size=3),
                                "threads": st.lists(secs, min_size=1, max_size=3)})
    dop = st.one_of(st.tuples(st.sampled_from(["a", "a", "t", "r", "r", "A", "R", "x"]), st.integers(0, 1)).map(list),
                    st.just(["y"]), st.tuples(st.just("s"), st.integers(1, 4)).map(list))
    pd = st.fixed_dictionaries({"locks": st.integers(1, 2), "init": st.lists(st.sampled_from([False, False, True]), min_size=2, max_size=2),
                                "tasks": st.lists(st.lists(dop, min_size=1, max_size=8 if big else 6), min_size=2, max_size=4)})

    def case(scn, p, maxgap, op=False, pinger=None):
      return st.fixed_dictionaries({"scn": st.just(scn), "hub": st.booleans(), "p": p, "sched": _s_sched(maxgap, op),
                                    "pinger": pinger if pinger is not None else st.sampled_from(["fake", "real"]),
                                    "runner": st.sampled_from([None, None, None, "other", "creator"])})
    bop = st.one_of(op, op, st.tuples(st.just("b"), st.sampled_from(BURSTS + [3, 511, 1024])).map(list))
    pburst = st.fixed_dictionaries({"threads": st.lists(st.lists(bop, min_size=1, max_size=2), min_size=1, max_size=2),
                                    "hold": st.booleans(), "warm": st.booleans(), "tail": st.sampled_from([0, 1, 2])})
    return st.one_of(case("a", pa, 60), case("a", pa, 25), case("b", pb, 50), case("b", pb, 20), case("c", pc, 50),
                     case("c", pc, 20), case("d", pd, 40), case("a", pa, 150, True), case("b", pb, 120, True),
                     case("a", pburst, 4000, False, st.just("real")))
  return s


def _enum_nondefault(tier):
  """The scheduler under test is not the process-wide default scheduler (another running one is)."""
  def gen():
    for scn, p in [("a", {"threads": [["cl"], ["co"]]}), ("a", {"threads": [["cl", "rl"]]}),
                   ("b", {"wakers": [1], "inthread": 1}), ("c", {"tasks": [2], "threads": [[1]]})]:
      for hub in (True, False):
        for base in ((0, 1) if (tier == "thorough" or scn == "b") else (0,)):
          bound = 0 if scn == "c" else (2 if tier == "thorough" and scn == "b" else 1)
          for c in _dev_cases(scn, p, hub, base, bound, cfg="nondefault"):
            yield c
  return gen


def plan(tier):
  n = 1200 if tier == "quick" else 40000
  return [Enum("sched-deviations", _enum_sched(tier), shards=8 if tier == "quick" else 16),
          Enum("lock-programs", _enum_locks(tier), shards=16),
          Enum("nondefault-scheduler", _enum_nondefault(tier), shards=4 if tier == "quick" else 16),
          Enum("calllater-bursts", _enum_bursts(tier), shards=6),
          Enum("pinger-windows", _enum_pinger_windows(tier), shards=4 if tier == "quick" else 16),
          Enum("opcode-calllater", _enum_opcode_calllater(tier), shards=6 if tier == "quick" else 16),
          Enum("scheduler-thread-submitters", _enum_sched_thread_submitters(tier), shards=2),
          Enum("raising-functions", _enum_raising_functions(tier), shards=2),
          Enum("quit-during-slice", _enum_quit_during_slice(tier), shards=2),
          Enum("creator-runner", _enum_creator_runner(tier), shards=6 if tier == "quick" else 16),
          Enum("raise-later-forms", _enum_raise_later_forms(tier), shards=4),
          Enum("handed-over-arguments", _enum_arguments(tier), shards=2),
          Enum("hub-descriptors", _enum_hub_descriptors(tier), shards=4 if tier == "quick" else 16),
          Hyp("random-schedules", _strategy(tier), examples=n, shards=12 if tier == "quick" else 16)]
