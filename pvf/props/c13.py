"""C13 -- every switch request is answered once, with its transaction id, in order.

One SoftwareSwitch is driven byte-level through its OFConnection: a history of controller-to-switch
messages (all 13 types, all 7 statistics types, valid and invalid bodies) is encoded by the independent
codec pvf.ref.ctlbytes, cut into arbitrary segments and pushed into the switch; frames arrive on the
data plane in between.  Everything the switch writes is framed and decoded by the same codec, the
asynchronous messages are set aside and the rest is paired with the requests in order.  Reply content is
compared with pvf.ref.swshadow.SwitchShadow, which evolves by the OpenFlow 1.0 text from the same history.
"""
import struct

from hypothesis import strategies as st

from ..runner import Outcome, Enum, Hyp, HarnessError, exc_key, exc_is_from_harness
from ..ref import ctlbytes as cb
from ..ref.swshadow import SwitchShadow, canon_match, canon_key, subsumes

ID = "C13"
LEVEL = "exploration"
TECHNIQUE = "model-based history testing: Hypothesis-drawn request histories and per-type request grids against a shadow switch, byte-level with arbitrary segmentation"
LEVEL_TEXT = ("Exploration of request histories: a grid of single requests of every type and statistics type with valid and invalid bodies, "
              "plus Hypothesis-drawn histories of up to 40 requests interleaved with state changes, barriers and data-plane frames, each cut "
              "into arbitrary segments and judged by pairing the decoded reply stream with the requests and by comparing reply content with "
              "a shadow model written from the OpenFlow 1.0 text. Correlation and ordering are properties of whole histories over an "
              "unbounded message space, so generated-history search with an independent codec and model is the fitting level; no absence "
              "is claimed beyond what was explored.")
LEVEL_NOTE = ("trusts pvf/ref/ctlbytes.py (wire layouts) and pvf/ref/swshadow.py (flow-table, port and counter semantics for plain "
              "Ethernet frames and output actions); reply content is only judged where OF 1.0 fixes it and only when no un-barriered "
              "state change precedes the probe")
RULE = ("a case is (max_buffers, miss_send_len, segment sizes, list of ops) for a switch with 3 ports; an op is one controller-to-switch message "
        "(hello, echo request/reply, vendor, features, get-config, set-config, barrier, port-mod, flow-mod, packet-out, stats request of "
        "the 7 types or an unknown one, queue-get-config, unknown message type, a fixed-size request with an over-long or truncated body, a message of a type that only a switch sends, an error message, "
        "a request of up to 65535 bytes, a flow-mod with up to 8179 actions) with an arbitrary xid and a valid or invalid body, or a "
        "frame arrival; a case is non-trivial when it uses at least 3 different message types and contains an invalid request (one for "
        "which OF 1.0 names an error) that is followed by a request which must be answered with a proper reply; distinct by SHA-1 of the "
        "canonical JSON of the case")
ASSUMPTIONS = [
  "the header's length field always equals the number of bytes sent and the version is 1 (framing and version faults belong to C10); "
  "fixed-size requests are also sent with bodies that are too long or too short and must then get exactly one OFPBRC_BAD_LEN error "
  "(OFPBAC_BAD_LEN also accepted when an action's length field is the culprit) and no normal reply; padding bytes are zero",
  "without a barrier a switch may reorder: the content of a reply is compared with the shadow only when no state-changing message that "
  "affects it was sent since the last barrier request; pairing, xid, order and reply type are always judged",
  "where OF 1.0 names no error (port/flow stats for an unknown port or table, queue stats, output to a port that does not exist, "
  "set-config with undefined flag bits, packet-out with nothing to send) one reply or one error / nothing or one error is accepted",
  "a vendor action may be refused as BAD_TYPE or BAD_VENDOR, a vendor stats request as BAD_STAT or BAD_VENDOR; a buffer id that was already "
  "used must be refused as BUFFER_EMPTY, one that was never issued (zero, out of range) as BUFFER_UNKNOWN; a flow-mod with an unknown action type may be refused as BAD_ACTION or FLOW_MOD_FAILED/UNSUPPORTED",
  "error data must be a prefix of the offending request of at least min(64, its length) bytes",
  "a message of a type that only a switch sends (features / get-config / stats / barrier / queue-get-config reply, packet-in, flow-removed, "
  "port-status) is an unsupported request: OFPBRC_BAD_TYPE ('ofp_header.type not supported'), or OFPBRC_BAD_LEN as well when its body is "
  "not of that type's size; an OFPT_ERROR sent to the switch asks for nothing (nothing or one error accepted, no internal failure)",
  "ofp_flow_mod.buffer_id is 'not meaningful for OFPFC_DELETE*': a DELETE / DELETE_STRICT is valid whatever the field holds and is "
  "not answered; whether a switch touches an outstanding buffer named there is not judged",
  "a statistics reply that does not fit into 65535 bytes comes in several parts (OFPSF_REPLY_MORE), which are joined before they are "
  "judged; the last part must not have the flag set; action lists are kept to 65432 bytes (with more, one entry does not fit into any reply)",
  "frames are plain Ethernet II frames with ethertype 0x88b5; flows use in_port/dl_src/dl_dst/dl_type only; counters are not judged once "
  "two equal-priority flows covered a frame, or after OFPP_TABLE/NORMAL/LOCAL outputs or non-output actions were executed",
  "a barrier request is inserted before a frame arrival that follows an un-barriered state change (frames are not ordered with respect to the control channel)",
  "port config bit NO_STP and undefined config bits are not compared; port state is not compared",
  "the switch may send one HELLO (after the controller's), ECHO requests and asynchronous messages at any time",
]
EXHAUSTIVE_SCOPE = {
  "quick": "single-request grid: every message type and statistics type (and every type only a switch sends, and an error message) x the listed valid/invalid bodies x 4 xids, each alone after a hello and followed by a barrier and a get-config probe; "
           "grids over a fixed table: out_port restrictions, unsupported actions on an entry, rewrite-action values, refused flow-mods x buffer ids, DELETE x buffer ids, "
           "10 request shapes of 20000 / 65523 / 65524 / 65535 bytes, tables of 2-3 entries with 3000-8179 actions whose flow statistics need one or several messages",
  "thorough": "as quick, each grid request additionally preceded by a fixed warm-up history (flows, port-mod, frames), and with 3 segmentations",
}

DPID = 0x13
N_PORTS = 3

MAC_DST = [bytes([2, 0, 0, 0, 0x0d, i]) for i in range(3)]
MAC_SRC = [bytes([2, 0, 0, 0, 0x05, i]) for i in range(2)]
ETHERTYPE = 0x88b5
W = cb.OFPFW_ALL


def _mk_matches():
  return [
    cb.match(),
    cb.match(wildcards=W & ~cb.OFPFW_IN_PORT, in_port=1),
    cb.match(wildcards=W & ~cb.OFPFW_IN_PORT, in_port=2),
    cb.match(wildcards=W & ~cb.OFPFW_DL_DST, dl_dst=MAC_DST[0]),
    cb.match(wildcards=W & ~cb.OFPFW_DL_DST, dl_dst=MAC_DST[1]),
    cb.match(wildcards=W & ~cb.OFPFW_DL_SRC, dl_src=MAC_SRC[0]),
    cb.match(wildcards=W & ~cb.OFPFW_DL_TYPE, dl_type=ETHERTYPE),
    cb.match(wildcards=W & ~(cb.OFPFW_IN_PORT | cb.OFPFW_DL_DST), in_port=1, dl_dst=MAC_DST[0]),
    cb.match(wildcards=W & ~cb.OFPFW_DL_TYPE, dl_type=0x9999),     # covers no generated frame
  ]


MATCHES = _mk_matches()
M_NEVER = 8
ASYNC = (cb.OFPT_PACKET_IN, cb.OFPT_FLOW_REMOVED, cb.OFPT_PORT_STATUS, cb.OFPT_ECHO_REQUEST)
RESPONSES = (cb.OFPT_ERROR, cb.OFPT_ECHO_REPLY, cb.OFPT_FEATURES_REPLY, cb.OFPT_GET_CONFIG_REPLY, cb.OFPT_STATS_REPLY,
             cb.OFPT_BARRIER_REPLY, cb.OFPT_QUEUE_GET_CONFIG_REPLY)

# OF 1.0: BUFFER_EMPTY "specified buffer has already been used", BUFFER_UNKNOWN "specified buffer does not exist"
E_BUF_USED = {(cb.OFPET_BAD_REQUEST, cb.OFPBRC_BUFFER_EMPTY)}
E_BUF_UNKNOWN = {(cb.OFPET_BAD_REQUEST, cb.OFPBRC_BUFFER_UNKNOWN)}
E_BADACT = {(cb.OFPET_BAD_ACTION, cb.OFPBAC_BAD_TYPE)}
E_VENDACT = {(cb.OFPET_BAD_ACTION, cb.OFPBAC_BAD_TYPE), (cb.OFPET_BAD_ACTION, cb.OFPBAC_BAD_VENDOR),
             (cb.OFPET_BAD_ACTION, cb.OFPBAC_BAD_VENDOR_TYPE)}
E_UNSUP = {(cb.OFPET_FLOW_MOD_FAILED, cb.OFPFMFC_UNSUPPORTED)}
ANY_QUEUE_ERR = {(cb.OFPET_QUEUE_OP_FAILED, c) for c in (0, 1, 2)}


def setup():
  from ..sim import world
  world.boot()


def _frame(dst, src, length, fill=0):
  hdr = MAC_DST[dst % len(MAC_DST)] + MAC_SRC[src % len(MAC_SRC)] + struct.pack("!H", ETHERTYPE)
  return hdr + bytes(((fill + i) & 0xff) for i in range(max(0, length - 14)))


# the ten header-rewrite actions of OpenFlow 1.0 (ofp_action_type 1..10): value width in bits, total action length
_REWRITES = {1: (16, 8), 2: (8, 8), 3: (0, 8), 4: (48, 16), 5: (48, 16), 6: (32, 8), 7: (32, 8), 8: (8, 8), 9: (16, 8), 10: (16, 8)}


def _rw_values(bits):
  if bits == 0:
    return [0]
  top = 1 << (bits - 1)
  return sorted({0, 1, top - 1, top, top + 1, (1 << bits) - 1, 0xc0a80101 & ((1 << bits) - 1), 0x0a000001 & ((1 << bits) - 1)})


def _enc_rewrite(atype, value):
  """["rw", type, value]: a well-formed standard rewrite action, written from openflow.h 1.0 (value left-aligned, zero padding)"""
  bits, length = _REWRITES[atype]
  body = value.to_bytes(bits // 8, "big") if bits else b""
  return cb.action_raw(atype, body + b"\0" * (length - 4 - len(body)))


def _enc_actions(acts):
  out = b""
  for a in acts:
    k = a[0]
    if k == "out":
      out += cb.action_output(a[1], a[2] if len(a) > 2 else 0)
    elif k == "enq":
      out += cb.action_enqueue(a[1], a[2])
    elif k == "bad":
      out += cb.action_raw(a[1])
    elif k == "vendor":
      out += cb.action_vendor(a[1], b"\0" * 8)
    elif k == "rw":
      out += _enc_rewrite(a[1], a[2])
    else:
      raise HarnessError("unknown action spec %r" % (a,))
  return out


# message types that only a switch sends (openflow.h 1.0, "Switch -> controller" / "Async message"); OFPT_ERROR apart
S2C_TYPES = [cb.OFPT_FEATURES_REPLY, cb.OFPT_GET_CONFIG_REPLY, cb.OFPT_PACKET_IN, cb.OFPT_FLOW_REMOVED, cb.OFPT_PORT_STATUS,
             cb.OFPT_STATS_REPLY, cb.OFPT_BARRIER_REPLY, cb.OFPT_QUEUE_GET_CONFIG_REPLY]
HUGE_WHATS = ["echo", "vendor", "stats_unknown", "stats_vendor", "unknown_type", "set_config_overlong", "barrier_reply",
              "flow_mod_bad_command", "packet_out_unknown_buffer", "packet_out_bad_action"]
# 65523 is the longest request an error message can quote in full (65535 - 12)
HUGE_SIZES = [0xffff, 0xfffe, 65528, 65524, 65523, 65520, 65000, 40000, 20000, 4096]


def _phy_port(no, hw):
  """ofp_phy_port, 48 bytes"""
  return struct.pack("!H6s16sLLLLLL", no, hw, b"p%d" % no, 0, 0, 0, 0, 0, 0)


def _s2c_body(t, v, hw):
  """the body of a well-formed message of a switch-to-controller type, written from openflow.h 1.0; v picks a variant"""
  if t == cb.OFPT_FEATURES_REPLY:
    return struct.pack("!QLB3xLL", 0x99, 4, 1, 0x87, 0xfff) + b"".join(_phy_port(1 + i, hw) for i in range(v % 3))
  if t == cb.OFPT_GET_CONFIG_REPLY:
    return struct.pack("!HH", v % 3, 128)
  if t == cb.OFPT_PACKET_IN:
    data = _frame(0, 0, (14, 60, 128)[v % 3])
    return struct.pack("!LHHBx", cb.NO_BUFFER if v % 2 else 1, len(data), 1, v % 2) + data
  if t == cb.OFPT_FLOW_REMOVED:
    return MATCHES[v % len(MATCHES)] + struct.pack("!QHBxLLH2xQQ", 7, 100, v % 3, 5, 0, 10, 3, 180)
  if t == cb.OFPT_PORT_STATUS:
    return struct.pack("!B7x", v % 3) + _phy_port(1, hw)
  if t == cb.OFPT_STATS_REPLY:
    k = v % 6
    if k == cb.OFPST_DESC:
      body = b"".join(s.ljust(n, b"\0") for s, n in ((b"mfr", 256), (b"hw", 256), (b"sw", 256), (b"1", 32), (b"dp", 256)))
    elif k == cb.OFPST_AGGREGATE:
      body = struct.pack("!QQL4x", 1, 64, 1)
    elif k == cb.OFPST_TABLE:
      body = struct.pack("!B3x32sLLLQQ", 0, b"t0", W, 100, 1, 2, 1)
    elif k == cb.OFPST_PORT:
      body = struct.pack("!H6x12Q", 1, *range(12))
    else:
      body = b""          # flow, queue: an empty list
    return struct.pack("!HH", k, 0) + body
  if t == cb.OFPT_BARRIER_REPLY:
    return b""
  if t == cb.OFPT_QUEUE_GET_CONFIG_REPLY:
    return struct.pack("!H6x", 1) + (struct.pack("!LH2x", 1, 8) if v % 2 else b"")
  raise HarnessError("not a switch-to-controller type: %r" % (t,))


class Req(object):
  """One controller-to-switch message and what the specification lets the switch answer."""
  __slots__ = ("idx", "cls", "root", "mtype", "xid", "raw", "kind", "reply_type", "errors", "err_ok", "check", "answer",
               "internal", "late")

  def __init__(self, idx, cls, raw, kind, reply_type=None, errors=None, err_ok=False, check=None, root=None):
    self.idx, self.cls, self.raw = idx, cls, raw
    self.root = root or cls       # what the violation keys name: requests that fail for one reason share it
    self.mtype = raw[1]
    self.xid = struct.unpack("!L", raw[4:8])[0]
    self.kind = kind              # "reply": one reply (or, if err_ok, one error); "error": exactly one error out of `errors`;
    #                               "none": nothing; "maybe": nothing or one error
    self.reply_type = reply_type
    self.errors = errors          # set of acceptable (type, code), None = any
    self.err_ok = err_ok          # kind "reply": False, or True (any error), or a set of (type, code)
    self.check = check
    self.answer = None
    self.internal = None
    self.late = False


class _Run(object):
  def __init__(self, case, out, world):
    self.case, self.out, self.w = case, out, world
    self.nports = N_PORTS
    self.maxb = case.get("max_buffers", 2)
    self.msl0 = case.get("miss_send_len", 128)
    self.sw = world.add_switch(DPID, ports=self.nports, max_buffers=self.maxb, miss_send_len=self.msl0)
    self.reqs = []
    self.stream = []              # decoded non-async messages from the switch, in order
    self.rest = b""
    self.hellos_sent = 0
    self.hellos_seen = 0
    self.pending = bytearray()
    self.segs = [s for s in case.get("seg", []) if s > 0]
    self.segi = 0
    self.seen = set()
    self.by_raw = {}
    self.closed_reported = False
    self.new_async = []
    conn = self.sw.conn
    orig = conn._error_handler
    run = self
    # how many well-framed messages the connection has taken off the stream so far (handed to the switch's handler or refused
    # by the decoder): they are taken in the order they were fed, so this says which request a handler exception belongs to
    # even when the history holds several byte-identical requests
    self.consumed = 0
    self.base = 0

    def handler(reason, info):
      if reason in (conn.ERR_NO_UNPACKER, conn.ERR_BAD_LENGTH):
        run.consumed += 1
      if reason == conn.ERR_EXCEPTION:
        run.on_handler_exception(info[0], bytes(info[1]))
      return orig(reason, info)
    conn._error_handler = handler
    deliver = conn.on_message_received

    def on_message(c, msg):
      run.consumed += 1
      return deliver(c, msg)
    conn.on_message_received = on_message

  # ------------------------------------------------------------------ bookkeeping
  def fail(self, clause, msg, **kw):
    k = (clause, tuple(sorted(kw.items())))
    if k in self.seen:
      return
    self.seen.add(k)
    self.out.fail(clause, msg, **kw)

  def fail_exc(self, e, clause, req, msg):
    key = exc_key(e, clause=clause, req=req.root if req else "?")
    k = tuple(sorted(key.items()))
    if k in self.seen:
      return
    self.seen.add(k)
    self.out.violations.append({"key": key, "msg": msg})

  def find_req(self, raw):
    lst = self.by_raw.get(bytes(raw))
    if not lst:
      return None
    for r in lst:
      if r.internal is None and r.answer is None:
        return r
    return lst[-1]

  def on_handler_exception(self, e, raw):
    k = self.consumed - 1 - self.base
    r = self.reqs[k] if 0 <= k < len(self.reqs) else None
    if r is None or r.raw != raw or r.internal is not None:
      # the count does not lead to this message (a decoder that frames differently): the first open request with these bytes
      self.out.label("exception-attributed-by-bytes")
      r = self.find_req(raw)
    if r is not None:
      r.internal = "%s in handler" % type(e).__name__
    self.fail_exc(e, "handler-exception", r, "the switch's handler for request #%s (%s, xid %s) raised %r; the exception is swallowed by "
                  "OFConnection.read and the request goes unanswered" % (r.idx if r else "?", r.cls if r else "?", r.xid if r else "?", e))

  # ------------------------------------------------------------------ byte transport
  def push(self, chunk):
    sw = self.sw
    try:
      sw.rx_bytes(chunk)
    except Exception as e:
      if exc_is_from_harness(e):
        raise
      self.recover(e)
    self.collect()
    if sw.worker.shutdown_calls and not self.closed_reported:
      self.closed_reported = True
      self.fail("connection-closed", "the switch closed its controller connection")

  def recover(self, e):
    """An exception escaped OFConnection.read: the offending message is still at the head of the receive
    buffer and every later read would raise again.  Attribute it, drop the message, go on."""
    worker = self.sw.worker
    for _ in range(1000):
      buf = worker.receive_buf
      if len(buf) < 8:
        return
      length = struct.unpack("!H", buf[2:4])[0]
      if length < 8 or length > len(buf):
        raise HarnessError("cannot locate the message that made read() raise: %r" % (e,))
      raw = bytes(buf[:length])
      r = self.find_req(raw)
      if r is not None:
        r.internal = "%s escaped read()" % type(e).__name__
      self.fail_exc(e, "read-raises", r, "OFConnection.read raised %r while decoding request #%s (%s, xid %s); the message is never consumed, "
                    "so the connection is wedged" % (e, r.idx if r else "?", r.cls if r else "?", r.xid if r else "?"))
      worker.receive_buf = buf[length:]
      self.consumed += 1
      try:
        self.sw.rx_bytes(b"")
        return
      except Exception as e2:
        if exc_is_from_harness(e2):
          raise
        e = e2
    raise HarnessError("read() keeps raising")

  def collect(self):
    data = self.rest + self.sw.take_sent()
    if not data:
      return
    try:
      raws, self.rest = cb.split(data)
    except cb.DecodeError as e:
      self.rest = b""
      self.fail("unframeable-output", "the switch's output cannot be cut into messages: %s" % e)
      return
    for raw in raws:
      try:
        m = cb.decode(raw)
      except cb.DecodeError as e:
        mtype = raw[1]
        name = cb.TYPE_NAMES.get(mtype, "type%d" % mtype)
        sub = ""
        if mtype == cb.OFPT_STATS_REPLY and len(raw) >= 12:
          sub = cb.STATS_NAMES.get(struct.unpack("!H", raw[8:10])[0], "?")
        self.fail("malformed-message", "the switch sent a %s %s that is not well-formed: %s" % (name, sub, e), mtype=name, sub=sub)
        # keep it in the stream so that pairing still sees an answer
        m = {"type": mtype, "name": name, "xid": struct.unpack("!L", raw[4:8])[0], "raw": raw, "malformed": str(e), "version": raw[0],
             "length": len(raw)}
        if mtype == cb.OFPT_STATS_REPLY and len(raw) >= 12:
          m["stype"], m["flags"] = struct.unpack("!HH", raw[8:12])
      if m["type"] in ASYNC:
        self.new_async.append(m)
      elif m["type"] == cb.OFPT_HELLO:
        self.hellos_seen += 1
        if self.hellos_seen > 1:
          self.fail("extra-hello", "the switch sent a second HELLO")
        elif self.hellos_sent == 0:
          self.fail("hello-unprovoked", "the switch sent HELLO although none was sent to it in this harness")
      else:
        self.stream.append(m)

  def next_seg(self):
    """size of the next segment; while a lot is queued (a message of tens of kilobytes) the drawn sizes are scaled up,
    so that such a message still arrives in pieces but not octet by octet"""
    n = self.segs[self.segi % len(self.segs)]
    if len(self.pending) >= 2048:
      n *= 509
    return n

  def flush(self):
    while self.pending:
      if self.segs:
        n = self.next_seg()
        self.segi += 1
      else:
        n = len(self.pending)
      chunk = bytes(self.pending[:n])
      del self.pending[:n]
      self.push(chunk)

  def feed(self, raw):
    """queue a message; deliver as many whole segments as are available"""
    self.pending += raw
    if not self.segs:
      self.flush()
      return
    while True:
      n = self.next_seg()
      if len(self.pending) < n:
        break
      self.segi += 1
      chunk = bytes(self.pending[:n])
      del self.pending[:n]
      self.push(chunk)

  def add(self, cls, raw, kind, **kw):
    r = Req(len(self.reqs), cls, raw, kind, **kw)
    self.reqs.append(r)
    self.by_raw.setdefault(bytes(raw), []).append(r)
    self.out.label("req:" + cls)
    self.feed(raw)
    return r

  # ------------------------------------------------------------------ content checks (closures over snapshots)
  def chk_echo(self, body):
    def check(m, fail):
      if m.get("body") != body:
        fail("echo-body", "echo reply carries %r, the request carried %r" % (m.get("body"), body))
    return check

  def chk_features(self):
    sh = self.sh
    judged = not sh.dirty["ports"]
    want = dict((n, (p["hw_addr"], p["name"], p["config"] & sh.JUDGED_CONFIG)) for n, p in sh.ports.items())
    self.out.label("content-judged:features" if judged else "content-unbarriered:features")

    def check(m, fail):
      if m["datapath_id"] != DPID:
        fail("features-dpid", "features reply says datapath %#x, the switch is %#x" % (m["datapath_id"], DPID))
      if m["n_buffers"] != self.maxb:
        fail("features-n-buffers", "features reply says %d buffers, the switch has %d" % (m["n_buffers"], self.maxb))
      if m["n_tables"] < 1:
        fail("features-n-tables", "features reply says %d tables" % m["n_tables"])
      got = {}
      for p in m["ports"]:
        if p["port_no"] in got:
          fail("features-ports", "port %d listed twice" % p["port_no"])
        got[p["port_no"]] = p
      if sorted(got) != sorted(want):
        fail("features-ports", "features reply lists ports %s, the switch has %s" % (sorted(got), sorted(want)))
        return
      for n, (hw, name, cfg) in want.items():
        if got[n]["hw_addr"] != hw or got[n]["name"] != name:
          fail("features-port-identity", "port %d changed its address or name" % n)
        if judged and (got[n]["config"] & sh.JUDGED_CONFIG) != cfg:
          fail("features-port-config", "port %d config is %#x, after the port-mods of this history it must be %#x (bits %#x compared)" % (
              n, got[n]["config"], cfg, sh.JUDGED_CONFIG))
    return check

  def chk_get_config(self):
    sh = self.sh
    judged = not sh.dirty["config"]
    msl, flags, fk = sh.miss_send_len, sh.flags, sh.flags_known
    self.out.label("content-judged:get-config" if judged else "content-unbarriered:get-config")

    def check(m, fail):
      if not judged:
        return
      if m["miss_send_len"] != msl:
        fail("get-config-miss-send-len", "get-config reply says miss_send_len %d, last set-config said %d" % (m["miss_send_len"], msl))
      if fk and (m["flags"] & 3) != flags:
        fail("get-config-flags", "get-config reply says flags %#x, last set-config said %#x" % (m["flags"], flags))
    return check

  def _flow_view(self, mi, table_id, out_port):
    sh = self.sh
    desc = canon_match(cb.decode_match(MATCHES[mi]))
    if table_id in (0, 0xff):
      sel = sh.select(desc, out_port, False)
    else:
      sel = []
    certain = [f for f in sel if not f.maybe]
    maybe = [f for f in sel if f.maybe]
    return certain, maybe

  def chk_flow_stats(self, mi, table_id, out_port):
    sh = self.sh
    judged = sh.table_known and not sh.dirty["table"]
    ctr = sh.flowctr_known
    certain, maybe = self._flow_view(mi, table_id, out_port)
    snap = dict((f.key(), (f.cookie, f.idle, f.hard, f.actions_raw, f.packets, f.bytes)) for f in certain)
    opt = set(f.key() for f in maybe)
    self.out.label("content-judged:flow-stats" if judged else "content-unbarriered:flow-stats")
    if judged and snap:
      self.out.label("flow-stats-nonempty-expected")

    def check(m, fail):
      if not judged:
        return
      got = {}
      for e in m["body"]:
        k = (canon_key(canon_match(e["match"])), e["priority"])
        if k in got:
          fail("flow-stats-duplicate", "flow stats reply lists the same match/priority twice")
        got[k] = e
        if table_id in (0, 0xff) and e["table_id"] != 0 and k in snap:
          fail("flow-stats-table-id", "flow stats entry says table %d" % e["table_id"])
      missing = [k for k in snap if k not in got]
      extra = [k for k in got if k not in snap and k not in opt]
      if missing or extra:
        fail("flow-stats-set", "flow stats reply (match #%d, table %#x, out_port %#x) lists %d entries; %d expected entries are missing, "
             "%d listed entries should not be there" % (mi, table_id, out_port, len(got), len(missing), len(extra)))
        return
      for k, (cookie, idle, hard, acts, pk, by) in snap.items():
        e = got[k]
        if cookie is not None and e["cookie"] != cookie:
          fail("flow-stats-cookie", "flow stats cookie %#x, flow-mod said %#x" % (e["cookie"], cookie))
        if e["idle_timeout"] != idle or e["hard_timeout"] != hard:
          fail("flow-stats-timeouts", "flow stats timeouts %d/%d, flow-mod said %d/%d" % (e["idle_timeout"], e["hard_timeout"], idle, hard))
        if e["actions_raw"] != acts:
          fail("flow-stats-actions", "flow stats actions %s, flow-mod said %s" % (e["actions_raw"].hex(), acts.hex()))
        if e["duration_nsec"] >= 1000000000:
          fail("flow-stats-duration", "duration_nsec %d" % e["duration_nsec"])
        if ctr and (e["packet_count"] != pk or e["byte_count"] != by):
          fail("flow-stats-counters", "flow stats counts %d packets / %d bytes, %d / %d frames of this history hit the flow" % (
              e["packet_count"], e["byte_count"], pk, by))
    return check

  def chk_aggregate(self, mi, table_id, out_port):
    sh = self.sh
    certain, maybe = self._flow_view(mi, table_id, out_port)
    judged = sh.table_known and not sh.dirty["table"] and not maybe
    ctr = sh.flowctr_known
    n, pk, by = len(certain), sum(f.packets for f in certain), sum(f.bytes for f in certain)
    self.out.label("content-judged:aggregate" if judged else "content-unbarriered:aggregate")

    def check(m, fail):
      if not judged:
        return
      b = m["body"]
      if b["flow_count"] != n:
        fail("aggregate-flow-count", "aggregate stats (match #%d, table %#x, out_port %#x) count %d flows, expected %d" % (
            mi, table_id, out_port, b["flow_count"], n))
      elif ctr and (b["packet_count"] != pk or b["byte_count"] != by):
        fail("aggregate-counters", "aggregate stats say %d packets / %d bytes, expected %d / %d" % (b["packet_count"], b["byte_count"], pk, by))
    return check

  def chk_table(self):
    sh = self.sh
    judged = sh.table_known and not sh.dirty["table"]
    lo = len([f for f in sh.flows if not f.maybe])
    hi = len(sh.flows)
    ctr = sh.tablectr_known
    lookup, matched = sh.lookup, sh.matched
    self.out.label("content-judged:table" if judged else "content-unbarriered:table")

    def check(m, fail):
      tabs = [t for t in m["body"] if t["table_id"] == 0]
      if len(tabs) != 1:
        fail("table-stats-table0", "table stats reply has %d entries for table 0" % len(tabs))
        return
      t = tabs[0]
      if judged and not (lo <= t["active_count"] <= hi):
        fail("table-stats-active", "table stats say %d active flows, the table holds %d" % (t["active_count"], lo))
      total_l = sum(x["lookup_count"] for x in m["body"])
      total_m = sum(x["matched_count"] for x in m["body"])
      if ctr and (total_l != lookup or total_m != matched):
        fail("table-stats-counters", "table stats say %d lookups / %d matched, %d frames were looked up and %d matched" % (
            total_l, total_m, lookup, matched))
    return check

  def chk_port_stats(self, port):
    sh = self.sh
    rxk, txk = sh.rx_known, sh.tx_known and not sh.dirty["ports"]
    snap = dict((n, dict(c)) for n, c in sh.ctr.items())
    want = sorted(snap) if port == cb.OFPP_NONE else ([port] if port in snap else None)
    self.out.label("content-judged:port-stats")

    def check(m, fail):
      got = {}
      for e in m["body"]:
        if e["port_no"] in got:
          fail("port-stats-duplicate", "port %d listed twice" % e["port_no"])
        got[e["port_no"]] = e
      if want is None:
        extra = [n for n in got if n not in snap]
        if extra:
          fail("port-stats-set", "port stats for the unknown port %d list ports %s" % (port, sorted(got)))
        return
      if sorted(got) != want:
        fail("port-stats-set", "port stats for port %#x list ports %s, expected %s" % (port, sorted(got), want))
        return
      for n in want:
        e, c = got[n], snap[n]
        if rxk and (e["rx_packets"] != c["rx_packets"] or e["rx_bytes"] != c["rx_bytes"]):
          fail("port-stats-rx", "port %d rx %d packets / %d bytes, %d / %d arrived" % (n, e["rx_packets"], e["rx_bytes"], c["rx_packets"], c["rx_bytes"]))
        if txk and (e["tx_packets"] != c["tx_packets"] or e["tx_bytes"] != c["tx_bytes"]):
          fail("port-stats-tx", "port %d tx %d packets / %d bytes, %d / %d were sent" % (n, e["tx_packets"], e["tx_bytes"], c["tx_packets"], c["tx_bytes"]))
    return check

  def chk_qgc(self, port):
    def check(m, fail):
      if m["port"] != port:
        fail("queue-config-port", "queue-get-config reply is for port %d, the request named %d" % (m["port"], port))
    return check

  # ------------------------------------------------------------------ ops
  def resolve_buf(self, sel):
    """(buffer id, kind) -- kind 'live' or a bogus class"""
    pool = self.sh.pool
    if sel is None:
      return cb.NO_BUFFER, "none"
    k, i = sel["k"], sel.get("i", 0)
    if k == "live?":
      live = pool.outstanding()
      if live:
        return live[i % len(live)], "live"
      return cb.NO_BUFFER, "none"
    if k == "live":
      live = pool.outstanding()
      if live:
        return live[i % len(live)], "live"
      k = "never"
    if k == "used":
      stale = pool.stale()
      if stale:
        return stale[i % len(stale)], "used"
      k = "never"
    if k == "zero":
      return 0, "zero"
    cand = [b for b in (self.maxb + 1, self.maxb + 7, 0x7fffffff, 0xfffffffe, 1000) if b not in pool.out and b not in pool.ever]
    return cand[i % len(cand)], "unknown"

  def classify_actions(self, acts, in_flow_mod=False):
    """(set of error codes OF 1.0 names for the list, name of the first thing a switch may refuse or None)"""
    errs = set()
    maybe = None
    for a in acts:
      if a[0] == "bad":
        errs |= E_BADACT
      elif a[0] == "vendor":
        errs |= E_VENDACT
      elif a[0] == "enq":
        maybe = maybe or "enqueue"
      elif a[0] == "out":
        p = a[1]
        if p < cb.OFPP_MAX and p not in self.sh.ports:
          maybe = maybe or "output-unknown-port"
        elif p in (cb.OFPP_NORMAL, cb.OFPP_LOCAL, cb.OFPP_NONE) or (cb.OFPP_MAX <= p < cb.OFPP_IN_PORT):
          maybe = maybe or "output-odd-port"
        elif p == cb.OFPP_TABLE and in_flow_mod:
          maybe = maybe or "output-odd-port"
    return errs, maybe

  def op_flow_mod(self, op):
    sh = self.sh
    x = op["xid"]
    cmd = op["cmd"]
    acts = [list(a) for a in op.get("acts", [])]
    mi = op["m"] % len(MATCHES)
    flags = op.get("flags", 0)
    out_port = op.get("out_port", cb.OFPP_NONE)
    prio = op.get("prio", 0x8000)
    errs, maybe = self.classify_actions(acts, in_flow_mod=True)
    bid, bkind = self.resolve_buf(op.get("buf"))
    is_del = cmd in (cb.OFPFC_DELETE, cb.OFPFC_DELETE_STRICT)
    known_cmd = cmd in (0, 1, 2, 3, 4)
    if not known_cmd:
      bid, bkind = cb.NO_BUFFER, "none"
    # OF 1.0, ofp_flow_mod.buffer_id: "Not meaningful for OFPFC_DELETE*" -- a DELETE is valid whatever the field holds
    del_buf = is_del and bkind != "none"
    special = bool(flags & (cb.OFPFF_EMERG | cb.OFPFF_CHECK_OVERLAP)) and known_cmd and not is_del
    bogus = bkind not in ("none", "live") and not is_del
    uncertain = known_cmd and not is_del and (bool(errs) or bool(maybe) or bogus)
    # "fill": the action list is followed by that many further outputs to port 2 (an entry whose description takes tens of
    # kilobytes).  Only for a flow-mod nobody may refuse and that moves no packet; its match is one no frame of the history has.
    fill = op.get("fill", 0)
    if fill and (uncertain or special or is_del or bkind != "none"):
      fill = 0
    if fill:
      mi = M_NEVER
    # "target": the flow-mod describes the k-th entry that is certainly in the table (its match and priority), so that an
    # ADD replaces it and a MODIFY / MODIFY_STRICT hits it.  Only honoured for an action list that OF 1.0 obliges the switch
    # to refuse (an unknown / vendor action type and nothing else a switch may object to); what is in the table afterwards
    # is treated as unknown, as for every flow-mod a switch may refuse.
    match_raw = None
    if op.get("target") is not None and uncertain and not special and errs and not maybe:
      cand = [f for f in sh.flows if not f.maybe]
      if cand:
        f = cand[op["target"] % len(cand)]
        match_raw, prio = f.match_raw, f.priority
    on_entry = match_raw is not None
    keep = uncertain and cmd != cb.OFPFC_ADD and (special or on_entry or op.get("keep_cmd", False))
    if uncertain:
      if not keep:
        cmd = cb.OFPFC_ADD                    # the shadow only knows uncertain ADDs ...
      if (errs or maybe) and not on_entry:
        mi = M_NEVER                          # such a flow must never be hit by a frame of this history
    if match_raw is None:
      match_raw = MATCHES[mi]
    acts_raw = _enc_actions(acts)
    # 12 + 88 + 65432 = 65532: an entry with a longer action list cannot be reported in any stats message
    acts_raw += cb.action_output(2) * min(fill, (65432 - len(acts_raw)) // 8)
    if fill:
      self.out.label("flow-mod-long-action-list:%dk" % (len(acts_raw) >> 10))
    raw = cb.flow_mod(x, match_raw, cookie=op.get("cookie", 0), command=cmd, idle_timeout=op.get("idle", 0),
                      hard_timeout=op.get("hard", 0), priority=prio, buffer_id=bid, out_port=out_port, flags=flags, actions=acts_raw)
    if not known_cmd:
      # (an unknown action type in the same message may be what the switch reports instead)
      self.add("flow_mod/bad-command", raw, "error", errors={(cb.OFPET_FLOW_MOD_FAILED, cb.OFPFMFC_BAD_COMMAND)} | errs | (E_UNSUP if errs else set()))
      return
    definite = set()
    root = None
    if bogus:
      definite |= E_BUF_USED if bkind == "used" else E_BUF_UNKNOWN
    if errs and not is_del:
      definite |= errs | E_UNSUP
    if special:
      flag_errs = {(cb.OFPET_FLOW_MOD_FAILED, c) for c in (cb.OFPFMFC_ALL_TABLES_FULL, cb.OFPFMFC_OVERLAP, cb.OFPFMFC_EPERM,
                                                             cb.OFPFMFC_BAD_EMERG_TIMEOUT, cb.OFPFMFC_UNSUPPORTED)}
    else:
      flag_errs = set()
    if special and bkind == "live":
      cls = root = "flow_mod/refused-with-buffer"
    elif bogus:
      cls, root = "flow_mod/buffer-%s" % bkind, "buffer-not-outstanding"
    elif errs and not is_del:
      cls = "flow_mod/bad-action-on-entry" if on_entry else "flow_mod/bad-action"
    elif special:
      cls = "flow_mod/emerg-or-overlap"
    elif del_buf:
      cls, root = "flow_mod/delete-with-buffer-%s" % bkind, "flow_mod/delete-with-buffer"
    elif is_del:
      cls = "flow_mod/delete"
    elif maybe:
      cls = "flow_mod/" + maybe
    else:
      cls = "flow_mod/buffer-live" if bkind == "live" else "flow_mod/ok"
    if definite:
      kind, e = "error", definite | flag_errs
    elif special or maybe or (errs and is_del):
      kind, e = "maybe", None
    else:
      kind, e = "none", None
    stored = sh.pool.out.get(bid) if bkind == "live" else None
    if keep and not special:
      # ... an uncertain MODIFY / MODIFY_STRICT leaves the table unknown (until everything is deleted)
      sh.dirty["table"] = True
      sh.table_known = False
      self.out.label("uncertain-modify")
    else:
      sh.flow_mod(match_raw, cmd, prio, op.get("cookie", 0), op.get("idle", 0), op.get("hard", 0), flags, out_port, acts_raw,
                  maybe=uncertain and not special)
    if on_entry:
      self.out.label("bad-action-flow-mod-describes-entry:cmd%d" % cmd)
    if special and bkind != "none":
      self.out.label("refusable-flow-mod-with-buffer:cmd%d:%s" % (cmd, bkind))
    if stored is not None:
      if is_del:
        # the field means nothing here: whether a switch leaves the packet alone or runs it through the message's actions
        # is not judged, only that the DELETE is not answered
        sh.apply_actions(cb.decode_actions(acts_raw), stored[0], stored[1])     # for what it makes unknowable
        sh.tx_known = False
        sh.pool.forget(bid)
      elif kind == "none":
        if sh.dirty["ports"]:
          sh.tx_known = False
        sh.apply_actions(cb.decode_actions(acts_raw), stored[0], stored[1])
        sh.pool.release(bid)
      else:
        # a switch that refuses the flow-mod may or may not send the buffered packet through the actions
        sh.apply_actions(cb.decode_actions(acts_raw), stored[0], stored[1])     # for what it makes unknowable
        sh.tx_known = False
        sh.pool.forget(bid)
        self.out.label("live-buffer-in-refusable-message")
      self.processed = (stored[0], stored[1])
    self.add(cls, raw, kind, errors=e, root=root)

  def op_packet_out(self, op):
    sh = self.sh
    x = op["xid"]
    acts = [list(a) for a in op.get("acts", [])]
    errs, maybe = self.classify_actions(acts)
    bid, bkind = self.resolve_buf(op.get("buf"))
    in_port = op.get("in_port", cb.OFPP_NONE)
    if in_port != cb.OFPP_NONE and in_port not in sh.ports:
      in_port = cb.OFPP_NONE
    data = b""
    d = op.get("data")
    if bkind == "none" and d is not None:
      data = _frame(d[0], d[1], d[2], d[3] if len(d) > 3 else 0)
    stored = sh.pool.out.get(bid) if bkind == "live" else None
    if stored is not None:
      in_port = stored[1]
    acts_raw = _enc_actions(acts)
    raw = cb.packet_out(x, buffer_id=bid, in_port=in_port, actions=acts_raw, data=data)
    root = None
    bogus = bkind not in ("none", "live")
    definite = set()
    if bogus:
      definite |= E_BUF_USED if bkind == "used" else E_BUF_UNKNOWN
    if errs:
      definite |= errs
    if bogus:
      cls, root = "packet_out/buffer-%s" % bkind, "buffer-not-outstanding"
    elif bkind == "none" and not data:
      cls = "packet_out/nothing-to-send"
    elif errs:
      cls = "packet_out/bad-action"
    elif maybe:
      cls = "packet_out/" + maybe
    else:
      cls = "packet_out/buffer-live" if bkind == "live" else "packet_out/data"
    if bkind == "none" and not data:
      kind, e = "maybe", None          # nothing to send: whether the action list is looked at is open
    elif definite:
      kind, e = "error", definite
    elif maybe:
      kind, e = "maybe", None
    else:
      kind, e = "none", None
    frame = stored[0] if stored is not None else (data or None)
    if frame is not None:
      if kind != "none" or sh.dirty["ports"]:
        sh.tx_known = False
      sh.apply_actions(cb.decode_actions(acts_raw), frame, in_port)
      if any(a[0] == "out" and a[1] == cb.OFPP_TABLE for a in acts):
        self.out.label("packet-out-to-table")
      if stored is not None:
        if kind == "none":
          sh.pool.release(bid)
        else:
          sh.pool.forget(bid)
          self.out.label("live-buffer-in-refusable-message")
      self.processed = (frame, in_port)
    self.add(cls, raw, kind, errors=e, root=root)

  def op_badlen(self, op):
    """A request of a fixed-size type whose body is too long or too short (the header's length field agrees
    with the bytes sent, so framing is intact): OFPBRC_BAD_LEN, 'wrong request length for type'."""
    x = op["xid"]
    what = op["what"]
    n = op.get("n", 4)
    fill = bytes([op.get("fill", 0)])
    M = MATCHES[op.get("m", 0) % len(MATCHES)]
    hw = self.sh.ports[1]["hw_addr"]
    bad_len = {(cb.OFPET_BAD_REQUEST, cb.OFPBRC_BAD_LEN)}
    frame = _frame(0, 0, 60)
    # name -> (well-formed message, natural reply type, may grow, bytes that may be cut)
    forms = {
      "features": (cb.features_request(x), cb.OFPT_FEATURES_REPLY, True, 0),
      "get_config": (cb.get_config_request(x), cb.OFPT_GET_CONFIG_REPLY, True, 0),
      "barrier": (cb.barrier_request(x), cb.OFPT_BARRIER_REPLY, True, 0),
      "set_config": (cb.set_config(x, 0, 99), None, True, 4),
      "port_mod": (cb.port_mod(x, 1, hw, cb.OFPPC_NO_FLOOD, cb.OFPPC_NO_FLOOD), None, True, 24),
      "qgc": (cb.queue_get_config_request(x, 1), cb.OFPT_QUEUE_GET_CONFIG_REPLY, True, 4),
      "vendor": (cb.vendor(x, 0x2320), cb.OFPT_VENDOR, False, 4),
      "flow_mod": (cb.flow_mod(x, M, actions=b""), None, False, 64),
      "packet_out": (cb.packet_out(x, in_port=1, actions=b"", data=b""), None, False, 8),
      "stats_header": (cb.stats_request(x, cb.OFPST_DESC), cb.OFPT_STATS_REPLY, False, 4),
      "stats_desc": (cb.stats_request(x, cb.OFPST_DESC), cb.OFPT_STATS_REPLY, True, 0),
      "stats_table": (cb.stats_request(x, cb.OFPST_TABLE), cb.OFPT_STATS_REPLY, True, 0),
      "stats_flow": (cb.stats_request(x, cb.OFPST_FLOW, cb.flow_stats_request_body(M)), cb.OFPT_STATS_REPLY, True, 44),
      "stats_aggregate": (cb.stats_request(x, cb.OFPST_AGGREGATE, cb.flow_stats_request_body(M)), cb.OFPT_STATS_REPLY, True, 44),
      "stats_port": (cb.stats_request(x, cb.OFPST_PORT, cb.port_stats_request_body(op.get("port", cb.OFPP_NONE))), cb.OFPT_STATS_REPLY, True, 8),
      "stats_queue": (cb.stats_request(x, cb.OFPST_QUEUE, cb.queue_stats_request_body()), cb.OFPT_STATS_REPLY, True, 8),
      "stats_vendor": (cb.stats_request(x, cb.OFPST_VENDOR, cb.vendor_stats_request_body(0x2320)), cb.OFPT_STATS_REPLY, False, 4),
      # action lists whose length fields disagree with the message
      "flow_mod_action_len4": (cb.flow_mod(x, M, actions=cb.action_raw(0, b"", length=4)), None, None, None),
      "flow_mod_action_len12": (cb.flow_mod(x, M, actions=cb.action_raw(0, b"\0\1\0\0" + b"\0" * 4, length=12)), None, None, None),
      "flow_mod_action_overrun": (cb.flow_mod(x, M, actions=cb.action_raw(0, b"\0\1\0\0", length=16)), None, None, None),
      "packet_out_actions_len_overrun": (cb.packet_out(x, in_port=1, actions=cb.action_output(2), actions_len=64, data=b""), None, None, None),
      "packet_out_action_len4": (cb.packet_out(x, in_port=1, actions=cb.action_raw(0, b"", length=4), actions_len=4, data=frame), None, None, None),
    }
    full, reply_type, grow, cut = forms[what]
    if grow is None:
      raw = full
      errors = bad_len | {(cb.OFPET_BAD_ACTION, cb.OFPBAC_BAD_LEN)}
      cls = "badlen/" + what
    else:
      if n > 0 and not grow:
        n = -n
      if n < 0 and cut == 0:
        n = -n
      if n >= 0:
        n = 1 + (n - 1) % 24 if n else 4
        body = full[8:] + fill * n
        cls = "badlen/%s+" % what
      else:
        k = 1 + (-n - 1) % cut
        body = full[8:len(full) - k]
        cls = "badlen/%s-" % what
      raw = cb.message(full[1], x, body)
      errors = bad_len
    self.add(cls, raw, "error", reply_type=reply_type, errors=errors)

  def op_stats(self, op):
    sh = self.sh
    x, t = op["xid"], op["t"]
    flags = op.get("flags", 0)
    if t == cb.OFPST_DESC:
      self.add("stats/desc", cb.stats_request(x, t, b"", flags), "reply", reply_type=cb.OFPT_STATS_REPLY, check=self.chk_stype(t, None))
    elif t in (cb.OFPST_FLOW, cb.OFPST_AGGREGATE):
      mi = op.get("m", 0) % len(MATCHES)
      table_id = op.get("table", 0xff)
      out_port = op.get("out_port", cb.OFPP_NONE)
      body = cb.flow_stats_request_body(MATCHES[mi], table_id, out_port)
      name = "flow" if t == cb.OFPST_FLOW else "aggregate"
      inner = self.chk_flow_stats(mi, table_id, out_port) if t == cb.OFPST_FLOW else self.chk_aggregate(mi, table_id, out_port)
      other = table_id not in (0, 0xff)
      cls = "stats/%s%s" % (name, "-other-table" if other else "")
      if t == cb.OFPST_FLOW and not other:
        # an ofp_flow_stats entry is 88 bytes plus its actions, a message holds at most 65535: what does not fit into one
        # reply has to come in several (OFPSF_REPLY_MORE); the parts are put together again before they are judged
        # (the class names what the violation keys name, so it is taken generously: entries that may or may not be in the
        # table count, and once the shadow has lost track of the table -- after a flow-mod with EMERG / CHECK_OVERLAP or an
        # uncertain MODIFY -- so does room for one entry with three of the longest generated actions per request of a history)
        certain, unsure = self._flow_view(mi, table_id, out_port)
        size = 12 + sum(88 + len(f.actions_raw) for f in certain + unsure)
        if size > 0xffff:
          cls = "stats/flow-over-64k"
          self.out.label("flow-stats-needs-several-parts:%d-entries" % len(certain + unsure))
        elif not sh.table_known and size + 40 * (88 + 3 * 16) > 0xffff:
          cls = "stats/flow-over-64k"
          self.out.label("flow-stats-may-need-several-parts")
      self.add(cls, cb.stats_request(x, t, body, flags), "reply",
               reply_type=cb.OFPT_STATS_REPLY, err_ok=other, check=self.chk_stype(t, inner))
    elif t == cb.OFPST_TABLE:
      self.add("stats/table", cb.stats_request(x, t, b"", flags), "reply", reply_type=cb.OFPT_STATS_REPLY,
               check=self.chk_stype(t, self.chk_table()))
    elif t == cb.OFPST_PORT:
      port = op.get("port", cb.OFPP_NONE)
      known = port == cb.OFPP_NONE or port in sh.ports
      self.add("stats/port" if known else "stats/port-unknown", cb.stats_request(x, t, cb.port_stats_request_body(port), flags), "reply",
               reply_type=cb.OFPT_STATS_REPLY, err_ok=not known, check=self.chk_stype(t, self.chk_port_stats(port)))
    elif t == cb.OFPST_QUEUE:
      port, q = op.get("port", cb.OFPP_ALL), op.get("queue", cb.OFPQ_ALL)
      self.add("stats/queue", cb.stats_request(x, t, cb.queue_stats_request_body(port, q), flags), "reply",
               reply_type=cb.OFPT_STATS_REPLY, err_ok=True, check=self.chk_stype(t, None))
    elif t == cb.OFPST_VENDOR:
      body = cb.vendor_stats_request_body(op.get("vendor", 0x2320), op.get("body", b""))
      self.add("stats/vendor", cb.stats_request(x, t, body, flags), "error", reply_type=cb.OFPT_STATS_REPLY,
               errors={(cb.OFPET_BAD_REQUEST, cb.OFPBRC_BAD_STAT), (cb.OFPET_BAD_REQUEST, cb.OFPBRC_BAD_VENDOR)})
    else:
      self.add("stats/unknown-type", cb.stats_request(x, t, op.get("body", b""), flags), "error", reply_type=cb.OFPT_STATS_REPLY,
               errors={(cb.OFPET_BAD_REQUEST, cb.OFPBRC_BAD_STAT)})

  def op_s2c(self, op):
    """A message type that only a switch sends (features / get-config / stats / barrier / queue-get-config reply, packet-in,
    flow-removed, port-status) arriving at the switch: openflow.h, OFPBRC_BAD_TYPE "ofp_header.type not supported".
    Well-formed by the 1.0 layouts, or with an arbitrary body (then OFPBRC_BAD_LEN is as good an answer)."""
    x = op["xid"]
    t = S2C_TYPES[op["t"] % len(S2C_TYPES)]
    name = cb.TYPE_NAMES.get(t, "type%d" % t)
    bad_type = {(cb.OFPET_BAD_REQUEST, cb.OFPBRC_BAD_TYPE)}
    if op.get("body") is None:
      raw = cb.message(t, x, _s2c_body(t, op.get("v", 0), self.sh.ports[1]["hw_addr"]))
      try:
        cb.decode(raw)
      except cb.DecodeError as e:
        raise HarnessError("the harness's own %s is not well-formed: %s" % (name, e))
      self.add("s2c/%s" % name, raw, "error", errors=bad_type, root="not-a-request-type")
    else:
      raw = cb.message(t, x, op["body"])
      self.add("s2c/%s-arbitrary-body" % name, raw, "error", errors=bad_type | {(cb.OFPET_BAD_REQUEST, cb.OFPBRC_BAD_LEN)},
               root="not-a-request-type")

  def op_errmsg(self, op):
    """An OFPT_ERROR sent to the switch (the controller's side of a failed HELLO exchange, or any other): it asks for
    nothing.  Nothing or one error is accepted; an internal failure is not."""
    body = struct.pack("!HH", op.get("etype", 0), op.get("code", 0)) + op.get("data", b"")
    self.add("error-message", cb.message(cb.OFPT_ERROR, op["xid"], body), "maybe", root="not-a-request-type")

  def op_huge(self, op):
    """A request of tens of kilobytes, up to the 65535 a length field can say: it is judged like a small one.  An error
    message cannot quote all of it (12 bytes of its own): "at least 64 bytes" of the request is what OF 1.0 asks for."""
    sh = self.sh
    x, what = op["xid"], op["what"]
    size = max(1024, min(0xffff, op.get("size", 0xffff)))
    n8 = lambda fixed: max(0, (size - fixed) // 8)
    root = "huge-request-refused"
    self.out.label("huge:%s:%s" % (what, ">=65524" if size >= 65524 else "<65524"))
    if what == "echo":
      body = (bytes(range(256)) * 257)[x & 0xff:][:size - 8]
      self.add("huge/echo_request", cb.echo_request(x, body), "reply", reply_type=cb.OFPT_ECHO_REPLY, check=self.chk_echo(body))
    elif what == "vendor":
      self.add("huge/vendor", cb.vendor(x, 0x2320, b"\0" * (size - 12)), "error", reply_type=cb.OFPT_VENDOR,
               errors={(cb.OFPET_BAD_REQUEST, cb.OFPBRC_BAD_VENDOR)}, root=root)
    elif what == "stats_unknown":
      self.add("huge/stats-unknown-type", cb.stats_request(x, 0x77, b"\1" * (size - 12)), "error", reply_type=cb.OFPT_STATS_REPLY,
               errors={(cb.OFPET_BAD_REQUEST, cb.OFPBRC_BAD_STAT)}, root=root)
    elif what == "stats_vendor":
      self.add("huge/stats-vendor", cb.stats_request(x, cb.OFPST_VENDOR, cb.vendor_stats_request_body(0x2320, b"\2" * (size - 16))), "error",
               reply_type=cb.OFPT_STATS_REPLY, errors={(cb.OFPET_BAD_REQUEST, cb.OFPBRC_BAD_STAT), (cb.OFPET_BAD_REQUEST, cb.OFPBRC_BAD_VENDOR)}, root=root)
    elif what == "unknown_type":
      self.add("huge/unknown-message-type", cb.message(99, x, b"\3" * (size - 8)), "error", errors={(cb.OFPET_BAD_REQUEST, cb.OFPBRC_BAD_TYPE)})
    elif what == "set_config_overlong":
      self.add("huge/badlen-set_config+", cb.message(cb.OFPT_SET_CONFIG, x, struct.pack("!HH", 0, 99) + b"\0" * (size - 12)), "error",
               errors={(cb.OFPET_BAD_REQUEST, cb.OFPBRC_BAD_LEN)})
    elif what == "barrier_reply":
      self.add("huge/s2c-barrier_reply-arbitrary-body", cb.message(cb.OFPT_BARRIER_REPLY, x, b"\4" * (size - 8)), "error",
               errors={(cb.OFPET_BAD_REQUEST, cb.OFPBRC_BAD_TYPE), (cb.OFPET_BAD_REQUEST, cb.OFPBRC_BAD_LEN)}, root="not-a-request-type")
    elif what == "flow_mod_bad_command":
      raw = cb.flow_mod(x, MATCHES[M_NEVER], command=0x77, actions=cb.action_output(2) * n8(72))
      self.add("huge/flow_mod-bad-command", raw, "error", errors={(cb.OFPET_FLOW_MOD_FAILED, cb.OFPFMFC_BAD_COMMAND)}, root=root)
    elif what == "packet_out_unknown_buffer":
      bid, bkind = self.resolve_buf({"k": "unknown", "i": op.get("i", 0)})
      raw = cb.packet_out(x, buffer_id=bid, in_port=cb.OFPP_NONE, actions=cb.action_output(2) * n8(16))
      self.add("huge/packet_out-buffer-unknown", raw, "error", errors=E_BUF_UNKNOWN, root=root)
    elif what == "packet_out_bad_action":
      # the unsupported action comes first: nothing may be sent before the refusal (whether anything is sent at all is not judged)
      data = _frame(0, 0, 60) + b"\x5a" * (size - 16 - 8 - 60)
      raw = cb.packet_out(x, in_port=1, actions=cb.action_raw(12), data=data)
      sh.tx_known = False
      self.add("huge/packet_out-bad-action", raw, "error", errors=E_BADACT, root=root)
    else:
      raise HarnessError("unknown huge request %r" % (what,))

  def chk_stype(self, t, inner):
    def check(m, fail):
      if m.get("stype") != t:
        fail("stats-reply-type", "stats reply of type %s answers a request of type %d" % (m.get("stype"), t))
        return
      if m.get("more"):
        fail("stats-reply-unfinished", "the last part of the stats reply has OFPSF_REPLY_MORE set: the reply never ends")
      if "malformed" in m:
        return
      if inner is not None:
        inner(m, fail)
    return check

  def op_frame(self, op):
    sh = self.sh
    port = 1 + op["port"] % self.nports
    if not sh.receivable(port):
      self.out.label("frame-skipped-port-closed")
      return
    if sh.dirty["table"] or sh.dirty["ports"] or sh.dirty["config"]:
      self.out.label("auto-barrier-before-frame")
      sh.barrier()
      self.add("barrier", cb.barrier_request(0xb0000000 | len(self.reqs)), "reply", reply_type=cb.OFPT_BARRIER_REPLY)
    self.flush()
    frame = _frame(op["dst"], op["src"], op["len"], op.get("fill", 0))
    del self.new_async[:]
    self.sw.rx_frame(frame, port)
    self.sw.take_emitted()
    self.collect()
    res, fl = sh.frame(frame, port)
    self.out.label("frame-" + res)
    self.note_packet_ins(frame, port)

  def note_packet_ins(self, frame, in_port):
    """buffers handed out by packet-ins that an output to the controller produced"""
    for m in self.new_async:
      if m["type"] == cb.OFPT_PACKET_IN and m["buffer_id"] != cb.NO_BUFFER:
        self.sh.pool.store(m["buffer_id"], frame, in_port)
    del self.new_async[:]

  def run_op(self, op):
    sh = self.sh
    o = op["o"]
    x = op.get("xid", 0)
    self.processed = None
    del self.new_async[:]
    if o == "hello":
      self.hellos_sent += 1
      self.add("hello", cb.hello(x, op.get("body", b"")), "none")
    elif o == "echo":
      body = op.get("body", b"")
      self.add("echo_request", cb.echo_request(x, body), "reply", reply_type=cb.OFPT_ECHO_REPLY, check=self.chk_echo(body))
    elif o == "echo_reply":
      self.add("echo_reply", cb.echo_reply(x, op.get("body", b"")), "none")
    elif o == "vendor":
      self.add("vendor", cb.vendor(x, op.get("vendor", 0x2320), op.get("body", b"")), "error", reply_type=cb.OFPT_VENDOR,
               errors={(cb.OFPET_BAD_REQUEST, cb.OFPBRC_BAD_VENDOR)})
    elif o == "features":
      self.add("features_request", cb.features_request(x), "reply", reply_type=cb.OFPT_FEATURES_REPLY, check=self.chk_features())
    elif o == "get_config":
      self.add("get_config_request", cb.get_config_request(x), "reply", reply_type=cb.OFPT_GET_CONFIG_REPLY, check=self.chk_get_config())
    elif o == "set_config":
      flags = op.get("flags", 0)
      sh.set_config(flags, op["len"])
      self.add("set_config" if flags in (0, 1, 2) else "set_config/odd-flags", cb.set_config(x, flags, op["len"]),
               "none" if flags in (0, 1, 2) else "maybe")
    elif o == "barrier":
      sh.barrier()
      self.add("barrier", cb.barrier_request(x), "reply", reply_type=cb.OFPT_BARRIER_REPLY)
    elif o == "port_mod":
      port = op["port"]
      p = sh.ports.get(port)
      if op.get("hw", "ok") == "ok" and p is not None:
        hw = p["hw_addr"]
      else:
        hw = bytes([2, 0xbb, 0, 0, 0, port & 0xff])
      err = sh.port_mod(port, hw, op.get("config", 0), op.get("mask", 0))
      raw = cb.port_mod(x, port, hw, op.get("config", 0), op.get("mask", 0), op.get("advertise", 0))
      if err is None:
        self.add("port_mod/ok", raw, "none")
      else:
        self.add("port_mod/bad-port" if err[1] == cb.OFPPMFC_BAD_PORT else "port_mod/bad-hw-addr", raw, "error", errors={err})
    elif o == "flow_mod":
      self.op_flow_mod(op)
    elif o == "packet_out":
      self.op_packet_out(op)
    elif o == "stats":
      self.op_stats(op)
    elif o == "qgc":
      port = op["port"]
      if port in sh.ports:
        self.add("queue_get_config", cb.queue_get_config_request(x, port), "reply", reply_type=cb.OFPT_QUEUE_GET_CONFIG_REPLY,
                 err_ok=ANY_QUEUE_ERR, check=self.chk_qgc(port))
      else:
        self.add("queue_get_config/bad-port", cb.queue_get_config_request(x, port), "error", reply_type=cb.OFPT_QUEUE_GET_CONFIG_REPLY,
                 errors={(cb.OFPET_QUEUE_OP_FAILED, cb.OFPQOFC_BAD_PORT)})
    elif o == "unknown":
      self.add("unknown-message-type", cb.message(22 + op["t"] % 234, x, op.get("body", b"")), "error",
               errors={(cb.OFPET_BAD_REQUEST, cb.OFPBRC_BAD_TYPE)})
    elif o == "badlen":
      self.op_badlen(op)
    elif o == "s2c":
      self.op_s2c(op)
    elif o == "errmsg":
      self.op_errmsg(op)
    elif o == "huge":
      self.op_huge(op)
    elif o == "frame":
      self.op_frame(op)
    else:
      raise HarnessError("unknown op %r" % (o,))
    if self.processed is not None:
      # the message sent a frame through actions, which may hand out buffers (output to the controller or to the
      # table): they must be known before the next op resolves a buffer id
      self.flush()
      self.note_packet_ins(*self.processed)

  # ------------------------------------------------------------------ pairing
  def fits(self, m, r):
    if m["xid"] != r.xid or r.internal is not None:
      return False
    if m["type"] == cb.OFPT_ERROR:
      return True
    return r.reply_type == m["type"]

  def pair(self):
    reqs = self.reqs
    # merge multipart stats replies
    stream = []
    for m in self.stream:
      if (stream and m["type"] == cb.OFPT_STATS_REPLY and stream[-1]["type"] == cb.OFPT_STATS_REPLY and stream[-1]["xid"] == m["xid"]
          and stream[-1].get("more")):
        prev = stream[-1]
        prev["more"] = bool(m.get("flags", 0) & 1)
        if "body" in prev and "body" in m and isinstance(prev["body"], list) and isinstance(m["body"], list):
          prev["body"] = prev["body"] + m["body"]
        self.out.label("multipart-stats-reply")
        continue
      if m["type"] == cb.OFPT_STATS_REPLY:
        m["more"] = bool(m.get("flags", 0) & 1)
      stream.append(m)
    i = 0
    for m in stream:
      j = len(reqs)
      if m["type"] == cb.OFPT_ERROR:
        # an error quotes the offending request: among the requests with the same first 8 bytes (type, length, xid)
        # the one whose bytes agree best with the quoted data is the one it answers
        data = m.get("data", b"")
        open_ = [k for k in range(i, len(reqs)) if reqs[k].answer is None and reqs[k].xid == m["xid"] and reqs[k].internal is None]
        if len(data) >= 8:
          def score(k):
            raw = reqs[k].raw
            if raw[:len(data)] == data:
              return len(data)
            return sum(1 for a, b in zip(raw, data) if a == b)
          cands = [k for k in range(len(reqs)) if reqs[k].raw[:8] == data[:8] and reqs[k].internal is None
                   and (reqs[k].answer is not None or k >= i)]
          if cands:
            best = max(score(k) for k in cands)
            top = [k for k in cands if score(k) == best]
            top_open = [k for k in top if reqs[k].answer is None]
            if not top_open:
              r = reqs[top[-1]]
              self.fail("duplicate-response", "a second response (error %d/%d, xid %d) quotes request #%d (%s), which was already answered" % (
                  m["etype"], m["code"], m["xid"], r.idx, r.cls), req=r.root, mtype="error")
              continue
            open_ = top_open
            r = reqs[top_open[0]]
            if m["xid"] != r.xid:
              self.fail("response-xid", "an error quoting request #%d (%s, xid %d) carries xid %d in its own header" % (
                  r.idx, r.cls, r.xid, m["xid"]), req=r.root, mtype="error")
              r.answer = m
              r.internal = "answered with a wrong xid"
              i = max(i, r.idx + 1)
              continue
          else:
            open_ = []
        refusable = [k for k in open_ if reqs[k].kind != "none"]
        for lst in (refusable, open_):
          if lst:
            j = lst[0]
            break
      else:
        j = i
        while j < len(reqs) and not (reqs[j].answer is None and self.fits(m, reqs[j])):
          j += 1
      if j < len(reqs):
        reqs[j].answer = m
        i = j + 1
        continue
      late = [r for r in reqs[:i] if r.answer is None and self.fits(m, r)]
      if late:
        r = late[0]
        r.answer = m
        r.late = True
        continue
      dup = [r for r in reqs if r.answer is not None and self.fits(m, r)]
      if dup:
        self.fail("duplicate-response", "a second %s with xid %d arrived; request #%d (%s) was already answered" % (
            m["name"], m["xid"], dup[0].idx, dup[0].cls), req=dup[0].root, mtype=m["name"])
      else:
        nxt = [r for r in reqs[i:] if r.answer is None and r.kind in ("reply", "error")]
        if nxt and (m["type"] == nxt[0].reply_type or m["type"] == cb.OFPT_ERROR):
          self.fail("response-xid", "%s with xid %d while the next unanswered request #%d (%s) has xid %d" % (
              m["name"], m["xid"], nxt[0].idx, nxt[0].cls, nxt[0].xid), req=nxt[0].root, mtype=m["name"])
          nxt[0].answer = m
          nxt[0].internal = "answered with a wrong xid"
          i = nxt[0].idx + 1
        else:
          self.fail("unsolicited-response", "%s with xid %d answers no request of this history%s" % (
              m["name"], m["xid"], (" (error %d/%d)" % (m["etype"], m["code"])) if m["type"] == cb.OFPT_ERROR else ""), mtype=m["name"])
    for r in reqs:
      self.judge(r)

  def judge(self, r):
    m = r.answer
    if r.internal == "answered with a wrong xid":
      return
    if m is None:
      if r.internal is not None:
        return        # reported with the exception
      if r.kind == "reply":
        self.fail("no-reply", "request #%d (%s, xid %d) was never answered" % (r.idx, r.cls, r.xid), req=r.root)
      elif r.kind == "error":
        self.fail("silent-on-invalid", "request #%d (%s, xid %d) is invalid and OF 1.0 names the error %s, but the switch sent nothing" % (
            r.idx, r.cls, r.xid, _errs(r.errors)), req=r.root)
      return
    if r.late:
      self.fail("response-order", "the answer to request #%d (%s, xid %d) came after the answer to a later request" % (r.idx, r.cls, r.xid), req=r.root)
    if m["type"] == cb.OFPT_ERROR:
      code = (m["etype"], m["code"])
      if r.kind == "none":
        self.fail("error-for-valid-request", "request #%d (%s, xid %d) is valid and needs no reply but was answered with error %d/%d" % (
            r.idx, r.cls, r.xid, code[0], code[1]), req=r.root)
      elif r.kind == "reply" and (r.err_ok is False or (r.err_ok is not True and code not in r.err_ok)):
        self.fail("error-for-valid-request", "request #%d (%s, xid %d) must be answered with a reply but got error %d/%d" % (
            r.idx, r.cls, r.xid, code[0], code[1]), req=r.root)
      elif r.kind == "error" and r.errors is not None and code not in r.errors:
        self.fail("wrong-error", "request #%d (%s, xid %d) was refused with error %d/%d, OF 1.0 names %s" % (
            r.idx, r.cls, r.xid, code[0], code[1], _errs(r.errors)), req=r.root, got="%d/%d" % code)
      data = m["data"]
      need = min(64, len(r.raw))
      if len(data) < need:
        self.fail("error-data", "error for request #%d (%s) carries %d bytes of data, OF 1.0 asks for at least the first %d bytes of the request" % (
            r.idx, r.cls, len(data), need), how="short")
      elif r.raw[:len(data)] != data:
        d = [k for k in range(min(len(data), len(r.raw))) if data[k] != r.raw[k]]
        self.fail("error-data", "error for request #%d (%s) quotes bytes that are not the request's: first difference at offset %d, data %s..., request %s..." % (
            r.idx, r.cls, d[0] if d else len(r.raw), data[:24].hex(), r.raw[:24].hex()), how="altered")
      return
    # a reply
    if r.kind == "error":
      self.fail("reply-to-invalid-request", "request #%d (%s, xid %d) is invalid and OF 1.0 names the error %s, but the switch answered with a %s" % (
          r.idx, r.cls, r.xid, _errs(r.errors), m["name"]), req=r.root)
      return
    if r.kind != "reply":
      self.fail("unexpected-response", "request #%d (%s, xid %d) got a %s" % (r.idx, r.cls, r.xid, m["name"]), req=r.root, mtype=m["name"])
      return
    if "malformed" in m and m["type"] != cb.OFPT_STATS_REPLY:
      return
    if r.check is not None:
      def fail(clause, msg, **kw):
        self.fail(clause, "request #%d (%s, xid %d): %s" % (r.idx, r.cls, r.xid, msg), **kw)
      r.check(m, fail)

  # ------------------------------------------------------------------ main
  def run(self):
    out = self.out
    # the harness's own probe: seeds the shadow with the port identities
    self.sw.rx_bytes(cb.features_request(0xfeed0001))
    msgs, rest = cb.decode_stream(self.sw.take_sent())
    fr = [m for m in msgs if m["type"] == cb.OFPT_FEATURES_REPLY]
    if len(fr) != 1 or rest:
      self.fail("no-reply", "the initial features request was not answered", req="features_request")
      return
    ports = fr[0]["ports"]
    if sorted(p["port_no"] for p in ports) != list(range(1, self.nports + 1)):
      self.fail("features-ports", "features reply lists ports %s, the switch was built with ports 1..%d" % (
          sorted(p["port_no"] for p in ports), self.nports))
      return
    self.sh = SwitchShadow(self.maxb, self.msl0, ports)
    self.base = self.consumed
    for op in self.case["ops"]:
      self.run_op(op)
    # closing barrier: after its reply everything must have been answered
    self.sh.barrier()
    self.add("barrier", cb.barrier_request(0xe0d0e0d0), "reply", reply_type=cb.OFPT_BARRIER_REPLY)
    self.add("get_config_request", cb.get_config_request(0xe0d0e0d1), "reply", reply_type=cb.OFPT_GET_CONFIG_REPLY, check=self.chk_get_config())
    self.flush()
    if self.rest:
      self.fail("partial-message", "the switch left %d bytes of an incomplete message" % len(self.rest))
    self.pair()
    # evidence
    types = set(r.cls.split("/")[0] for r in self.reqs[:-2])
    inv = [r.idx for r in self.reqs[:-2] if r.kind == "error"]
    val = [r.idx for r in self.reqs[:-2] if r.kind == "reply" and r.err_ok is False]
    out.nontrivial = len(types) >= 3 and bool(inv) and bool(val) and min(inv) < max(val)
    if self.segs:
      out.label("segmented")
    xids = [r.xid for r in self.reqs[:-2]]
    if len(set(xids)) < len(xids):
      out.label("xid-collision")
    if inv:
      out.label("has-invalid-request")


def _errs(errors):
  if errors is None:
    return "(any)"
  return "/".join(sorted("%d.%d" % e for e in errors))


def run_case(case):
  from ..sim.world import World
  out = Outcome()
  w = World()
  try:
    _Run(case, out, w).run()
  finally:
    w.close()
  return out


# --------------------------------------------------------------------------- the single-request grid

def _grid_ops():
  """one op per interesting request shape (xid is filled in by the caller)"""
  P = N_PORTS
  ops = [
    {"o": "hello"}, {"o": "hello", "body": b"\x00\x01\x00\x08\x00\x00\x00\x12"},
    {"o": "echo"}, {"o": "echo", "body": b"ping"}, {"o": "echo", "body": bytes(range(256)) * 4},
    {"o": "echo_reply", "body": b"pong"},
    {"o": "vendor", "vendor": 0x2320, "body": b"\0" * 12}, {"o": "vendor", "vendor": 0, "body": b""}, {"o": "vendor", "vendor": 0xffffffff, "body": b"x"},
    {"o": "features"}, {"o": "get_config"}, {"o": "barrier"},
    {"o": "set_config", "flags": 0, "len": 0}, {"o": "set_config", "flags": 1, "len": 0xffff}, {"o": "set_config", "flags": 2, "len": 64},
    {"o": "set_config", "flags": 3, "len": 128}, {"o": "set_config", "flags": 0xfffc, "len": 1},
    {"o": "unknown", "t": 0}, {"o": "unknown", "t": 233, "body": b"abcd"},
  ]
  for port in (1, P, 0, P + 1, 0xfeff, cb.OFPP_LOCAL, cb.OFPP_NONE):
    ops.append({"o": "qgc", "port": port})
    ops.append({"o": "port_mod", "port": port, "hw": "ok", "config": cb.OFPPC_NO_FLOOD, "mask": cb.OFPPC_NO_FLOOD})
    ops.append({"o": "stats", "t": cb.OFPST_PORT, "port": port})
    ops.append({"o": "stats", "t": cb.OFPST_QUEUE, "port": port, "queue": cb.OFPQ_ALL})
    ops.append({"o": "stats", "t": cb.OFPST_QUEUE, "port": port, "queue": 1})
    ops.append({"o": "packet_out", "data": [0, 0, 60], "in_port": 2, "acts": [["out", port, 0]]})
  ops.append({"o": "port_mod", "port": 1, "hw": "bad", "config": 0, "mask": 0})
  ops.append({"o": "port_mod", "port": 2, "hw": "ok", "config": 0x7f, "mask": 0x7f})
  ops.append({"o": "port_mod", "port": 2, "hw": "ok", "config": 0xffffffff, "mask": 0xffffff80})
  ops.append({"o": "stats", "t": cb.OFPST_DESC})
  ops.append({"o": "stats", "t": cb.OFPST_DESC, "flags": 0xffff})
  ops.append({"o": "stats", "t": cb.OFPST_TABLE})
  for t in (cb.OFPST_FLOW, cb.OFPST_AGGREGATE):
    for table in (0xff, 0, 1, 0xfe, 0x7f):
      for out_port in (cb.OFPP_NONE, 1, 99):
        ops.append({"o": "stats", "t": t, "m": 0, "table": table, "out_port": out_port})
    ops.append({"o": "stats", "t": t, "m": 3, "table": 0xff})
  ops.append({"o": "stats", "t": cb.OFPST_PORT, "port": cb.OFPP_ALL})
  ops.append({"o": "stats", "t": cb.OFPST_VENDOR, "vendor": 0x2320, "body": b"abc"})
  ops.append({"o": "stats", "t": cb.OFPST_VENDOR, "vendor": 0, "body": b""})
  for t in (6, 7, 0x100, 0xfffe):
    ops.append({"o": "stats", "t": t, "body": b""})
    ops.append({"o": "stats", "t": t, "body": b"\x01\x02\x03\x04\x05"})
  for cmd in (0, 1, 2, 3, 4, 5, 6, 0x100, 0xffff):
    ops.append({"o": "flow_mod", "m": 1, "cmd": cmd, "prio": 7, "cookie": 0x1122334455667788, "acts": [["out", 2, 0]]})
  for buf in ({"k": "zero"}, {"k": "unknown", "i": 0}, {"k": "unknown", "i": 2}, {"k": "live", "i": 0}):
    ops.append({"o": "flow_mod", "m": 2, "cmd": 0, "buf": buf, "acts": [["out", 1, 0]]})
    ops.append({"o": "packet_out", "buf": buf, "acts": [["out", 1, 0]]})
  for flags in (1, 2, 4, 5, 7):
    ops.append({"o": "flow_mod", "m": 3, "cmd": 0, "flags": flags, "idle": 5, "acts": [["out", 1, 0]]})
  for acts in ([["bad", 12]], [["bad", 0xfffe]], [["vendor", 0x2320]], [["out", 1, 0], ["bad", 77]], [["enq", 1, 1]], [["enq", 9, 0]],
               [["out", cb.OFPP_NORMAL, 0]], [["out", cb.OFPP_LOCAL, 0]], [["out", cb.OFPP_TABLE, 0]], [["out", cb.OFPP_CONTROLLER, 16]],
               [["out", cb.OFPP_FLOOD, 0]], [["out", cb.OFPP_ALL, 0]], [["out", cb.OFPP_IN_PORT, 0]], [["out", cb.OFPP_NONE, 0]], []):
    ops.append({"o": "packet_out", "data": [1, 0, 64], "in_port": 1, "acts": acts})
    ops.append({"o": "flow_mod", "m": 4, "cmd": 0, "acts": acts})
  # outputs and enqueues to ports that do not exist: alone, with an unknown buffer, followed by an unknown action
  for port in (0, P + 1, P + 2, cb.OFPP_MAX, 0xff01, 0xff42, 0xfff0, 0xfff7):
    for act in (["out", port, 0], ["enq", port, 1]):
      ops.append({"o": "packet_out", "data": [0, 0, 60], "in_port": 1, "acts": [act]})
      ops.append({"o": "packet_out", "data": [0, 0, 60], "in_port": 1, "acts": [["out", 2, 0], act, ["bad", 12]]})
      ops.append({"o": "packet_out", "buf": {"k": "unknown", "i": 1}, "acts": [act]})
      ops.append({"o": "flow_mod", "m": 2, "cmd": 0, "acts": [act]})
      ops.append({"o": "flow_mod", "m": 2, "cmd": 1, "acts": [act, ["vendor", 0x2320]]})
      ops.append({"o": "flow_mod", "m": 2, "cmd": 0, "buf": {"k": "unknown", "i": 0}, "acts": [act]})
  # a flow-mod the switch refuses, with a buffer: still exactly one error
  ops.append({"o": "flow_mod", "m": 5, "cmd": 0, "flags": 4, "buf": {"k": "live", "i": 0}, "acts": [["bad", 12]]})
  ops.append({"o": "flow_mod", "m": 5, "cmd": 0, "flags": 4, "buf": {"k": "zero"}, "acts": [["out", 1, 0]]})
  ops.append({"o": "flow_mod", "m": 5, "cmd": 0, "flags": 4, "buf": {"k": "live", "i": 0}, "acts": [["out", 1, 0]]})
  ops.append({"o": "flow_mod", "m": 5, "cmd": 0, "flags": 4, "idle": 9, "buf": {"k": "unknown", "i": 1}, "acts": []})
  ops.append({"o": "packet_out", "buf": {"k": "live", "i": 0}, "acts": [["out", 1, 0], ["bad", 77]]})
  # fixed-size requests with a body that is too long or too short
  for what in ("features", "get_config", "barrier", "stats_desc", "stats_table"):
    for n in (1, 4, 8):
      ops.append({"o": "badlen", "what": what, "n": n})
  for what, cuts in (("set_config", (1, 2, 4)), ("port_mod", (1, 4, 8, 24)), ("qgc", (1, 2, 4)), ("stats_flow", (1, 4, 40, 44)),
                     ("stats_aggregate", (1, 4, 40, 44)), ("stats_port", (1, 6, 8)), ("stats_queue", (1, 4, 8))):
    for n in (1, 4, 8, 24):
      ops.append({"o": "badlen", "what": what, "n": n, "fill": 0})
    ops.append({"o": "badlen", "what": what, "n": 4, "fill": 0xff})
    for n in cuts:
      ops.append({"o": "badlen", "what": what, "n": -n})
  ops.append({"o": "badlen", "what": "stats_port", "n": 8, "port": 1})
  for what, cuts in (("vendor", (1, 4)), ("flow_mod", (1, 8, 9, 40, 64)), ("packet_out", (1, 4, 8)), ("stats_header", (1, 2, 4)), ("stats_vendor", (1, 4))):
    for n in cuts:
      ops.append({"o": "badlen", "what": what, "n": -n})
  for what in ("flow_mod_action_len4", "flow_mod_action_len12", "flow_mod_action_overrun", "packet_out_actions_len_overrun", "packet_out_action_len4"):
    ops.append({"o": "badlen", "what": what})
  ops.append({"o": "packet_out", "acts": [["out", 1, 0]]})
  ops.append({"o": "packet_out", "data": [0, 0, 14], "in_port": cb.OFPP_NONE, "acts": [["out", 1, 0]]})
  # message types that only a switch sends, well-formed and with bodies of the wrong size; an error message
  for t in range(len(S2C_TYPES)):
    for v in range(6 if S2C_TYPES[t] == cb.OFPT_STATS_REPLY else 3):
      ops.append({"o": "s2c", "t": t, "v": v})
    for body in (b"", b"\0" * 4, b"\xff" * 12):
      ops.append({"o": "s2c", "t": t, "body": body})
  for etype, code, data in ((0, 0, b"incompatible"), (1, 1, cb.barrier_request(5)), (0xffff, 0xffff, b""), (1, 6, b"\0" * 64)):
    ops.append({"o": "errmsg", "etype": etype, "code": code, "data": data})
  # DELETE and DELETE_STRICT with a buffer id of every kind: the field is not meaningful there
  for cmd in (3, 4):
    for buf in ({"k": "zero"}, {"k": "unknown", "i": 0}, {"k": "unknown", "i": 3}, {"k": "used", "i": 0}, {"k": "live", "i": 0}):
      ops.append({"o": "flow_mod", "m": 1, "cmd": cmd, "prio": 10, "buf": buf, "acts": []})
      ops.append({"o": "flow_mod", "m": 0, "cmd": cmd, "prio": 10, "buf": buf, "acts": [["out", 2, 0]]})
  return ops


def _huge_grid(tier):
  """every request shape that can be tens of kilobytes long x sizes around the most an error message can quote (65523)"""
  sizes = HUGE_SIZES if tier == "thorough" else [0xffff, 65524, 65523, 20000]
  for what in HUGE_WHATS:
    for size in sizes:
      yield [{"o": "huge", "xid": 0x81, "what": what, "size": size}]


def _long_entries_grid(tier):
  """k entries with n actions each (n <= 8179: the longest entry one stats message can hold), then flow statistics over all
  of them, over those that output to port 2, aggregate and table statistics"""
  shapes = [(1, 3000), (2, 4000), (3, 3000), (2, 5000), (4, 2700), (1, 8179), (2, 8179), (9, 1000)]
  if tier != "thorough":
    shapes = [(2, 4000), (3, 3000), (2, 8179)]
  for k, n in shapes:
    ops = [{"o": "flow_mod", "xid": 0x90 + i, "m": 0, "cmd": 0, "prio": 100 + i, "cookie": i, "acts": [["out", 1, 0]], "fill": n} for i in range(k)]
    ops.append({"o": "barrier", "xid": 0x9f})
    ops.append({"o": "stats", "xid": 0xa0, "t": cb.OFPST_FLOW, "m": 0})
    ops.append({"o": "stats", "xid": 0xa1, "t": cb.OFPST_AGGREGATE, "m": M_NEVER})
    ops.append({"o": "stats", "xid": 0xa2, "t": cb.OFPST_FLOW, "m": M_NEVER, "table": 0, "out_port": 2})
    ops.append({"o": "stats", "xid": 0xa3, "t": cb.OFPST_TABLE})
    ops.append({"o": "flow_mod", "xid": 0xa4, "m": M_NEVER, "cmd": 3, "acts": []})
    yield ops


_WARMUP = [
  {"o": "hello", "xid": 1},
  {"o": "flow_mod", "xid": 2, "m": 1, "cmd": 0, "prio": 10, "cookie": 7, "acts": [["out", 2, 0]]},
  {"o": "flow_mod", "xid": 3, "m": 4, "cmd": 0, "prio": 20, "cookie": 8, "flags": 1, "acts": [["out", 3, 0], ["out", cb.OFPP_CONTROLLER, 32]]},
  {"o": "port_mod", "xid": 4, "port": 3, "hw": "ok", "config": cb.OFPPC_NO_FLOOD, "mask": cb.OFPPC_NO_FLOOD},
  {"o": "set_config", "xid": 5, "flags": 0, "len": 40},
  {"o": "barrier", "xid": 6},
  {"o": "frame", "port": 0, "dst": 0, "src": 0, "len": 80},
  {"o": "frame", "port": 1, "dst": 1, "src": 1, "len": 100},
  {"o": "frame", "port": 2, "dst": 2, "src": 0, "len": 60},
]

_PROBES = [
  {"o": "barrier", "xid": 0x70000001},
  {"o": "stats", "xid": 0x70000002, "t": cb.OFPST_FLOW, "m": 0},
  {"o": "stats", "xid": 0x70000003, "t": cb.OFPST_PORT},
  {"o": "features", "xid": 0x70000004},
  {"o": "stats", "xid": 0x70000005, "t": cb.OFPST_AGGREGATE, "m": 0},
]


_BUFFER_WARMUP = [
  {"o": "hello", "xid": 1},
  {"o": "flow_mod", "xid": 2, "m": 1, "cmd": 0, "prio": 7, "acts": [["out", 2, 0]]},      # in_port=1, priority 7: the overlap partner
  {"o": "barrier", "xid": 3},
  {"o": "frame", "port": 1, "dst": 1, "src": 0, "len": 64},                              # misses: buffer
  {"o": "frame", "port": 2, "dst": 2, "src": 1, "len": 80},                              # misses: buffer
  {"o": "packet_out", "xid": 4, "buf": {"k": "live", "i": 0}, "acts": [["out", 1, 0]]},  # one buffer is used now
  {"o": "barrier", "xid": 5},
]


def _refusal_grid():
  """flow-mods the switch refuses (emergency flow; emergency flow with timeout; CHECK_OVERLAP against the
  in_port=1 entry of the same priority) x command x buffer id: exactly one error each."""
  causes = [{"flags": 4, "m": 5, "prio": 7}, {"flags": 5, "m": 5, "prio": 7}, {"flags": 4, "idle": 9, "m": 5, "prio": 7},
            {"flags": 2, "m": 3, "prio": 7}, {"flags": 3, "m": 6, "prio": 7}]
  for cause in causes:
    for cmd in (0, 1, 2):
      for buf in ({"k": "live", "i": 0}, {"k": "used", "i": 0}, {"k": "unknown", "i": 0}, {"k": "unknown", "i": 3}, {"k": "zero"}, None):
        for acts in ([["out", 3, 0]], [], [["bad", 12]]):
          o = {"o": "flow_mod", "cmd": cmd, "buf": buf, "acts": acts, "cookie": 3}
          o.update(cause)
          yield o


def _delete_buffer_grid():
  """DELETE / DELETE_STRICT naming an outstanding, a used, a never issued and the zero buffer id (after _BUFFER_WARMUP)"""
  for cmd in (3, 4):
    for buf in ({"k": "live", "i": 0}, {"k": "used", "i": 0}, {"k": "unknown", "i": 0}, {"k": "unknown", "i": 3}, {"k": "zero"}):
      for acts in ([], [["out", 3, 0]]):
        yield {"o": "flow_mod", "cmd": cmd, "m": 1, "prio": 7, "buf": buf, "acts": acts}


def _buffer_code_grid():
  """buffers are handed out by misses, released in every order, then a released / never issued / zero id is named by a
  packet-out or flow-mod: BUFFER_EMPTY for a used one, BUFFER_UNKNOWN otherwise"""
  frames = [{"o": "frame", "port": 1, "dst": 1, "src": 0, "len": 64}, {"o": "frame", "port": 2, "dst": 2, "src": 1, "len": 80},
            {"o": "frame", "port": 0, "dst": 0, "src": 1, "len": 100}]
  for nb in (1, 2, 3):
    for order in ([0], [0, 0], [1], [1, 0], [2], [2, 1], [2, 1, 0], [0, 0, 0], [1, 1]):
      if len(order) > nb or max(order) >= nb:
        continue
      pre = [{"o": "hello", "xid": 1}] + frames[:nb]
      for k, i in enumerate(order):
        pre.append({"o": "packet_out", "xid": 20 + k, "buf": {"k": "live", "i": i}, "acts": [["out", 1, 0]]})
      pre.append({"o": "barrier", "xid": 30})
      for buf in ({"k": "used", "i": 0}, {"k": "used", "i": 1}, {"k": "used", "i": 2}, {"k": "unknown", "i": 0}, {"k": "zero"}):
        yield 3, pre + [{"o": "packet_out", "xid": 40, "buf": buf, "acts": [["out", 2, 0]]}, {"o": "frame", "port": 1, "dst": 1, "src": 1, "len": 60},
                        {"o": "flow_mod", "xid": 41, "m": 2, "cmd": 0, "buf": buf, "acts": [["out", 1, 0]]}]


# a table whose entries output to physical and to reserved ports, singly and in pairs, plus one entry without actions
# and one whose output port a switch may refuse (OFPP_LOCAL: kept as an entry that may or may not exist)
_OUTPUT_WARMUP = [
  {"o": "hello", "xid": 1},
  {"o": "flow_mod", "xid": 2, "m": 1, "cmd": 0, "prio": 10, "cookie": 1, "acts": [["out", 2, 0]]},
  {"o": "flow_mod", "xid": 3, "m": 2, "cmd": 0, "prio": 11, "cookie": 2, "acts": [["out", cb.OFPP_CONTROLLER, 32]]},
  {"o": "flow_mod", "xid": 4, "m": 3, "cmd": 0, "prio": 12, "cookie": 3, "acts": [["out", cb.OFPP_FLOOD, 0]]},
  {"o": "flow_mod", "xid": 5, "m": 4, "cmd": 0, "prio": 13, "cookie": 4, "acts": [["out", cb.OFPP_ALL, 0]]},
  {"o": "flow_mod", "xid": 6, "m": 5, "cmd": 0, "prio": 14, "cookie": 5, "acts": [["out", cb.OFPP_IN_PORT, 0]]},
  {"o": "flow_mod", "xid": 7, "m": 6, "cmd": 0, "prio": 15, "cookie": 6, "acts": [["out", 1, 0], ["out", cb.OFPP_CONTROLLER, 0xffff]]},
  {"o": "flow_mod", "xid": 8, "m": 7, "cmd": 0, "prio": 16, "cookie": 7, "acts": [["out", 3, 0], ["out", cb.OFPP_FLOOD, 0]]},
  {"o": "flow_mod", "xid": 9, "m": 0, "cmd": 0, "prio": 1, "cookie": 8, "acts": []},
  {"o": "flow_mod", "xid": 10, "m": 0, "cmd": 0, "prio": 2, "cookie": 9, "acts": [["out", cb.OFPP_LOCAL, 0]]},
  {"o": "barrier", "xid": 11},
  {"o": "frame", "port": 0, "dst": 0, "src": 0, "len": 80},
  {"o": "frame", "port": 1, "dst": 2, "src": 1, "len": 100},
]

RESERVED_PORTS = [cb.OFPP_IN_PORT, cb.OFPP_TABLE, cb.OFPP_NORMAL, cb.OFPP_FLOOD, cb.OFPP_ALL, cb.OFPP_CONTROLLER, cb.OFPP_LOCAL]
_OUT_PORTS = [cb.OFPP_NONE, 1, 2, 3, 99, cb.OFPP_MAX, 0xff42, 0xfff7] + RESERVED_PORTS
_BAD_ACTS = [[["bad", 12]], [["out", 1, 0], ["vendor", 0x2320]], [["bad", 0x7777], ["out", 2, 0]], [["out", cb.OFPP_FLOOD, 0], ["bad", 0xfffe]]]


def _out_port_grid(tier):
  """the out_port restriction of flow / aggregate statistics requests and of DELETE / DELETE_STRICT, for every physical,
  unknown and reserved port number, against a table whose entries output to physical and reserved ports"""
  for out_port in _OUT_PORTS:
    for t in (cb.OFPST_FLOW, cb.OFPST_AGGREGATE):
      for m, table in ((0, 0xff), (0, 0), (6, 0xff), (3, 0)) if tier == "thorough" else ((0, 0xff), (6, 0)):
        yield [{"o": "stats", "xid": 0x51, "t": t, "m": m, "table": table, "out_port": out_port}]
    yield [{"o": "flow_mod", "xid": 0x52, "m": 0, "cmd": 3, "out_port": out_port, "acts": []}]
    yield [{"o": "flow_mod", "xid": 0x53, "m": 6, "cmd": 4, "prio": 15, "out_port": out_port, "acts": []}]
    if tier == "thorough":
      yield [{"o": "flow_mod", "xid": 0x54, "m": 1, "cmd": 3, "out_port": out_port, "acts": []}]
      yield [{"o": "flow_mod", "xid": 0x55, "m": 7, "cmd": 4, "prio": 16, "out_port": out_port, "acts": [["out", 1, 0]]}]


def _bad_action_on_entry_grid(tier):
  """ADD / MODIFY / MODIFY_STRICT with an action type the switch cannot support, describing each entry of the table"""
  for cmd in (0, 1, 2):
    for target in range(8):
      for acts in (_BAD_ACTS if tier == "thorough" else _BAD_ACTS[:2]):
        yield [{"o": "flow_mod", "xid": 0x61, "m": 0, "cmd": cmd, "target": target, "cookie": 0x77, "acts": acts}]


def _rewrite_action_grid(tier):
  """every standard rewrite action with every boundary value of its field, installed by a flow-mod and used by a packet-out:
  the entry must then be reported (flow statistics quote the action list byte for byte) and every later request answered"""
  for t in range(1, 11):
    for v in _rw_values(_REWRITES[t][0]):
      for tail in ([["out", 2, 0]], []) if tier == "thorough" else ([["out", 2, 0]],):
        acts = [["rw", t, v]] + tail
        yield [{"o": "flow_mod", "xid": 0x71, "m": 2, "cmd": 0, "prio": 30, "cookie": 0x70 + t, "acts": acts},
               {"o": "barrier", "xid": 0x72},
               {"o": "stats", "xid": 0x73, "t": cb.OFPST_FLOW, "m": 0},
               {"o": "packet_out", "xid": 0x74, "data": [0, 0, 64], "in_port": 1, "acts": acts},
               {"o": "flow_mod", "xid": 0x75, "m": 1, "cmd": 1, "prio": 10, "acts": acts}]


def _enum(tier):
  xids = [0, 1, 0x80000000, 0xffffffff]
  for grid in (_out_port_grid, _bad_action_on_entry_grid, _rewrite_action_grid, _huge_grid, _long_entries_grid):
    for ops in grid(tier):
      for seg in ([], [7, 3]) if tier == "thorough" else ([],):
        yield {"max_buffers": 2, "miss_send_len": 128, "seg": seg, "ops": _OUTPUT_WARMUP + ops + _PROBES}
  for maxb, ops in _buffer_code_grid():
    yield {"max_buffers": maxb, "miss_send_len": 128, "seg": [], "ops": ops + _PROBES}
  for o in list(_refusal_grid()) + list(_delete_buffer_grid()):
    for x in ((5, 0xffffffff) if tier == "thorough" else (5,)):
      o2 = dict(o)
      o2["xid"] = x
      yield {"max_buffers": 2, "miss_send_len": 128, "seg": [], "ops": _BUFFER_WARMUP + [o2] + _PROBES}
  for op in _grid_ops():
    for x in xids:
      o = dict(op)
      o["xid"] = x
      yield {"max_buffers": 2, "miss_send_len": 128, "seg": [], "ops": [{"o": "hello", "xid": 9}, o] + _PROBES}
      if tier == "thorough" or x == 1:
        for seg in ([], [1], [7, 3]) if tier == "thorough" else ([5],):
          yield {"max_buffers": 2, "miss_send_len": 128, "seg": seg, "ops": _WARMUP + [o] + _PROBES}


# --------------------------------------------------------------------------- Hypothesis

def _s_xid():
  return st.one_of(st.sampled_from([0, 1, 2, 0x7fffffff, 0x80000000, 0xffffffff]), st.integers(0, 0xffffffff), st.integers(0, 4), st.integers(0, 4))


def _s_port(valid_w=3):
  bad = [0, N_PORTS + 1, 99, 0xfeff, 0xff00, cb.OFPP_LOCAL, cb.OFPP_NONE, cb.OFPP_ALL, cb.OFPP_CONTROLLER]
  return st.sampled_from(list(range(1, N_PORTS + 1)) * (3 * valid_w) + bad)


def _s_body(n=24):
  return st.binary(min_size=0, max_size=n)


def _s_acts():
  out_valid = st.tuples(st.integers(1, N_PORTS)).map(lambda t: ["out", t[0], 0])
  virt = st.sampled_from([["out", cb.OFPP_FLOOD, 0], ["out", cb.OFPP_ALL, 0], ["out", cb.OFPP_IN_PORT, 0]])
  ctl = st.sampled_from([0, 16, 64, 0xffff]).map(lambda n: ["out", cb.OFPP_CONTROLLER, n])
  odd = st.sampled_from([["out", 99, 0], ["out", cb.OFPP_NORMAL, 0], ["out", cb.OFPP_LOCAL, 0], ["out", cb.OFPP_TABLE, 0],
                         ["bad", 12], ["bad", 0x7777], ["vendor", 0x2320], ["enq", 1, 1]])
  # ports that are neither physical ports of this switch nor named virtual ports
  noport = st.sampled_from([["out", 0, 0], ["out", N_PORTS + 1, 0], ["out", N_PORTS + 2, 0], ["out", cb.OFPP_MAX, 0], ["out", 0xff01, 0],
                            ["out", 0xff42, 0], ["out", 0xfff0, 0], ["out", 0xfff7, 0], ["out", cb.OFPP_NONE, 0],
                            ["enq", 0xff01, 0], ["enq", 0, 1], ["enq", N_PORTS + 1, 2], ["enq", cb.OFPP_MAX, 0], ["enq", 0xfff7, 7]])
  one = st.one_of(out_valid, out_valid, out_valid, out_valid, virt, virt, ctl, odd, noport, _s_rewrite())
  return st.lists(one, min_size=0, max_size=3)


def _s_rewrite():
  """a standard header-rewrite action with a boundary or arbitrary value of its field's width"""
  @st.composite
  def rw(draw):
    t = draw(st.integers(1, 10))
    bits = _REWRITES[t][0]
    v = draw(st.one_of(st.sampled_from(_rw_values(bits)), st.integers(0, (1 << bits) - 1))) if bits else 0
    return ["rw", t, v]
  return rw()


def _s_buf():
  i = st.integers(0, 5)
  return st.one_of(st.none(), st.none(), st.none(), st.none(), st.none(), st.none(),
                   i.map(lambda n: {"k": "live", "i": n}), i.map(lambda n: {"k": "live", "i": n}),
                   i.map(lambda n: {"k": "used", "i": n}), st.just({"k": "zero"}), i.map(lambda n: {"k": "unknown", "i": n}))


def _fd(**kw):
  return st.fixed_dictionaries(kw)


def _s_op():
  x = _s_xid()
  J = st.just
  simple = st.one_of(
    _fd(o=J("hello"), xid=x, body=st.one_of(J(b""), _s_body(8))),
    _fd(o=J("echo"), xid=x, body=_s_body(40)),
    _fd(o=J("echo_reply"), xid=x, body=_s_body(8)),
    _fd(o=J("vendor"), xid=x, vendor=st.sampled_from([0, 0x2320, 0x00002320, 0xffffffff, 0x005c16c7]), body=_s_body(16)),
    _fd(o=J("features"), xid=x), _fd(o=J("get_config"), xid=x), _fd(o=J("get_config"), xid=x),
    _fd(o=J("unknown"), xid=x, t=st.integers(0, 233), body=_s_body(8)),
    _fd(o=J("qgc"), xid=x, port=_s_port(2)),
  )
  # what is no request at all: a type only a switch sends (well-formed, or with an arbitrary body), an error message
  notreq = st.one_of(
    _fd(o=J("s2c"), xid=x, t=st.integers(0, len(S2C_TYPES) - 1), v=st.integers(0, 5)),
    _fd(o=J("s2c"), xid=x, t=st.integers(0, len(S2C_TYPES) - 1), v=st.integers(0, 5)),
    _fd(o=J("s2c"), xid=x, t=st.integers(0, len(S2C_TYPES) - 1), body=_s_body(72)),
    _fd(o=J("errmsg"), xid=x, etype=st.sampled_from([0, 1, 2, 3, 4, 5, 6, 0xffff]), code=st.sampled_from([0, 1, 6, 8, 0xffff]), data=_s_body(72)),
  )
  huge = _fd(o=J("huge"), xid=x, what=st.sampled_from(HUGE_WHATS), i=st.integers(0, 4),
             size=st.one_of(st.sampled_from(HUGE_SIZES), st.sampled_from(HUGE_SIZES), st.integers(65500, 0xffff), st.integers(1024, 0xffff)))
  # entries whose action lists take tens of kilobytes (88 + 8n bytes in a flow-statistics reply; 8179 is the most one message holds)
  flow_long = _fd(o=J("flow_mod"), xid=x, m=J(0), cmd=st.sampled_from([0, 0, 0, 1, 2]), prio=st.sampled_from([0, 1, 2, 3, 100, 0x8000, 0xffff]),
                  cookie=st.sampled_from([0, 1]), idle=J(0), hard=J(0), flags=J(0), out_port=J(cb.OFPP_NONE),
                  acts=st.sampled_from([[], [["out", 1, 0]], [["rw", 4, 1]]]), buf=J(None),
                  fill=st.sampled_from([1000, 2700, 2700, 3000, 4000, 4000, 5000, 8179]))
  barrier = _fd(o=J("barrier"), xid=x)
  set_config = _fd(o=J("set_config"), xid=x, flags=st.sampled_from([0, 0, 0, 1, 2, 3, 0xffff]), len=st.sampled_from([0, 14, 64, 128, 1000, 0xffff]))
  port_mod = _fd(o=J("port_mod"), xid=x, port=_s_port(4), hw=st.sampled_from(["ok", "ok", "ok", "ok", "bad"]),
                 config=st.sampled_from([0, 1, 4, 16, 32, 64, 0x7f, 0xffffffff, 0x10]), mask=st.sampled_from([0, 1, 4, 16, 32, 64, 0x7f, 0xffffffff, 0x10]),
                 advertise=st.sampled_from([0, 1, 0xfff]))
  flow_mod = _fd(o=J("flow_mod"), xid=x, m=st.integers(0, 7), cmd=st.sampled_from([0, 0, 0, 0, 1, 2, 3, 4, 5, 9, 0xffff]),
                 prio=st.sampled_from([0, 1, 100, 0x8000, 0xffff]), cookie=st.sampled_from([0, 1, 0xdeadbeef, 0xffffffffffffffff]),
                 idle=st.sampled_from([0, 0, 10, 0xffff]), hard=st.sampled_from([0, 0, 30]),
                 flags=st.sampled_from([0] * 16 + [1, 1, 2, 4]),
                 out_port=st.one_of(J(cb.OFPP_NONE), J(cb.OFPP_NONE), J(cb.OFPP_NONE), st.integers(1, N_PORTS), st.integers(1, N_PORTS), st.sampled_from(RESERVED_PORTS)),
                 acts=_s_acts(), buf=_s_buf())
  good_acts = st.lists(st.one_of(st.integers(1, N_PORTS).map(lambda p: ["out", p, 0]), st.integers(1, N_PORTS).map(lambda p: ["out", p, 0]),
                                 st.sampled_from([["out", cb.OFPP_FLOOD, 0], ["out", cb.OFPP_ALL, 0], ["out", cb.OFPP_IN_PORT, 0],
                                                  ["out", cb.OFPP_CONTROLLER, 32], ["out", cb.OFPP_CONTROLLER, 0xffff]]),
                                 _s_rewrite()), min_size=0, max_size=3)
  live = st.one_of(st.none(), st.none(), st.none(), st.integers(0, 3).map(lambda n: {"k": "live?", "i": n}))
  flow_ok = _fd(o=J("flow_mod"), xid=x, m=st.integers(0, 7), cmd=st.sampled_from([0, 0, 0, 0, 1, 2]),
                prio=st.sampled_from([0, 1, 100, 0x8000, 0xffff]), cookie=st.sampled_from([0, 1, 0xdeadbeef, 0xffffffffffffffff]),
                idle=st.sampled_from([0, 0, 10, 0xffff]), hard=st.sampled_from([0, 0, 30]), flags=st.sampled_from([0, 0, 1]),
                out_port=J(cb.OFPP_NONE), acts=good_acts, buf=live)
  pout_ok = _fd(o=J("packet_out"), xid=x, in_port=st.one_of(J(cb.OFPP_NONE), st.integers(1, N_PORTS)), acts=good_acts, buf=live,
                data=st.tuples(st.integers(0, 2), st.integers(0, 1), st.sampled_from([14, 60, 64, 100, 200])).map(list))
  wipe = _fd(o=J("flow_mod"), xid=x, m=J(0), cmd=J(3), acts=J([]))
  packet_out = _fd(o=J("packet_out"), xid=x, in_port=st.one_of(J(cb.OFPP_NONE), st.integers(1, N_PORTS)), acts=_s_acts(), buf=_s_buf(),
                   data=st.one_of(st.none(), st.tuples(st.integers(0, 2), st.integers(0, 1), st.sampled_from([14, 60, 64, 100, 200])).map(list),
                                  st.tuples(st.integers(0, 2), st.integers(0, 1), st.sampled_from([14, 60, 64, 100, 200])).map(list)))
  stats = st.one_of(
    _fd(o=J("stats"), xid=x, t=J(cb.OFPST_DESC), flags=st.sampled_from([0, 0, 1, 0xffff])),
    _fd(o=J("stats"), xid=x, t=st.sampled_from([cb.OFPST_FLOW, cb.OFPST_AGGREGATE]), m=st.integers(0, 8),
        table=st.sampled_from([0xff, 0xff, 0xff, 0, 0, 1, 0xfe, 77]), out_port=st.one_of(J(cb.OFPP_NONE), J(cb.OFPP_NONE), J(cb.OFPP_NONE), st.integers(1, N_PORTS), J(99))),
    # restricted to a reserved (or out-of-range) port number: only the entries with an output action to exactly that port
    _fd(o=J("stats"), xid=x, t=st.sampled_from([cb.OFPST_FLOW, cb.OFPST_AGGREGATE]), m=st.sampled_from([0, 0, 0, 1, 3, 6]),
        table=st.sampled_from([0xff, 0xff, 0]), out_port=st.sampled_from(RESERVED_PORTS + [cb.OFPP_FLOOD, cb.OFPP_ALL, cb.OFPP_CONTROLLER, cb.OFPP_IN_PORT, cb.OFPP_MAX, 0xff42])),
    _fd(o=J("stats"), xid=x, t=st.sampled_from([cb.OFPST_FLOW, cb.OFPST_AGGREGATE]), m=J(0), table=J(0xff), out_port=J(cb.OFPP_NONE)),
    _fd(o=J("stats"), xid=x, t=st.sampled_from([cb.OFPST_FLOW, cb.OFPST_AGGREGATE]), m=J(0), table=st.sampled_from([0, 0xff]), out_port=J(cb.OFPP_NONE)),
    _fd(o=J("stats"), xid=x, t=J(cb.OFPST_TABLE)),
    _fd(o=J("stats"), xid=x, t=J(cb.OFPST_PORT), port=st.one_of(J(cb.OFPP_NONE), J(cb.OFPP_NONE), _s_port(3))),
    _fd(o=J("stats"), xid=x, t=J(cb.OFPST_QUEUE), port=st.one_of(J(cb.OFPP_ALL), _s_port(3)), queue=st.sampled_from([cb.OFPQ_ALL, cb.OFPQ_ALL, 0, 1, 7])),
    _fd(o=J("stats"), xid=x, t=J(cb.OFPST_VENDOR), vendor=st.sampled_from([0, 0x2320, 0xffffffff]), body=_s_body(12)),
    _fd(o=J("stats"), xid=x, t=st.one_of(st.sampled_from([6, 7, 8, 0x100, 0xfffe]), st.integers(6, 0xfffe)), body=_s_body(12)),
  )
  frame = _fd(o=J("frame"), port=st.integers(0, N_PORTS - 1), dst=st.integers(0, 2), src=st.integers(0, 1),
              len=st.sampled_from([14, 60, 64, 100, 129, 300]), fill=st.integers(0, 255))
  anybuf = st.sampled_from([{"k": "live", "i": 0}, {"k": "live", "i": 1}, {"k": "used", "i": 0}, {"k": "unknown", "i": 0},
                             {"k": "unknown", "i": 2}, {"k": "zero"}, {"k": "live?", "i": 0}])
  flow_refused = _fd(o=J("flow_mod"), xid=x, m=st.integers(0, 7), cmd=st.sampled_from([0, 1, 1, 2, 2]), prio=st.sampled_from([0, 1, 100, 0x8000]),
                     cookie=J(0), idle=st.sampled_from([0, 0, 10]), hard=J(0), flags=st.sampled_from([4, 4, 5, 2, 2, 3, 6]),
                     out_port=J(cb.OFPP_NONE), acts=good_acts, buf=anybuf)
  flow_keep = _fd(o=J("flow_mod"), xid=x, m=st.integers(0, 7), cmd=st.sampled_from([1, 2]), prio=st.sampled_from([0, 1, 100, 0x8000]),
                  cookie=J(0), idle=J(0), hard=J(0), flags=J(0), out_port=J(cb.OFPP_NONE), acts=_s_acts(), buf=anybuf, keep_cmd=J(True))
  bad_one = st.sampled_from([["bad", 12], ["bad", 0x7777], ["bad", 0xfffe], ["vendor", 0x2320], ["vendor", 0]])
  bad_acts = st.tuples(good_acts, bad_one, st.integers(0, 3)).map(lambda t: t[0][:t[2] % (len(t[0]) + 1)] + [t[1]] + t[0][t[2] % (len(t[0]) + 1):])
  # an unsupported action type in a flow-mod that describes an entry of the table (falls back to a match no frame has when the table is empty)
  flow_bad_on_entry = _fd(o=J("flow_mod"), xid=x, m=st.integers(0, 7), cmd=st.sampled_from([0, 1, 1, 2, 2]), prio=st.sampled_from([0, 1, 100, 0x8000]),
                          cookie=st.sampled_from([0, 1]), idle=J(0), hard=J(0), flags=J(0), out_port=J(cb.OFPP_NONE), acts=bad_acts,
                          buf=st.one_of(st.none(), st.none(), st.none(), anybuf), target=st.integers(0, 7))
  whats = ["features", "get_config", "barrier", "set_config", "port_mod", "qgc", "vendor", "flow_mod", "packet_out", "stats_header",
           "stats_desc", "stats_table", "stats_flow", "stats_aggregate", "stats_port", "stats_queue", "stats_vendor",
           "stats_flow", "stats_aggregate", "stats_port", "stats_queue",
           "flow_mod_action_len4", "flow_mod_action_len12", "flow_mod_action_overrun", "packet_out_actions_len_overrun", "packet_out_action_len4"]
  badlen = _fd(o=J("badlen"), xid=x, what=st.sampled_from(whats), n=st.one_of(st.integers(1, 24), st.integers(-72, -1), st.sampled_from([4, 8, -4])),
               fill=st.sampled_from([0, 0, 0xff, 1]), m=st.integers(0, 7), port=st.sampled_from([cb.OFPP_NONE, 1, 2]))
  # Hypothesis flattens nested one_of()s, so the mix is drawn explicitly: (weight, strategy)
  table = [(10, simple), (14, barrier), (4, set_config), (7, port_mod), (14, flow_ok), (6, pout_ok), (8, flow_mod), (1, wipe),
           (8, packet_out), (18, stats), (16, frame), (4, flow_refused), (2, flow_keep), (7, badlen), (3, flow_bad_on_entry),
           (4, notreq), (1, huge), (1, flow_long)]
  kinds = []
  for i, (wgt, _) in enumerate(table):
    kinds += [i] * wgt
  strategies = [t[1] for t in table]

  @st.composite
  def op(draw):
    return draw(strategies[draw(st.sampled_from(kinds))])
  return op()


def _strategy(tier):
  seg = st.one_of(st.just([]), st.just([]), st.lists(st.integers(1, 9), min_size=1, max_size=6),
                  st.lists(st.sampled_from([1, 2, 3, 7, 8, 9, 15, 16, 40, 72, 100, 1000]), min_size=1, max_size=8))
  ops = st.one_of(st.lists(_s_op(), min_size=1, max_size=8), st.lists(_s_op(), min_size=8, max_size=40), st.lists(_s_op(), min_size=20, max_size=40))
  return st.fixed_dictionaries({"max_buffers": st.sampled_from([0, 1, 2, 3]), "miss_send_len": st.sampled_from([0, 64, 128, 0xffff]),
                                "seg": seg, "ops": ops})


def plan(tier):
  if tier == "quick":
    return [Enum("request-grid", lambda: _enum("quick"), shards=16),
            Hyp("histories", lambda: _strategy(tier), examples=3200, shards=16)]
  return [Enum("request-grid", lambda: _enum("thorough"), shards=16),
          Hyp("histories", lambda: _strategy(tier), examples=150000, shards=16)]
