"""C20 -- the send path preserves the byte stream under partial writes and back-pressure.

Two senders are driven against scripted sockets (pvf/sim/sendpath.py):

  side "ctl": of_01.Connection.send + the REAL of_01.DeferredSender, whose run() executes on a second thread that
              only ever runs while the harness thread is parked (baton passing).  The case says, every time the
              sender thread sits in select(), which connections are writable / in exceptional condition, and how
              many further Connection.send calls the cooperative side makes before select returns.  With "sockpts" the
              sender thread is also pre-empted at its socket writes (it holds its lock there): a Connection.send made at
              such a point OVERLAPS the sender's locked section -- it runs up to `with self._lock`, waits there while the
              sender thread runs on until it lets go of the lock, and continues before the sender runs again (keys of such
              cases carry side "ctl-mt").  Bit 2 of "sockpts" pre-empts the sender thread inside the ConnectionDown
              listeners it runs when it disconnects a connection after a fatal error; a connection's "on_down" makes
              such a listener send a message to the other connection (from whichever thread raises the event).
              "eof" lets the peer close a connection (the read loop closes it at its next
              visit, possibly with bytes still parked).
  side "sw":  RecocoIOWorker.send / send_fast / shutdown / close inside the REAL RecocoIOLoop.run generator,
              answered with the Select results the case dictates.  "rfault" makes the read side of a worker's socket
              fail (end of stream, or recv() reporting a reset / time-out): the loop's _do_recv closes the worker, in a
              round that may also report it writable with bytes pending.

Oracle (from the property text, nothing of POX is consulted): per connection the bytes the socket ACCEPTED are a
prefix of the concatenation of the queued messages, and all of it once enough writable calls were offered; after a
fatal outcome no further send() reaches the socket; closed is reported exactly once; the other connection sharing
the sender / the loop is unaffected.
"""
import itertools

from hypothesis import strategies as st

from ..runner import Outcome, Enum, Hyp, HarnessError, exc_key, exc_is_from_harness
from ..sim import sendpath as SP

ID = "C20"
LEVEL = "fault_enumeration"
TECHNIQUE = ("scripted-socket fault enumeration (per send() call: accept all / half / 0 / EAGAIN / fatal) against the real "
             "Connection.send + DeferredSender thread under baton passing and the real RecocoIOLoop generator; Hypothesis for "
             "longer scripts; sender thread pre-empted at its socket writes, lock hand-overs and ConnectionDown listeners with the cooperative "
             "thread waiting for the lock; read-side faults on the switch side; stream-prefix/completeness oracle on the bytes the socket accepted")
LEVEL_TEXT = ("Fault enumeration: every script of 4 (thorough: 5) per-call socket outcomes from {accept all, accept half, accept 0, "
              "EAGAIN, fatal} is run against 3 (thorough: 4) queued messages of sizes below and above PIPE_BUF, under 4 placements "
              "of the sends relative to the flush rounds (controller: a fifth with only one connection writable per round), for both the controller connection with the real DeferredSender thread and "
              "the switch-side I/O worker in the real I/O loop (send, send_fast, mixed; with and without shutdown), always with a "
              "second connection sharing the sender/loop. Hypothesis adds longer scripts (up to 14 outcomes with arbitrary k), "
              "1-6 messages of 8..70000 bytes, arbitrary writable masks, select time-outs, read-loop visits, hand-over at every "
              "DeferredSender lock acquisition. Overlap of the two threads inside the send path is enumerated as well: the sender "
              "thread pre-empted before / after its 1st..3rd (thorough: 4th) socket write while the cooperative thread sends (and "
              "waits for the sender's lock), every script of 3 (thorough: 4) outcomes, with and without a second backlog; the sender "
              "thread pre-empted inside the ConnectionDown listeners it runs after a fatal error (a listener may itself send to the "
              "other connection) while the cooperative side sends or its read loop closes the failed connection; and on the "
              "switch side a failing read side (end of stream / reset) before, between and after the sends, noticed in a round that "
              "reports the worker readable+writable, readable only, or writable first. "
              "The real code runs; the socket, select and the pinger are the only fakes.")
LEVEL_NOTE = ("the sender thread is interleaved with the cooperative side at select(), at its _lock acquisitions and releases, "
              "immediately before / after each of its socket writes and at the start of the ConnectionDown listeners it runs; a cooperative send that meets the held lock waits exactly as long as "
              "the sender holds it. Pre-emption of the sender thread between two other lines of its loop body, and pre-emption of the "
              "cooperative thread inside Connection.send other than at the lock, are not explored")
RULE = ("a case is a fault script per connection (one outcome per socket send() call), 1-6 messages and an op list (send / let the "
        "sender thread run to its next hand-over point or the loop run one round with writable and readable masks / read-loop visit / "
        "peer closes / read side fails / shutdown / close); it is non-trivial when at least one "
        "short write or EAGAIN happened on a connection and a further message was queued on that connection while bytes of the "
        "earlier ones were still unflushed; distinct by SHA-1 of the canonical JSON of the case")
ASSUMPTIONS = [
  "one cooperative thread calls Connection.send (POX's model); the DeferredSender thread is the only other thread",
  "select() reports the waker readable exactly when it has been pinged; writability is decided by the case",
  "a connection reported in select's exceptional set is closed by the controller's main loop (as OpenFlow_01_Task does) before the "
  "deferred sender processes the report; only the prefix property and closed-once are judged for it",
  "for a connection that never completed the handshake no ConnectionDown can be raised (no dpid); 'disconnected' is judged instead",
  "a cooperative thread that finds DeferredSender._lock held waits until the sender thread releases it and then runs before the sender "
  "thread does anything else (one of the schedules a real lock allows; the other order is the 'go' op after the send)",
  "two threads queueing on the same connection at once have no order of their own: a message a ConnectionDown listener queues from the "
  "sender thread while a cooperative Connection.send waits for the sender's lock is expected before that send's message, otherwise "
  "messages are expected in the order of the Connection.send calls",
  "a socket whose send() failed fatally is reported readable and fails recv() too (the read loop may close the connection while the "
  "sender thread is still inside disconnect())",
  "select() refuses a closed socket (fileno() == -1) with ValueError, as the real one does; a socket that is closed while the sender "
  "thread already waits in select() with it is reported by the masks of the case as before",
  "a socket that has reported a fatal error (to send() or to recv()) fails every later send() with EPIPE",
  "end of stream on the read side is not a socket error: writes after it are labelled, not judged; a fatal error reported by recv() "
  "(or by the recv(MSG_PEEK) probe of a failed connect) is one, and no send() may reach the socket after it",
  "messages queued after shutdown() or close() of an I/O worker are outside the property and are not generated",
  "IOWorker.shutdown() on an already empty buffer never shuts the socket down; this is labelled, not judged (the property is about bytes)",
  "a connecting worker's connection is noticed by _try_connect's recv(1, MSG_PEEK): EAGAIN or peer bytes mean connected; a refused "
  "connection has no peer bytes and is reported readable and writable, so either _do_recv or _do_send notices it",
]
EXHAUSTIVE_SCOPE = {
  "quick": "both sides: 5^4 scripts {all, half, 0, EAGAIN, EPIPE} x 3 messages (ctl: every size sequence over {8, 5000}; sw: 4 size "
           "sequences over {8, 9000}: all small, all big, alternating) x 4 op placements, all connections writable in every round (ctl: plus "
           "a fifth placement in which only one of the two connections is writable per round; sw: x 3 API mixes send/send_fast/mixed x "
           "shutdown yes/no), second connection always present"
           "; connecting workers: 5^3 scripts x {0,1,2} sends before the connection is noticed x 4 connect-handler send sets x 4 ways "
           "the first round notices the connection (writable / readable+writable / readable only / writable with unread peer bytes) "
           "x send|send_fast afterwards, plus refused connections noticed by _do_send / by _do_recv with _do_send in the same round / by "
           "_do_recv alone"
           "; ctl-overlap-grid: 5^3 scripts x every size sequence over {8, 5000} for 3 messages x the sender thread pre-empted before | "
           "after its 1st, 2nd or 3rd hand-over step's socket write when the 2nd message is sent (the send waits for the sender's lock) x "
           "the 3rd message sent at once | one hand-over step later x second connection with | without parked bytes"
           "; ctl-down-grid: connection 0 parks its first message (half | EAGAIN), 5^2 scripts for the sender thread's writes x message "
           "of 8 | 5000 bytes x ConnectionDown listener silent | sends 8 | 5000 bytes to connection 1 x connection 1 short-writing with | "
           "without its own backlog, or accepting everything x the cooperative side acting at the 1st..8th hand-over step (every socket "
           "write of the sender thread, before and after, and the listeners) x {send to connection 1, send to connection 0, read-loop visit}"
           "; sw-readfault-grid: 5^3 scripts x 2 messages over {8, 9000} x {end of stream, ECONNRESET} x fault before the 1st send | "
           "between the sends | after a loop round x noticing round readable+writable | readable only | writable then readable+writable "
           "x send | send_fast",
  "thorough": "as quick with 5^5 scripts x 4 messages (connecting workers, overlap grid, read-fault grid: 5^4 scripts; overlap grid: "
              "pre-emption up to the 4th step; down grid: 5^3 sender scripts, 10 steps; read-fault grid: also ETIMEDOUT)",
}

MAX_MSGS = 6
OUT5 = ["all", "half", "zero", "eagain", "EPIPE"]


def setup():
  from ..sim.world import boot
  boot()


# --------------------------------------------------------------------------- judging

def _first_diff(a, b):
  n = min(len(a), len(b))
  if a[:n] == b[:n]:
    return n
  lo, hi = 0, n
  while lo < hi:
    mid = (lo + hi) // 2
    if a[:mid + 1] == b[:mid + 1]:
      lo = mid + 1
    else:
      hi = mid
  return lo


def _judge_stream(out, side, name, expected, sock, must_be_complete, broke_at, saf=None, judge_saf=True):
  acc = bytes(sock.sent)
  exp = bytes(expected)
  if acc != exp[:len(acc)]:
    d = _first_diff(acc, exp)
    out.fail("stream-not-prefix", "%s %s: accepted bytes diverge from the queued messages at offset %d "
             "(accepted %d bytes, queued %d); socket calls: %s" % (side, name, d, len(acc), len(exp), _calls(sock)),
             side=side, broke_at=broke_at)
  elif must_be_complete and len(acc) != len(exp):
    out.fail("stream-incomplete", "%s %s: %d of %d queued bytes were accepted although every later socket call "
             "accepted everything; socket calls: %s" % (side, name, len(acc), len(exp), _calls(sock)),
             side=side, broke_at=broke_at)
  if sock.sends_after_fatal and not judge_saf:
    out.label("send-attempt-on-a-socket-closed-after-end-of-stream")
  elif sock.sends_after_fatal:
    out.fail("send-after-fatal", "%s %s: %d send() call(s) reached the socket after the fatal error / close; "
             "socket calls: %s" % (side, name, sock.sends_after_fatal, _calls(sock)), side=side, **(saf or {}))
  for t in sock.trouble:
    out.fail("socket-misuse", "%s %s: %s" % (side, name, t), side=side, broke_at=broke_at)


def _calls(sock):
  c = ["%s:%d->%s%s" % (w, n, o, "" if k is None else "=%d" % k) for w, n, o, k in sock.calls]
  if len(c) > 24:
    c = c[:12] + ["..."] + c[-10:]
  return " ".join(c)


def _label_sock(out, sock):
  if sock.short:
    out.label("short-write")
  if sock.eagain:
    out.label("eagain")
  if sock.fatal:
    out.label("fatal")
  if any(k == 0 for _, n, _, k in sock.calls if n):
    out.label("zero-accepted")


# --------------------------------------------------------------------------- controller side

def run_ctl(case, out, interleaver=None):
  import pox.openflow.libopenflow_01 as of
  conns = case["conns"]
  nc = len(conns)
  sockpts = int(case.get("sockpts") or 0)
  # "ctl-mt": the cooperative thread's sends may overlap the sender thread's locked section (two threads inside the
  # send path at once); "ctl": the sender's loop body is atomic with respect to Connection.send
  side = "ctl-mt" if sockpts else "ctl"
  rig = SP.ControllerRig(conns, case.get("lockpts"), interleaver, sockpts)
  allmask = (1 << nc) - 1
  exp = [bytearray() for _ in range(nc)]
  excepted = [False] * nc
  peer_gone = [False] * nc
  inflight = [False] * nc      # a send of the cooperative thread was in progress while the sender thread disconnected the connection
  broke = [None] * nc
  nsent = 0
  slices = [0]

  def listener_send(t, data, on_sender):
    # a ConnectionDown listener (of the connection before t) queues a message on connection t
    if not rig.cons[t].disconnected:
      exp[t] += data
      slices[0] += 1 + len(data) // 4096
    out.label("ctl-connectiondown-listener-sends-from-the-sender-thread" if on_sender else "ctl-connectiondown-listener-sends")
    if on_sender and rig.harness_waiting:
      out.label("ctl-listener-sends-while-a-cooperative-send-waits-for-the-lock")
  rig.listener_send = listener_send
  try:
    def conservation(kind):
      if rig.at[0] == "wrote":
        return      # the socket has taken bytes the sender thread has not yet removed from its queue
      for i in range(nc):
        if broke[i] is None and not rig.socks[i].fatal and not rig.cons[i].disconnected:
          q = rig.ds._dataForConnection.get(rig.cons[i]) or []
          if bytes(rig.socks[i].sent) + b"".join(q) != bytes(exp[i]):
            broke[i] = kind

    for op in case["ops"]:
      kind = op[0]
      if kind == "send":
        if nsent >= MAX_MSGS:
          continue
        c, size = op[1] % nc, max(8, int(op[2]))
        obj = len(op) > 3 and op[3] and size <= 65535
        data = SP.message(nsent, size)
        nsent += 1
        s, con = rig.socks[c], rig.cons[c]
        if s.backpressure and s.total < len(exp[c]) and not s.fatal and not con.disconnected:
          out.nontrivial = True
          out.label("ctl-send-while-unflushed")
        if rig.at[0] == "lock":
          out.label("ctl-send-while-sender-at-lock")
        elif rig.at[0] in ("write", "wrote"):
          out.label("ctl-send-while-sender-mid-write")
          out.label("ctl-send-before-sender-write" if rig.at[0] == "write" else "ctl-send-after-sender-write")
        elif rig.at[0] == "released":
          out.label("ctl-send-right-after-sender-unlocked")
        elif rig.at[0] == "down":
          out.label("ctl-send-while-sender-runs-connectiondown-listeners")
        deferred_before = rig.ds.sending
        blocked_before = rig.blocked
        disc_before = con.disconnected
        if obj:
          wire = SP.echo_request(nsent, data[:size - 8])
          msg = of.ofp_echo_request(xid=nsent, body=data[:size - 8])
          out.label("ctl-message-object")
        else:
          wire = msg = data
        live = not con.disconnected
        con.send(msg)
        if live:
          # queued once Connection.send returns: a message a listener on the sender thread queued while this send
          # waited for the sender's lock comes first
          exp[c] += wire
          slices[0] += 1 + len(wire) // 4096
        if deferred_before:
          out.label("ctl-queued-behind-sender")
        if rig.blocked > blocked_before:
          seen = rig.blocked_log[-1]
          out.label("ctl-send-blocked-on-sender-lock")
          if seen["flush_complete"]:
            out.label("ctl-blocked-send-parked-after-the-last-backlog-was-flushed")
          if seen["writes"]:
            out.label("ctl-sender-wrote-while-send-was-blocked")
          if not disc_before and con.disconnected:
            inflight[c] = True
            out.label("ctl-send-in-progress-during-disconnect")
        conservation("send")
      elif kind == "go":
        wmask, emask = op[1] & allmask, (op[2] & allmask if len(op) > 2 else 0)
        if emask and rig.at[0] == "select":
          for i in range(nc):
            if (emask >> i) & 1 and rig.cons[i] in rig.at[1][2] and not rig.socks[i].closed:
              # the main loop sees the same exceptional condition and closes the connection
              rig.cons[i].close()
              excepted[i] = True
              out.label("ctl-exceptional-condition")
        where = rig.go(wmask, emask)
        if where == "select" and wmask != allmask:
          out.label("ctl-partial-writable-mask")
        conservation("go")
      elif kind == "visit":
        where = rig.at[0]
        if rig.visit():
          out.label("ctl-visit-closed-a-connection")
          if where == "down":
            out.label("ctl-read-loop-closes-while-sender-runs-connectiondown-listeners")
      elif kind == "eof":
        # the peer closes the connection: the read loop finds end of stream at its next visit and closes it
        c = op[1] % nc
        if not rig.socks[c].closed and not peer_gone[c]:
          peer_gone[c] = True
          rig.socks[c].eof = True
          out.label("ctl-peer-closed-with-backlog" if rig.queued(c) else "ctl-peer-closed")
      else:
        raise HarnessError("unknown ctl op %r" % (op,))

    # enough writable calls: every connection writable until the sender has nothing left; then the read loop's visit
    # (a ConnectionDown it raises may make a listener queue a further message: flush again, at most once per connection)
    for _ in range(nc + 1):
      budget = 4 * (sum(len(c.get("script") or []) for c in conns) + slices[0] + nsent) + 60
      if case.get("lockpts"):
        budget *= 4
      if sockpts:
        budget *= 3
      while budget > 0 and not rig.baton.done:
        if rig.at[0] == "select" and rig.idle():
          break
        rig.go(allmask, 0)
        conservation("go")
        budget -= 1
      queued_before = slices[0]
      rig.visit()
      if slices[0] == queued_before:
        break
    if rig.timeouts:
      out.label("ctl-select-timeout")
    if rig.lock_yields:
      out.label("ctl-lock-handover")
    if rig.sock_yields:
      out.label("ctl-sender-preempted-at-socket-write")
    if rig.down_yields:
      out.label("ctl-sender-preempted-in-connectiondown-listeners")
    if nc > 1:
      out.label("ctl-two-connections")
    for i in range(nc):
      if any(w == "t" for w, _, _, _ in rig.socks[i].calls):
        out.label("ctl-deferred-flush")
        if any(n == 4096 for w, n, _, _ in rig.socks[i].calls if w == "t") and len(exp[i]) > 4096:
          out.label("ctl-pipe-buf-slices")
      seen_t = False
      for w, _, _, _ in rig.socks[i].calls:
        if w == "t":
          seen_t = True
        elif seen_t:
          out.label("ctl-direct-again-after-flush")
          break
  finally:
    rig.teardown()

  if rig.listener_errors:
    raise rig.listener_errors[0]
  if rig.sender_error is not None:
    e = rig.sender_error
    if isinstance(e, SP.ClosedDescriptorInSelect):
      out.label("ctl-sender-selects-on-closed-socket")
      out.fail("deferred-sender-died", "DeferredSender.run handed a closed socket (fileno() == -1) to select(), which raises "
               "ValueError: the sender thread is gone, 'sending' stays %s and %d connection(s) keep parked bytes for ever"
               % (rig.ds.sending, len(rig.ds._dataForConnection)), where="select-on-closed-socket")
    elif isinstance(e, SystemExit) or exc_is_from_harness(e):
      raise HarnessError("sender thread failed inside the harness: %r" % (e,)) from e
    else:
      out.violations.append({"key": exc_key(e, clause="deferred-sender-died", side=side),
                             "msg": "DeferredSender.run ended with %r" % (e,)})
  for i in range(nc):
    s, con = rig.socks[i], rig.cons[i]
    name = "connection %d" % i
    _label_sock(out, s)
    dead = s.fatal or excepted[i] or peer_gone[i]
    saf = {"queued": "by-a-send-in-progress-during-the-disconnect" if inflight[i] else "otherwise"} if sockpts else None
    # a sender thread that has died is reported above; what it leaves unsent is the same root cause
    # end of stream is not a socket error: a send() attempt on the socket object the read loop has closed since
    # fails with EBADF and writes nothing; it is labelled, not judged
    _judge_stream(out, side, name, exp[i], s, not dead and rig.sender_error is None, broke[i], saf,
                  judge_saf=s.fatal or not peer_gone[i])
    hs = bool(conns[i].get("hs"))
    dn, dc = rig.down_nexus[i], rig.down_con[i]
    if dead:
      if s.fatal:
        out.label("ctl-fatal-in-sender-thread" if s.calls and s.calls[-1][0] == "t" else "ctl-fatal-in-direct-send")
        if nc > 1 and any(not rig.socks[j].fatal and len(exp[j]) for j in range(nc) if j != i):
          out.label("ctl-sibling-of-a-failed-connection")
      if not con.disconnected:
        out.fail("closed-not-reported", "ctl %s: fatal socket error but the connection is not disconnected" % name, side=side)
      if not s.shutdown_at and not s.closed:
        out.fail("closed-not-reported", "ctl %s: fatal socket error but the socket was neither shut down nor closed" % name, side=side)
      if hs and (dn == 0 or dc == 0):
        out.fail("closed-not-reported", "ctl %s: ConnectionDown raised %d time(s) on the nexus and %d on the connection after "
                 "the read loop visited it" % (name, dn, dc), side=side)
      if dn > 1 or dc > 1:
        out.fail("closed-more-than-once", "ctl %s: ConnectionDown raised %d time(s) on the nexus, %d on the connection" % (name, dn, dc), side=side)
      if hs:
        out.label("ctl-connectiondown-from-sender-thread" if rig.down_thread.get(i) == "t" else "ctl-connectiondown-deferred-to-visit")
    else:
      if con.disconnected or dn or dc or s.shutdown_at or s.closed:
        out.fail("spurious-close", "ctl %s: no fatal outcome on this socket but disconnected=%s ConnectionDown=%d/%d shutdowns=%d closed=%s"
                 % (name, con.disconnected, dn, dc, len(s.shutdown_at), s.closed), side=side)
  return out


# --------------------------------------------------------------------------- switch side

def run_sw(case, out):
  specs = [w if isinstance(w, dict) else {"script": w} for w in case["workers"]]
  nw = len(specs)
  rig = SP.SwitchRig(specs)
  allmask = (1 << nw) - 1
  exp = [bytearray() for _ in range(nw)]
  broke = [None] * nw
  shut = [None] * nw        # buffer length when shutdown() was called
  user_closed = [False] * nw
  peer_gone = [False] * nw      # the peer closed the connection (recv() reports end of stream)
  recv_fault = [None] * nw      # recv() reports a fatal socket error (errno name)
  nsent = 0
  nhandler = [0]
  raised = False
  handler_violations = []

  def on_connect(i):
    """The connect handler of worker i (runs inside IOWorker._try_connect, i.e. inside _do_send/_do_recv of
    the loop round that notices the connection): queues the messages the case prescribes."""
    s, w = rig.socks[i], rig.workers[i]
    out.label("sw-connected-with-queued-bytes" if w.send_buf else "sw-connected-with-empty-buffer")
    for size, fast in specs[i].get("hsends") or []:
      if shut[i] is not None or user_closed[i] or w.closed or nhandler[0] >= 2:
        break
      data = SP.message(100 + nhandler[0], max(8, int(size)))
      nhandler[0] += 1
      if s.backpressure and s.total < len(exp[i]) and not s.fatal:
        out.nontrivial = True
        out.label("sw-send-while-unflushed")
      out.label("sw-connect-handler-sends")
      exp[i] += data
      try:
        (w.send_fast if fast else w.send)(data)
      except Exception as e:
        if exc_is_from_harness(e) and not isinstance(e, TypeError):
          raise HarnessError("connect handler failed inside the harness: %r" % (e,)) from e
        handler_violations.append({"key": exc_key(e, clause="send-raises", side="sw", broke_at="send_fast" if fast else "send"),
                                   "msg": "%s(%d bytes) inside the connect handler raised %r" % ("send_fast" if fast else "send", size, e)})
        break
  rig.on_connect = on_connect

  try:
    def conservation(kind):
      for i in range(nw):
        w = rig.workers[i]
        if broke[i] is None and not rig.socks[i].fatal and not w.closed:
          if bytes(rig.socks[i].sent) + w.send_buf != bytes(exp[i]):
            broke[i] = kind

    for op in case["ops"]:
      kind = op[0]
      if kind == "send":
        if nsent >= MAX_MSGS:
          continue
        i, size = op[1] % nw, max(8, int(op[2]))
        fast = bool(len(op) > 3 and op[3])
        if shut[i] is not None or user_closed[i]:
          out.label("sw-op-skipped")
          continue
        data = SP.message(nsent, size)
        nsent += 1
        s, w = rig.socks[i], rig.workers[i]
        if w._connecting:
          out.label("sw-send-while-connecting")
        if s.backpressure and s.total < len(exp[i]) and not s.fatal and not w.closed:
          out.nontrivial = True
          out.label("sw-send-while-unflushed")
        api = "send_fast" if fast else "send"
        out.label("sw-" + api)
        ncalls = len(s.calls)
        if not w.closed:
          exp[i] += data
        try:
          (w.send_fast if fast else w.send)(data)
        except Exception as e:
          if exc_is_from_harness(e) and not isinstance(e, TypeError):
            raise
          if fast and len(s.calls) > ncalls:
            out.label("sw-send_fast-direct-write")
          out.violations.append({"key": exc_key(e, clause="send-raises", side="sw", broke_at=api),
                                 "msg": "RecocoIOWorker.%s(%d bytes) raised %r; socket calls: %s" % (api, size, e, _calls(s))})
          raised = True
          break
        if fast and len(s.calls) > ncalls:
          out.label("sw-send_fast-direct-write")
        conservation(api)
      elif kind == "loop":
        wmask = op[1] & allmask
        rmask = op[2] & allmask if len(op) > 2 else allmask
        asked = [rig.asked_to_write(i) for i in range(nw)]
        before = list(rig.connects)
        was_connecting = [w._connecting for w in rig.workers]
        pending_in = [bool(s.inbox) for s in rig.socks]
        alive = [not w.closed for w in rig.workers]
        rig.round(wmask, rmask)
        for i in range(nw):
          if alive[i] and rig.workers[i].closed and (peer_gone[i] or rig.socks[i].fatal_via == "recv"):
            out.label("sw-closed-by-read-side")
            if asked[i] and (wmask >> i) & 1:
              out.label("sw-closed-by-read-side-in-a-round-that-also-reports-it-writable")
              at = rig.socks[i].calls_at_rd_shutdown      # RecocoIOWorker.close shuts the read side down
              if at is not None and len(rig.socks[i].calls) > at:
                out.label("sw-write-after-read-side-closed-the-worker")
          if rig.connects[i] > before[i]:
            out.label("sw-connect-noticed-by-recv" if pending_in[i] and (rmask >> i) & 1 else "sw-connect-noticed-by-send")
          elif was_connecting[i] and not rig.workers[i]._connecting and rig.socks[i].connect_error:
            out.label("sw-connect-refused")
        if any(asked[i] and not (wmask >> i) & 1 for i in range(nw)):
          out.label("sw-not-writable-round")
        conservation("loop")
      elif kind == "rfault":
        # the read side of worker i's socket fails from now on: "eof" (the peer closed the connection) or a fatal
        # error reported by recv(); the worker learns of it in the next loop round that finds it readable
        i = op[1] % nw
        s, w = rig.socks[i], rig.workers[i]
        if not (w.closed or s.fatal or peer_gone[i] or recv_fault[i] or w._connecting):
          if op[2] == "eof":
            peer_gone[i] = True
            s.eof = True
          else:
            recv_fault[i] = op[2]
            s.recv_error = getattr(SP.errno, op[2])
          out.label("sw-read-side-%s" % ("eof" if op[2] == "eof" else "error"))
          out.label("sw-read-side-fails-with-pending-bytes" if w.send_buf else "sw-read-side-fails-when-flushed")
      elif kind == "shutdown":
        i = op[1] % nw
        if shut[i] is None and not user_closed[i]:
          shut[i] = len(rig.workers[i].send_buf)
          rig.workers[i].shutdown()
          out.label("sw-shutdown-with-pending-bytes" if shut[i] else "sw-shutdown-on-empty-buffer")
      elif kind == "close":
        i = op[1] % nw
        if not user_closed[i]:
          user_closed[i] = True
          out.label("sw-close-after-fatal" if rig.workers[i].closed else
                    ("sw-close-with-pending-bytes" if rig.workers[i].send_buf else "sw-close-when-flushed"))
          rig.workers[i].close()
      else:
        raise HarnessError("unknown sw op %r" % (op,))

    if not raised:
      budget = 3 * (sum(len(sp.get("script") or []) for sp in specs) + nsent) + 30

      def unnoticed():
        return any((peer_gone[i] or recv_fault[i]) and not rig.workers[i].closed for i in range(nw))
      while budget > 0 and not (rig.idle() and not unnoticed()):
        rig.round(allmask)
        conservation("loop")
        budget -= 1
  finally:
    rig.teardown()

  if rig.handler_errors:
    raise rig.handler_errors[0]
  out.violations.extend(handler_violations)
  if nw > 1:
    out.label("sw-two-workers")
  if rig.dead:
    e = rig.log.exceptions[-1] if rig.log.exceptions else None
    if isinstance(e, BaseException) and e.__traceback__ is not None:
      if exc_is_from_harness(e):
        raise HarnessError("I/O loop failed inside the harness: %r" % (e,)) from e
      out.violations.append({"key": exc_key(e, clause="io-loop-died", side="sw"),
                             "msg": "RecocoIOLoop.run ended because of %r; nothing is sent for any worker any more" % (e,)})
    else:
      out.fail("io-loop-died", "RecocoIOLoop.run ended", side="sw")
  if raised:
    return out
  for i in range(nw):
    s, w = rig.socks[i], rig.workers[i]
    name = "worker %d" % i
    _label_sock(out, s)
    dead = s.fatal or user_closed[i] or peer_gone[i]
    saf = {"after": "error-reported-by-recv"} if s.fatal_via == "recv" else None
    _judge_stream(out, "sw", name, exp[i], s, not dead and not rig.dead, broke[i], saf)
    for how, at in s.shutdown_at:
      if how == 1 and at != len(exp[i]) and not dead:     # socket.SHUT_WR
        out.fail("shutdown-before-flush", "sw %s: SHUT_WR after %d of %d queued bytes" % (name, at, len(exp[i])), side="sw", broke_at=broke[i])
    if shut[i] is not None and not dead:
      out.label("sw-shutdown-performed" if any(h == 1 for h, _ in s.shutdown_at) else "sw-shutdown-never-performed")
    if dead:
      if s.fatal:
        out.label("sw-fatal")
        if nw > 1 and any(not rig.socks[j].fatal and len(exp[j]) for j in range(nw) if j != i):
          out.label("sw-sibling-of-a-failed-worker")
      if rig.closes[i] != 1 or not w.closed:
        out.fail("closed-not-reported" if rig.closes[i] == 0 else "closed-more-than-once",
                 "sw %s: close_handler called %d time(s), worker.closed=%s after %s" % (
                   name, rig.closes[i], w.closed, "a fatal socket error" if s.fatal else "close()"), side="sw")
      if not rig.dead and (w in rig.loop._workers or not s.closed):
        out.fail("closed-not-reported", "sw %s: worker still registered with the loop / socket not closed after the loop ran" % name, side="sw")
    else:
      if rig.closes[i] or w.closed or s.closed:
        out.fail("spurious-close", "sw %s: no fatal outcome and no close() but close_handler=%d closed=%s socket closed=%s"
                 % (name, rig.closes[i], w.closed, s.closed), side="sw")
  return out


# --------------------------------------------------------------------------- entry

def run_case(case, interleaver=None):
  setup()
  out = Outcome()
  side = case["side"]
  out.label("side-" + side)
  if side == "ctl":
    return run_ctl(case, out, interleaver)
  if side == "sw":
    return run_sw(case, out)
  raise HarnessError("unknown side %r" % (side,))


# --------------------------------------------------------------------------- exhaustive grids

def _ctl_patterns(n, tail):
  """Placements of the n sends of connection 0 (and one send of connection 1) relative to sender rounds."""
  G = ["go", 3, 0]
  pats = []
  for gaps, bpos in (([0] * n, 1), ([1] * n, 2), ([1] + [0] * (n - 1), 1), ([2] + [0] * (n - 1), 2)):
    pats.append((gaps, min(bpos, n)))
  for gaps, bpos in pats:
    def build(sizes, bsize, gaps=gaps, bpos=bpos):
      ops = []
      for j in range(n):
        ops.append(["send", 0, sizes[j], 0])
        if j + 1 == bpos:
          ops.append(["send", 1, bsize, 0])
        ops.extend([list(G) for _ in range(gaps[j])])
      ops.extend([list(G) for _ in range(tail)])
      return ops
    yield build

  def masked(sizes, bsize):
    # only one connection writable per round: the other keeps its parked bytes while the sender goes idle for the first
    ops = [["send", 0, sizes[0], 0], ["send", 1, bsize, 0], ["go", 1, 0], ["send", 1, 8, 0], ["go", 1, 0]]
    for j in range(1, n):
      ops.append(["send", 0, sizes[j], 0])
      ops.append(["go", 2 if j == 1 else 3, 0])
    ops.extend([list(G) for _ in range(tail)])
    return ops
  yield masked


def _enum_ctl(tier):
  n, calls = (3, 4) if tier == "quick" else (4, 5)
  builders = list(_ctl_patterns(n, calls + 2))
  for script in itertools.product(OUT5, repeat=calls):
    for sizes in itertools.product([8, 5000], repeat=n):
      for pi, b in enumerate(builders):
        yield {"side": "ctl", "lockpts": False,
               "conns": [{"hs": True, "script": list(script)},
                         {"hs": bool(pi & 1), "script": ["half"]}],
               "ops": b(list(sizes), 5000 if pi & 2 else 8)}


def _enum_ctl_overlap(tier):
  """Sends of the cooperative thread that OVERLAP the sender thread's locked flush section: the sender thread is
  pre-empted at its a-th socket write (before the call, or after the socket has answered), the cooperative thread
  sends the next message there -- it has to wait for the sender's lock and goes on when the sender lets go of it --
  and the message after that either at once (the sender thread has not run since it released the lock) or one
  hand-over step later.  With and without a second connection whose parked bytes keep the sender busy."""
  calls, amax = (3, 3) if tier == "quick" else (4, 4)
  for script in itertools.product(OUT5, repeat=calls):
    for sizes in itertools.product([8, 5000], repeat=3):
      for a in range(1, amax + 1):
        for g in (0, 1):
          for sockpts in (1, 2):
            for with_b in (0, 1):
              ops = [["send", 0, sizes[0], 0]]
              if with_b:
                ops.append(["send", 1, 5000, 0])
              ops.extend([["go", 3, 0] for _ in range(a)])
              ops.append(["send", 0, sizes[1], 0])
              ops.extend([["go", 3, 0] for _ in range(g)])
              ops.append(["send", 0, sizes[2], 0])
              ops.extend([["go", 3, 0] for _ in range(calls + 2)])
              yield {"side": "ctl", "lockpts": False, "sockpts": sockpts,
                     "conns": [{"hs": True, "script": list(script)}, {"hs": bool(a & 1), "script": ["half"]}],
                     "ops": ops}


def _enum_ctl_down(tier):
  """The sender thread meets a fatal error while flushing connection 0 and disconnects it: the ConnectionDown listeners
  run ON THE SENDER THREAD (one of them may send to connection 1).  The sender thread is pre-empted before and after
  each of its socket writes and inside the listeners; at the k-th hand-over step the cooperative side sends to
  connection 1, sends to connection 0, or its read loop visits (and closes) the failed connection."""
  steps = 8 if tier == "quick" else 10
  tails = list(itertools.product(OUT5, repeat=2 if tier == "quick" else 3))
  for first in ("half", "eagain"):
    for rest in tails:
      for size in (8, 5000):
        for on_down in (None, 8, 5000):
          for bscript, pre_b in ((["half"], 0), (["half"], 1), (["all"], 0)):
            for k in range(1, steps + 1):
              for act in ([["send", 1, 8, 0]], [["visit"]], [["send", 0, 8, 0]]):
                ops = [["send", 0, size, 0]]
                if pre_b:
                  ops.append(["send", 1, 5000, 0])
                ops.extend([["go", 3, 0] for _ in range(k)])
                ops.extend([list(o) for o in act])
                ops.extend([["go", 3, 0] for _ in range(4)])
                ops.append(["send", 1, 8, 0])
                yield {"side": "ctl", "lockpts": False, "sockpts": 7,
                       "conns": [{"hs": True, "script": [first] + list(rest), "on_down": on_down},
                                 {"hs": bool(k & 1), "script": list(bscript)}],
                       "ops": ops}


def _sw_patterns(n, tail):
  L = ["loop", 3]
  for gaps, bpos in (([0] * n, 1), ([2] * n, 2), ([1] * n, 1), ([3] + [0] * (n - 1), 2)):
    def build(sizes, apis, shutdown, gaps=gaps, bpos=min(bpos, n)):
      ops = []
      for j in range(n):
        ops.append(["send", 0, sizes[j], apis[j]])
        if j + 1 == bpos:
          ops.append(["send", 1, 9000, 0])
        if j + 1 == n and shutdown:
          ops.append(["shutdown", 0])
        ops.extend([list(L) for _ in range(gaps[j])])
      ops.extend([list(L) for _ in range(tail)])
      return ops
    yield build


def _enum_sw(tier):
  n, calls = (3, 4) if tier == "quick" else (4, 5)
  builders = list(_sw_patterns(n, calls + 3))
  apimixes = [[0] * n, [1] * n, [(j + 1) & 1 for j in range(n)]]
  for script in itertools.product(OUT5, repeat=calls):
    # the worker offers its whole buffer in one call, so only the shape of the size sequence matters here
    for sizes in ([8] * n, [9000] * n, [8 if j & 1 else 9000 for j in range(n)], [9000 if j & 1 else 8 for j in range(n)]):
      for b in builders:
        for apis in apimixes:
          for shutdown in (0, 1):
            yield {"side": "sw", "workers": [list(script), ["half"]],
                   "ops": b(list(sizes), apis, shutdown)}


def _enum_sw_connect(tier):
  """Workers that are registered while their connection is still being established (what PersistentIOWorker /
  BackoffWorker, i.e. the software switch's own connection, do): sends before the connection is noticed, a
  connect handler that queues further messages, the connection noticed by _do_send or by _do_recv."""
  calls = 3 if tier == "quick" else 4
  presets = [[], [8], [9000, 8]]
  hsets = [[], [[8, 0]], [[8, 0], [9000, 0]], [[8, 1]]]
  firsts = [(False, ["loop", 3, 0]), (True, ["loop", 3, 3]), (True, ["loop", 0, 3]), (True, ["loop", 3, 0])]

  def ops_for(pre, first, postfast):
    ops = [["send", 0, z, 0] for z in pre]
    ops.append(["send", 1, 9000, 0])
    ops.append(list(first))
    ops.extend([["loop", 3], ["loop", 3]])
    ops.append(["send", 0, 8, postfast])
    ops.extend([["loop", 3] for _ in range(calls + 2)])
    return ops

  for script in itertools.product(OUT5, repeat=calls):
    for pre in presets:
      for hs in hsets:
        for peer, first in firsts:
          for postfast in (0, 1):
            yield {"side": "sw",
                   "workers": [{"script": list(script), "connecting": True, "hsends": [list(h) for h in hs], "peer": peer},
                               ["half"]],
                   "ops": ops_for(pre, first, postfast)}
  # a refused connection: the socket is reported readable and writable; noticed by _do_send, by _do_recv with _do_send
  # following in the same round, by _do_recv alone
  for pre in presets:
    for hs in hsets[:2]:
      for first in (["loop", 3, 0], ["loop", 3, 3], ["loop", 0, 3]):
        yield {"side": "sw",
               "workers": [{"script": [], "connecting": True, "hsends": [list(h) for h in hs], "refuse": True}, ["half"]],
               "ops": ops_for(pre, first, 0)}


def _enum_sw_readfault(tier):
  """The read side of a worker's socket fails (the peer closes the connection; recv() reports a reset) while the
  write side is under back-pressure: before any send, with bytes pending after the first send, after a loop round; the
  round that notices it reports the worker readable and writable, readable only, or writable first and readable
  in the next round."""
  calls = 3 if tier == "quick" else 4
  faults = ["eof", "ECONNRESET"] if tier == "quick" else ["eof", "ECONNRESET", "ETIMEDOUT"]
  for script in itertools.product(OUT5, repeat=calls):
    for sizes in itertools.product([8, 9000], repeat=2):
      for fault in faults:
        for pos in (0, 1, 2):
          for first in ([["loop", 3, 3]], [["loop", 0, 3]], [["loop", 3, 0], ["loop", 3, 3]]):
            for fast in (0, 1):
              ops = [["send", 1, 9000, 0]]
              if pos == 0:
                ops.append(["rfault", 0, fault])
              ops.append(["send", 0, sizes[0], fast])
              if pos == 1:
                ops.append(["rfault", 0, fault])
              if pos == 2:
                ops.extend([["loop", 3, 0], ["rfault", 0, fault]])
              ops.append(["send", 0, sizes[1], fast])
              ops.extend([list(o) for o in first])
              ops.extend([["loop", 3] for _ in range(calls + 2)])
              yield {"side": "sw", "workers": [list(script), ["half"]], "ops": ops}


# --------------------------------------------------------------------------- Hypothesis
#
# A case is decoded constructively from one byte string, three bytes per choice (one cheap draw; composite strategies with a
# draw per field cost ten times the run itself).  Reading past the end yields 0, and 0 always decodes to the
# simplest choice (one connection, "all", 8 bytes, no extra ops), so the list shrinks towards small cases.
# What is stored, replayed and shown is the decoded case.

_SIZE_TABLE = [8, None, 9, 64, None, 512, 513, 4095, 4096, 4097, None, 8191, 8192, 8193, 12288, 16384, None, 65535, 65536, 70000]
_OUT_TABLE = ["all", "half", "eagain", "zero", "most", "half", "eagain", None, 1, 7, 8, 100, 4095, 4096, 4097, 8191, 8192, "all", None, "half"]
_GAPS = [0, 1, 0, 2, 1, 3, 0, 4]


class _Genome(object):
  def __init__(self, g):
    self.g, self.i = g, 0

  def take(self, n):
    v = int.from_bytes(self.g[self.i:self.i + 3], "big")     # b"" past the end -> 0
    self.i += 3
    return v % n


def _g_script(g, maxlen):
  s = []
  for _ in range(g.take(maxlen + 1)):
    o = _OUT_TABLE[g.take(len(_OUT_TABLE))]
    s.append(g.take(70001) if o is None else o)
  if g.take(10) in (1, 2, 3):
    s.insert(g.take(len(s) + 1), SP.FATALS[g.take(2)])
  return s


def _g_size(g):
  v = _SIZE_TABLE[g.take(len(_SIZE_TABLE))]
  return 8 + g.take(69993) if v is None else v


def _decode_ctl(genome, maxlen):
  g = _Genome(genome)
  nc = 1 if g.take(4) == 0 else 2
  lockpts = bool(g.take(2))
  # pre-emption of the sender thread before (1) / after (2) its socket writes and inside ConnectionDown listeners (4)
  sockpts = [0, 0, 1, 2, 3, 7, 5, 6][g.take(8)]
  eofs = g.take(4) == 1                       # the peer may close a connection
  conns = [{"hs": bool(g.take(2)), "script": _g_script(g, maxlen)} for _ in range(nc)]
  if nc > 1:
    for c in conns:
      c["on_down"] = [None, None, None, 8, 5000][g.take(5)]     # a ConnectionDown listener that sends to the other connection
  allmask = (1 << nc) - 1
  exc = g.take(8) == 1
  nsend = 1 + g.take(MAX_MSGS)

  def others(k):
    r = []
    for _ in range(k):
      kind = g.take(20)
      if kind >= 19 and eofs:
        r.append(["eof", g.take(nc)])
      elif kind >= 16:
        r.append(["visit"])
      else:
        w = g.take(2 * (allmask + 1))
        w = allmask if w > allmask else allmask - w       # 0 -> everything writable
        e = g.take(2 * (allmask + 1)) if exc else 0
        r.append(["go", w, e if e <= allmask else 0])
    return r

  ops = others(g.take(3))
  for _ in range(nsend):
    ops.append(["send", g.take(nc), _g_size(g), int(g.take(5) == 1)])
    ops.extend(others(_GAPS[g.take(len(_GAPS))]))
  return {"side": "ctl", "lockpts": lockpts, "sockpts": sockpts, "conns": conns, "ops": ops}


def _decode_sw(genome, maxlen):
  g = _Genome(genome)
  nw = 1 if g.take(3) == 0 else 2
  workers = []
  for _ in range(nw):
    script = _g_script(g, maxlen)
    mode = g.take(5)                 # 0, 3, 4: an established connection; 1, 2: still connecting
    if mode in (1, 2):
      hs = [[_g_size(g), int(g.take(3) == 1)] for _ in range(g.take(3))]
      peer, refuse = bool(g.take(2)), g.take(12) == 1
      workers.append({"script": script, "connecting": True, "hsends": hs, "peer": peer and not refuse, "refuse": refuse})
    else:
      workers.append(script)
  allmask = (1 << nw) - 1
  fastmode = [0, 1, 2, 0][g.take(4)]                # never / always / mixed

  rfaults = g.take(4) == 1                         # the read side of a socket may fail

  def loops(k):
    r = []
    for _ in range(k):
      if rfaults and g.take(6) == 1:
        r.append(["rfault", g.take(nw), ["eof", "ECONNRESET", "eof", "ETIMEDOUT"][g.take(4)]])
      w = g.take(2 * (allmask + 1))
      rm = g.take(2 * (allmask + 1))
      r.append(["loop", allmask if w > allmask else allmask - w, allmask if rm > allmask else allmask - rm])
    return r

  nsend = 1 + g.take(MAX_MSGS)
  ops = loops(g.take(3))
  for _ in range(nsend):
    fast = fastmode == 1 or (fastmode == 2 and g.take(2) == 1)
    ops.append(["send", g.take(nw), _g_size(g), int(fast)])
    ops.extend(loops(_GAPS[g.take(len(_GAPS))]))
  tail = g.take(4)
  if tail == 1:
    ops.append(["shutdown", g.take(nw)])
  elif tail == 2:
    ops.append(["close", g.take(nw)])
    ops.extend(loops(g.take(3)))
    if g.take(2):
      ops.append(["close", g.take(nw)])
  ops.extend(loops(g.take(4)))
  return {"side": "sw", "workers": workers, "ops": ops}


def _genomes():
  return st.binary(min_size=90, max_size=420)


def _ctl_case(tier):
  maxlen = 10 if tier == "quick" else 14
  return _genomes().map(lambda g: _decode_ctl(g, maxlen))


def _sw_case(tier):
  maxlen = 10 if tier == "quick" else 14
  return _genomes().map(lambda g: _decode_sw(g, maxlen))


def plan(tier):
  q = tier == "quick"
  return [
    Enum("ctl-grid", lambda: _enum_ctl(tier), shards=16),
    Enum("ctl-overlap-grid", lambda: _enum_ctl_overlap(tier), shards=16),
    Enum("ctl-down-grid", lambda: _enum_ctl_down(tier), shards=16),
    Enum("sw-grid", lambda: _enum_sw(tier), shards=16),
    Enum("sw-connect-grid", lambda: _enum_sw_connect(tier), shards=16),
    Enum("sw-readfault-grid", lambda: _enum_sw_readfault(tier), shards=16),
    Hyp("ctl-scripts", lambda: _ctl_case(tier), examples=8000 if q else 300000, shards=16),
    Hyp("sw-scripts", lambda: _sw_case(tier), examples=8000 if q else 300000, shards=16),
  ]
