"""C10 -- malformed OpenFlow input is contained to the offending connection.

A victim connection and one or two sibling connections live inside the REAL loop generators:
of_01.OpenFlow_01_Task.run() (accept / read / close / except logic, of_01.socket shimmed) and
ioworker.RecocoIOLoop.run() (real RecocoIOWorkers on fake sockets, OFConnection + SoftwareSwitch behind
them).  The victim's stream is valid traffic with corruptions; the siblings' streams are valid.  Optionally the victim's
socket also fails (fault sequences): sends fail or would block once a reply is owed, and the peer hangs up, resets
or keeps talking, reported by select in the same wake-up or in successive ones.  Optionally a second connection
misbehaves too, readable in the same wake-up as the first or in a later one; clauses (iv)/(v) apply to each.
Optionally the victim's peer flags TCP urgent data: select reports the victim in its EXCEPTIONAL set, together with its
in-band bytes / FIN being readable in the same wake-up or on its own.  Optionally the controller runs with the Nicira
extension component loaded (pox.openflow.nicira: its own OFPT_VENDOR unpacker in of_01's table, its handlers on the
connections) and the traffic contains Nicira vendor messages (pvf/ref/c10_nx.py, from nicira-ext.h) with the same
single-field corruptions.

Oracle, clause by clause (DESIGN.md section 4, C10):
 (i)   every wake-up of the loop returns within a deterministic line budget (sys.monitoring LINE events);
 (ii)  the loop generator is still alive afterwards and still selects on every sibling;
 (iii) every sibling delivers exactly its own messages, unchanged and in order, and a probe sent last;
 (iv)  on the victim every intact message before the corruption is delivered; every complete frame of the
       declared-length framing is delivered, or answered with an OFPT_ERROR quoting it, or the connection is
       closed and nothing more is delivered from it;
 (v)   every decode starts at a boundary of the declared-length framing, consumes no more than the declared
       length, and what is delivered is exactly what the declared bytes decode to on their own; nothing but a
       HELLO is delivered from a frame whose version byte is not 1;
 (vi)  no exception escapes the loop, the loop does not end, and it never hands a closed socket to select.
"""
import struct
import errno
import os
import io
import contextlib

from hypothesis import strategies as st

from ..runner import Outcome, Enum, Hyp, Custom, HarnessError, innermost_frames
from ..ref import of10_bytes as R
from ..ref import c10_nx as NX
from ..sim import world as W
from ..sim import loops as L
from . import c02 as C2

ID = "C10"
LEVEL = "fault_enumeration"
TECHNIQUE = ("fault enumeration inside the real I/O loop generators: exhaustive single-field corruptions and truncations of "
             "reference-built messages, Hypothesis mutations, deterministic line budget for non-termination")
LEVEL_TEXT = ("Fault enumeration: for representative (thorough: all) message types of each direction, every value 0..len+8 of the "
              "length field, every type byte and version byte, every embedded length field at 0..value+8 and extremes, and every "
              "truncation point (followed by EOF or by more valid traffic) is injected at the first, middle and last position of the "
              "victim's traffic, with the victim before or after its siblings, inside the real OpenFlow_01_Task.run / "
              "RecocoIOLoop.run generators; Hypothesis adds multi-field mutations, random message bytes and random segmentation. "
              "The corruption space of a peer is finite per field and is what the property quantifies over, so enumerating it "
              "exhaustively is the fitting level; multi-field corruptions are only sampled.")
LEVEL_NOTE = ("non-termination is observed as exceeding a line budget of 200000 + 400 lines per pending byte per loop wake-up "
              "(>= 10x the worst valid traffic measured: 40 lines/byte); the loops are driven by hand with the set of readable "
              "sockets a select() would report, not by the recoco scheduler; real sockets are replaced by scripted fakes")
RULE = ("a case is (side, victim item list with corruption ops, 1-2 sibling message lists, order of connections, segmentation, EOF flag, "
        "optional socket fault script {peer: silent/more data/EOF/reset/timeout} x {send: ok/EAGAIN/EPIPE/ECONNRESET} x {same wake-up, "
        "recv first, send first} applied after a chosen chunk); "
        "optionally a second victim (item list, accept position, delay in rounds); "
        "optionally an urgent-data script {round, reported with the round's in-band data / after it / with EOF}: the victim is put in "
        "select's exceptional set (non-trivial when the condition was actually reported on a still-open victim); "
        "optionally the receiver configuration 'nx' (controller with pox.openflow.nicira launched: vendor unpacker only / plus its "
        "handlers) and items {nx: subtype} that are Nicira vendor messages; "
        "non-trivial when a fault script hits a victim that owes a reply, or two victims are both corrupted, or the controller "
        "disconnects a handshake-violating victim before its peer hangs up, or when the victim stream differs from well-formed traffic, at least one intact valid message follows the first "
        "corrupted item, and a sibling still has undelivered traffic when the corrupted bytes are processed (siblings always get a "
        "second chunk and a probe after the victim's last bytes); distinct by SHA-1 of the canonical JSON of the case")
ASSUMPTIONS = [
  "a connection counts as closed when the controller loop has closed and dropped its socket, or when the switch side has called "
  "shutdown()/close() on its IOWorker (OFConnection.close only shuts the sending direction down)",
  "a well-framed message of a known type that decodes within its declared length and is handed to the receiver's handler "
  "counts as delivered even if that handler ignores it (e.g. a controller-to-switch type sent to the controller)",
  "what a handler does with a delivered message (replies, state) is not judged here (C09, C13); handler exceptions are the "
  "connection classes' own business and are swallowed by them",
  "line budget: 200000 + 400 x pending bytes per wake-up",
  "an unpacker that looks at bytes beyond the declared length but whose result the receiver refuses (connection dropped, or error and "
  "the DECLARED length skipped) has consumed nothing beyond the declared length; it is a violation when that result is delivered or "
  "the read cursor follows it",
  "a decoder that needs bytes to follow before it can classify a frame is compared with what it makes of the declared bytes followed "
  "by 64 x 0x00 and by 64 x 0xff (both must agree with what was delivered)",
  "urgent data: only the out-of-band flag is modelled (the in-band stream is unchanged, SO_OOBINLINE is off); the exceptional "
  "condition persists until the socket is closed, since neither loop ever reads out-of-band data",
]
EXHAUSTIVE_SCOPE = {
  "quick": "6 representative target messages per side (HELLO, ECHO_REQUEST, FEATURES_REPLY/FLOW_MOD, PACKET_IN/PACKET_OUT, PORT_STATUS/"
           "SET_CONFIG, flow STATS_REPLY/STATS_REQUEST): every length-field value 0..len+8, 0x7fff and 0xffff at each of 3 positions in "
           "the victim's traffic (first / between / last) x 2 connection orders; every type-byte and version-byte value 0..255, each at "
           "1 (thorough: 2) of the 6 position/order combinations, odd values with the message last in its read; every embedded length field (action len, actions_len, flow-stats entry length) at "
           "0..value+8, 0x7fff, 0x8000, 0xffff with rotating position/order; every truncation length of the target followed by EOF and "
           "followed by more valid traffic; every truncation point of a 5-message stream followed by EOF. Half of the scenarios deliver "
           "the corrupted header split across two reads or separately from its body; every length value, embedded-length value and "
           "truncation (and every second type/version value) is also run with the corrupted message as the last thing in the buffer "
           "when it is read. Tails: 1..7 bytes (2 fills) beyond the fixed part and beyond the complete variable part of every "
           "message kind carrying actions / stats bodies / queues / ports, declared in the header length and additionally in each "
           "embedded length, last in the read and with traffic behind. Handshake: HELLO, FEATURES_REPLY and then a foreign BARRIER_REPLY / ERROR / second "
           "FEATURES_REPLY (the controller itself disconnects), whole and message by message, with and without EOF. Oversize: unknown-type, wrong-fixed-part, bad-version and "
           "bad-actions_len frames of 65522..65535 declared bytes, whole body present, between/after valid traffic. Socket fault grid: a victim that owes a reply "
           "(switch: BAD_TYPE error, BAD_LEN error, echo reply, features reply; controller: echo reply, features request) x peer "
           "{silent, more data, EOF, ECONNRESET, ETIMEDOUT} x send {ok, EAGAIN, EPIPE, ECONNRESET} x {reported in the same wake-up, "
           "recv first, send first} x victim first/last x 1-2 siblings. Two victims: every ordered pair of 6 offender kinds (bad "
           "version, length 0, length 5, unknown type, length shorter than the type's fixed part, inconsistent body) x 6 accept orders "
           "of (victim, second victim, sibling) x second victim's bytes in the same wake-up or the next x 2 stream shapes; every "
           "clause is applied to each victim. Exceptional conditions (urgent): 8 victim kinds per side (well-formed, truncated, the 6 "
           "offender kinds) x urgent flag reported {with the round's in-band bytes, after them, with EOF} x victim accepted first/"
           "middle/last of 3 and first/last of 2 x first/second round. Nicira configuration (controller, extension launched, "
           "alternately with and without its handlers): for 5 Nicira vendor messages (ROLE_REPLY, PACKET_IN with nx_match and frame, "
           "FLOW_REMOVED, ROLE_REQUEST, unknown subtype; thorough: 11) every header length 0..len+8, 0x7fff, 0xffff; 10 values of "
           "each octet of the vendor id and subtype; every subtype code 0..24; every embedded length (match_len, each nx_match entry "
           "length octet) at 0..value+8 and extremes; every truncation point followed by EOF / by more traffic; each with traffic "
           "behind it in the same read and alone in its read; siblings carry well-formed Nicira messages.",
  "thorough": "the same for every message type of each direction (all stats kinds, queue properties) and for the 9 types of the "
              "opposite direction arriving at the wrong side",
}

_S = None
PROBE = {"t": R.ECHO_REQUEST, "n": 4, "f": 3, "xid": 0x70726f62}


def setup():
  global _S
  if _S is None:
    C2.setup()
    of_01, of, SW = C2._M
    import pox.lib.ioworker as IOW
    import pox.openflow.nicira as nx            # after the world has booted (see pvf/README.md)
    if L.LineBudget._instance is None:
      # the Nicira unpackers run inside Connection.read when that component is loaded: they count towards the budget too
      L.LineBudget._instance = L.LineBudget(modules=L.LineBudget.MODULES + ("pox.openflow.nicira",))
    _S = {"of_01": of_01, "of": of, "SW": SW, "IOW": IOW, "nx": nx, "budget": L.LineBudget.get(),
          "ctl_class": _make_ctl_class(of_01), "worker_class": _make_worker_class(IOW)}


def _build(spec):
  """Reference-built message of a spec: OpenFlow 1.0 proper, or a Nicira vendor extension message ({"nx": subtype})."""
  if "nx" in spec:
    return NX.build(spec)
  return R.build(spec)


# --------------------------------------------------------------------------- receiver configuration: Nicira extensions

_NX_MODES = ("unpackers", "handlers")
_NX_ON = [False]
_NX_EXPECT = {}


def _nicira_on():
  """What `pox.openflow.nicira` does when it is launched on a controller: the OFPT_VENDOR entry of of_01's table of
  unpackers is replaced by one that decodes NXT_PACKET_IN and NXT_ROLE_REPLY itself, and the component registers with
  the (fresh) core.  -> token for _nicira_off.  Re-entrant for the control run made from inside a case."""
  nx, of_01 = _S["nx"], _S["of_01"]
  nested = _NX_ON[0]
  if nested:
    of_01.unpackers[R.VENDOR] = nx._old_unpacker     # stock again; launch() below installs the extension anew
    nx._old_unpacker = None
  saved = of_01.unpackers[R.VENDOR]
  if saved is nx._unpack_nx_vendor or nx._old_unpacker is not None:
    raise HarnessError("the Nicira vendor unpacker of an earlier case is still installed")
  nx.launch()
  if of_01.unpackers[R.VENDOR] is not nx._unpack_nx_vendor or nx._old_unpacker is not saved:
    raise HarnessError("launching pox.openflow.nicira did not install its vendor unpacker")
  _NX_ON[0] = True
  return (saved, nested)


def _nicira_off(tok):
  saved, nested = tok
  if nested:
    return                       # the enclosing case goes on with the extension installed
  nx, of_01 = _S["nx"], _S["of_01"]
  of_01.unpackers[R.VENDOR] = saved
  nx._old_unpacker = None
  _NX_ON[0] = False


def _expect(data):
  """What the receiver's own decoder makes of exactly these bytes (C2.expect); vendor messages are decoded by the
  table in force (stock / Nicira) and cached per configuration."""
  if not _NX_ON[0] or len(data) < 2 or data[1] != R.VENDOR:
    return C2.expect(data)
  data = bytes(data)
  r = _NX_EXPECT.get(data, 0)
  if r == 0:
    try:
      off, obj = _S["of_01"].unpackers[R.VENDOR](data, 0)
      r = C2.sig(obj) if off == len(data) else None
    except Exception:
      r = None
    if len(_NX_EXPECT) > 20000:
      _NX_EXPECT.clear()
    _NX_EXPECT[data] = r
  return r


def _expect_followed(data):
  """A decoder that cannot decode the declared bytes when the buffer ends with them (it looks at what follows before it
  decides what they are) may still make the same thing of them whatever follows: what it makes of exactly the declared
  length when 64 octets of 0x00 and when 64 octets of 0xff follow -- if both agree -- or None."""
  data = bytes(data)
  got = []
  for fill in (b"\x00", b"\xff"):
    try:
      off, obj = _S["of_01"].unpackers[data[1]](data + fill * 64, 0)
      got.append(C2.sig(obj) if off == len(data) else None)
    except Exception:
      got.append(None)
  return got[0] if got[0] == got[1] else None


# --------------------------------------------------------------------------- taps

class TapSock(W.FakeSock):
  def __init__(self, name=None):
    W.FakeSock.__init__(self, name)
    self.total_recv = 0
    self.tap = None
    self.urgent = False           # the peer has sent TCP urgent (out-of-band) data that nobody has read: select() reports
                                  # the socket in its exceptional set for as long as it is open

  def recv(self, n, flags=0):
    d = W.FakeSock.recv(self, n, flags)
    self.total_recv += len(d)
    return d

  def close(self):
    if not self.closed and self.tap is not None:
      self.tap.events.append(("C",))
    W.FakeSock.close(self)


_SEQ = [0]


class _Events(list):
  """Event list that remembers when (in a case-wide order) its last entry was made."""

  def __init__(self, tap):
    list.__init__(self)
    self.tap = tap

  def append(self, e):
    _SEQ[0] += 1
    self.tap.seq = _SEQ[0]
    list.append(self, e)


class _Tap(object):
  """Event log of one connection: ("D", abs_start, abs_end|None, exc|None), ("X", abs_start, sig), ("C",)."""

  def __init__(self):
    self.seq = 0
    self.events = _Events(self)
    self.pending = None           # (abs_start, abs_end, obj) of a decode not yet dispatched
    self.real_unpackers = None
    self.real_handlers = None

  def base(self):
    raise NotImplementedError

  def decode(self, real, buf, off):
    start = self.base(buf) + off
    try:
      new, obj = real(buf, off)
    except BaseException as e:
      self.events.append(("D", start, None, e))
      self.pending = None
      raise
    self.events.append(("D", start, start + (new - off), None))
    self.pending = (start, start + (new - off), obj)
    return new, obj

  def dispatched(self, obj=None):
    p = self.pending
    if p is None:
      return
    self.pending = None
    self.events.append(("X", p[0], C2.sig(p[2] if obj is None else obj), p[1]))


class _UProxy(object):
  def __init__(self, tap):
    self.tap = tap

  def __len__(self):
    return len(self.tap.real_unpackers)

  def __getitem__(self, t):
    real = self.tap.real_unpackers[t]
    if real is None:
      return None
    tap = self.tap
    return lambda buf, off=0: tap.decode(real, buf, off)


class _HProxy(object):
  """The controller's handler table: a lookup right after a decode is the dispatch of that message."""

  def __init__(self, tap):
    self.tap = tap

  def __len__(self):
    return len(self.tap.real_handlers)

  def __getitem__(self, t):
    self.tap.dispatched()
    return self.tap.real_handlers[t]


class CtlTap(_Tap):
  def __init__(self, con, sock):
    _Tap.__init__(self)
    self.con, self.sock = con, sock
    self.uproxy = _UProxy(self)
    self.hproxy = _HProxy(self)
    if isinstance(sock, TapSock):
      sock.tap = self

  def base(self, buf):
    return self.sock.total_recv - len(buf)


def _make_ctl_class(of_01):
  Base = of_01.Connection          # the loop driver rebinds of_01.Connection to the subclass while it runs

  class TapConnection(Base):
    def __init__(self, sock):
      self._tap = CtlTap(self, sock)
      Base.__init__(self, sock)

    def _get_h(self):
      return self._tap.hproxy

    def _set_h(self, v):
      self._tap.real_handlers = v

    def _get_u(self):
      return self._tap.uproxy

    def _set_u(self, v):
      self._tap.real_unpackers = v
    handlers = property(_get_h, _set_h)
    unpackers = property(_get_u, _set_u)
  return TapConnection


class SwTap(_Tap):
  def __init__(self, worker, conn, switch):
    _Tap.__init__(self)
    self.worker, self.conn, self.switch = worker, conn, switch
    self.real_unpackers = conn.unpackers
    conn.unpackers = _UProxy(self)
    self.real_handler = conn.on_message_received
    conn.set_message_handler(self._deliver)
    worker.tap = self

  def base(self, buf):
    return self.worker.total_pushed - len(self.worker.receive_buf)

  def _deliver(self, conn, msg):
    self.dispatched(msg)
    if self.real_handler is not None:
      self.real_handler(conn, msg)


def _make_worker_class(IOW):
  class TapWorker(IOW.RecocoIOWorker):
    def __init__(self, sock):
      IOW.RecocoIOWorker.__init__(self, sock)
      self.total_pushed = 0
      self.tap = None
      self.shutdown_calls = 0

    def _push_receive_data(self, d):
      self.total_pushed += len(d)
      return IOW.RecocoIOWorker._push_receive_data(self, d)

    def shutdown(self, *a, **kw):
      self.shutdown_calls += 1
      if self.tap is not None and not any(e[0] == "C" for e in self.tap.events):
        self.tap.events.append(("C",))
      return IOW.RecocoIOWorker.shutdown(self, *a, **kw)

    def close(self):
      if not self.closed and self.tap is not None and not any(e[0] == "C" for e in self.tap.events):
        self.tap.events.append(("C",))
      return IOW.RecocoIOWorker.close(self)
  return TapWorker


# --------------------------------------------------------------------------- the victim's stream

def apply_ops(data, ops):
  b = bytearray(data)
  for op in ops:
    k = op["op"]
    if k == "len":
      if len(b) >= 4:
        b[2:4] = struct.pack("!H", op["v"] & 0xffff)
    elif k == "u8":
      if len(b):
        b[op["off"] % len(b)] = op["v"] & 0xff
    elif k == "xor":
      if len(b):
        b[op["off"] % len(b)] ^= (op["v"] & 0xff) or 1
    elif k == "u16":
      if len(b) >= 2:
        o = op["off"] % (len(b) - 1)
        b[o:o + 2] = struct.pack("!H", op["v"] & 0xffff)
    elif k == "trunc":
      del b[max(0, op["keep"]):]
    elif k == "del":
      if len(b):
        o = op["off"] % len(b)
        del b[o:o + max(1, op["n"])]
    elif k == "ins":
      o = op["off"] % (len(b) + 1)
      b[o:o] = op["data"]
    else:
      raise HarnessError("unknown corruption op %r" % (k,))
  return bytes(b)


def victim_stream(items):
  """-> (stream, intact: [(start, bytes)], first_bad: offset of the first corrupted item or None)."""
  out = b""
  intact = []
  first_bad = None
  for it in items:
    if "raw" in it:
      d = bytes(it["raw"])
      bad = True
    else:
      good = _build(it["m"]).data
      d = apply_ops(good, it.get("ops") or [])
      bad = d != good
    if bad and first_bad is None:
      first_bad = len(out)
    if not bad:
      intact.append((len(out), d))
    out += d
  return out, intact, first_bad


def frames_of(stream):
  """Declared-length framing of a hostile stream: [(start, declared, type, xid, ver)] for every frame whose
  8 header bytes and declared bytes are all present.  A declared length of 1..7 still defines where the next
  frame would start; a declared length of 0 defines nothing beyond it.  -> (frames, stop_offset, why)"""
  frames = []
  off, n = 0, len(stream)
  while True:
    if off == n:
      return frames, off, None
    if n - off < 8:
      return frames, off, "partial-header"       # a receiver may wait for a whole header before judging it
    ver, t, length = stream[off], stream[off + 1], (stream[off + 2] << 8) | stream[off + 3]
    if length == 0:
      return frames, off, "length=0"
    if n - off < length:
      return frames, off, "partial"
    xid = struct.unpack_from("!L", stream, off + 4)[0]
    frames.append((off, length, t, xid, ver))
    off += length


# --------------------------------------------------------------------------- running one case

def _limit(pending):
  return 200000 + 400 * pending


class _Conn(object):
  """One connection of the scenario, either side."""

  def __init__(self, role, sock, tap, handle):
    self.role, self.sock, self.tap, self.handle = role, sock, tap, handle
    self.chunks = []
    self.stream = b""


def _phase(exc):
  names = [(fn, func) for fn, func, _ in innermost_frames(exc)]
  if any(func == "_error_handler" for _, func in names):
    return "error-reply"
  if any(fn.endswith("libopenflow_01.py") for fn, _ in names) and not any(func in ("rx_message", "_deliver") for _, func in names):
    return "decode"
  if any(func in ("rx_message", "_deliver") or func.startswith("handle_") for _, func in names):
    return "handler"
  return "other"


def _drain(loop, conns, unit):
  """Wake the loop up while something is readable/writable.  Every wake-up must consume input, flush output or
  close something, so the number of wake-ups is bounded by the pending bytes; more than that is a livelock
  (the loop is woken again and again by a socket it neither reads to the end nor closes).  -> False on livelock."""
  pending = sum(len(c.sock.inbox) for c in conns.values())
  loop.budget = (loop.budget[0], _limit(pending))
  bound = 24 + 6 * len(conns) + 3 * sum((len(c.sock.inbox) + unit - 1) // unit for c in conns.values())
  n = 0
  while loop.alive and (loop.readable() or (hasattr(loop, "writable") and loop.writable())):
    loop.step()
    n += 1
    if n > bound:
      return False
  return True


_RECV_FAULTS = ("none", "data", "eof", "ECONNRESET", "ETIMEDOUT")
_SEND_FAULTS = ("ok", "eagain", "EPIPE", "ECONNRESET")
_ORDERS = ("same", "recv-first", "send-first")


def _fault_round(loop, side, conns, roles, r, faults, skip, unit, out):
  """The round in which the victim's socket misbehaves after the victim has (possibly) been made to owe a reply:
  its next send fails / would block, and its peer hangs up, resets or keeps talking -- reported by select in
  the same wake-up or in two successive ones.  -> still live?"""
  import errno as _errno
  v = conns["v"]
  send, recv, order = faults.get("send", "ok"), faults.get("recv", "none"), faults.get("order", "same")
  if send not in _SEND_FAULTS or recv not in _RECV_FAULTS or order not in _ORDERS:
    raise HarnessError("unknown fault script %r" % (faults,))
  if send != "ok":
    # a fatal error repeats for as long as anybody tries; "would block" is a spurious wake-up and happens twice
    v.sock.send_script = [send] * (2 if send == "eagain" else 64)
  before_calls = len(v.sock.send_calls)
  for role in roles:
    c = conns[role]
    if r < len(c.chunks) and (role, r) not in skip and not c.sock.closed:
      c.sock.feed(c.chunks[r])
  if side == "sw":
    # input is processed, replies are queued but nothing is flushed yet
    n = 0
    loop.budget = (loop.budget[0], _limit(sum(len(c.sock.inbox) for c in conns.values())))
    while loop.alive and loop.readable():
      loop.step(loop.readable(), [])
      n += 1
      if n > 64:
        return False
    owed = len(v.handle.send_buf) > 0
  else:
    if not _drain(loop, conns, unit):
      return False
    owed = len(v.sock.send_calls) > before_calls
  if owed:
    out.label("fault:reply-owed")
  # what the peer does next
  if recv == "data":
    if r + 1 < len(v.chunks) and not v.sock.closed:
      v.sock.feed(v.chunks[r + 1])
      skip.add(("v", r + 1))
  elif recv == "eof":
    v.sock.eof = True
  elif recv != "none":
    v.sock.recv_error = getattr(_errno, recv)
  if side == "sw" and loop.alive:
    loop.budget = (loop.budget[0], _limit(sum(len(c.sock.inbox) for c in conns.values())))
    if order == "same":
      loop.step(loop.readable(), loop.writable())
    elif order == "recv-first":
      loop.step(loop.readable(), [])
      if loop.alive:
        loop.step([x for x in loop.readable() if x is loop.loop.pinger], loop.writable())
    else:
      loop.step([x for x in loop.readable() if x is loop.loop.pinger], loop.writable())
      if loop.alive:
        loop.step(loop.readable(), [])
  live = _drain(loop, conns, unit) if loop.alive else True
  v.sock.send_script = []
  return live


_URG_WITH = ("data", "after", "eof")
_BLAME = [None]                   # root cause named by the driver of a round, when it is not the header the receiver was working on


def _xlisted(loop):
  """what the loop currently asks select() to watch for exceptional conditions"""
  if loop.select is None:
    return []
  return list(loop.select._args[2] or [])


def _urgent_round(loop, side, conns, roles, r, urg, skip, unit, out):
  """The round in which the victim's peer flags TCP urgent data (one out-of-band byte; the in-band stream is what it is):
  select() reports the victim's socket in its EXCEPTIONAL set -- together with its being readable because the round's
  in-band bytes ("data") or the peer's FIN ("eof") are pending in the same wake-up, or on its own after the in-band bytes
  have been processed ("after").  The condition persists for as long as the socket stays open and watched.
  -> still live?"""
  v = conns["v"]
  mode = urg.get("with", "data")
  if mode not in _URG_WITH:
    raise HarnessError("unknown urgent-data script %r" % (urg,))
  for role in roles:
    c = conns[role]
    if r < len(c.chunks) and (role, r) not in skip and not c.sock.closed:
      c.sock.feed(c.chunks[r])
  if mode == "after":
    if not _drain(loop, conns, unit):
      return False
  if not loop.alive:
    return True
  if v.sock.closed or v.handle not in loop.selected:
    out.label("urgent:victim-already-closed")
    return _drain(loop, conns, unit)
  if mode == "eof":
    v.sock.eof = True
  v.sock.urgent = True
  first = True
  n = 0
  while loop.alive and not v.sock.closed and v.handle in _xlisted(loop):
    rl = loop.readable()
    wl = loop.writable() if hasattr(loop, "writable") else []
    if first:
      first = False
      out.label("urgent:reported")
      out.label("urgent:%s" % ("also-readable" if v.handle in rl else "only-exceptional"))
      out.label("urgent:%s-in-read-list" % ("alone" if len(rl) <= 1 else "first" if rl[0] is v.handle else "last" if rl[-1] is v.handle
                                            else "middle" if v.handle in rl else "absent"))
    loop.budget = (loop.budget[0], _limit(sum(len(c.sock.inbox) for c in conns.values())))
    loop.select = loop._advance((list(rl), list(wl), [v.handle]))
    n += 1
    if not loop.alive:
      _BLAME[0] = "exceptional-condition"      # the loop ended in the very wake-up that reported it
    if n > 8:
      out.label("urgent:ignored")
      _BLAME[0] = "exceptional-condition"
      return False               # woken up again and again by a condition it does nothing about
  if first:
    out.label("urgent:not-watched")
  return _drain(loop, conns, unit) if loop.alive else True


def _chunks(stream, cuts):
  cuts = sorted(set(int(c) for c in cuts if 0 < int(c) < len(stream)))
  b = [0] + cuts + [len(stream)]
  return [stream[b[i]:b[i + 1]] for i in range(len(b) - 1) if b[i + 1] > b[i]]


# --------------------------------------------------------------------------- sustained load: the loop's own wake-up pipe

class _WouldBlockForever(BaseException):
  """a blocking pipe operation that nothing can ever complete (the only thread that could is the one blocked)"""


class _VOs(object):
  """Stands in for the `os` attribute of pox.lib.util while a RecocoIOLoop is created: pipes are virtual, have the kernel's
  capacity (64 KiB) and honour O_NONBLOCK set through os.set_blocking(); everything else is the real os.  The loop runs
  in one thread, so a write to a full blocking pipe (or a read from an empty one) can never complete: it is recorded in
  `blocked` and unwinds with a BaseException."""
  CAPACITY = 65536
  name = "posix"

  def __init__(self):
    self.pipes = {}        # fd -> [buffer, "r"|"w"]
    self.nonblocking = set()
    self.blocked = None
    self.high_water = 0

  def pipe(self):
    buf = bytearray()
    r = 3000000 + 2 * len(self.pipes)
    self.pipes[r] = [buf, "r"]
    self.pipes[r + 1] = [buf, "w"]
    return r, r + 1

  def set_blocking(self, fd, flag):
    if fd not in self.pipes:
      return os.set_blocking(fd, flag)
    (self.nonblocking.discard if flag else self.nonblocking.add)(fd)

  def get_blocking(self, fd):
    if fd not in self.pipes:
      return os.get_blocking(fd)
    return fd not in self.nonblocking

  def pending(self, fd):
    return len(self.pipes[fd][0])

  def write(self, fd, data):
    if fd not in self.pipes:
      return os.write(fd, data)
    buf = self.pipes[fd][0]
    room = self.CAPACITY - len(buf)
    if room <= 0:
      if fd in self.nonblocking:
        raise BlockingIOError(errno.EAGAIN, "Resource temporarily unavailable")
      self.blocked = "write of the wake-up byte to a full pipe (%d bytes pending, nothing left to read them)" % len(buf)
      raise _WouldBlockForever()
    k = min(room, len(data))
    buf += bytes(data[:k])
    self.high_water = max(self.high_water, len(buf))
    return k

  def read(self, fd, n):
    if fd not in self.pipes:
      return os.read(fd, n)
    buf = self.pipes[fd][0]
    if not buf:
      if fd in self.nonblocking:
        raise BlockingIOError(errno.EAGAIN, "Resource temporarily unavailable")
      self.blocked = "read from the empty wake-up pipe"
      raise _WouldBlockForever()
    d = bytes(buf[:n])
    del buf[:n]
    return d

  def close(self, fd):
    if fd not in self.pipes:
      return os.close(fd)

  def __getattr__(self, n):
    return getattr(os, n)


def _run_load(case, out):
  """Every connection of a switch-side I/O loop receives a long run of small messages that each draw an answer (well-formed echo
  requests, or malformed ones answered with an error); the loop must keep serving all of them.  The loop's wake-up pinger is the
  real pox.lib.util PipePinger over a virtual pipe of the kernel's capacity."""
  import pox.lib.util as U
  S = _S
  IOW = S["IOW"]
  world = W.World()
  vos = _VOs()
  saved = (U.os, IOW.makePinger)
  loop = None
  try:
    U.os = vos
    IOW.makePinger = U._pvf_real_make_pinger
    loop = L.SwitchLoop(world)
    pinger = loop.loop.pinger
    rfd = pinger.fileno()
    if rfd not in vos.pipes:
      raise HarnessError("the I/O loop's pinger is not running over the virtual pipe")
    # 8-byte messages: a well-formed echo request (answered with an echo reply) / a header of a type that does not exist
    # (answered with an OFPET_BAD_REQUEST error)
    unit = struct.pack("!BBHL", 1, R.ECHO_REQUEST if case["msg"] == "echo" else 0x63, 8, 7)
    out.label("load:" + case["msg"])
    peers = []
    for i in range(case["conns"]):
      sock = TapSock("load-%d" % i)
      worker = loop.loop.new_worker(sock)
      conn = S["SW"].OFConnection(worker)
      sw = S["SW"].SoftwareSwitch(i + 1, ports=2)
      sw.set_connection(conn)
      peers.append((sock, worker))
    per = case["per_round"]
    answered = [0] * len(peers)
    fed = [0] * len(peers)
    pend = [b""] * len(peers)
    def one_pass():
      rl = [w for (sk, w) in peers if w in loop.selected and not sk.closed and sk.v_readable()]
      if vos.pending(rfd):
        rl.append(pinger)
      wl = loop.writable()
      if not rl and not wl:
        return False
      loop.step(rl, wl)
      for i, (sock, worker) in enumerate(peers):
        sent = sock.take_sent()
        if sent:
          fr = R.split(pend[i] + sent)
          answered[i] += len(fr.messages)
          pend[i] = (pend[i] + sent)[fr.rest:]
      return True

    # the peers keep sending: before every pass of the loop each connection has another burst waiting
    for rnd in range(case["rounds"]):
      for i, (sock, worker) in enumerate(peers):
        if not sock.closed and not sock.inbox:
          sock.feed(unit * per)
          fed[i] += per
      if not one_pass() or vos.blocked or not loop.alive:
        break
    # ... and then fall silent: everything outstanding must still be answered
    for _ in range(4096):
      if vos.blocked or not loop.alive or not one_pass():
        break
    out.nontrivial = case["conns"] >= 2 and sum(fed) * 1 >= 65536
    out.label("wake-up-pipe-high-water:%s" % ("<1k" if vos.high_water < 1024 else "<16k" if vos.high_water < 16384 else "<64k" if vos.high_water < 65536 else "full"))
    if vos.blocked:
      out.fail("io-loop-blocked", "switch-side I/O loop with %d connections each sending %d-message bursts of %s: after %d messages the loop thread blocks for ever in a %s; no connection is served any more"
               % (case["conns"], per, case["msg"], sum(fed), vos.blocked), side="sw", where="wake-up-pipe")
    elif not loop.alive:
      out.fail("loop-died", "switch-side I/O loop ended under sustained load: %r" % (loop.ended,), side="sw", cause="load", phase="other")
    else:
      for i in range(len(peers)):
        if answered[i] != fed[i]:
          out.fail("load-unanswered", "connection %d sent %d %s messages and got %d answers" % (i, fed[i], case["msg"], answered[i]), side="sw")
          break
  finally:
    if loop is not None:
      loop.close()
    U.os, IOW.makePinger = saved
    world.close()
  return out


def enum_load(tier):
  """bursts of 8-byte messages that each draw an answer, on 1..4 connections at once, for enough passes of the loop that more wake-up
  bytes have been written than a pipe holds"""
  if tier == "quick":
    grid = [("echo", 1, 1024), ("echo", 2, 1024), ("echo", 3, 1024), ("unknown-type", 2, 1024)]
  else:
    grid = [(m, c, p) for m in ("echo", "unknown-type") for c in (1, 2, 3, 4) for p in (1024, 1023, 700, 512, 300)]
  for msg, conns, per in grid:
    growth = per * conns - 1024          # wake-up bytes written minus bytes one pass can drain
    rounds = (70000 // growth + 8) if growth > 0 else 48
    yield {"k": "load", "side": "sw", "msg": msg, "conns": conns, "per_round": per, "rounds": rounds}


def run_case(case):
  setup()
  out = Outcome()
  if case.get("k") == "load":
    return _run_load(case, out)
  nxmode = case.get("nx") if case["side"] == "ctl" else None
  if not nxmode:
    return _run_scenario(case, out, None)
  if nxmode not in _NX_MODES:
    raise HarnessError("unknown Nicira configuration %r" % (nxmode,))
  # pox.openflow.nicira print()s when it meets a subtype it has no unpacker for
  with contextlib.redirect_stdout(io.StringIO()):
    return _run_scenario(case, out, nxmode)


def _run_scenario(case, out, nxmode):
  side = case["side"]
  direction = R.TO_CONTROLLER if side == "ctl" else R.TO_SWITCH
  out.label("side:" + side)
  out.label("kind:" + case.get("label", "?"))
  world = W.World()
  _SEQ[0] = 0
  _BLAME[0] = None
  S = _S
  B = S["budget"]
  S["ctl_class"].ID = 0
  S["ctl_class"]._aborted_connections = 0
  loop = None
  nx_tok = None
  try:
    if nxmode:
      nx_tok = _nicira_on()
      out.label("config:nicira-" + nxmode)
    vstream, intact, first_bad = victim_stream(case["victim"])
    sib_specs = case["sib"]
    if not 1 <= len(sib_specs) <= 2:
      raise HarnessError("1 or 2 siblings")
    sib_msgs = [[_build(s).data for s in specs] for specs in sib_specs]
    probe = _build(PROBE).data
    sib_expect = []
    for ms in sib_msgs:
      ex = [_expect(m) for m in ms] + [_expect(probe)]
      if any(e is None for e in ex):
        out.label("skipped:undecodable-sibling")
        return out
      sib_expect.append(ex)
    intact_expect = [(s, d, _expect(d)) for s, d in intact]
    second = case.get("victim2")
    if second is not None:
      wstream, wintact, wfirst_bad = victim_stream(second)
      wintact_expect = [(s, d, _expect(d)) for s, d in wintact]
      out.label("victims:2")
    n = 1 + len(sib_msgs)
    vpos = case.get("vpos", 0) % n
    roles = ["s%d" % i for i in range(len(sib_msgs))]
    roles.insert(vpos, "v")
    if second is not None:
      roles.insert(case.get("wpos", 0) % (len(roles) + 1), "w")
    conns = {}
    if side == "ctl":
      loop = L.ControllerLoop(world, connection_class=S["ctl_class"], budget=(B, _limit(0)))
      for i, role in enumerate(roles):
        sock = TapSock("c-%s" % role)
        con = loop.connect(sock)
        if con is None or not loop.alive:
          raise HarnessError("the controller loop did not accept a connection")
        if nxmode == "handlers":
          # what pox.openflow.nicira does to the connection of a switch that described itself as an Open vSwitch
          con.handlers = S["nx"]._nicira_handlers.handlers
          con._eventMixin_events.add(S["nx"].RoleReply)
        conns[role] = _Conn(role, sock, con._tap, con)
    else:
      loop = L.SwitchLoop(world, budget=(B, _limit(0)))
      for i, role in enumerate(roles):
        sock = TapSock("w-%s" % role)
        worker = loop.loop.new_worker(sock, _worker_type=S["worker_class"])
        conn = S["SW"].OFConnection(worker)
        sw = S["SW"].SoftwareSwitch(i + 1, ports=4)
        sw.set_connection(conn)
        loop.step()
        if not loop.alive or worker not in loop.selected:
          raise HarnessError("the switch loop did not register a worker")
        conns[role] = _Conn(role, sock, SwTap(worker, conn, sw), worker)
    v = conns["v"]
    v.stream = vstream
    v.chunks = _chunks(vstream, case.get("vcuts") or [])
    if second is not None:
      w = conns["w"]
      w.stream = wstream
      # wdelay: how many rounds after the first victim's first bytes the second victim's arrive
      w.chunks = [b""] * max(0, int(case.get("wdelay", 0))) + _chunks(wstream, case.get("wcuts") or [])
    for i, ms in enumerate(sib_msgs):
      c = conns["s%d" % i]
      c.stream = b"".join(ms)
      sc = (case.get("scuts") or [])
      cuts = sc[i] if i < len(sc) and sc[i] is not None else [len(ms[0]) + (len(c.stream) - len(ms[0])) // 2]
      c.chunks = _chunks(c.stream, cuts)

    bad_round = None
    pos = 0
    for r, ch in enumerate(v.chunks):
      if first_bad is not None and bad_round is None and pos + len(ch) > first_bad:
        bad_round = r
      pos += len(ch)
    rounds = max(len(c.chunks) for c in conns.values())
    sib_pending_at_bad = False
    unit = 2048 if side == "ctl" else 8192
    live = True
    urg = case.get("urg")
    faults = case.get("faults") if not urg else None
    skip = set()
    if urg:
      out.label("urgent:with-" + urg.get("with", "data"))
    if faults:
      out.label("fault:recv=%s" % faults.get("recv", "none"), "fault:send=%s" % faults.get("send", "ok"),
                "fault:order=%s" % faults.get("order", "same"))
    for r in range(rounds):
      if bad_round is not None and r == bad_round:
        sib_pending_at_bad = True          # siblings always have a later chunk and/or the probe outstanding
      if urg and r == min(int(urg.get("round", 0)), len(v.chunks) - 1):
        live = _urgent_round(loop, side, conns, roles, r, urg, skip, unit, out)
      elif faults and r == min(int(faults.get("round", 0)), len(v.chunks) - 1):
        live = _fault_round(loop, side, conns, roles, r, faults, skip, unit, out)
      else:
        for role in roles:
          c = conns[role]
          if r < len(c.chunks) and (role, r) not in skip and not c.sock.closed:
            c.sock.feed(c.chunks[r])
        live = _drain(loop, conns, unit)
      if not loop.alive or not live:
        break
    if loop.alive and live and case.get("eof"):
      v.sock.eof = True
      live = _drain(loop, conns, unit)
    if loop.alive and live:
      for role in roles:
        if role.startswith("s") and not conns[role].sock.closed:
          conns[role].sock.feed(probe)
      live = _drain(loop, conns, unit)
    if not live:
      cause, pos = _cause(vstream, v.tap, _victim_head(side, v), direction)
      cause = _BLAME[0] or cause
      out.fail("livelock", "the %s loop is woken up again and again by a socket it neither drains nor closes (readable now: %r; "
               "victim at stream offset %d, %s)" % (side, [getattr(getattr(x, "sock", getattr(x, "socket", None)), "name", "?")
                                                         for x in loop.readable()], pos, cause), side=side, cause=cause)
      return out

    must_until = first_bad
    if faults:
      # what arrives after the socket started to fail need not be delivered (the connection may be gone)
      fr = min(int(faults.get("round", 0)), len(v.chunks) - 1)
      fl = sum(len(ch) for ch in v.chunks[:fr + 1])
      if faults.get("send", "ok") != "ok":
        # a failing send happens while some message of the fault round is being handled (the reply to the first
        # one, say): from that instant the connection is dead, and the later messages of the same read are addressed
        # to a dead connection.  Only what was complete before the fault round must have been delivered.
        fl = sum(len(ch) for ch in v.chunks[:fr])
      must_until = fl if must_until is None else min(must_until, fl)
    if urg:
      # the receiver may drop the connection the moment select reports the exceptional condition: what is reported
      # readable in that same wake-up is addressed to a connection that may be gone; what was processed in earlier
      # wake-ups must have been delivered
      ur = min(int(urg.get("round", 0)), len(v.chunks) - 1)
      fl = sum(len(ch) for ch in v.chunks[:ur + (1 if urg.get("with") == "after" else 0)])
      must_until = fl if must_until is None else min(must_until, fl)
    victims = {"v": (v, vstream, intact_expect, must_until)}
    if second is not None:
      victims["w"] = (conns["w"], wstream, wintact_expect, wfirst_bad)
    _judge(out, case, side, direction, loop, conns, roles, victims, sib_expect, probe)
    if second is not None and first_bad is not None and wfirst_bad is not None:
      # two offenders: non-trivial when their corrupted bytes are processed in the same wake-up or in successive ones
      out.nontrivial = True
      out.label("victims:same-round" if int(case.get("wdelay", 0)) == (bad_round or 0) else "victims:different-rounds")
    corrupted = first_bad is not None
    if corrupted:
      out.label("hdr:" + R.header_class(vstream, first_bad, direction))
      out.label("segmented" if len(v.chunks) > 1 else "unsegmented")
      if case.get("eof"):
        out.label("eof")
    after = corrupted and any(s > first_bad for s, _ in intact)
    out.nontrivial = bool(corrupted and after and (sib_pending_at_bad or bad_round is None))
    if side == "ctl" and getattr(v.handle, "disconnected", False) and not v.sock.eof:
      out.label("controller-gave-up-first")
      if case.get("label") == "handshake":
        out.nontrivial = True
    if faults and "fault:reply-owed" in out.labels and (faults.get("send", "ok") != "ok" or faults.get("recv", "none") not in ("none", "data")):
      out.nontrivial = True
    if urg and "urgent:reported" in out.labels:
      out.nontrivial = True
    if corrupted and not after:
      out.label("corruption:last")
    if not corrupted:
      out.label("corruption:none")
  finally:
    if loop is not None:
      loop.close()
    if nx_tok is not None:
      _nicira_off(nx_tok)
    world.close()
  return out


def _cause(vstream, tap, base_pos, direction):
  """Header class of the frame the victim's receiver was working on when things went wrong."""
  pos = base_pos
  for e in reversed(tap.events):
    if e[0] == "D":
      pos = max(pos, e[1])        # a decode in progress starts at or beyond the buffer head; a finished one lies before it
      break
  return R.header_class(vstream, pos, direction), pos


def _victim_head(side, v):
  if side == "ctl":
    return v.sock.total_recv - len(v.handle.buf)
  return v.handle.total_pushed - len(v.handle.receive_buf)


def _judge(out, case, side, direction, loop, conns, roles, victims, sib_expect, probe):
  """victims: role -> (conn, stream, intact_expect, must_until)."""
  v, vstream = victims["v"][0], victims["v"][1]
  tap = v.tap
  cause, pos = _cause(vstream, tap, _victim_head(side, v), direction)
  if "w" in victims and not loop.alive:
    # blame the victim whose receiver was last active
    w = victims["w"][0]
    if w.tap.events and (not tap.events or w.tap.seq > tap.seq):
      cause, pos = _cause(victims["w"][1], w.tap, _victim_head(side, w), direction)

  cause = _BLAME[0] or cause
  # ---- (i), (vi), (ii): the loop itself
  if loop.exceeded:
    w = L.LineBudget.get().where
    out.fail("termination", "a wake-up of the %s loop did not return within the line budget (spinning in %s:%s line %s) while the "
             "victim's receiver was at stream offset %d (%s)" % (side, w[0].rsplit("/", 1)[-1], w[1], w[2], pos, cause),
             side=side, cause=cause)
    return
  if not loop.alive:
    if loop.ended == "return":
      exc = loop.log.exceptions[-1] if loop.log.exceptions else None
      ph = _phase(exc) if exc is not None else "?"
      out.fail("loop-died", "the %s I/O loop ended (all connections lose service) after %r while the victim's receiver was at "
               "stream offset %d (%s)" % (side, exc, pos, cause), side=side, cause=cause, phase=ph,
               exc=type(exc).__name__ if exc is not None else "?")
    else:
      exc = loop.ended
      out.fail("exception-escapes-loop", "%r escaped the %s I/O loop (victim at stream offset %d, %s)" % (exc, side, pos, cause),
               side=side, cause=cause, phase=_phase(exc) if isinstance(exc, BaseException) else "?")
    return
  selected = loop.selected
  for x in selected:
    sk = getattr(x, "sock", None) or getattr(x, "socket", None)
    if sk is not None and getattr(sk, "closed", False):
      out.fail("closed-socket-selected", "the %s loop keeps selecting on %s although its socket has been closed: a real select() raises "
               "on it (EBADF / negative descriptor) and the loop stops serving everybody" % (side, getattr(sk, "name", "?")),
               side=side, cause=cause)
      break

  # ---- (ii), (iii): siblings
  for i, ex in enumerate(sib_expect):
    c = conns["s%d" % i]
    if c.sock.closed or c.handle not in selected or any(e[0] == "C" for e in c.tap.events):
      if case.get("_control"):
        out.label("control:sibling-closed:%d" % i)
        continue
      if _handshake_refused(side, c):
        # the controller itself gave this sibling up: its peer answered the handshake's barrier request with a barrier reply
        # carrying an xid the controller never used on this connection (of_01 "failed connect").  Which xid the controller
        # uses comes from a process-wide counter; that the sibling's blindly chosen xid does not match it is the sibling's own
        # protocol violation, not an effect of the offender.
        out.label("sibling-dropped-by-its-own-traffic")
        continue
      if i in _closed_without_offender(case):
        # containment is a statement about the OFFENDER's effect: the receiver dropped this sibling because of the
        # sibling's own (well-formed) traffic -- e.g. a barrier reply with a foreign xid during the handshake --
        # and does so too when the victim sends nothing malformed
        out.label("sibling-dropped-by-its-own-traffic")
        continue
      out.fail("sibling-closed", "sibling %d was closed / is no longer selected on by the %s loop (victim at offset %d, %s)" % (
          i, side, pos, cause), side=side, cause=cause)
      continue
    got = [e[2] for e in c.tap.events if e[0] == "X"]
    if got != ex:
      what = "count" if len(got) != len(ex) else "content"
      out.fail("sibling-sequence", "sibling %d delivered %d messages %r, its peer sent %d %r (victim at offset %d, %s)" % (
          i, len(got), [(g[0], g[1]) for g in got], len(ex), [(g[0], g[1]) for g in ex], pos, cause),
          side=side, cause=cause, what=what)

  # ---- (iv), (v): each victim
  for tag, (vc, vs, ie, fb) in sorted(victims.items()):
    _judge_victim(out, side, direction, vc, vs, ie, fb, selected, tag)


def _handshake_refused(side, c):
  """Did the controller disconnect this (sibling) connection because its stream carries, after a features reply, a barrier
  reply whose xid is none of the barrier requests the controller sent on this very connection?"""
  if side != "ctl" or not getattr(c.handle, "disconnected", False):
    return False
  asked = set(m[3] for m in R.split(bytes(c.sock.sent)).messages if m[2] == R.BARRIER_REQUEST)
  seen_features = False
  for (off, ln, t, xid, ver) in R.split(c.stream).messages:
    if t == R.FEATURES_REPLY:
      seen_features = True
    elif t == R.BARRIER_REPLY and seen_features and xid not in asked:
      return True
  return False


def _closed_without_offender(case):
  """control run (only made when a sibling was found closed): the same connections, siblings' traffic and
  segmentation, but the victim(s) send only their well-formed messages and no socket fault is injected.
  -> indices of the siblings the receiver closes anyway."""
  ctl = dict(case)
  ctl["_control"] = True
  for k in ("faults", "urg", "eof", "wcuts"):
    ctl.pop(k, None)
  ctl["victim"] = [{"m": it["m"]} for it in case["victim"] if "m" in it]
  if case.get("victim2") is not None:
    ctl["victim2"] = [{"m": it["m"]} for it in case["victim2"] if "m" in it]      # the same connections exist
  o2 = run_case(ctl)
  return set(int(l.rsplit(":", 1)[1]) for l in o2.labels if l.startswith("control:sibling-closed:"))


def _judge_victim(out, side, direction, v, vstream, intact_expect, first_bad, selected, tag):
  tap = v.tap
  cause, pos = _cause(vstream, tap, _victim_head(side, v), direction)
  n_before = len(out.violations)
  frames, stop, why = frames_of(vstream)
  by_start = dict((f[0], f) for f in frames)
  boundaries = set(by_start)
  boundaries.add(stop)
  delivered = {}
  closed = False
  last_start = -1
  overrun = None                  # (start, declared) of a decode that came back with more than the declared length
  for e in tap.events:
    if e[0] == "C":
      closed = True
      overrun = None
      continue
    if closed:
      out.fail("active-after-close", "the victim connection decoded/delivered at offset %d after it had been closed" % e[1],
               side=side, cause=R.header_class(vstream, e[1], direction))
      break
    if e[0] == "D":
      start, end = e[1], e[2]
      c_here = R.header_class(vstream, start, direction)
      if overrun is not None:
        if start != overrun[0] + overrun[1]:
          out.fail("decode-beyond-declared", "decoding the frame at offset %d (declared length %d) consumed more than that, and the "
                   "receiver went on at offset %d instead of dropping the connection or skipping the declared length" % (
                       overrun[0], overrun[1], start), side=side, cause=R.header_class(vstream, overrun[0], direction))
          break
        overrun = None
      if start not in boundaries:
        out.fail("misframed", "a decode started at stream offset %d, which is not a boundary of the declared-length framing "
                 "(boundaries near: %r)" % (start, sorted(b for b in boundaries if abs(b - start) < 80)), side=side, cause=cause)
        break
      if start <= last_start:
        out.fail("re-decode", "the frame at offset %d was decoded again" % start, side=side, cause=c_here)
        break
      last_start = start
      f = by_start.get(start)
      if f is not None and end is not None and end - start > f[1]:
        # an unpacker that reports more than the declared length has looked at the next message's bytes; that is the
        # receiver's cue to refuse the frame.  It is a violation when the result is delivered (judged at the "X" event
        # below) or when the read cursor follows the unpacker (judged at the next decode, above); a receiver that drops
        # the connection, or answers and skips the DECLARED length, has consumed nothing beyond it.
        overrun = (start, f[1])
        out.label("unpacker-overran-declared-length")
    elif e[0] == "X":
      start, sg, end = e[1], e[2], e[3]
      f = by_start.get(start)
      c_here = R.header_class(vstream, start, direction)
      if f is None:
        out.fail("delivered-incomplete", "a message was delivered from offset %d where no complete declared frame exists" % start,
                 side=side, cause=c_here)
        break
      if f[1] < 8 or end - start != f[1]:
        out.fail("decode-beyond-declared", "a message (type %r xid %r) was delivered from the frame at offset %d although the decoder "
                 "consumed %d bytes and the declared length is %d" % (sg[0], sg[1], start, end - start, f[1]), side=side, cause=c_here)
        break
      if f[4] != R.OFP_VERSION and f[2] != R.HELLO:
        out.fail("bad-version-delivered", "a message of type %r carrying version 0x%02x (frame at offset %d) was delivered as an "
                 "OpenFlow 1.0 message instead of being refused" % (f[2], f[4], start), side=side, cause=c_here)
        break
      own = _expect(vstream[start:start + f[1]])
      if own is None:
        own = _expect_followed(vstream[start:start + f[1]])
      if own != sg:
        out.fail("delivered-content", "the message delivered from the frame at offset %d (declared length %d) is not what those "
                 "bytes decode to on their own: delivered type %r xid %r, own decode %s" % (
                     start, f[1], sg[0], sg[1], "fails" if own is None else "type %r xid %r" % (own[0], own[1])),
                 side=side, cause=c_here)
        break
      if start in delivered:
        out.fail("delivered-twice", "the frame at offset %d was delivered twice" % start, side=side, cause=c_here)
        break
      delivered[start] = sg
  if len(out.violations) > n_before:
    return

  # errors the victim's receiver sent back
  sent = bytes(v.sock.sent)
  if side == "sw":
    sent += bytes(v.handle.send_buf)
  answered = []
  fr = R.split(sent)
  for (off, ln, t, xid, ver) in fr.messages:
    if t == R.ERROR and ln >= 12:
      answered.append((xid, sent[off + 12:off + ln]))

  def is_answered(f):
    body = vstream[f[0]:f[0] + f[1]]
    for xid, data in answered:
      if data and body[:len(data)] == data and (f[3] is None or xid == f[3]) and len(data) >= min(len(body), 64):
        return True
    return False

  is_closed = closed or (side == "ctl" and (v.sock.closed or v.handle not in selected))
  if side == "sw" and closed and not v.sock.closed and not v.sock.shutdowns and not getattr(v.sock, "eof", False) \
      and v.sock.recv_error is None and not getattr(v.sock, "fatal", False):
    # "that one connection is closed" has to reach the socket: the receiver has decided to drop the connection
    # (IOWorker.shutdown()/close() was called) but, with the loop quiescent, its socket is neither closed nor shut
    # down -- the peer is never told, the garbage stays at the head of the buffer and nothing more is ever processed
    out.fail("close-not-carried-out", "the %s side decided to close the victim connection (at stream offset %d, %s) but its socket was "
             "neither closed nor shut down: the connection stays open and stalled, the peer is not told" % (side, pos, cause),
             side=side, cause=cause)
    return
  outcome = "all-delivered"
  for f in frames:
    if f[0] in delivered:
      if outcome != "all-delivered" and outcome != "answered":
        pass
      continue
    if is_answered(f):
      outcome = "answered"
      continue
    c_here = R.header_class(vstream, f[0], direction)
    if is_closed:
      later = [s for s in delivered if s > f[0]]
      if later:
        out.fail("frame-dropped", "the frame at offset %d (%s) was neither delivered nor answered, yet later frames %r were delivered" % (
            f[0], c_here, sorted(later)), side=side, cause=c_here)
      outcome = "closed"
      break
    out.fail("victim-stalled", "the complete frame at offset %d (%s, declared length %d) was neither delivered nor answered with an "
             "error, and the connection was not closed" % (f[0], c_here, f[1]), side=side, cause=c_here)
    outcome = "stalled"
    break
  else:
    if why == "length=0" and not is_closed:
      out.fail("victim-stalled", "a header declaring length 0 at offset %d was neither answered nor was the connection closed" % stop,
               side=side, cause="length<8")
      outcome = "stalled"
    elif why is not None and not is_closed and outcome == "all-delivered":
      outcome = "waiting"
    elif is_closed:
      outcome = "closed"
  out.label(("victim:" if tag == "v" else "victim2:") + outcome)

  # intact messages before the first corruption must have been delivered, unchanged
  for s, d, ex in intact_expect:
    if first_bad is not None and s + len(d) > first_bad:
      break
    if ex is None:
      continue
    if delivered.get(s) != ex:
      if side == "ctl" and s not in delivered and getattr(v.handle, "disconnected", False):
        # the controller itself gave the connection up for a protocol reason carried by WELL-FORMED bytes: a barrier
        # reply with a foreign xid after the features reply ends the handshake attempt (of_01 "failed connect").  What
        # follows that barrier reply is addressed to a connection that no longer exists and need not be delivered.
        feats = [s0 for s0, d0, _ in intact_expect if d0[1] == R.FEATURES_REPLY]
        gave_up = [s0 for s0, d0, _ in intact_expect if d0[1] == R.BARRIER_REPLY and feats and s0 > feats[0] and s0 < s]
        if gave_up and all(x <= gave_up[-1] or x < s for x in delivered) and not any(x > s for x in delivered):
          out.label("not-delivered-after-controller-gave-up")
          break
      out.fail("prefix-lost", "the intact message at offset %d (type %d), sent before any corruption, was %s" % (
          s, d[1], "not delivered" if s not in delivered else "delivered altered"), side=side, cause=cause)
      break



# --------------------------------------------------------------------------- enumerations

def _spec(t, n=0, f=1, k=0, xid=None):
  d = {"t": t, "xid": xid if xid is not None else 0x100 + t}
  if n:
    d["n"] = n
  if f:
    d["f"] = f
  if k:
    d["k"] = k
  return d


def targets(side, tier):
  T = R
  if side == "ctl":
    rep = [_spec(T.HELLO), _spec(T.ECHO_REQUEST, 6), _spec(T.FEATURES_REPLY, 2), _spec(T.PACKET_IN, 20), _spec(T.PORT_STATUS),
           _spec(T.STATS_REPLY, 2, 1, T.OFPST_FLOW)]
    more = [_spec(T.ERROR, 16), _spec(T.ECHO_REPLY, 3), _spec(T.VENDOR, 5), _spec(T.GET_CONFIG_REPLY), _spec(T.FLOW_REMOVED),
            _spec(T.BARRIER_REPLY), _spec(T.QUEUE_GET_CONFIG_REPLY, 3), _spec(T.STATS_REPLY, 0, 1, T.OFPST_DESC),
            _spec(T.STATS_REPLY, 2, 1, T.OFPST_TABLE), _spec(T.STATS_REPLY, 2, 1, T.OFPST_PORT), _spec(T.STATS_REPLY, 2, 1, T.OFPST_QUEUE),
            _spec(T.STATS_REPLY, 1, 1, T.OFPST_AGGREGATE),
            # controller-to-switch types arriving at the controller
            _spec(T.FEATURES_REQUEST), _spec(T.FLOW_MOD, 2), _spec(T.PACKET_OUT, 12), _spec(T.STATS_REQUEST, 0, 1, T.OFPST_FLOW),
            _spec(T.SET_CONFIG), _spec(T.PORT_MOD), _spec(T.BARRIER_REQUEST), _spec(T.GET_CONFIG_REQUEST), _spec(T.QUEUE_GET_CONFIG_REQUEST)]
  else:
    rep = [_spec(T.HELLO), _spec(T.ECHO_REQUEST, 6), _spec(T.FLOW_MOD, 3), _spec(T.PACKET_OUT, 12), _spec(T.STATS_REQUEST, 0, 1, T.OFPST_FLOW),
           _spec(T.SET_CONFIG)]
    more = [_spec(T.ECHO_REPLY, 3), _spec(T.VENDOR, 5), _spec(T.FEATURES_REQUEST), _spec(T.GET_CONFIG_REQUEST), _spec(T.PORT_MOD),
            _spec(T.BARRIER_REQUEST), _spec(T.QUEUE_GET_CONFIG_REQUEST), _spec(T.STATS_REQUEST, 0, 1, T.OFPST_DESC),
            _spec(T.STATS_REQUEST, 0, 1, T.OFPST_PORT), _spec(T.STATS_REQUEST, 0, 1, T.OFPST_QUEUE), _spec(T.STATS_REQUEST, 4, 1, T.OFPST_VENDOR),
            _spec(T.STATS_REQUEST, 0, 1, T.OFPST_AGGREGATE), _spec(T.PACKET_OUT, 0, 2),
            # switch-to-controller types arriving at the switch
            _spec(T.ERROR, 16), _spec(T.FEATURES_REPLY, 1), _spec(T.PACKET_IN, 10), _spec(T.PORT_STATUS), _spec(T.FLOW_REMOVED),
            _spec(T.STATS_REPLY, 1, 1, T.OFPST_FLOW), _spec(T.BARRIER_REPLY), _spec(T.GET_CONFIG_REPLY), _spec(T.QUEUE_GET_CONFIG_REPLY, 2)]
  return rep if tier == "quick" else rep + more


def _valid(side, i):
  """Valid filler traffic of the direction; i varies it."""
  T = R
  if side == "ctl":
    pool = [_spec(T.ECHO_REQUEST, 4, 2, xid=0x21), _spec(T.PACKET_IN, 14, 1, xid=0x22), _spec(T.BARRIER_REPLY, xid=0x23),
            _spec(T.PORT_STATUS, 0, 2, xid=0x24), _spec(T.HELLO, xid=0x25), _spec(T.FLOW_REMOVED, 0, 1, xid=0x26),
            _spec(T.FEATURES_REPLY, 1, 3, xid=0x27), _spec(T.ECHO_REPLY, 2, 1, xid=0x28)]
  else:
    pool = [_spec(T.ECHO_REQUEST, 4, 2, xid=0x21), _spec(T.FEATURES_REQUEST, xid=0x22), _spec(T.BARRIER_REQUEST, xid=0x23),
            _spec(T.FLOW_MOD, 1, 2, xid=0x24), _spec(T.HELLO, xid=0x25), _spec(T.SET_CONFIG, 0, 1, xid=0x26),
            _spec(T.PACKET_OUT, 9, 1, xid=0x27), _spec(T.ECHO_REPLY, 2, 1, xid=0x28)]
  return dict(pool[i % len(pool)])


def _scenario(side, label, bad_item, place, order, idx, eof=False, nsib=None, alone=False):
  """place: 0 corruption first, 1 between valid messages, 2 last.  order: victim accepted first / last.
  alone: the corrupted item is the last thing in the receiver's buffer when it is read (whatever precedes it was
  read in an earlier wake-up, whatever follows arrives in a later one)."""
  a, b = {"m": _valid(side, idx)}, {"m": _valid(side, idx + 3)}
  victim = [bad_item, a, b] if place == 0 else [a, bad_item, b] if place == 1 else [a, b, bad_item]
  nsib = nsib or (1 + idx % 2)
  sib = [[_valid(side, idx + 1 + 2 * j), _valid(side, idx + 4 + j), _valid(side, idx + 6 + j)] for j in range(nsib)]
  c = {"side": side, "label": label, "victim": victim, "sib": sib, "vpos": 0 if order == 0 else nsib}
  if eof:
    c["eof"] = True
  # a quarter of the scenarios deliver the corrupted header in two reads, a quarter header and body separately
  seg = idx % 4
  off = sum(len(_build(it["m"]).data) for it in victim[:place])
  if alone:
    c["vcuts"] = [off, off + len(victim_stream([bad_item])[0])]
    c["label"] = label + "/alone"
  elif seg >= 2:
    c["vcuts"] = [off + 3] if seg == 2 else [off + 8]
  return c


def enum_header(tier):
  """length field, type byte, version byte."""
  idx = 0
  for side in ("ctl", "sw"):
    for spec in targets(side, tier):
      ln = len(_build(spec).data)
      for place in (0, 1, 2):
        for order in (0, 1):
          for v in list(range(0, ln + 9)) + [0x7fff, 0xffff]:
            if v == ln:
              continue
            idx += 1
            yield _scenario(side, "length", {"m": spec, "ops": [{"op": "len", "v": v}]}, place, order, idx)
            if order == 0 and place != 0:
              idx += 1
              yield _scenario(side, "length", {"m": spec, "ops": [{"op": "len", "v": v}]}, place, idx % 2, idx, alone=True)
      # type and version bytes: the place/order product is spread over the 256 values
      for v in range(256):
        for which, off in (("type", 1), ("version", 0)):
          if v == _build(spec).data[off]:
            continue
          for rep in ((v % 2,) if tier == "quick" else (0, 1)):
            idx += 1
            place, order = (v + rep + off) % 3, (v // 3 + rep) % 2
            yield _scenario(side, which, {"m": spec, "ops": [{"op": "u8", "off": off, "v": v}]}, place, order, idx, alone=(rep == 1))


def enum_embedded(tier):
  idx = 0
  for side in ("ctl", "sw"):
    for spec in targets(side, tier):
      built = _build(spec)
      for fl in built.fields:
        vals = list(range(0, fl["value"] + 9)) + [0x7fff, 0x8000, 0xffff]
        for v in vals:
          if v == fl["value"]:
            continue
          idx += 1
          yield _scenario(side, "embedded", {"m": spec, "ops": [{"op": "u16", "off": fl["off"], "v": v}]}, idx % 3, idx % 2, idx)
          idx += 1
          yield _scenario(side, "embedded", {"m": spec, "ops": [{"op": "u16", "off": fl["off"], "v": v}]}, idx % 3, idx % 2, idx, alone=True)


def enum_trunc(tier):
  idx = 0
  for side in ("ctl", "sw"):
    for spec in targets(side, tier):
      ln = len(_build(spec).data)
      for keep in range(1, ln):
        for mode in ("eof", "more"):
          idx += 1
          if mode == "eof":
            yield _scenario(side, "trunc-eof", {"m": spec, "ops": [{"op": "trunc", "keep": keep}]}, 2, idx % 2, idx, eof=True)
          else:
            yield _scenario(side, "trunc-more", {"m": spec, "ops": [{"op": "trunc", "keep": keep}]}, idx % 2, (idx // 2) % 2, idx)
            idx += 1
            yield _scenario(side, "trunc-more", {"m": spec, "ops": [{"op": "trunc", "keep": keep}]}, idx % 2, (idx // 2) % 2, idx, alone=True)
    # every truncation point of a 5-message stream (the stream simply stops, then EOF)
    five = [_valid(side, i) for i in (0, 3, 1, 6, 2)]
    total = sum(len(_build(s).data) for s in five)
    acc = 0
    for cut in range(1, total):
      items = []
      left = cut
      for s in five:
        l = len(_build(s).data)
        if left >= l:
          items.append({"m": s})
          left -= l
        elif left > 0:
          items.append({"m": s, "ops": [{"op": "trunc", "keep": left}]})
          left = 0
      idx += 1
      yield {"side": side, "label": "trunc-stream", "victim": items, "sib": [[_valid(side, idx), _valid(side, idx + 2)]],
             "vpos": idx % 2, "eof": True}


def enum_tails(tier):
  """A tail of 1..7 bytes beyond the fixed part (and beyond a complete variable part) of every message kind,
  declared in the header length (and, separately, also in each embedded length): too short to be an action /
  property / entry header.  Run with the message last in the read and with traffic behind it."""
  idx = 0
  T = R
  fills = [bytes([0, 0, 0, 8, 0, 1, 0]), b"\xff" * 7]
  for side in ("ctl", "sw"):
    specs = list(targets(side, "thorough"))
    for sp in list(specs):
      if R.uses_n(sp["t"], sp.get("k", 0)) and sp.get("n"):
        z = dict(sp)
        z.pop("n")
        specs.append(z)                              # the fixed part alone
    if tier == "quick":
      carry = (T.FLOW_MOD, T.PACKET_OUT, T.STATS_REQUEST, T.STATS_REPLY, T.QUEUE_GET_CONFIG_REPLY, T.FEATURES_REPLY)
      specs = [sp for sp in specs if sp["t"] in carry]
    for sp in specs:
      built = _build(sp)
      ln = len(built.data)
      variants = [None] + [fl for fl in built.fields]
      for fl in variants:
        for k in range(1, 8):
          for fill in fills:
            ops = [{"op": "ins", "off": ln, "data": fill[:k]}, {"op": "len", "v": ln + k}]
            if fl is not None:
              ops.append({"op": "u16", "off": fl["off"], "v": fl["value"] + k})
            for alone in (True, False):
              idx += 1
              yield _scenario(side, "tail", {"m": sp, "ops": ops}, 1 + idx % 2, (idx // 2) % 2, idx, alone=alone)


def enum_handshake(tier):
  """Well-framed but protocol-violating handshakes on the controller side: the controller itself gives up on the
  connection (con.disconnect()) before the peer hangs up.  Containment clauses as for malformed input."""
  idx = 0
  T = R
  hello, feat = _spec(T.HELLO, xid=1), _spec(T.FEATURES_REPLY, 1, 1, xid=2)
  endings = [
    [_spec(T.BARRIER_REPLY, xid=0xdeadbeef)],                               # not the controller's handshake barrier
    [_spec(T.BARRIER_REPLY, xid=0xdeadbeef), _spec(T.ECHO_REQUEST, 3, xid=9)],
    [_spec(T.ERROR, 12, 1, xid=0xdeadbeef), _spec(T.BARRIER_REPLY, xid=0)],
    [dict(feat, xid=3), _spec(T.BARRIER_REPLY, xid=0xdeadbeef)],            # features twice
  ]
  for end in endings:
    for cuts in ("whole", "each"):
      for vpos in (0, 1, 2):
        for eof in (False, True):
          idx += 1
          items = [{"m": hello}, {"m": feat}] + [{"m": m} for m in end]
          c = {"side": "ctl", "label": "handshake", "victim": items, "vpos": vpos,
               "sib": [[_valid("ctl", idx + 1), _valid("ctl", idx + 4), _valid("ctl", idx + 6)], [hello, dict(feat, f=2), _valid("ctl", idx)]]}
          if cuts == "each":
            pos, cc = 0, []
            for it in items[:-1]:
              pos += len(_build(it["m"]).data)
              cc.append(pos)
            c["vcuts"] = cc
          if eof:
            c["eof"] = True
          yield c


def enum_oversize(tier):
  """Corrupted frames at the top of the 16-bit length range, whole body present: an error reply that quotes the
  frame has to stay within 65535 bytes itself."""
  idx = 0
  T = R
  for side in ("sw", "ctl"):
    big = T.ECHO_REQUEST
    for total in (65522, 65523, 65524, 65525, 65528, 65534, 65535):
      kinds = [
        ("unknown-type", {"m": _spec(big, total - 8), "ops": [{"op": "u8", "off": 1, "v": 99}]}),
        ("unknown-type-255", {"m": _spec(T.VENDOR, total - 12), "ops": [{"op": "u8", "off": 1, "v": 255}]}),
        # a body whose fixed part disagrees with the (correct) declared length
        ("bad-length", {"m": _spec(big, total - 8), "ops": [{"op": "u8", "off": 1, "v": T.SET_CONFIG if side == "sw" else T.GET_CONFIG_REPLY}]}),
        ("bad-version", {"m": _spec(big, total - 8), "ops": [{"op": "u8", "off": 0, "v": 2}]}),
      ]
      if side == "sw":
        po = _spec(T.PACKET_OUT, total - 40, 1)
        while len(_build(po).data) < total:
          po["n"] += 1
        kinds.append(("bad-actions-len", {"m": po, "ops": [{"op": "u16", "off": 14, "v": 0xfff8}]}))
      for name, item in kinds:
        for place in (1, 2):
          for alone in (False, True):
            idx += 1
            yield _scenario(side, "oversize:" + name, item, place, idx % 2, idx, nsib=1, alone=alone)


def enum_faults(tier):
  """Socket fault sequences on a victim that owes a reply: {peer: silent | more data | EOF | reset | timeout} x
  {send: ok | EAGAIN | EPIPE | ECONNRESET} x {reported in the same wake-up | recv first | send first}."""
  idx = 0
  T = R
  for side in ("sw", "ctl"):
    if side == "sw":
      owes = [("unknown-type", {"m": _spec(T.ECHO_REQUEST, 4), "ops": [{"op": "u8", "off": 1, "v": 200}]}),
              ("echo", {"m": _spec(T.ECHO_REQUEST, 4)}), ("features", {"m": _spec(T.FEATURES_REQUEST)}),
              ("bad-length", {"m": _spec(T.FLOW_MOD, 1), "ops": [{"op": "len", "v": 16}]})]
      orders = _ORDERS
    else:
      owes = [("echo", {"m": _spec(T.ECHO_REQUEST, 4)}), ("hello", {"m": _spec(T.HELLO)})]
      orders = ("same",)
    for oname, item in owes:
      for recv in _RECV_FAULTS:
        for send in _SEND_FAULTS:
          for order in orders:
            for vfirst in (0, 1):
              for nsib in (1, 2):
                idx += 1
                a, b = {"m": _valid(side, idx)}, {"m": _valid(side, idx + 3)}
                victim = [a, dict(item), b]
                cut = sum(len(victim_stream([x])[0]) for x in victim[:2])
                sib = [[_valid(side, idx + 1 + 2 * j), _valid(side, idx + 4 + j), _valid(side, idx + 6 + j)] for j in range(nsib)]
                yield {"side": side, "label": "fault:" + oname, "victim": victim, "sib": sib, "vpos": 0 if vfirst else nsib,
                       "vcuts": [cut], "faults": {"round": 0, "recv": recv, "send": send, "order": order}}


def offenders(side):
  """name -> corrupted item, covering the ways a receiver gets rid of a connection or survives a message."""
  T = R
  if side == "ctl":
    short = {"m": _spec(T.ERROR, 8), "ops": [{"op": "len", "v": 10}]}            # unpacker raises
    body = {"m": _spec(T.FEATURES_REPLY, 1), "ops": [{"op": "len", "v": 40}]}    # fixed part ok, port list cut
  else:
    short = {"m": _spec(T.FLOW_MOD, 1), "ops": [{"op": "len", "v": 16}]}
    body = {"m": _spec(T.PACKET_OUT, 12), "ops": [{"op": "u16", "off": 14, "v": 0xfff0}]}   # actions_len beyond the message
  return [
    ("bad-version", {"m": _spec(T.ECHO_REQUEST, 4), "ops": [{"op": "u8", "off": 0, "v": 4}]}),
    ("length-0", {"m": _spec(T.HELLO), "ops": [{"op": "len", "v": 0}]}),
    ("length-5", {"m": _spec(T.ECHO_REQUEST, 4), "ops": [{"op": "len", "v": 5}]}),
    ("unknown-type", {"m": _spec(T.ECHO_REQUEST, 4), "ops": [{"op": "u8", "off": 1, "v": 99}]}),
    ("short-for-type", short),
    ("body", body),
  ]


def enum_two_victims(tier):
  """Two misbehaving connections: every ordered pair of offender kinds x every accept order of
  (victim, second victim, sibling) x second victim's bytes in the same wake-up or the next."""
  idx = 0
  for side in ("ctl", "sw"):
    offs = offenders(side)
    for na, a in offs:
      for nb, b in offs:
        for vpos, wpos in ((0, 0), (0, 1), (0, 2), (1, 0), (1, 2), (1, 1)):
          for wdelay in (0, 1):
            for shape in (0, 1):
              idx += 1
              x, y = {"m": _valid(side, idx)}, {"m": _valid(side, idx + 3)}
              v1 = [dict(a), x] if shape == 0 else [y, dict(a), x]
              v2 = [dict(b), y] if shape == 0 else [x, dict(b), y]
              sib = [[_valid(side, idx + 1), _valid(side, idx + 4), _valid(side, idx + 6)]]
              c = {"side": side, "label": "two-victims", "victim": v1, "victim2": v2, "sib": sib,
                   "vpos": vpos, "wpos": wpos, "wdelay": wdelay}
              if shape == 1 and idx % 2:
                # the first victim's offending message arrives in its second chunk, i.e. in the round of wdelay=1
                c["vcuts"] = [len(victim_stream(v1[:1])[0])]
              yield c


def _nx_spec(sub, n=0, f=1, xid=None):
  d = {"t": R.VENDOR, "nx": sub, "xid": xid if xid is not None else 0x400 + sub}
  if n:
    d["n"] = n
  if f:
    d["f"] = f
  return d


def nx_targets(tier):
  """Nicira vendor messages a switch may send to a controller that has the extension loaded (and some it should not send)."""
  N = NX
  rep = [_nx_spec(N.NXT_ROLE_REPLY, 0, 1), _nx_spec(N.NXT_PACKET_IN, 5, 1), _nx_spec(N.NXT_FLOW_REMOVED, 2, 2),
         _nx_spec(N.NXT_ROLE_REQUEST, 0, 2), _nx_spec(99, 6, 3)]
  more = [_nx_spec(N.NXT_PACKET_IN, 0, 4), _nx_spec(N.NXT_PACKET_IN, 14, 3), _nx_spec(N.NXT_FLOW_REMOVED, 0, 0),
          _nx_spec(N.NXT_SET_PACKET_IN_FORMAT, 0, 1), _nx_spec(N.NXT_FLOW_MOD_TABLE_ID, 0, 1), _nx_spec(N.NXT_ROLE_REPLY, 0, 2)]
  return rep if tier == "quick" else rep + more


def enum_nicira(tier):
  """The controller with the Nicira extension component loaded (its vendor unpacker installed in of_01's table; with and
  without the extension's handlers on the connections): every single-field corruption of every Nicira message kind --
  header length 0..len+8 and extremes, every octet of the vendor id and subtype, every subtype code 0..24 over the body of
  another, every embedded length (match_len, each nx_match entry's length octet) at 0..value+8 and extremes, every
  truncation point -- between / after valid traffic, with traffic behind it in the same read and alone in its read."""
  idx = [0]

  def sc(label, item, alone=False, eof=False, place=None):
    idx[0] += 1
    i = idx[0]
    c = _scenario("ctl", "nx:" + label, item, (i % 3) if place is None else place, (i // 3) % 2, i, eof=eof, alone=alone)
    c["nx"] = _NX_MODES[(i // 2) % 2]
    c["sib"][0].append(_nx_spec(NX.NXT_ROLE_REPLY, 0, i % 3, xid=0x31))
    if len(c["sib"]) > 1:
      c["sib"][1].insert(1, _nx_spec(NX.NXT_PACKET_IN, 3 + i % 4, i % 5, xid=0x32))
    return c
  for spec in nx_targets(tier):
    built = _build(spec)
    ln = len(built.data)
    for mode in (0, 1):
      yield sc("well-formed", {"m": spec}, alone=bool(mode))
    for v in list(range(0, ln + 9)) + [0x7fff, 0xffff]:
      if v == ln:
        continue
      for alone in (False, True):
        yield sc("length", {"m": spec, "ops": [{"op": "len", "v": v}]}, alone=alone)
    for off in range(8, 16):
      for v in (0, 1, 0x20, 0x23, 10, 11, 14, 17, 0x80, 0xff):
        if v != built.data[off]:
          yield sc("vendor-id" if off < 12 else "subtype", {"m": spec, "ops": [{"op": "u8", "off": off, "v": v}]}, alone=bool(v % 2))
    for v in range(0, 25):
      if v != built.data[15]:
        yield sc("subtype", {"m": spec, "ops": [{"op": "u8", "off": 15, "v": v}]}, alone=not (v % 2))
    for fl in built.fields:
      if fl["size"] == 2:
        vals, op = list(range(0, fl["value"] + 9)) + [0x7fff, 0x8000, 0xffff], "u16"
      else:
        vals, op = list(range(0, fl["value"] + 9)) + [0x7f, 0x80, 0xff], "u8"
      off = fl["off"]
      for v in vals:
        if v == fl["value"]:
          continue
        for alone in (False, True):
          yield sc("embedded", {"m": spec, "ops": [{"op": op, "off": off, "v": v}]}, alone=alone)
    for keep in range(1, ln):
      yield sc("trunc-eof", {"m": spec, "ops": [{"op": "trunc", "keep": keep}]}, eof=True, place=2)
      yield sc("trunc-more", {"m": spec, "ops": [{"op": "trunc", "keep": keep}]}, place=idx[0] % 2)
      yield sc("trunc-more", {"m": spec, "ops": [{"op": "trunc", "keep": keep}]}, place=idx[0] % 2, alone=True)


def enum_urgent(tier):
  """Exceptional conditions: the victim's peer flags TCP urgent data, so select() reports the victim's socket in its
  exceptional set -- in the wake-up in which its in-band bytes (well-formed, truncated or malformed) or its FIN are
  readable too, or on its own afterwards; victim accepted first / in the middle / last; in its first or second round."""
  idx = 0
  T = R
  for side in ("ctl", "sw"):
    big = _spec(T.PACKET_IN, 30) if side == "ctl" else _spec(T.FLOW_MOD, 2)
    kinds = [("well-formed", {"m": _valid(side, 2)}, False),
             ("truncated", {"m": big, "ops": [{"op": "trunc", "keep": 20}]}, True)] + [(n, it, False) for n, it in offenders(side)]
    for name, item, tail in kinds:
      for mode in _URG_WITH:
        for nsib, vpos in ((2, 0), (2, 1), (2, 2), (1, 0), (1, 1)):
          for rnd in (0, 1):
            idx += 1
            a, b = {"m": _valid(side, idx)}, {"m": _valid(side, idx + 3)}
            victim = [a, b, dict(item)] if tail else [a, dict(item), b]
            sib = [[_valid(side, idx + 1 + 2 * j), _valid(side, idx + 4 + j), _valid(side, idx + 6 + j)] for j in range(nsib)]
            yield {"side": side, "label": "urgent:" + name, "victim": victim, "sib": sib, "vpos": vpos,
                   "vcuts": [len(victim_stream([a])[0])], "urg": {"round": rnd, "with": mode}}


# --------------------------------------------------------------------------- Hypothesis

@st.composite
def _op(draw, ln):
  kind = draw(st.sampled_from(["len", "len", "u8", "u8", "u16", "xor", "trunc", "del", "ins", "hdr"]))
  if kind == "len":
    return {"op": "len", "v": draw(st.one_of(st.integers(0, 16), st.integers(max(0, ln - 10), ln + 10), st.integers(0, 0xffff)))}
  if kind == "hdr":
    return {"op": "u8", "off": draw(st.integers(0, 7)), "v": draw(st.integers(0, 255))}
  if kind in ("u8", "xor"):
    return {"op": kind, "off": draw(st.integers(0, max(0, ln - 1))), "v": draw(st.one_of(st.sampled_from([0, 1, 0x7f, 0x80, 0xff]), st.integers(0, 255)))}
  if kind == "u16":
    return {"op": "u16", "off": draw(st.integers(0, max(0, ln - 2))), "v": draw(st.one_of(st.integers(0, 24), st.sampled_from([0x7fff, 0x8000, 0xffff]), st.integers(0, 0xffff)))}
  if kind == "trunc":
    return {"op": "trunc", "keep": draw(st.integers(0, max(0, ln - 1)))}
  if kind == "del":
    return {"op": "del", "off": draw(st.integers(0, max(0, ln - 1))), "n": draw(st.integers(1, 8))}
  return {"op": "ins", "off": draw(st.integers(0, ln)), "data": draw(st.binary(min_size=1, max_size=12))}


@st.composite
def _raw(draw, side):
  """Random bytes with a header that is often plausible."""
  types = R.TO_CONTROLLER if side == "ctl" else R.TO_SWITCH
  body = draw(st.binary(min_size=0, max_size=80))
  ver = draw(st.sampled_from([1, 1, 1, 1, 0, 2, 4, 0xff]))
  t = draw(st.one_of(st.sampled_from(types), st.integers(0, 255)))
  ln = draw(st.one_of(st.just(8 + len(body)), st.integers(0, 8 + len(body) + 8), st.integers(0, 0xffff)))
  if draw(st.integers(0, 4)) == 0:
    return draw(st.binary(min_size=1, max_size=64))
  return struct.pack("!BBHL", ver, t, ln, draw(st.integers(0, 0xffffffff))) + body


@st.composite
def case_strategy(draw, tier):
  side = draw(st.sampled_from(["ctl", "sw"]))
  nv = draw(st.integers(1, 5))
  nbad = draw(st.integers(1, 2))
  bad_at = set(draw(st.lists(st.integers(0, nv - 1), min_size=1, max_size=nbad)))
  victim = []
  any_types = draw(st.integers(0, 4)) == 0
  # receiver configuration: a controller with the Nicira extension loaded sees Nicira vendor messages among the traffic
  nxmode = draw(st.sampled_from([None, None, None, "unpackers", "handlers"])) if side == "ctl" else None
  nxs = st.builds(lambda sub, n, f, xid: _nx_spec(sub, n, f, xid),
                  st.one_of(st.sampled_from(NX.TO_CONTROLLER * 2 + NX.TO_SWITCH), st.integers(0, 30)),
                  st.integers(0, 14), st.integers(0, 40), st.integers(0, 0xffffffff))
  for i in range(nv):
    if i in bad_at:
      if draw(st.integers(0, 3)) == 0:
        victim.append({"raw": draw(_raw(side))})
        continue
      other = "sw" if side == "ctl" else "ctl"
      if nxmode and draw(st.integers(0, 2)) > 0:
        spec = draw(nxs)
      else:
        spec = draw(C2.spec_strategy(other if any_types and draw(st.booleans()) else side, small=True))
      spec.pop("ver", None)
      ln = len(_build(spec).data)
      ops = draw(st.lists(_op(ln), min_size=1, max_size=3))
      victim.append({"m": spec, "ops": ops})
    elif nxmode and draw(st.integers(0, 2)) == 0:
      victim.append({"m": draw(nxs)})
    else:
      victim.append({"m": draw(C2.spec_strategy(side, small=True))})
      victim[-1]["m"].pop("ver", None)
  nsib = draw(st.integers(1, 2))
  sib = []
  for j in range(nsib):
    ms = [draw(C2.spec_strategy(side, small=True)) for _ in range(draw(st.integers(1, 3)))]
    for m in ms:
      m.pop("ver", None)
    sib.append(ms)
  case = {"side": side, "label": "mutation", "victim": victim, "sib": sib, "vpos": draw(st.integers(0, nsib))}
  if nxmode:
    case["nx"] = nxmode
    if draw(st.booleans()):
      sib[0].append(draw(nxs))
  if draw(st.integers(0, 3)) == 0:
    name, item = draw(st.sampled_from(offenders(side)))
    v2 = [dict(item)]
    if draw(st.booleans()):
      v2.insert(0, {"m": draw(C2.spec_strategy(side, small=True))})
      v2[0]["m"].pop("ver", None)
    if draw(st.booleans()):
      v2.append({"m": draw(C2.spec_strategy(side, small=True))})
      v2[-1]["m"].pop("ver", None)
    if draw(st.integers(0, 2)) == 0:
      ln = len(_build(item["m"]).data)
      v2[v2.index(item) if item in v2 else 0] = {"m": item["m"], "ops": draw(st.lists(_op(ln), min_size=1, max_size=2))}
    case["victim2"] = v2
    case["wpos"] = draw(st.integers(0, nsib + 1))
    case["wdelay"] = draw(st.integers(0, 2))
  how = draw(st.integers(0, 3))
  if how == 0:
    # each corrupted item is the last thing in the buffer when it is read
    cuts, pos = set(), 0
    for i, it in enumerate(victim):
      l = len(victim_stream([it])[0])
      if i in bad_at:
        cuts.update((pos, pos + l))
      pos += l
    case["vcuts"] = sorted(c for c in cuts if 0 < c < pos)
  elif how == 1:
    total = len(victim_stream(victim)[0])
    if total > 1:
      case["vcuts"] = sorted(set(draw(st.lists(st.integers(1, total - 1), min_size=0, max_size=4))))
  if draw(st.integers(0, 3)) == 0:
    case["eof"] = True
  what = draw(st.integers(0, 7))
  if what < 2:
    case["faults"] = {"round": draw(st.integers(0, 3)), "recv": draw(st.sampled_from(_RECV_FAULTS)),
                      "send": draw(st.sampled_from(_SEND_FAULTS)), "order": draw(st.sampled_from(_ORDERS))}
  elif what == 2:
    case["urg"] = {"round": draw(st.integers(0, 3)), "with": draw(st.sampled_from(_URG_WITH))}
  return case


def plan(tier):
  from ..fuzz import c10_ofstream
  n = 3000 if tier == "quick" else 160000
  return [
    Enum("header", lambda: enum_header(tier), shards=16),
    Enum("embedded", lambda: enum_embedded(tier), shards=16),
    Enum("truncation", lambda: enum_trunc(tier), shards=16),
    Enum("tails", lambda: enum_tails(tier), shards=16),
    Enum("oversize", lambda: enum_oversize(tier), shards=16),
    Enum("handshake", lambda: enum_handshake(tier), shards=8),
    Enum("faults", lambda: enum_faults(tier), shards=16),
    Enum("two-victims", lambda: enum_two_victims(tier), shards=16),
    Enum("sustained-load", lambda: enum_load(tier), shards=4 if tier == "quick" else 16),
    Enum("nicira", lambda: enum_nicira(tier), shards=16),
    Enum("urgent", lambda: enum_urgent(tier), shards=8),
    Hyp("mutation", lambda: case_strategy(tier), examples=n, shards=16),
    # coverage-guided (atheris/libFuzzer) campaigns on both loops; skipped with a note if atheris is missing
    Custom("atheris", c10_ofstream.driver(2000 if tier == "quick" else 130000), shards=2 if tier == "quick" else 16),
  ]
